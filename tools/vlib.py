"""Shared machinery of /verif/check: preparing the build products from /repo's
working tree, running the Coq build, running case streams through the C
harness and the extracted oracle, verdicts, evidence and replay files."""
import os, sys, json, re, time, glob, subprocess, hashlib, fcntl, shutil, random, signal

VERIF = os.path.dirname(os.path.dirname(os.path.abspath(__file__)))
TOOLS = os.path.join(VERIF, 'tools')
COQ = os.path.join(VERIF, 'coq')
WORK = os.path.join(VERIF, '_work')
REPLAYS = os.path.join(VERIF, 'replays')
EVID = os.path.join(VERIF, 'evidence')
sys.path.insert(0, TOOLS)
from cast import REPO, INC, write_if_changed
import gen_byteorder, gen_tables, emit_coq, gen_harness, gen_align, gen_headers

NPROC = 16
HARNESS_CFLAGS = ['-std=gnu99', '-O1', '-g', '-fsanitize=address,undefined', '-fno-sanitize-recover=all',
                  '-fno-omit-frame-pointer', '-w',
                  '-fno-sanitize=alignment']     # alignment assumptions are C15's subject and get their own instrumented build

def log(*a):
    print(*a, file=sys.stderr, flush=True)

def sh(cmd, timeout=None, cwd=None, env=None, inp=None):
    return subprocess.run(cmd, capture_output=True, timeout=timeout, cwd=cwd, env=env, input=inp)

# ---------------------------------------------------------------------------
def tree_hash():
    h = hashlib.sha256()
    roots = [os.path.join(REPO, d) for d in ('src', 'include', 'examples', 'unit')]
    files = [os.path.join(REPO, 'CMakeLists.txt')]
    for r in roots:
        for dp, dn, fn in os.walk(r):
            for f in fn:
                files.append(os.path.join(dp, f))
    for dp, dn, fn in os.walk(TOOLS):
        dn[:] = [d for d in dn if d != '__pycache__']
        for f in fn:
            if not f.endswith('.pyc'):
                files.append(os.path.join(dp, f))
    files += glob.glob(os.path.join(COQ, '*.v')) + [os.path.join(COQ, '_CoqProject')]
    for p in sorted(files):
        h.update(p.encode()); h.update(b'\0')
        try:
            with open(p, 'rb') as f:
                h.update(f.read())
        except OSError:
            h.update(b'<missing>')
        h.update(b'\0')
    return h.hexdigest()

class Lock:
    def __enter__(self):
        os.makedirs(WORK, exist_ok=True)
        self.f = open(os.path.join(WORK, 'lock'), 'w')
        fcntl.flock(self.f, fcntl.LOCK_EX)
        return self
    def __exit__(self, *a):
        fcntl.flock(self.f, fcntl.LOCK_UN)
        self.f.close()

# ---------------------------------------------------------------------------
def coq_makefile():
    mk = os.path.join(COQ, 'Makefile')
    cp = os.path.join(COQ, '_CoqProject')
    if not os.path.exists(mk) or os.path.getmtime(mk) < os.path.getmtime(cp):
        r = sh(['coq_makefile', '-f', '_CoqProject', '-o', 'Makefile'], cwd=COQ, timeout=120)
        if r.returncode != 0:
            raise RuntimeError('coq_makefile failed: ' + r.stderr.decode())

def coq_build(timeout=1500):
    """make -k: build everything that can be built; returns (returncode, log text)"""
    coq_makefile()
    t0 = time.time()
    try:
        r = sh(['make', '-k', '-j%d' % NPROC], cwd=COQ, timeout=timeout)
        out = r.stdout.decode(errors='replace') + r.stderr.decode(errors='replace')
        rc = r.returncode
    except subprocess.TimeoutExpired as e:
        out = (e.stdout or b'').decode(errors='replace') + '\nTIMEOUT after %ds\n' % timeout
        rc = 124
    with open(os.path.join(WORK, 'coq_build.log'), 'w') as f:
        f.write(out)
    return rc, out, time.time() - t0

def coq_deps():
    """file -> direct .vo dependencies, from the .Makefile.d written by coq_makefile"""
    deps = {}
    p = os.path.join(COQ, '.Makefile.d')
    if not os.path.exists(p):
        return deps
    for line in open(p):
        if ':' not in line:
            continue
        l, r = line.split(':', 1)
        tgt = [t for t in l.split() if t.endswith('.vo')]
        if not tgt:
            continue
        deps[tgt[0]] = [d for d in r.split() if d.endswith('.vo') and not d.startswith('/')]
    return deps

def vo_fresh(vo, deps, memo=None):
    """compiled, and newer than its source and than every (fresh) dependency"""
    memo = {} if memo is None else memo
    if vo in memo:
        return memo[vo]
    memo[vo] = False
    p = os.path.join(COQ, vo)
    src = p[:-1]
    if not os.path.exists(p) or not os.path.exists(src):
        return False
    m = os.path.getmtime(p)
    if m < os.path.getmtime(src):
        return False
    for d in deps.get(vo, []):
        if not vo_fresh(d, deps, memo) or os.path.getmtime(os.path.join(COQ, d)) > m + 1e-6:
            return False
    memo[vo] = True
    return True

THEOREM_RE = re.compile(r'^\s*(Theorem|Example)\s+([A-Za-z0-9_\']+)', re.M)
def theorems_of(vfile):
    txt = open(os.path.join(COQ, vfile)).read()
    return [(m.group(2), m.group(1), txt.count('\n', 0, m.start()) + 1) for m in THEOREM_RE.finditer(txt)]

def coq_error_for(vfile, buildlog):
    """first error reported for the file in the build log: (line, message)"""
    m = re.search(r'File "\./%s", line (\d+), characters [^\n]*\n((?:.*\n){1,12})' % re.escape(vfile), buildlog)
    if m:
        return int(m.group(1)), m.group(2).strip()[:1500]
    return None

BANNED = re.compile(r'\b(Admitted|admit|Axiom|Parameter|Conjecture|Unset\s+Guard|bypass_check|Admit\s+Obligations)\b')
def banned_tokens():
    bad = []
    for v in glob.glob(os.path.join(COQ, '*.v')) + glob.glob(os.path.join(COQ, 'Generated', '*.v')):
        txt = re.sub(r'\(\*.*?\*\)', '', open(v).read(), flags=re.S)
        for m in BANNED.finditer(txt):
            bad.append('%s: %s' % (os.path.basename(v), m.group(0)))
    return bad

def print_assumptions(prop_file, names):
    """Print Assumptions for each theorem, in a scratch file compiled against the built library"""
    mod = prop_file[:-2]
    src = os.path.join(WORK, 'assume_%s.v' % mod)
    with open(src, 'w') as f:
        f.write('From O1722 Require Import %s.\n' % mod)
        for n in names:
            f.write('Print Assumptions %s.\n' % n)
    try:
        r = sh(['coqc', '-Q', COQ, 'O1722', src], timeout=300, cwd=WORK)
    except subprocess.TimeoutExpired:
        return {'error': 'timeout'}
    out = r.stdout.decode(errors='replace')
    blocks = re.split(r'(?=^(?:Closed under the global context|Axioms:))', out, flags=re.M)
    blocks = [b.strip() for b in blocks if b.strip()]
    res = {}
    for n, b in zip(names, blocks):
        res[n] = b
    if r.returncode != 0:
        res['error'] = r.stderr.decode(errors='replace')[:500]
    return res

# ---------------------------------------------------------------------------
def build_harness(model, variant='', extra_flags=(), cc='gcc', base_flags=None):
    """variant '' : the correspondence harness; 'fbe': the same sources with the big-endian helper branch forced"""
    hb = os.path.join(WORK, 'harness' + ('_' + variant if variant else ''))
    os.makedirs(hb, exist_ok=True)
    gen_harness.generate(model, hb)
    srcs = gen_tables.lib_sources() + sorted(glob.glob(os.path.join(hb, 'disp_*.c'))) + \
        sorted(glob.glob(os.path.join(TOOLS, 'harness', '*.c')))
    objs = []
    procs = []
    errs = []
    def compile_one(s):
        o = os.path.join(hb, re.sub(r'[^A-Za-z0-9]', '_', os.path.relpath(s, '/')) + '.o')
        r = sh([cc] + (HARNESS_CFLAGS if base_flags is None else list(base_flags)) + list(extra_flags) + ['-DCOVESA_OPEN1722_VERIF', '-I' + INC, '-I' + os.path.join(TOOLS, 'harness'),
                '-I' + hb, '-c', s, '-o', o], timeout=300)
        if r.returncode != 0:
            errs.append('%s:\n%s' % (s, r.stderr.decode(errors='replace')[:3000]))
        return o
    from concurrent.futures import ThreadPoolExecutor
    with ThreadPoolExecutor(max_workers=NPROC) as ex:
        objs = list(ex.map(compile_one, srcs))
    if errs:
        raise RuntimeError('harness does not compile:\n' + '\n'.join(errs))
    exe = os.path.join(hb, 'hx')
    link = ['-fsanitize=address,undefined'] if base_flags is None else [f for f in base_flags if f.startswith('-fsanitize') or f.startswith('-fno-sanitize')]
    r = sh([cc] + link + ['-o', exe] + objs, timeout=300)
    if r.returncode != 0:
        raise RuntimeError('harness does not link:\n' + r.stderr.decode(errors='replace')[:3000])
    return exe

def build_hbe():
    hb = os.path.join(WORK, 'harness')
    os.makedirs(hb, exist_ok=True)
    exe = os.path.join(hb, 'hbe')
    r = sh(['gcc', '-std=gnu99', '-O1', '-w', '-D__BYTE_ORDER__=__ORDER_BIG_ENDIAN__', '-I' + INC,
            os.path.join(TOOLS, 'harness_be', 'hbe.c'), '-o', exe], timeout=120)
    if r.returncode != 0:
        raise RuntimeError('forced-big-endian helper harness does not compile:\n' + r.stderr.decode(errors='replace')[:2000])
    return exe

def build_oracle():
    ob = os.path.join(WORK, 'oracle')
    os.makedirs(ob, exist_ok=True)
    r = sh(['coqc', '-Q', COQ, 'O1722', os.path.join(COQ, 'Extract.v')], cwd=ob, timeout=600)
    if r.returncode != 0:
        raise RuntimeError('extraction failed:\n' + (r.stdout + r.stderr).decode(errors='replace')[:3000])
    for f in glob.glob(os.path.join(TOOLS, 'oracle', '*.ml')):
        shutil.copy(f, ob)
    r = sh(['ocamlfind', 'ocamlopt', '-w', '-a', '-O2' if False else '-inline', '50', '-o', 'oracle', 'oracle_core.mli',
            'oracle_core.ml', 'driver_ext.ml', 'driver.ml'], cwd=ob, timeout=600)
    if r.returncode != 0:
        raise RuntimeError('oracle does not compile:\n' + r.stderr.decode(errors='replace')[:3000])
    return os.path.join(ob, 'oracle')

def prepare(force=False):
    """regenerate the model from /repo's working tree, rebuild Coq, oracle and harness; cached by content hash"""
    with Lock():
        os.makedirs(WORK, exist_ok=True)
        h = tree_hash()
        stamp = os.path.join(WORK, 'stamp.json')
        ctx = None
        if not force and os.path.exists(stamp):
            try:
                ctx = json.load(open(stamp))
                if ctx.get('hash') != h or not os.path.exists(ctx.get('hx', '')) or not os.path.exists(ctx.get('oracle', '')):
                    ctx = None
            except Exception:
                ctx = None
        if ctx is None:
            t0 = time.time()
            ctx = {'hash': h, 'errors': []}
            gen = os.path.join(COQ, 'Generated')
            os.makedirs(gen, exist_ok=True)
            # --- translators ---
            try:
                gen_byteorder.generate(gen)
            except Exception as e:
                ctx['errors'].append('translator T2 (Byteorder.h): %s' % e)
            model = None
            try:
                model = gen_tables.generate(os.path.join(WORK, 'probes'))
                json.dump(model, open(os.path.join(WORK, 'model.json'), 'w'))
                emit_coq.emit(model, gen)
            except Exception as e:
                ctx['errors'].append('translator T1 (library sources): %s' % e)
            try:
                ctx['align'] = gen_align.generate(gen)
                json.dump(ctx['align'], open(os.path.join(WORK, 'align.json'), 'w'))
            except Exception as e:
                ctx['errors'].append('translator T3 (cast / static-storage inventory): %s' % e)
            try:
                ctx['headers'] = gen_headers.generate(gen)
                json.dump(ctx['headers'], open(os.path.join(WORK, 'headers.json'), 'w'))
            except Exception as e:
                ctx['errors'].append('translator T4 (public headers): %s' % e)
            ctx['t_translate'] = round(time.time() - t0, 1)
            # --- Coq ---
            rc, out, dt = coq_build()
            ctx['coq_rc'] = rc
            ctx['t_coq'] = round(dt, 1)
            # --- oracle & harness ---
            try:
                ctx['oracle'] = build_oracle()
            except Exception as e:
                ctx['errors'].append(str(e)); ctx['oracle'] = ''
            try:
                ctx['hx'] = build_harness(model) if model else ''
            except Exception as e:
                ctx['errors'].append(str(e)); ctx['hx'] = ''
            try:
                ctx['hx_fbe'] = build_harness(model, 'fbe', ['-D__BYTE_ORDER__=__ORDER_BIG_ENDIAN__']) if model else ''
            except Exception as e:
                ctx['errors'].append(str(e)); ctx['hx_fbe'] = ''
            try:
                ctx['hbe'] = build_hbe()
            except Exception as e:
                ctx['errors'].append(str(e)); ctx['hbe'] = ''
            ctx['t_total'] = round(time.time() - t0, 1)
            json.dump(ctx, open(stamp, 'w'))
        ctx['model'] = json.load(open(os.path.join(WORK, 'model.json'))) if os.path.exists(os.path.join(WORK, 'model.json')) else None
        ctx['align'] = json.load(open(os.path.join(WORK, 'align.json'))) if os.path.exists(os.path.join(WORK, 'align.json')) else None
        ctx['headers'] = json.load(open(os.path.join(WORK, 'headers.json'))) if os.path.exists(os.path.join(WORK, 'headers.json')) else None
        ctx['buildlog'] = open(os.path.join(WORK, 'coq_build.log')).read() if os.path.exists(os.path.join(WORK, 'coq_build.log')) else ''
        ctx['deps'] = coq_deps()
        return ctx

# ---------------------------------------------------------------------------
# proof obligations of one property
def proof_status(ctx, prop_files):
    """prop_files: list of Properties_*.v; returns dict with obligations/discharged/details"""
    memo = {}
    obligations = []
    broken = []
    for pf in prop_files:
        vo = pf + 'o'
        ths = [t for t in theorems_of(pf)]
        ok = vo_fresh(vo, ctx['deps'], memo)
        err = None
        if not ok:
            err = coq_error_for(pf, ctx['buildlog'])
            if err is None:
                # a dependency failed: find it
                for d in all_deps(vo, ctx['deps']):
                    e = coq_error_for(d[:-1], ctx['buildlog'])
                    if e:
                        err = (0, 'dependency %s does not compile: line %d: %s' % (d[:-1], e[0], e[1]))
                        break
            if err is None:
                err = (0, 'not built (see _work/coq_build.log)')
        for name, kind, line in ths:
            # a theorem is discharged when its file compiled; if the file broke, those above the error line still checked
            good = ok or (err and err[0] > 0 and theorem_end_line(pf, name) < err[0])
            obligations.append({'theorem': name, 'file': pf, 'kind': kind, 'discharged': bool(good)})
        if not ok:
            broken.append({'file': pf, 'line': err[0], 'error': err[1]})
    # the development must not declare axioms or leave proofs open (comments are ignored)
    bad = banned_tokens()
    if bad:
        broken.append({'file': 'coq/*.v', 'line': 0, 'error': 'forbidden declaration(s) in the development: %s' % ', '.join(bad[:10])})
    assumptions = {}
    for pf in prop_files:
        if vo_fresh(pf + 'o', ctx['deps'], memo):
            names = [t[0] for t in theorems_of(pf) if t[1] == 'Theorem']
            assumptions.update(print_assumptions(pf, names))
    return {'obligations': obligations, 'broken': broken, 'assumptions': assumptions}

def all_deps(vo, deps, seen=None):
    seen = set() if seen is None else seen
    out = []
    for d in deps.get(vo, []):
        if d not in seen:
            seen.add(d)
            out.append(d)
            out += all_deps(d, deps, seen)
    return out

def theorem_end_line(vfile, name):
    txt = open(os.path.join(COQ, vfile)).read().split('\n')
    start = None
    for i, l in enumerate(txt):
        if re.match(r'\s*(Theorem|Example)\s+%s\b' % re.escape(name), l):
            start = i
        if start is not None and re.search(r'\b(Qed|Defined)\.', l) and i >= start:
            return i + 1
    return 10**9

# ---------------------------------------------------------------------------
# running cases
SAN_RE = re.compile(r'(ERROR: AddressSanitizer: [a-z\-]+|runtime error: [^\n]*|ERROR: LeakSanitizer[^\n]*|AddressSanitizer:DEADLYSIGNAL|SEGV[^\n]*)')
LOC_RE = re.compile(r'(/repo/[A-Za-z0-9_/\.\-]+:\d+)')

MAX_CRASHES = 80     # after that many aborts the rest of a stream is not run (the verdict is settled; every abort costs a process start)

def run_harness(ctx, lines, env_extra=None, timeout=600, exe=None):
    """feed command lines to the C harness; returns one output string per line.
    A sanitizer abort or crash yields 'CRASH <kind> <site>' for the offending line and the run resumes after it."""
    out = []
    i = 0
    env = dict(os.environ)
    env['ASAN_OPTIONS'] = 'detect_leaks=0:abort_on_error=0:allocator_may_return_null=1'
    env['UBSAN_OPTIONS'] = 'print_stacktrace=1'
    if env_extra:
        env.update(env_extra)
    crashes = 0
    crashed_lines = []      # indices of aborted commands not yet classified
    while i < len(lines):
        if crashes >= MAX_CRASHES and crashed_lines:
            # aborts the model predicts (commands that leave their buffer by design: verdict OOB) do not count towards the cap
            try:
                verdicts = run_oracle(ctx, [lines[j] for j in crashed_lines])
                crashes -= sum(1 for v in verdicts if v.startswith('OOB'))
            except Exception:
                pass
            crashed_lines = []
        if crashes >= MAX_CRASHES:
            out += ['SKIPPED (more than %d unexpected aborts in this stream)' % MAX_CRASHES] * (len(lines) - i)
            break
        chunk = lines[i:i + 150]        # blocks: after a crash only the rest of the block is fed again
        try:
            r = sh([exe or ctx['hx']], inp=('\n'.join(chunk) + '\n').encode(), env=env, timeout=timeout)
            raw = r.stdout.decode(errors='replace')
            err = r.stderr.decode(errors='replace')
            rc = r.returncode
        except subprocess.TimeoutExpired as e:
            raw = (e.stdout or b'').decode(errors='replace')
            err = 'TIMEOUT'; rc = -9
        # complete lines only: whatever follows the last newline belongs to the command that crashed
        got = raw.split('\n')[:-1]
        n_ok = min(len(got), len(chunk))
        out += got[:n_ok]
        i += n_ok
        if i < len(lines) and (rc != 0 or n_ok < len(chunk)):
            m = SAN_RE.search(err)
            kind = m.group(1) if m else ('TIMEOUT' if err == 'TIMEOUT' else 'exit %s' % rc)
            kind = re.sub(r'\s+', '_', kind.replace('ERROR: ', ''))
            locs = LOC_RE.findall(err)
            out.append('CRASH %s %s' % (kind, locs[0] if locs else '?'))
            crashed_lines.append(i)
            i += 1
            crashes += 1
    return out

def run_oracle(ctx, lines, timeout=900, fbe=False, parallel=False):
    """one result line per command line. parallel=True: the commands are independent of each other (no session state in
    the driver), so large batches are split over several oracle processes"""
    if parallel and len(lines) > 4000:
        from concurrent.futures import ThreadPoolExecutor
        k = min(NPROC, 12)
        step = (len(lines) + k - 1) // k
        chunks = [lines[i:i + step] for i in range(0, len(lines), step)]
        with ThreadPoolExecutor(max_workers=k) as ex:
            parts = list(ex.map(lambda ch: run_oracle(ctx, ch, timeout=timeout, fbe=fbe), chunks))
        return [x for p_ in parts for x in p_]
    env = dict(os.environ)
    if fbe:
        env['ORACLE_HELPERS'] = 'BE'
    r = sh([ctx['oracle']], inp=('\n'.join(lines) + '\n').encode(), timeout=timeout, env=env)
    got = r.stdout.decode(errors='replace').split('\n')
    if got and got[-1] == '':
        got.pop()
    if len(got) != len(lines):
        raise RuntimeError('oracle returned %d lines for %d commands (rc=%s, stderr=%s)' % (len(got), len(lines), r.returncode, r.stderr.decode()[:500]))
    return got

# ---------------------------------------------------------------------------
def hexbuf(b):
    return bytes(b).hex() if len(b) else '.'

class Rng:
    def __init__(self, seed):
        self.r = random.Random(seed)
    def bytes(self, n):
        return bytes(self.r.getrandbits(8) for _ in range(n))
    def bits(self, n):
        return self.r.getrandbits(n) if n > 0 else 0
    def choice(self, l):
        return self.r.choice(l)
    def randint(self, a, b):
        return self.r.randint(a, b)
    def sample(self, l, k):
        return self.r.sample(l, min(k, len(l)))
    def shuffle(self, l):
        self.r.shuffle(l)

# ---------------------------------------------------------------------------
def load_known():
    p = os.path.join(VERIF, 'known_findings.json')
    if not os.path.exists(p):
        return []
    return json.load(open(p))

def finding_key_matches(entry, failure):
    """an entry of known_findings.json suppresses a failure only when every key it names matches"""
    if entry.get('status') != 'known' or entry.get('property') != failure.get('property'):
        return False
    k = entry.get('key', {})
    fk = failure.get('key', {})
    return all(fk.get(a) == b for a, b in k.items()) and len(k) > 0

def write_replay(prop, failures, extra=None):
    os.makedirs(REPLAYS, exist_ok=True)
    body = {'property': prop, 'failures': failures[:50], 'total_failures': len(failures)}
    if extra:
        body.update(extra)
    h = hashlib.sha256(json.dumps(body, sort_keys=True).encode()).hexdigest()[:12]
    path = os.path.join(REPLAYS, '%s-%s.json' % (prop, h))
    with open(path, 'w') as f:
        json.dump(body, f, indent=1)
    return path

def write_evidence(prop, tier, seed, coverage, wall, violations, assumptions):
    os.makedirs(EVID, exist_ok=True)
    ev = {'property_id': prop, 'tier': tier, 'seed': seed, 'level': 'proof', 'coverage': coverage,
          'assumptions': assumptions, 'wall_s': round(wall, 2), 'violations': violations}
    with open(os.path.join(EVID, '%s.json' % prop), 'w') as f:
        json.dump(ev, f, indent=1)

def finish(prop, tier, seed, t0, proof, streams, failures, assumptions, trusted):
    """common verdict: proofs + correspondence + search -> exit code, VIOLATION / KNOWN-FINDING lines, evidence"""
    known = load_known()
    new_failures, known_hits = [], {}
    for f in failures:
        f['property'] = prop
        hit = None
        for e in known:
            if finding_key_matches(e, f):
                hit = e; break
        if hit:
            known_hits.setdefault(json.dumps(hit.get('key'), sort_keys=True), (hit, 0))
            h, c = known_hits[json.dumps(hit.get('key'), sort_keys=True)]
            known_hits[json.dumps(hit.get('key'), sort_keys=True)] = (h, c + 1)
        else:
            new_failures.append(f)
    obligations = proof['obligations']
    n_ob = len(obligations)
    n_dis = sum(1 for o in obligations if o['discharged'])
    broken = proof['broken']
    # a broken proof obligation that is fully explained by known findings does not count
    broken_unexplained = [b for b in broken if not b.get('explained_by_known')]
    rc = 0
    for key, (h, c) in known_hits.items():
        print('KNOWN-FINDING: property=%s %s (%d failing cases match %s)' % (prop, h.get('what', ''), c, key))
    if new_failures:
        path = write_replay(prop, new_failures, {'broken_proofs': broken})
        print('VIOLATION property=%s replay=%s' % (prop, path))
        rc = 1
    elif broken_unexplained:
        path = write_replay(prop, [], {'broken_proofs': broken_unexplained,
                                        'note': 'a proof obligation or the model/implementation correspondence no longer checks, '
                                                'and the search found no input on which the implementation violates the property'})
        print('VIOLATION property=%s replay=%s no-failing-input-found' % (prop, path))
        rc = 1
    cov = {'obligations': n_ob, 'discharged': n_dis,
           'checker_cmd': 'cd /verif/coq && coq_makefile -f _CoqProject -o Makefile && make -k -j16   (Coq 8.16.1; run by ./check via tools/vlib.py)',
           'trusted_base': trusted,
           'theorems': [{'name': o['theorem'], 'file': o['file'], 'discharged': o['discharged']} for o in obligations],
           'print_assumptions': proof.get('assumptions', {}),
           'broken_proofs': broken}
    cov.update(streams)
    write_evidence(prop, tier, seed, cov, time.time() - t0, len(new_failures) + (1 if (broken_unexplained and not new_failures) else 0), assumptions)
    return rc
