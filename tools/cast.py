"""Shared helpers for the translators: run clang, walk its JSON AST, C type widths."""
import json, os, subprocess, hashlib

REPO = os.environ.get('VERIF_REPO', '/repo')
INC = os.path.join(REPO, 'include')

def run_clang_ast(path, extra=(), std='c99'):
    cmd = ['clang', '-std=' + std, '-I' + INC, '-fsyntax-only', '-Wno-everything',
           '-Xclang', '-ast-dump=json'] + list(extra) + [path]
    r = subprocess.run(cmd, capture_output=True)
    if r.returncode != 0 and not r.stdout:
        raise RuntimeError('clang failed on %s: %s' % (path, r.stderr.decode()[:2000]))
    return json.loads(r.stdout)

def walk(n):
    yield n
    for c in n.get('inner', []) or []:
        if isinstance(c, dict):
            yield from walk(c)

def kids(n):
    return [c for c in (n.get('inner', []) or []) if isinstance(c, dict) and c.get('kind') not in
            ('FullComment', 'ParagraphComment', 'TextComment')]

INT_TYPES = {
    'unsigned char': (8, False), 'signed char': (8, True), 'char': (8, True),
    'unsigned short': (16, False), 'short': (16, True),
    'unsigned int': (32, False), 'int': (32, True),
    'unsigned long': (64, False), 'long': (64, True),
    'unsigned long long': (64, False), 'long long': (64, True),
    '_Bool': (1, False),
}

def strip_quals(t):
    for q in ('const ', 'volatile '):
        t = t.replace(q, '')
    return t.strip()

class TypeEnv:
    """typedef / enum knowledge of one translation unit"""
    def __init__(self, tu):
        self.typedefs = {}
        self.enum_names = set()
        for n in tu.get('inner', []):
            k = n.get('kind')
            if k == 'TypedefDecl':
                self.typedefs[n['name']] = n['type'].get('desugaredQualType', n['type']['qualType'])
            elif k == 'EnumDecl' and n.get('name'):
                self.enum_names.add('enum ' + n['name'])

    def width(self, ty):
        """(bits, signed) of an integer or enum type given a clang type dict or string; None otherwise"""
        if isinstance(ty, dict):
            cands = [ty.get('desugaredQualType'), ty.get('qualType')]
        else:
            cands = [ty]
        for c in cands:
            if not c:
                continue
            c = strip_quals(c)
            seen = 0
            while c in self.typedefs and seen < 10:
                c = strip_quals(self.typedefs[c]); seen += 1
            if c in INT_TYPES:
                return INT_TYPES[c]
            if c.startswith('enum ') or c in self.enum_names:
                return (32, False)      # gcc/clang: unsigned int for enums without negative enumerators
            if c.startswith('Avtp_') or c.startswith('Vss_'):
                # typedef of an anonymous enum: desugared name stays the typedef name
                if c in self.anon_enum_typedefs():
                    return (32, False)
        return None

    def anon_enum_typedefs(self):
        return getattr(self, '_anon', set())

def collect_anon_enums(tu, tenv):
    """typedef enum { ... } Name;  -> record Name as an enum type"""
    anon = set()
    for n in tu.get('inner', []):
        if n.get('kind') == 'TypedefDecl':
            for c in walk(n):
                if c.get('kind') == 'EnumType' or (c.get('kind') == 'ElaboratedType' and
                                                  'enum' in json.dumps(c.get('ownedTagDecl', {}))):
                    anon.add(n['name'])
            q = n['type'].get('qualType', '')
            if q.startswith('enum '):
                anon.add(n['name'])
    tenv._anon = anon
    return anon

def strip_expr(n):
    """drop parentheses and casts, return the core node"""
    while n.get('kind') in ('ImplicitCastExpr', 'ParenExpr', 'CStyleCastExpr', 'ConstantExpr'):
        n = kids(n)[0]
    return n

def cast_chain(n):
    """list of type dicts of the casts applied (outermost first) and the core node"""
    out = []
    while n.get('kind') in ('ImplicitCastExpr', 'ParenExpr', 'CStyleCastExpr', 'ConstantExpr'):
        if n['kind'] in ('ImplicitCastExpr', 'CStyleCastExpr') and n.get('castKind') not in ('LValueToRValue', 'NoOp', 'FunctionToPointerDecay', 'ArrayToPointerDecay'):
            out.append((n.get('castKind'), n['type']))
        n = kids(n)[0]
    return out, n

def file_of(n, cur=[None]):
    loc = n.get('loc', {})
    f = loc.get('file') or loc.get('spellingLoc', {}).get('file') or loc.get('expansionLoc', {}).get('file')
    return f

def coq_str(s):
    return '"' + s.replace('"', '""') + '"'

def sha_files(paths):
    h = hashlib.sha256()
    for p in sorted(paths):
        h.update(p.encode()); h.update(b'\0')
        with open(p, 'rb') as f:
            h.update(f.read())
        h.update(b'\0')
    return h.hexdigest()

def write_if_changed(path, text):
    try:
        with open(path) as f:
            if f.read() == text:
                return False
    except FileNotFoundError:
        pass
    os.makedirs(os.path.dirname(path), exist_ok=True)
    with open(path, 'w') as f:
        f.write(text)
    return True
