#!/usr/bin/env python3
"""T4: public headers -> Generated/Headers.v (C20): for every header under include/avtp its direct includes, the macros it
defines (name, identifiers of the body), the ordinary identifiers (typedef names, enumerators, functions, objects) and tags it
declares (clang AST of the header compiled alone), and the identifier tokens of its declarations."""
import os, sys, re, glob, json
sys.path.insert(0, os.path.dirname(os.path.abspath(__file__)))
from cast import *
from concurrent.futures import ThreadPoolExecutor

KEYWORDS = set('''auto break case char const continue default do double else enum extern float for goto if inline int long register restrict
return short signed sizeof static struct switch typedef union unsigned void volatile while _Bool _Static_assert __attribute__ __packed__ packed
uint8_t uint16_t uint32_t uint64_t int8_t int16_t int32_t int64_t size_t C defined ifdef ifndef endif pragma once include define undef elif error
__cplusplus __BYTE_ORDER__ __ORDER_LITTLE_ENDIAN__ __ORDER_BIG_ENDIAN__'''.split())
IDENT = re.compile(r'[A-Za-z_][A-Za-z_0-9]*')

def public_headers():
    return sorted(os.path.relpath(h, INC) for h in glob.glob(os.path.join(INC, 'avtp', '**', '*.h'), recursive=True))

def strip_comments(t):
    t = re.sub(r'/\*.*?\*/', ' ', t, flags=re.S)
    return re.sub(r'//[^\n]*', ' ', t)

def idents(t):
    t = re.sub(r'"[^"\n]*"', ' ', t)
    return [x for x in IDENT.findall(t) if x not in KEYWORDS and not re.fullmatch(r'0[xX][0-9a-fA-F]+[uUlL]*|[0-9]+[uUlL]*', x) and not x[0].isdigit()]

def analyse(h):
    path = os.path.join(INC, h)
    raw = open(path).read()
    txt = strip_comments(raw).replace('\\\n', ' ')
    includes, macros, decl_lines = [], [], []
    first_nondirective = None
    include_after_decl = False
    pack_depth, state_leak = 0, []
    for line in txt.split('\n'):
        s = line.strip()
        if s.startswith('#'):
            # compiler / preprocessor state that outlives the header: packing that is not restored, foreign #undef
            m = re.match(r'#\s*pragma\s+pack\s*\((.*)\)', s)
            if m:
                arg = m.group(1).strip()
                if arg.startswith('push'):
                    pack_depth += 1
                elif arg.startswith('pop'):
                    pack_depth -= 1
                    if pack_depth < 0:
                        state_leak.append('pack(pop) without push'); pack_depth = 0
                else:
                    state_leak.append('pack(%s) without push' % arg)
                continue
            m = re.match(r'#\s*pragma\s+(push_macro|pop_macro)', s)
            if m:
                state_leak.append(m.group(1))
                continue
            m = re.match(r'#\s*undef\s+([A-Za-z_]\w*)', s)
            if m:
                if m.group(1) not in [n for n, _ in macros]:
                    state_leak.append('undef of foreign macro %s' % m.group(1))
                continue
            m = re.match(r'#\s*include\s*"(avtp/[^"]+)"', s)
            if m:
                includes.append(m.group(1))
                if first_nondirective is not None:
                    include_after_decl = True
                continue
            m = re.match(r'#\s*define\s+([A-Za-z_]\w*)(\([^)]*\))?\s*(.*)$', s)
            if m:
                params = set(IDENT.findall(m.group(2) or ''))
                body = [x for x in idents(m.group(3)) if x not in params]
                macros.append((m.group(1), body))
                if first_nondirective is None and not m.group(1).endswith('_H'):
                    first_nondirective = s
            continue
        if s and not s.startswith('extern "C"') and s not in ('{', '}'):
            decl_lines.append(s)
            if first_nondirective is None:
                first_nondirective = s
    if pack_depth != 0:
        state_leak.append('pack(push) without pop')
    tokens = sorted(set(idents('\n'.join(decl_lines))))
    # declared names from the AST of the header alone
    tu = run_clang_ast(path, extra=['-x', 'c'])
    ordinary, tags = [], []
    def mainfile(n):
        loc = n.get('loc', {})
        if 'includedFrom' in loc: return False
        for k in ('spellingLoc', 'expansionLoc'):
            if 'includedFrom' in loc.get(k, {}): return False
        f = loc.get('file') or loc.get('spellingLoc', {}).get('file') or loc.get('expansionLoc', {}).get('file')
        return True
    # clang omits 'file' when unchanged; decide membership by name occurring in this header's text instead
    textids = set(IDENT.findall(txt))
    for n in tu.get('inner', []):
        k = n.get('kind')
        if n.get('isImplicit'):
            continue
        nm = n.get('name')
        if k in ('TypedefDecl', 'FunctionDecl', 'VarDecl') and nm and nm in textids and mainfile(n):
            ordinary.append(nm)
        if k in ('EnumDecl', 'RecordDecl'):
            if nm and nm in textids and mainfile(n) and any(True for _ in kids(n)):
                tags.append(nm)
            if k == 'EnumDecl' and mainfile(n):
                for c in kids(n):
                    if c.get('kind') == 'EnumConstantDecl' and c['name'] in textids:
                        ordinary.append(c['name'])
    return {'name': h, 'includes': includes, 'macros': macros, 'ordinary': sorted(set(ordinary)), 'tags': sorted(set(tags)), 'tokens': tokens,
            'include_after_decl': include_after_decl, 'state_leak': state_leak}

def generate(outdir):
    hs = public_headers()
    with ThreadPoolExecutor(max_workers=16) as ex:
        units = list(ex.map(analyse, hs))
    o = ['(* GENERATED by tools/gen_headers.py from include/avtp/**/*.h -- do not edit *)',
         'From Coq Require Import List String.', 'From O1722 Require Import HeaderModel.', 'Import ListNotations.', 'Local Open Scope string_scope.', '']
    def sl(l): return '[' + '; '.join(coq_str(x) for x in l) + ']'
    names = []
    for u in units:
        ident = 'h_' + re.sub(r'[^A-Za-z0-9]', '_', u['name'][5:-2])
        names.append(ident)
        macros = '[' + ';\n      '.join('(%s, %s)' % (coq_str(n), sl(b)) for n, b in u['macros']) + ']'
        o.append('Definition %s : hunit := mkhunit %s\n    %s\n    %s\n    %s\n    %s\n    %s\n    %s %s.' % (
            ident, coq_str(u['name']), sl(u['includes']), macros, sl(u['ordinary']), sl(u['tags']), sl(u['tokens']), 'true' if u['include_after_decl'] else 'false',
            'true' if u['state_leak'] else 'false'))
        o.append('')
    o.append('Definition all_headers : list hunit := [%s].' % '; '.join(names))
    write_if_changed(os.path.join(outdir, 'Headers.v'), '\n'.join(o) + '\n')
    return {'units': units}

if __name__ == '__main__':
    r = generate(sys.argv[1] if len(sys.argv) > 1 else '/tmp/w')
    for u in r['units']:
        print(u['name'], len(u['macros']), len(u['ordinary']), u['tags'], len(u['tokens']), u['include_after_decl'])
