/* Correspondence harness: reads one command per line, calls the real library
   function on a heap block of exactly the requested extent (so that ASan's
   redzones sit directly before and after the PDU), prints one result line.
   Line protocol is shared with the extracted oracle (tools/oracle/driver.ml). */
#include <stdio.h>
#include <stdlib.h>
#include <string.h>
#include <stdint.h>
#include "hx.h"
#include "avtp/Utils.h"
#include "avtp/Byteorder.h"

static unsigned g_offset = 0;    /* placement offset of the PDU relative to a 16-byte boundary (HX_OFFSET) */

size_t hx_hexlen(const char* hex) { return (hex[0] == '.') ? 0 : strlen(hex) / 2; }
static int hv(char c) { return c <= '9' ? c - '0' : (c | 32) - 'a' + 10; }
void hx_unhex(const char* hex, uint8_t* out) {
    size_t n = hx_hexlen(hex);
    for (size_t i = 0; i < n; i++) out[i] = (uint8_t)(hv(hex[2*i]) * 16 + hv(hex[2*i+1]));
}
/* block of offset+len bytes; the PDU occupies its last len bytes */
uint8_t* hx_alloc_exact(const char* hex, size_t* len, unsigned offset, uint8_t** base) {
    size_t n = hx_hexlen(hex);
    uint8_t* b = 0;
    if (posix_memalign((void**)&b, 16, offset + n + (offset + n == 0)) != 0) abort();
    /* posix_memalign'd block of exactly offset+n bytes: ASan poisons everything after it */
    hx_unhex(hex, b + offset);
    *len = n; *base = b;
    return b + offset;
}
void hx_print_buf(const uint8_t* p, size_t len) {
    if (len == 0) { putchar('.'); return; }
    for (size_t i = 0; i < len; i++) printf("%02x", p[i]);
}
static const hx_entry* find(const char* name) {
    for (int u = 0; hx_all[u]; u++)
        for (const hx_entry* e = hx_all[u]; e->name; e++)
            if (strcmp(e->name, name) == 0) return e;
    return 0;
}
static uint64_t ux(const char* s) { return strtoull(s, 0, 16); }

static uint64_t helper(const char* k, const char* w, uint64_t x) {
    int W = atoi(w);
#define HSEL(N) if (strcmp(k, #N) == 0) { if (W == 16) return Avtp_##N##16((uint16_t)x); if (W == 32) return Avtp_##N##32((uint32_t)x); return Avtp_##N##64(x); }
    HSEL(Bswap) HSEL(CpuToLe) HSEL(CpuToBe) HSEL(LeToCpu) HSEL(BeToCpu)
    return 0;
}

int main(void) {
    static char line[1 << 20];
    char* argv[1024];
    const char* off = getenv("HX_OFFSET");
    if (off) g_offset = (unsigned)atoi(off);
    setvbuf(stdout, 0, _IOLBF, 0);
    while (fgets(line, sizeof line, stdin)) {
        int argc = 0;
        for (char* t = strtok(line, " \n"); t && argc < 1024; t = strtok(0, " \n")) argv[argc++] = t;
        if (argc == 0) { puts("BADCMD"); continue; }
        const char* c = argv[0];
        if ((!strcmp(c, "G") || !strcmp(c, "S") || !strcmp(c, "I")) && argc >= 3) {
            const hx_entry* e = find(argv[1]);
            if (!e) { puts("NOSUCH"); continue; }
            size_t len = 0; uint8_t* base = 0; uint8_t* pdu = 0;
            int isnull = !strcmp(argv[2], "-");
            if (!isnull) pdu = hx_alloc_exact(argv[2], &len, g_offset, &base);
            uint64_t a = argc > 3 ? ux(argv[3]) : 0, b = argc > 4 ? ux(argv[4]) : 0;
            uint64_t r = e->fn(pdu, a, b);
            if (c[0] == 'G') {
                /* value, then the buffer so that a write by a reader is visible */
                printf("V %llx ", (unsigned long long)r);
                if (isnull) putchar('-'); else hx_print_buf(pdu, len);
                putchar('\n');
            } else {
                printf("B ");
                if (isnull) putchar('-'); else hx_print_buf(pdu, len);
                putchar('\n');
            }
            free(base);
        } else if ((!strcmp(c, "RG") && argc == 6) || (!strcmp(c, "RS") && argc == 7)) {
            /* the generic reader / writer with a caller-supplied one-row table; argv[1] (qw) is for the model only */
            Avtp_FieldDescriptor_t d[1] = { { (uint8_t)ux(argv[2]), (uint8_t)ux(argv[3]), (uint8_t)ux(argv[4]) } };
            size_t len = 0; uint8_t* base = 0;
            uint8_t* pdu = hx_alloc_exact(argv[5], &len, g_offset, &base);
            if (c[1] == 'G') {
                uint64_t r = Avtp_GetField(d, 1, pdu, 0);
                printf("V %llx ", (unsigned long long)r); hx_print_buf(pdu, len); putchar('\n');
            } else {
                Avtp_SetField(d, 1, pdu, 0, ux(argv[6]));
                printf("B "); hx_print_buf(pdu, len); putchar('\n');
            }
            free(base);
        } else if (!strcmp(c, "L") && argc == 6) {
            /* L name pdu a b res : res = "-" null result pointer, "x" no result parameter, else old value (hex) */
            const hx_lentry* e = 0;
            for (int u = 0; hx_lall[u] && !e; u++)
                for (const hx_lentry* q = hx_lall[u]; q->name; q++)
                    if (strcmp(q->name, argv[1]) == 0) { e = q; break; }
            if (!e) { puts("NOSUCH"); continue; }
            size_t len = 0; uint8_t* base = 0; uint8_t* pdu = 0;
            int isnull = !strcmp(argv[2], "-");
            if (!isnull) pdu = hx_alloc_exact(argv[2], &len, g_offset, &base);
            int hasres = strcmp(argv[5], "-") && strcmp(argv[5], "x");
            uint64_t r = hasres ? ux(argv[5]) : 0;
            int64_t rc = e->fn(pdu, ux(argv[3]), ux(argv[4]), hasres ? &r : 0);
            if (rc == 0) printf("R 0 "); else if (rc == -22) printf("R E "); else printf("R %lld ", (long long)rc);
            if (isnull) putchar('-'); else hx_print_buf(pdu, len);
            if (hasres) printf(" %llx\n", (unsigned long long)r); else printf(" %s\n", argv[5]);
            free(base);
        } else if (!strcmp(c, "Q") && argc >= 2) {
            /* Q buf0,buf1,... op op ...   op = g:name:k[:a] | s:name:k:a[:b] | i:name:k | l:name:k:a:b:res
               one history over several buffers in ONE process; a token is printed after every step */
            enum { MAXB = 8 };
            uint8_t* pdu[MAXB]; uint8_t* base[MAXB]; size_t len[MAXB]; int nb = 0;
            static char bufs[1 << 16];
            strncpy(bufs, argv[1], sizeof bufs - 1);
            for (char* t = strtok(bufs, ","); t && nb < MAXB; t = strtok(0, ",")) {
                pdu[nb] = hx_alloc_exact(t, &len[nb], g_offset, &base[nb]); nb++;
            }
            for (int i = 2; i < argc; i++) {
                char* f[8]; int nf = 0;
                for (char* t = argv[i]; t && nf < 8; ) { f[nf++] = t; t = strchr(t, ':'); if (t) *t++ = 0; }
                if (nf < 3) { printf("BADOP "); continue; }
                int k = atoi(f[2]);
                if (k < 0 || k >= nb) { printf("BADBUF "); continue; }
                uint64_t a = nf > 3 ? ux(f[3]) : 0, b = nf > 4 ? ux(f[4]) : 0;
                if (f[0][0] == 'l') {
                    const hx_lentry* e = 0;
                    for (int u = 0; hx_lall[u] && !e; u++)
                        for (const hx_lentry* q = hx_lall[u]; q->name; q++)
                            if (strcmp(q->name, f[1]) == 0) { e = q; break; }
                    if (!e) { printf("NOSUCH "); continue; }
                    int hasres = nf > 5 && strcmp(f[5], "-") && strcmp(f[5], "x");
                    uint64_t r = hasres ? ux(f[5]) : 0;
                    int64_t rc = e->fn(pdu[k], a, b, hasres ? &r : 0);
                    printf("r%s,", rc == 0 ? "0" : (rc == -22 ? "E" : "?")); hx_print_buf(pdu[k], len[k]);
                    if (hasres) printf(",%llx ", (unsigned long long)r); else printf(",%s ", nf > 5 ? f[5] : "x");
                } else {
                    const hx_entry* e = find(f[1]);
                    if (!e) { printf("NOSUCH "); continue; }
                    uint64_t r = e->fn(pdu[k], a, b);
                    if (f[0][0] == 'g') printf("v%llx ", (unsigned long long)r);
                    else { putchar('b'); hx_print_buf(pdu[k], len[k]); putchar(' '); }
                }
            }
            printf("F");
            for (int k = 0; k < nb; k++) { putchar(k ? ',' : ' '); hx_print_buf(pdu[k], len[k]); }
            putchar('\n');
            for (int k = 0; k < nb; k++) free(base[k]);
        } else if (!strcmp(c, "H") && argc == 5) {
            printf("V %llx\n", (unsigned long long)helper(argv[2], argv[3], ux(argv[4])));
        } else if (hx_ext(argc, argv)) {
            /* handled */
        } else {
            puts("BADCMD");
        }
    }
    return 0;
}
