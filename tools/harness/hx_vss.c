/* ACF-VSS: pad, path / data codec, string arrays - on exact-extent buffers (ASan redzones behind every object) */
#include <stdio.h>
#include <stdlib.h>
#include <string.h>
#include "hx.h"
#include "avtp/acf/custom/Vss.h"
static uint64_t ux(const char* s) { return strtoull(s, 0, 16); }
static void* exact(size_t n) { void* p = malloc(n); if (!p) abort(); return p; }   /* malloc(0): a valid pointer to a zero-size block under ASan */
static uint8_t* exact_copy(const char* hex, size_t* n) { *n = hx_hexlen(hex); uint8_t* p = exact(*n); hx_unhex(hex, p); return p; }
/* 0 none, 1 scalar8, 2/4/8 scalar of that many bytes, 100 bytes, 102/104/108 element arrays */
static int kind_of(unsigned dt) {
    switch (dt) {
    case 0: case 1: case 8: return 1;
    case 2: case 3: return 2;
    case 4: case 5: case 9: return 4;
    case 6: case 7: case 10: return 8;
    case 11: case 0x80: case 0x81: case 0x88: case 0x8B: return 100;
    case 0x82: case 0x83: return 102;
    case 0x84: case 0x85: case 0x89: return 104;
    case 0x86: case 0x87: case 0x8A: return 108;
    default: return 0;
    }
}
static void put_elems(const uint8_t* p, size_t n, int w) {   /* host-order elements as fixed-width hex */
    if (n == 0) { putchar('.'); return; }
    for (size_t i = 0; i < n; i++) {
        uint64_t v = 0; memcpy(&v, p + i * w, w);
        printf("%0*llx", 2 * w, (unsigned long long)v);
    }
}
typedef struct { uint16_t data_length; void* data; } anyarr_t;

int hx_vss(int argc, char** argv, unsigned offset) {
    const char* c = argv[0];
    size_t len; uint8_t* base; uint8_t* pdu;
    if (!strcmp(c, "VP") && argc == 3) {
        pdu = hx_alloc_exact(argv[1], &len, offset, &base);
        Avtp_Vss_Pad((Avtp_Vss_t*)pdu, (uint16_t)ux(argv[2]));
        printf("B "); hx_print_buf(pdu, len); putchar('\n'); free(base); return 1;
    }
    if (!strcmp(c, "VCL") && argc == 2) {
        pdu = hx_alloc_exact(argv[1], &len, offset, &base);
        printf("V %x\n", (unsigned)Avtp_Vss_CalcVssPathLength((Avtp_Vss_t*)pdu)); free(base); return 1;
    }
    if (!strcmp(c, "VSP") && argc >= 4) {
        pdu = hx_alloc_exact(argv[1], &len, offset, &base);
        VssPath_t p; memset(&p, 0, sizeof p); uint8_t* src = 0; size_t sn;
        if (!strcmp(argv[2], "static")) p.vss_static_id_path = (uint32_t)ux(argv[3]);
        else { src = exact_copy(argc > 4 ? argv[4] : ".", &sn); p.vss_interop_path.path_length = (uint16_t)ux(argv[3]); p.vss_interop_path.path = (char*)src; }
        Avtp_Vss_SetVssPath((Avtp_Vss_t*)pdu, &p);
        printf("B "); hx_print_buf(pdu, len); putchar('\n'); free(src); free(base); return 1;
    }
    if (!strcmp(c, "VGP") && argc == 3) {
        pdu = hx_alloc_exact(argv[1], &len, offset, &base);
        size_t cap = ux(argv[2]);
        unsigned mode = Avtp_Vss_GetAddrMode((Avtp_Vss_t*)pdu);
        VssPath_t p; memset(&p, 0, sizeof p);
        char* dst = exact(cap); memset(dst, 0xEE, cap);
        if (mode == VSS_INTEROP_MODE) p.vss_interop_path.path = dst;
        Avtp_Vss_GetVssPath((Avtp_Vss_t*)pdu, &p);
        if (mode == VSS_STATIC_ID_MODE) printf("P static %x\n", (unsigned)p.vss_static_id_path);
        else if (mode == VSS_INTEROP_MODE) { printf("P interop %x ", (unsigned)p.vss_interop_path.path_length);
            hx_print_buf((uint8_t*)dst, p.vss_interop_path.path_length <= cap ? p.vss_interop_path.path_length : cap); putchar('\n'); }
        else puts("P none");
        free(dst); free(base); return 1;
    }
    if (!strcmp(c, "VSD") && argc >= 4) {
        pdu = hx_alloc_exact(argv[1], &len, offset, &base);
        VssData_t d; memset(&d, 0, sizeof d); anyarr_t arr; uint8_t* src = 0; size_t sn;
        if (!strcmp(argv[2], "scalar")) d.data_uint64 = ux(argv[3]);
        else if (!strcmp(argv[2], "bytes")) { src = exact_copy(argc > 4 ? argv[4] : ".", &sn); arr.data_length = (uint16_t)ux(argv[3]); arr.data = src; d.data_string = (VssDataString_t*)&arr; }
        else { /* elems <len> <w> <hex> */
            int w = atoi(argv[4]); size_t hn; uint8_t* raw = exact_copy(argc > 5 ? argv[5] : ".", &hn);
            size_t n = hn / w; src = exact(n * w);
            for (size_t i = 0; i < n; i++) { uint64_t v = 0; for (int k = 0; k < w; k++) v = (v << 8) | raw[i * w + k]; memcpy(src + i * w, &v, w); }
            free(raw); arr.data_length = (uint16_t)ux(argv[3]); arr.data = src; d.data_string = (VssDataString_t*)&arr;
        }
        Avtp_Vss_SetVssData((Avtp_Vss_t*)pdu, &d);
        printf("B "); hx_print_buf(pdu, len); putchar('\n'); free(src); free(base); return 1;
    }
    if (!strcmp(c, "VGD") && argc == 3) {
        pdu = hx_alloc_exact(argv[1], &len, offset, &base);
        int k = kind_of((unsigned)Avtp_Vss_GetDatatype((Avtp_Vss_t*)pdu));
        VssData_t d; memset(&d, 0, sizeof d); anyarr_t arr; arr.data_length = 0xEEEE; arr.data = 0; size_t cap = 0;
        int isnull = !strcmp(argv[2], "-");
        if (k >= 100) { if (!isnull) { cap = ux(argv[2]); arr.data = exact(cap); memset(arr.data, 0xEE, cap); } d.data_string = (VssDataString_t*)&arr; }
        Avtp_Vss_GetVssData((Avtp_Vss_t*)pdu, &d);
        if (k == 0) puts("D none");
        else if (k < 100) { uint64_t v = d.data_uint64; if (k < 8) v &= ((1ULL << (8 * k)) - 1); printf("D scalar %llx\n", (unsigned long long)v); }
        else {
            printf("D %s %x ", k == 100 ? "bytes" : "elems", (unsigned)arr.data_length);
            if (isnull) putchar('-');
            else if (k == 100) hx_print_buf(arr.data, arr.data_length <= cap ? arr.data_length : cap);
            else put_elems(arr.data, (arr.data_length / (k - 100)), k - 100);
            putchar('\n');
        }
        free(arr.data); free(base); return 1;
    }
    if (!strcmp(c, "VAP") && argc == 5) {
        /* VAP <num> <outhex: prior content of array->data> <strs: len:hex,len:hex,...> <unused> */
        size_t on; uint8_t* out = exact_copy(argv[2], &on);
        unsigned num = (unsigned)ux(argv[1]);
        static char tmp[1 << 20]; strncpy(tmp, argv[3], sizeof tmp - 1);
        VssDataString_t* objs = exact(sizeof(VssDataString_t) * (num ? num : 1)); VssDataString_t** ptrs = exact(sizeof(void*) * (num ? num : 1));
        unsigned n = 0;
        if (strcmp(tmp, "-")) for (char* t = strtok(tmp, ","); t && n < num; t = strtok(0, ",")) {
            char* colon = strchr(t, ':'); *colon = 0; size_t sn;
            objs[n].data_length = (uint16_t)ux(t); objs[n].data = (char*)exact_copy(colon + 1, &sn); ptrs[n] = &objs[n]; n++;
        }
        VssDataStringArray_t arr; arr.data_length = 0xEEEE; arr.data = out;
        Avtp_Vss_SerializeStringArray(&arr, ptrs, (uint16_t)num);
        printf("A %x ", (unsigned)arr.data_length); hx_print_buf(out, on); putchar('\n');
        for (unsigned i = 0; i < n; i++) free(objs[i].data);
        free(objs); free(ptrs); free(out); return 1;
    }
    if (!strcmp(c, "VAC") && argc == 3) {
        size_t dn; uint8_t* data = exact_copy(argv[2], &dn);
        VssDataStringArray_t arr; arr.data_length = (uint16_t)ux(argv[1]); arr.data = data;
        printf("V %x\n", (unsigned)Avtp_Vss_GetVSSDataStringArrayLength(&arr)); free(data); return 1;
    }
    if (!strcmp(c, "VAU") && argc == 5) {
        /* VAU <data_length> <datahex> <num> <dsts: -|cap,...> */
        size_t dn; uint8_t* data = exact_copy(argv[2], &dn);
        unsigned num = (unsigned)ux(argv[3]);
        VssDataStringArray_t arr; arr.data_length = (uint16_t)ux(argv[1]); arr.data = data;
        static char tmp[1 << 20]; strncpy(tmp, argv[4], sizeof tmp - 1);
        VssDataString_t* objs = exact(sizeof(VssDataString_t) * (num ? num : 1)); VssDataString_t** ptrs = exact(sizeof(void*) * (num ? num : 1));
        size_t* caps = exact(sizeof(size_t) * (num ? num : 1));
        unsigned n = 0;
        if (strcmp(tmp, ".")) for (char* t = strtok(tmp, ","); t && n < num; t = strtok(0, ",")) {
            objs[n].data_length = 0xEEEE;
            if (!strcmp(t, "-")) { objs[n].data = 0; caps[n] = 0; }
            else { caps[n] = ux(t); objs[n].data = exact(caps[n]); memset(objs[n].data, 0xEE, caps[n]); }
            ptrs[n] = &objs[n]; n++;
        }
        Avtp_Vss_DeserializeStringArray(&arr, ptrs, (uint16_t)num);
        printf("U");
        for (unsigned i = 0; i < n; i++) {
            if (objs[i].data_length == 0xEEEE) break;      /* untouched: the loop stopped before this string */
            printf(" %x:", (unsigned)objs[i].data_length);
            if (!objs[i].data) putchar('-'); else hx_print_buf((uint8_t*)objs[i].data, objs[i].data_length <= caps[i] ? objs[i].data_length : caps[i]);
        }
        putchar('\n');
        for (unsigned i = 0; i < n; i++) free(objs[i].data);
        free(objs); free(ptrs); free(caps); free(data); return 1;
    }
    return 0;
}
