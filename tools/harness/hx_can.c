/* ACF-CAN builders (full format) on exact-extent buffers */
#include <stdio.h>
#include <stdlib.h>
#include <string.h>
#include "hx.h"
#include "avtp/acf/Can.h"
static uint64_t ux(const char* s) { return strtoull(s, 0, 16); }
/* payload bytes in a malloc block of exactly their size: an over-read is an ASan error */
static uint8_t* exact_copy(const char* hex, size_t* n) {
    *n = hx_hexlen(hex);
    uint8_t* p = malloc(*n ? *n : 1);
    hx_unhex(hex, p);
    return p;
}
int hx_can(int argc, char** argv, unsigned offset) {
    const char* c = argv[0];
    if (!strcmp(c, "CC") && argc == 7 && !strcmp(argv[1], "full")) {
        size_t len, pn; uint8_t* base; uint8_t* pdu = hx_alloc_exact(argv[2], &len, offset, &base);
        uint8_t* pl = exact_copy(argv[4], &pn);
        Avtp_Can_CreateAcfMessage((Avtp_Can_t*)pdu, (uint32_t)ux(argv[3]), pl, (uint16_t)ux(argv[5]), (Avtp_CanVariant_t)ux(argv[6]));
        printf("B "); hx_print_buf(pdu, len); printf(" -\n"); free(pl); free(base); return 1;
    }
    if (!strcmp(c, "CF") && argc == 4 && !strcmp(argv[1], "full")) {
        size_t len; uint8_t* base; uint8_t* pdu = hx_alloc_exact(argv[2], &len, offset, &base);
        Avtp_Can_Finalize((Avtp_Can_t*)pdu, (uint16_t)ux(argv[3]));
        printf("B "); hx_print_buf(pdu, len); printf(" -\n"); free(base); return 1;
    }
    if (!strcmp(c, "CP") && argc == 4) {
        size_t len, pn; uint8_t* base; uint8_t* pdu = hx_alloc_exact(argv[1], &len, offset, &base);
        uint8_t* pl = exact_copy(argv[2], &pn);
        Avtp_Can_SetPayload((Avtp_Can_t*)pdu, pl, (uint16_t)ux(argv[3]));
        printf("B "); hx_print_buf(pdu, len); printf(" -\n"); free(pl); free(base); return 1;
    }
    if (!strcmp(c, "CL") && argc == 2) {
        size_t len; uint8_t* base; uint8_t* pdu = hx_alloc_exact(argv[1], &len, offset, &base);
        unsigned v = Avtp_Can_GetCanPayloadLength((Avtp_Can_t*)pdu);
        /* the payload accessor must point right behind the header */
        if (Avtp_Can_GetPayload((Avtp_Can_t*)pdu) != pdu + AVTP_CAN_HEADER_LEN) v |= 0x10000;
        printf("V %x\n", v); free(base); return 1;
    }
    return 0;
}
