/* extension commands; filled in by later models */
#include "hx.h"
int hx_ext(int argc, char** argv) { (void)argc; (void)argv; return 0; }
