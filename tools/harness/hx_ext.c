/* extension commands: message builders, VSS codec */
#include <stdlib.h>
#include "hx.h"
int hx_can(int argc, char** argv, unsigned offset);
int hx_canbrief(int argc, char** argv, unsigned offset);
int hx_vss(int argc, char** argv, unsigned offset);
int hx_ext(int argc, char** argv) {
    const char* off = getenv("HX_OFFSET");
    unsigned o = off ? (unsigned)atoi(off) : 0;
    return hx_can(argc, argv, o) || hx_canbrief(argc, argv, o) || hx_vss(argc, argv, o);
}
