/* ACF-CAN builders (brief format) on exact-extent buffers */
#include <stdio.h>
#include <stdlib.h>
#include <string.h>
#include "hx.h"
#include "avtp/acf/CanBrief.h"
static uint64_t ux(const char* s) { return strtoull(s, 0, 16); }
static uint8_t* exact_copy(const char* hex, size_t* n) {
    *n = hx_hexlen(hex);
    uint8_t* p = malloc(*n ? *n : 1);
    hx_unhex(hex, p);
    return p;
}
int hx_canbrief(int argc, char** argv, unsigned offset) {
    const char* c = argv[0];
    if (!strcmp(c, "CC") && argc == 7 && !strcmp(argv[1], "brief")) {
        size_t len, pn; uint8_t* base; uint8_t* pdu = hx_alloc_exact(argv[2], &len, offset, &base);
        uint8_t* pl = exact_copy(argv[4], &pn);
        int r = Avtp_CanBrief_SetPayload((Avtp_CanBrief_t*)pdu, (uint32_t)ux(argv[3]), pl, (uint16_t)ux(argv[5]), (Avtp_CanVariant_t)ux(argv[6]));
        printf("B "); hx_print_buf(pdu, len); printf(" %x\n", (unsigned)r); free(pl); free(base); return 1;
    }
    if (!strcmp(c, "CF") && argc == 4 && !strcmp(argv[1], "brief")) {
        size_t len; uint8_t* base; uint8_t* pdu = hx_alloc_exact(argv[2], &len, offset, &base);
        int r = Avtp_CanBrief_Finalize((Avtp_CanBrief_t*)pdu, (uint16_t)ux(argv[3]));
        printf("B "); hx_print_buf(pdu, len); printf(" %x\n", (unsigned)r); free(base); return 1;
    }
    return 0;
}
