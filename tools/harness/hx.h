#ifndef HX_H
#define HX_H
#include <stdint.h>
#include <stddef.h>
enum { HX_GET = 1, HX_SET, HX_INIT, HX_PAYLOAD };
typedef struct { const char* name; int kind; uint64_t (*fn)(void* pdu, uint64_t a, uint64_t b); } hx_entry;
extern const hx_entry* const hx_all[];
/* deprecated entry points: rc = fn(pdu, a, b, result pointer or NULL) */
typedef struct { const char* name; int64_t (*fn)(void* pdu, uint64_t a, uint64_t b, uint64_t* res); } hx_lentry;
extern const hx_lentry* const hx_lall[];
/* extension commands (message builders, VSS codec, ...): return 1 if handled */
int hx_ext(int argc, char** argv);
/* helpers shared with the extensions */
uint8_t* hx_alloc_exact(const char* hex, size_t* len, unsigned offset, uint8_t** base);
void hx_print_buf(const uint8_t* p, size_t len);
size_t hx_hexlen(const char* hex);
void hx_unhex(const char* hex, uint8_t* out);
#endif
