(* Thin driver around the extracted oracle: one command per input line, one
   result per output line.  All semantics live in the extracted Coq code. *)
module SS = Stdlib.String
open Oracle_core

(* ORACLE_HELPERS=BE: model instance (helpers of the big-endian branch, little-endian memory) for the forced-big-endian build *)
let fbe = ref (Sys.getenv_opt "ORACLE_HELPERS" = Some "BE")

let rec pos_bits = function XH -> [true] | XO p -> false :: pos_bits p | XI p -> true :: pos_bits p
let n_bits = function N0 -> [] | Npos p -> pos_bits p      (* LSB first *)

let hex_of_n n =
  let bits = Array.of_list (n_bits n) in
  let len = Array.length bits in
  if len = 0 then "0" else begin
    let nd = (len + 3) / 4 in
    let b = Buffer.create nd in
    for d = nd - 1 downto 0 do
      let v = ref 0 in
      for k = 3 downto 0 do
        let i = 4 * d + k in
        v := 2 * !v + (if i < len && bits.(i) then 1 else 0)
      done;
      Buffer.add_char b "0123456789abcdef".[!v]
    done;
    Buffer.contents b
  end

let n_of_hex s =
  (* most significant bit first *)
  let bits = ref [] in
  SS.iter (fun c ->
    let v = match c with
      | '0'..'9' -> Char.code c - 48 | 'a'..'f' -> Char.code c - 87 | 'A'..'F' -> Char.code c - 55
      | _ -> failwith "hex" in
    bits := (v land 1 = 1) :: (v land 2 = 2) :: (v land 4 = 4) :: (v land 8 = 8) :: !bits) s;
  (* !bits is LSB first *)
  let msb_first = List.rev !bits in
  let rec drop = function false :: r -> drop r | l -> l in
  match drop msb_first with
  | [] -> N0
  | _ :: rest -> Npos (List.fold_left (fun acc b -> if b then XI acc else XO acc) XH rest)

let n_of_int i = n_of_hex (Printf.sprintf "%x" i)
let int_of_n n = int_of_string ("0x" ^ hex_of_n n)

let buf_of_hex s =
  if s = "." then [] else begin
    let n = SS.length s / 2 in
    List.init n (fun i -> n_of_hex (SS.sub s (2 * i) 2))
  end
let hex_of_buf b =
  if b = [] then "." else
  SS.concat "" (List.map (fun x -> let h = hex_of_n x in if SS.length h = 1 then "0" ^ h else h) b)
let pdu_of s = if s = "-" then None else Some (buf_of_hex s)

let coq_string (s : SS.t) : Oracle_core.string =
  let ascii_of c =
    let v = Char.code c in
    let b i = (v lsr i) land 1 = 1 in
    Ascii (b 0, b 1, b 2, b 3, b 4, b 5, b 6, b 7) in
  let rec go i = if i >= SS.length s then EmptyString else String (ascii_of (SS.get s i), go (i + 1)) in
  go 0

let show = function
  | RVal v -> "V " ^ hex_of_n v
  | RBuf None -> "B -"
  | RBuf (Some b) -> "B " ^ hex_of_buf b
  | ROob -> "OOB"
  | RUnmod -> "UNMOD"
  | RNoSuch -> "NOSUCH"

let show_can brief = function
  | CB (b, r) -> "B " ^ hex_of_buf b ^ " " ^ (if brief then hex_of_n r else "-")
  | CV v -> "V " ^ hex_of_n v
  | COob -> "OOB" | CUnmod -> "UNMOD"

(* state of the example listener sessions (X.0 commands reset it) *)
let x_pdu = ref ([] : Oracle_core.n list)
let x_q = ref { q_seq = N0; q_items = [] }
let x_c = ref cstate0
let x_talker = ref false
let x_mtt = ref N0
let show_lstat = function
  | XHandled -> "HANDLED" | XDropped -> "DROPPED" | XOob _ -> "OOB" | XOverflow n -> "OVERFLOW" ^ hex_of_n n
  | XDiverged -> "DIVERGED" | XUnmodelled -> "UNMOD"

let show_events evs =
  SS.concat "" (List.map (function
    | PGpc (t, c) -> " G:" ^ hex_of_buf t ^ ":" ^ hex_of_n c
    | PVssPathStr t -> " S:" ^ hex_of_buf t
    | PVssPathId i -> " I:" ^ hex_of_n i
    | PVssFloat v -> " F:" ^ hex_of_n v
    | PAligned b -> if b then " A:1" else " A:0") evs)
let show_q q =
  let n = List.length q.q_items in
  let last = List.fold_left (fun _ x -> Some x) None q.q_items in
  Printf.sprintf " seq=%s queue=%d last=%s" (hex_of_n q.q_seq) n (match last with None -> "-" | Some b -> hex_of_buf b)

(* ---- ACF-VSS formatting ---- *)
let nat_of_int i = let rec go k = if k = 0 then O else S (go (k - 1)) in go i
let elems_of_hex w s =
  if s = "." then [] else List.init (SS.length s / (2 * w)) (fun i -> n_of_hex (SS.sub s (2 * w * i) (2 * w)))
let hex_fixed w v = let h = hex_of_n v in let l = SS.length h in if l >= 2 * w then SS.sub h (l - 2 * w) (2 * w) else SS.make (2 * w - l) '0' ^ h
let hex_of_elems w es = if es = [] then "." else SS.concat "" (List.map (hex_fixed w) es)
let show_out f = function Ok x -> f x | OOB _ -> "OOB" | Unmodelled -> "UNMOD"
let wbytes_of = function W16 -> 2 | W32 -> 4 | W64 -> 8
let elem_w dt = match vss_kind dt with KE w -> wbytes_of w | _ -> 0

let kind_of = function
  | "Bswap" -> KBswap | "CpuToLe" -> KCpuToLe | "CpuToBe" -> KCpuToBe
  | "LeToCpu" -> KLeToCpu | "BeToCpu" -> KBeToCpu | _ -> failwith "kind"
let width_of = function "16" -> W16 | "32" -> W32 | "64" -> W64 | _ -> failwith "width"

(* histories over several buffers: the state lives here, every step is a call of the extracted model / reference *)
let history spec bufs ops =
  let st = Array.of_list (List.map buf_of_hex (SS.split_on_char ',' bufs)) in
  let out = Buffer.create 256 in
  let hexb b = hex_of_buf b in
  List.iter (fun op ->
    let f = Array.of_list (SS.split_on_char ':' op) in
    let nf = Array.length f in
    let tok =
      try
        if not spec then begin
          let k = int_of_string f.(2) in
          let arg i = if nf > i then n_of_hex f.(i) else N0 in
          match f.(0) with
          | "g" -> (match m_getter !fbe (coq_string f.(1)) (Some st.(k)) (N0 :: (if nf > 3 then [arg 3] else [])) with
                    | RVal v -> "v" ^ hex_of_n v | r -> show r)
          | "s" -> (match m_setter !fbe (coq_string f.(1)) (Some st.(k)) (N0 :: (if nf > 4 then [arg 3; arg 4] else [arg 3])) with
                    | RBuf (Some b) -> st.(k) <- b; "b" ^ hexb b | r -> show r)
          | "i" -> (match m_init !fbe (coq_string f.(1)) (Some st.(k)) with
                    | RBuf (Some b) -> st.(k) <- b; "b" ^ hexb b | r -> show r)
          | "l" -> let r = if nf > 5 then f.(5) else "x" in
                   let res = if r = "-" || r = "x" then None else Some (n_of_hex r) in
                   (match m_legacy !fbe (coq_string f.(1)) (Some st.(k)) [N0; arg 3; arg 4] res with
                    | LR (ok, p, x) ->
                        (match p with Some b -> st.(k) <- b | None -> ());
                        Printf.sprintf "r%s,%s,%s" (if ok then "0" else "E") (hexb st.(k))
                          (match x with None -> r | Some v -> hex_of_n v)
                    | LOob -> "OOB" | LUnmod -> "UNMOD" | LNoSuch -> "NOSUCH")
          | _ -> "BADOP"
        end else begin
          (* reference: g:fmt:field:k | s:fmt:field:k:v | i:fmt:k *)
          match f.(0) with
          | "g" -> let k = int_of_string f.(3) in
                   (match s_get (coq_string f.(1)) (coq_string f.(2)) st.(k) with RVal v -> "v" ^ hex_of_n v | r -> show r)
          | "s" -> let k = int_of_string f.(3) in
                   (match s_set (coq_string f.(1)) (coq_string f.(2)) st.(k) (n_of_hex f.(4)) with
                    | RBuf (Some b) -> st.(k) <- b; "b" ^ hexb b | r -> show r)
          | "i" -> let k = int_of_string f.(2) in
                   (match s_init (coq_string f.(1)) st.(k) with RBuf (Some b) -> st.(k) <- b; "b" ^ hexb b | r -> show r)
          | _ -> "BADOP"
        end
      with _ -> "EXC" in
    Buffer.add_string out tok; Buffer.add_char out ' ') ops;
  Buffer.add_string out "F ";
  Buffer.add_string out (SS.concat "," (Array.to_list (Array.map hexb st)));
  Buffer.contents out

let handle (ext : SS.t list -> SS.t option) line =
  let t = List.filter (fun x -> x <> "") (SS.split_on_char ' ' line) in
  match t with
  | "G" :: name :: pdu :: ps -> show (m_getter !fbe (coq_string name) (pdu_of pdu) (N0 :: List.map n_of_hex ps))
  | "S" :: name :: pdu :: ps -> show (m_setter !fbe (coq_string name) (pdu_of pdu) (N0 :: List.map n_of_hex ps))
  | ["I"; name; pdu] -> show (m_init !fbe (coq_string name) (pdu_of pdu))
  | ["RG"; qw; q; o; w; pdu] ->
      show (m_rawget !fbe (n_of_hex qw) { dq = n_of_hex q; doff = n_of_hex o; dbits = n_of_hex w } (buf_of_hex pdu))
  | ["RS"; qw; q; o; w; pdu; v] ->
      show (m_rawset !fbe (n_of_hex qw) { dq = n_of_hex q; doff = n_of_hex o; dbits = n_of_hex w } (buf_of_hex pdu) (n_of_hex v))
  | ["SG"; fmt; field; pdu] -> show (s_get (coq_string fmt) (coq_string field) (buf_of_hex pdu))
  | ["SS"; fmt; field; pdu; v] -> show (s_set (coq_string fmt) (coq_string field) (buf_of_hex pdu) (n_of_hex v))
  | ["SI"; fmt; pdu] -> show (s_init (coq_string fmt) (buf_of_hex pdu))
  | ["SX"; first; width; pdu] -> show (RVal (spec_extract (buf_of_hex pdu) (n_of_hex first) (n_of_hex width)))
  | ["SN"; first; width; pdu; v] -> show (RBuf (Some (spec_insert (buf_of_hex pdu) (n_of_hex first) (n_of_hex width) (n_of_hex v))))
  | ["L"; name; pdu; a; b; r] ->
      let res = if r = "-" || r = "x" then None else Some (n_of_hex r) in
      (match m_legacy !fbe (coq_string name) (pdu_of pdu) [N0; n_of_hex a; n_of_hex b] res with
       | LR (ok, p, x) ->
           Printf.sprintf "R %s %s %s" (if ok then "0" else "E")
             (match p with None -> "-" | Some bb -> hex_of_buf bb)
             (match x with None -> r | Some v -> hex_of_n v)
       | LOob -> "OOB" | LUnmod -> "UNMOD" | LNoSuch -> "NOSUCH")
  (* ACF-CAN builders: CC full|brief buf id payload plen variant ; CF full|brief buf plen ; CP buf payload plen ; CL buf *)
  | ["CC"; k; b; id; pl; plen; var] ->
      show_can (k = "brief") (m_can_create !fbe (k = "brief") (buf_of_hex b) (n_of_hex id) (buf_of_hex pl) (n_of_hex plen) (n_of_hex var))
  | ["SCC"; k; b; id; pl; var] ->
      show_can (k = "brief") (s_can_create (k = "brief") (buf_of_hex b) (n_of_hex id) (buf_of_hex pl) (n_of_hex var))
  | ["CF"; k; b; plen] -> show_can (k = "brief") (m_can_finalize !fbe (k = "brief") (buf_of_hex b) (n_of_hex plen))
  | ["CP"; b; pl; plen] -> show_can false (m_can_set_payload (buf_of_hex b) (buf_of_hex pl) (n_of_hex plen))
  | ["CL"; b] -> show_can false (m_can_payload_length !fbe (buf_of_hex b))
  (* example programs: XL udp fd datagram stale-fill ; XT udp tscf fd seq udpseq stale-fill frame... (canid:len:flags:data:ts) *)
  | ["XL"; udp; fd; d; fill] ->
      let stale =
        if SS.length fill > 0 && fill.[0] = 'S' then begin
          let given = buf_of_hex (SS.sub fill 1 (SS.length fill - 1)) in
          let k = List.length given in
          if k >= 1500 then List.filteri (fun i _ -> i < 1500) given else given @ List.init (1500 - k) (fun _ -> n_of_hex "fe")
        end else List.init 1500 (fun _ -> n_of_hex fill) in
      let (st, frames) = m_can_listener !fbe (udp = "1") (fd = "1") (buf_of_hex d) stale in
      show_lstat st ^ SS.concat "" (List.map (fun f -> " " ^ hex_of_buf f) frames)
  | ["XH0"; fill] | ["XV0"; fill] -> x_pdu := List.init 1500 (fun _ -> n_of_hex fill); "OK"
  | ["XH"; udp; d; st] | ["XV"; udp; d; st] when SS.length st > 0 && st.[0] = 'S' ->
      (* the buffer of main holds the given bytes (padded with the pattern) before this datagram arrives *)
      let given = buf_of_hex (SS.sub st 1 (SS.length st - 1)) in
      let k = List.length given in
      x_pdu := (if k >= 1500 then List.filteri (fun i _ -> i < 1500) given else given @ List.init (1500 - k) (fun _ -> n_of_hex "fe"));
      let vss = (match t with "XV" :: _ -> true | _ -> false) in
      if vss then
        (let ((stt, evs), pdu) = m_vss_recv !fbe (udp = "1") !x_pdu (buf_of_hex d) in x_pdu := pdu; show_lstat stt ^ show_events evs)
      else
        (let ((stt, evs), pdu) = m_hello_recv !fbe (udp = "1") !x_pdu (buf_of_hex d) in x_pdu := pdu; show_lstat stt ^ show_events evs)
  | ["XH"; udp; d] ->
      let ((st, evs), pdu) = m_hello_recv !fbe (udp = "1") !x_pdu (buf_of_hex d) in
      x_pdu := pdu; show_lstat st ^ show_events evs
  | ["XV"; udp; d] ->
      let ((st, evs), pdu) = m_vss_recv !fbe (udp = "1") !x_pdu (buf_of_hex d) in
      x_pdu := pdu; show_lstat st ^ show_events evs
  | ["XA0"] | ["XC0"] -> x_q := { q_seq = N0; q_items = [] }; "OK"
  | ["XA"; d] -> let (st, q) = m_aaf_recv !fbe !x_q (buf_of_hex d) in x_q := q; show_lstat st ^ show_q q
  | ["XC"; d] -> let (st, q) = m_cvf_recv !fbe !x_q (buf_of_hex d) in x_q := q; show_lstat st ^ show_q q
  | ["XR0"; talker; mtt] -> x_c := cstate0; x_talker := (talker = "1"); x_mtt := n_of_hex mtt; "OK"
  | ["XR"; d] ->
      let ((st, evs), c) = m_crf_recv !fbe !x_talker !x_mtt !x_c (buf_of_hex d) in
      x_c := c;
      let q = c.c_queue in
      let first = match q with [] -> N0 | t :: _ -> t in
      let last = List.fold_left (fun _ t -> t) N0 q in
      Printf.sprintf "%s%s queue=%d first=%s last=%s prev=%s lookup=%d crfseq=%s aafseq=%s state=%d firstpdu=%d"
        (show_lstat st) (show_events evs) (List.length q) (hex_of_n first) (hex_of_n last) (hex_of_n c.c_prev)
        (if c.c_lookup then 1 else 0) (hex_of_n c.c_crfseq) (hex_of_n c.c_aafseq) (if c.c_state then 1 else 0) (if c.c_first then 1 else 0)
  | "XT" :: udp :: tscf :: fd :: seq :: useq :: fill :: frames ->
      let pdu = List.init 1500 (fun _ -> n_of_hex fill) in
      let fr s = match SS.split_on_char ':' s with
        | [id; len; fl; data; ts] -> ({ cf_canid = n_of_hex id; cf_flen = n_of_hex len; cf_fflags = n_of_hex fl; cf_fdata = buf_of_hex data }, n_of_hex ts)
        | _ -> failwith "frame" in
      (match m_talker_packet !fbe (udp = "1") (tscf = "1") (fd = "1") (n_of_hex seq) (n_of_hex useq) (List.map fr frames) pdu with
       | Ok (sent, _) -> "P " ^ hex_of_buf sent
       | OOB _ -> "OOB" | Unmodelled -> "UNMOD")
  (* ACF-VSS *)
  | ["VP"; b; n] -> show (m_vss_pad !fbe (buf_of_hex b) (n_of_hex n))
  | ["SVP"; b; n] -> show (s_vss_pad (buf_of_hex b) (n_of_hex n))
  | ["VCL"; b] -> show (m_vss_calc !fbe (buf_of_hex b))
  | ["SVCL"; b] -> show (s_vss_calc (buf_of_hex b))
  | ["VSP"; b; "static"; id] -> show (m_vss_set_path !fbe (buf_of_hex b) (PStatic (n_of_hex id)))
  | "VSP" :: b :: "interop" :: len :: rest ->
      show (m_vss_set_path !fbe (buf_of_hex b) (PInterop (n_of_hex len, buf_of_hex (match rest with [h] -> h | _ -> "."))))
  | ["SVSP"; b; "static"; id] -> show (s_vss_set_path (buf_of_hex b) (RStatic (n_of_hex id)))
  | "SVSP" :: b :: "interop" :: _ :: rest -> show (s_vss_set_path (buf_of_hex b) (RInterop (buf_of_hex (match rest with [h] -> h | _ -> "."))))
  | ["VGP"; b; cap] ->
      show_out (function GStatic id -> "P static " ^ hex_of_n id
                       | GInterop (l, w) -> "P interop " ^ hex_of_n l ^ " " ^ hex_of_buf w
                       | GPathNone -> "P none") (m_vss_get_path !fbe (buf_of_hex b) (n_of_hex cap))
  | ["SVGP"; b] ->
      (match s_vss_get_path (buf_of_hex b) with
       | Some (RStatic id) -> "P static " ^ hex_of_n id
       | Some (RInterop p) -> "P interop " ^ hex_of_n (n_of_int (List.length p)) ^ " " ^ hex_of_buf p
       | None -> "P none")
  | ["VSD"; b; "scalar"; v] -> show (m_vss_set_data !fbe (buf_of_hex b) (DScalar (n_of_hex v)))
  | "VSD" :: b :: "bytes" :: len :: rest -> show (m_vss_set_data !fbe (buf_of_hex b) (DBytes (n_of_hex len, buf_of_hex (match rest with [h] -> h | _ -> "."))))
  | "VSD" :: b :: "elems" :: len :: w :: rest ->
      show (m_vss_set_data !fbe (buf_of_hex b) (DElems (n_of_hex len, elems_of_hex (int_of_string w) (match rest with [h] -> h | _ -> "."))))
  | ["SVSD"; b; "scalar"; w; v] -> show (s_vss_set_data (buf_of_hex b) (RScalar (nat_of_int (int_of_string w), n_of_hex v)))
  | "SVSD" :: b :: "bytes" :: rest -> show (s_vss_set_data (buf_of_hex b) (RBytes (buf_of_hex (match rest with [h] -> h | _ -> "."))))
  | "SVSD" :: b :: "elems" :: w :: rest ->
      show (s_vss_set_data (buf_of_hex b) (RElems (nat_of_int (int_of_string w), elems_of_hex (int_of_string w) (match rest with [h] -> h | _ -> "."))))
  | ["VGD"; b; dst] ->
      let bb = buf_of_hex b in
      let ew = (match m_vss_get_data !fbe bb None with _ -> ()) in ignore ew;
      show_out (function
        | GScalar v -> "D scalar " ^ hex_of_n v
        | GBytes (l, w) -> "D bytes " ^ hex_of_n l ^ " " ^ (match w with None -> "-" | Some x -> hex_of_buf x)
        | GElems (l, w) ->
            (* element width from the header, for printing only *)
            let dt = (match s_vss_get_data bb with Some (RElems (wn, _)) -> (let rec cnt = function O -> 0 | S k -> 1 + cnt k in cnt wn) | _ -> 1) in
            "D elems " ^ hex_of_n l ^ " " ^ (match w with None -> "-" | Some x -> hex_of_elems dt x)
        | GDataNone -> "D none") (m_vss_get_data !fbe bb (if dst = "-" then None else Some (n_of_hex dst)))
  | ["SVGD"; b] ->
      (match s_vss_get_data (buf_of_hex b) with
       | Some (RScalar (_, v)) -> "D scalar " ^ hex_of_n v
       | Some (RBytes x) -> "D bytes " ^ hex_of_n (n_of_int (List.length x)) ^ " " ^ hex_of_buf x
       | Some (RElems (wn, es)) -> let w = (let rec cnt = function O -> 0 | S k -> 1 + cnt k in cnt wn) in
                                   "D elems " ^ hex_of_n (n_of_int (w * List.length es)) ^ " " ^ hex_of_elems w es
       | Some (RStrings _) -> "D strings"
       | None -> "D none")
  | ["VAP"; num; out; strs; _] ->
      let ss = if strs = "-" then [] else List.map (fun t -> match SS.split_on_char ':' t with
                 | [l; h] -> (n_of_hex l, buf_of_hex h) | _ -> failwith "str") (SS.split_on_char ',' strs) in
      show_out (fun (dl, o) -> "A " ^ hex_of_n dl ^ " " ^ hex_of_buf o) (m_strs_pack !fbe ss (n_of_hex num) (buf_of_hex out))
  | ["SVAP"; strs] ->
      let ss = if strs = "-" then [] else List.map buf_of_hex (SS.split_on_char ',' strs) in
      let (dl, o) = s_strs_pack ss in "A " ^ hex_of_n dl ^ " " ^ hex_of_buf o
  | ["VAC"; dl; data] -> show_out (fun v -> "V " ^ hex_of_n v) (m_strs_count !fbe (n_of_hex dl) (buf_of_hex data))
  | ["VAU"; dl; data; num; dsts] ->
      let ds = if dsts = "." then [] else List.map (fun t -> if t = "-" then None else Some (n_of_hex t)) (SS.split_on_char ',' dsts) in
      show_out (fun l -> "U" ^ SS.concat "" (List.map (fun (n, w) -> " " ^ hex_of_n n ^ ":" ^ (match w with None -> "-" | Some x -> hex_of_buf x)) l))
        (m_strs_unpack !fbe (n_of_hex dl) (buf_of_hex data) ds (n_of_hex num))
  | ["SVAU"; dl; data] ->
      let l = s_strs_unpack (n_of_hex dl) (buf_of_hex data) in
      "U" ^ SS.concat "" (List.map (fun x -> " " ^ hex_of_n (n_of_int (List.length x)) ^ ":" ^ hex_of_buf x) l)
  | "Q" :: bufs :: ops -> history false bufs ops
  | "SQ" :: bufs :: ops -> history true bufs ops
  | ["H"; br; k; w; x] -> show (m_helper (br = "BE") (kind_of k) (width_of w) (n_of_hex x))
  | _ -> (match ext t with Some r -> r | None -> "BADCMD")

let ocaml_string (s : Oracle_core.string) : SS.t =
  let b = Buffer.create 16 in
  let rec go = function
    | EmptyString -> ()
    | String (Ascii (b0, b1, b2, b3, b4, b5, b6, b7), r) ->
        let v = List.fold_left (fun acc x -> 2 * acc + (if x then 1 else 0)) 0 [b7; b6; b5; b4; b3; b2; b1; b0] in
        Buffer.add_char b (Char.chr v); go r in
  go s; Buffer.contents b

let nz s = if s = "" then "-" else s

(* the reference layouts as text, for the case generators (single source: coq/Spec.v) *)
let dump_spec () =
  List.iter (fun s ->
    Printf.printf "FMT %s %s %s %s %s %s %s %s\n" (ocaml_string s.sp_name) (ocaml_string s.sp_src)
      (ocaml_string s.sp_type) (hex_of_n s.sp_hdr_len) (ocaml_string s.sp_get_field) (ocaml_string s.sp_set_field)
      (ocaml_string s.sp_sentinel) (nz (ocaml_string s.sp_init));
    List.iter (fun f ->
      Printf.printf "FLD %s %s %s %s %s %s\n" (ocaml_string s.sp_name) (ocaml_string f.sf_name)
        (hex_of_n f.sf_first) (hex_of_n f.sf_width) (nz (ocaml_string f.sf_getter)) (nz (ocaml_string f.sf_setter)))
      s.sp_fields;
    List.iter (fun (n, v) -> Printf.printf "INITC %s %s %s\n" (ocaml_string s.sp_name) (ocaml_string n) (hex_of_n v))
      s.sp_init_consts;
    (match canonical_header s with
     | Some h -> Printf.printf "CANON %s %s\n" (ocaml_string s.sp_name) (hex_of_buf h)
     | None -> Printf.printf "CANON %s NONE\n" (ocaml_string s.sp_name))) all_specs

let dump_views () =
  List.iteri (fun i g ->
    Printf.printf "GROUP %d" i;
    List.iter (fun (f, n) -> Printf.printf " %s:%s" (ocaml_string f) (ocaml_string n)) g;
    print_newline ()) view_groups

let dump_legacy () =
  List.iter (fun a ->
    Printf.printf "API %s %s %s %s %s\n" (ocaml_string a.la_fmt) (ocaml_string a.la_get) (ocaml_string a.la_set)
      (nz (ocaml_string a.la_init)) (nz (ocaml_string a.la_init_field));
    List.iter (fun (o, n) -> Printf.printf "ALIAS %s %s %s\n" (ocaml_string a.la_fmt) (ocaml_string o) (ocaml_string n)) a.la_aliases)
    legacy_api

let () =
  if Array.length Sys.argv > 1 && Sys.argv.(1) = "--dump-legacy" then (dump_legacy (); exit 0);
  if Array.length Sys.argv > 1 && Sys.argv.(1) = "--dump-spec" then (dump_spec (); exit 0);
  if Array.length Sys.argv > 1 && Sys.argv.(1) = "--dump-views" then (dump_views (); exit 0);
  let ext = Driver_ext.handle in
  try
    while true do
      let line = input_line stdin in
      let r = try handle ext line with e -> "EXC " ^ Printexc.to_string e in
      print_string r; print_newline ()
    done
  with End_of_file -> ()
