(* extension point for commands of later models *)
let handle (_ : string list) : string option = None
