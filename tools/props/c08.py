"""C08 - VSS decoding inverts encoding and honours the length-query convention."""
import vlib
from props.common import *
from props import fieldlib as F
from props import vsslib as V

PROP = 'C08'
FILES = ['Properties_C08.v']

def check(ctx, tier, seed, t0):
    proof = vlib.proof_status(ctx, FILES)
    rng = vlib.Rng(seed)
    msgs = V.messages(ctx, rng, tier)
    dist = {}
    failures, tie = [], []
    # messages produced by the REFERENCE encoder (not by the library), of exactly their extent
    plan = []
    for m in msgs:
        size = 12 + V.enc_path_len(m['path']) + V.enc_data_len(m['value'])
        b0 = F.hexbuf(V.header(rng, m['mode'], m['dt']) + bytes(size - 12))
        plan.append({'m': m, 'b0': b0})
    o1 = vlib.run_oracle(ctx, [V.path_cmds(p['b0'], p['m']['path'])[1] for p in plan])
    for p, o in zip(plan, o1):
        p['b1'] = o.split()[1] if o.startswith('B ') else None
    plan = [p for p in plan if p['b1']]
    o2 = vlib.run_oracle(ctx, [V.data_cmds(p['b1'], p['m']['value'])[1] for p in plan])
    for p, o in zip(plan, o2):
        p['msg'] = o.split()[1] if o.startswith('B ') else None
    plan = [p for p in plan if p['msg']]
    cmds, specs, meta = [], [], []
    for p in plan:
        m = p['m']; msg = p['msg']
        dist['dt:%02x' % m['dt']] = dist.get('dt:%02x' % m['dt'], 0) + 1
        # path: destination of exactly the path length; on-wire path size
        cap = len(m['path'][1]) if m['path'][0] == 'interop' else 0
        cmds += ['VGP %s %x' % (msg, cap), 'VCL %s' % msg]
        specs += ['SVGP %s' % msg, 'SVCL %s' % msg]
        meta += [(p, 'Avtp_Vss_GetVssPath'), (p, 'Avtp_Vss_CalcVssPathLength')]
        # data: length query (null destination) then the read into a destination of exactly the reported size
        v = m['value']
        if v[0] == 'scalar':
            cmds.append('VGD %s -' % msg); specs.append('SVGD %s' % msg); meta.append((p, 'Avtp_Vss_GetVssData'))
        else:
            n = len(v[1]) if v[0] == 'bytes' else v[1] * len(v[2])
            cmds.append('VGD %s -' % msg); specs.append(None); meta.append((p, 'Avtp_Vss_GetVssData(length query)'))
            cmds.append('VGD %s %x' % (msg, n)); specs.append('SVGD %s' % msg); meta.append((p, 'Avtp_Vss_GetVssData'))
    impl = vlib.run_harness(ctx, cmds)
    out = vlib.run_oracle(ctx, cmds + [s for s in specs if s], parallel=True)
    model = out[:len(cmds)]
    k = len(cmds)
    for j, (cmd, spec) in enumerate(zip(cmds, specs)):
        i, mo = impl[j], model[j]
        p, fn = meta[j]
        if not (i == mo or (mo == 'OOB' and i.startswith('CRASH')) or i.startswith('SKIPPED')):
            tie.append({'cmd': cmd, 'impl': i, 'model': mo})
        r = None
        if spec:
            r = out[k]; k += 1
        exp = r
        if spec is None:
            # length query: the reported length, nothing written
            v = p['m']['value']
            n = len(v[1]) if v[0] == 'bytes' else v[1] * len(v[2])
            exp = 'D %s %x -' % ('bytes' if v[0] == 'bytes' else 'elems', n)
        if exp is not None and i != exp:
            failures.append({'key': {'function': fn, 'datatype': '%02x' % p['m']['dt'], 'mode': p['m']['mode']}, 'cmd': cmd[:700], 'spec_cmd': (spec or '')[:700],
                             'impl': i[:300], 'expected': exp[:300], 'model': mo[:300],
                             'what': '%s (datatype 0x%02x, addr_mode %d): got %s, reference decoder %s' % (fn, p['m']['dt'], p['m']['mode'], i[:80], exp[:80])})
    # destinations one byte too small / messages truncated by one byte: the model must predict the out-of-bounds access
    edge = []
    for p in plan[::7]:
        v = p['m']['value']
        if v[0] != 'scalar':
            n = len(v[1]) if v[0] == 'bytes' else v[1] * len(v[2])
            if n >= 2:       # a zero-size heap block still has one addressable byte under ASan
                edge.append('VGD %s %x' % (p['msg'], n - 1))
        # truncation by a whole element: ASan does not see unaligned accesses that are only partly outside
        edge.append('VGD %s -' % p['msg'][:-2 * v[1]] if v[0] == 'scalar' else 'VGP %s 0' % p['msg'][:24])
    ei = vlib.run_harness(ctx, edge); em = vlib.run_oracle(ctx, edge)
    for cmd, i, mo in zip(edge, ei, em):
        if not (i == mo or (mo == 'OOB' and i.startswith('CRASH')) or i.startswith('SKIPPED')):
            tie.append({'cmd': cmd, 'impl': i, 'model': mo})
    dist['edge(short destination / truncated message)'] = len(edge)
    if tie and not failures:
        proof['broken'].append({'file': 'correspondence C08 (VssModel.vss_get_path / vss_get_data vs Vss.c)', 'line': 0,
                                'error': '%d cases differ, e.g. %s -> impl %s, model %s' % (len(tie), tie[0]['cmd'][:200], tie[0]['impl'][:120], tie[0]['model'][:120])})
    total = len(cmds) + len(edge)
    streams = stream_summary(total, total,
        'messages produced by the extracted REFERENCE encoder (VssSpec.enc_path / enc_data) for all 24 datatypes x both address modes x the path and value sets of C07, '
        'each of exactly its extent (ASan redzone behind the last byte); decoded by the library: path into a destination of exactly the path length, on-wire path size, '
        'value first with a null destination (length query) then into a destination of exactly the reported size; results compared with the extracted model and the '
        'reference decoder; destinations one byte short and truncated messages to tie the out-of-bounds predictions to the sanitizer. non-trivial = distinct command',
        [{'cmd': c[:120], 'impl': i[:70], 'model': mo[:70]} for c, i, mo in list(zip(cmds, impl, model))[::max(1, len(cmds) // 6)]],
        len(tie), len(failures), {'input_distribution': dist})
    return vlib.finish(PROP, tier, seed, t0, proof, streams, failures, ASSUME + ['float/double objects use the integer byte order of the host (every IEEE-754 target of gcc/clang)'], TRUSTED + ['coq/VssSpec.v: hand transcription of acf-vss.md'])

def replay(ctx, path):
    def rerun(ctx, f):
        i = vlib.run_harness(ctx, [f['cmd']])[0]
        exp = f.get('expected')
        if f.get('spec_cmd'):
            exp = vlib.run_oracle(ctx, [f['spec_cmd']])[0]
        return {'impl': i[:200], 'expected': (exp or '')[:200], 'fails': i[:300] != (exp or '')[:300]}
    return replay_generic(ctx, path, rerun)
