"""Case generation and comparison for the header-field properties (C01-C05, C11, C12, C14, C15, C17)."""
import subprocess, json, os
import vlib
from props.common import *

class Fmt:
    pass

def load_spec(ctx):
    r = vlib.sh([ctx['oracle'], '--dump-spec'], inp=b'', timeout=60)
    fmts = {}
    order = []
    for line in r.stdout.decode().split('\n'):
        p = line.split()
        if not p:
            continue
        if p[0] == 'FMT':
            f = Fmt()
            f.name, f.src, f.type, f.hdr = p[1], p[2], p[3], int(p[4], 16)
            f.get_field, f.set_field, f.sentinel = p[5], p[6], p[7]
            f.init = None if p[8] == '-' else p[8]
            f.fields, f.initc, f.canon = [], [], None
            fmts[f.name] = f; order.append(f.name)
        elif p[0] == 'FLD':
            fmts[p[1]].fields.append({'name': p[2], 'first': int(p[3], 16), 'width': int(p[4], 16),
                                      'getter': None if p[5] == '-' else p[5], 'setter': None if p[6] == '-' else p[6]})
        elif p[0] == 'INITC':
            fmts[p[1]].initc.append((p[2], int(p[3], 16)))
        elif p[0] == 'CANON':
            fmts[p[1]].canon = p[2]
    return [fmts[n] for n in order]

def enum_values(ctx):
    ev = {}
    for u in ctx['model']['units']:
        ev.update(u['enum_values'])
    return ev

def unit_of(ctx, src):
    for u in ctx['model']['units']:
        if u['src'] == src:
            return u
    return None

def hexbuf(b):
    return bytes(b).hex() if len(b) else '.'

def patterns(rng, nbytes, first, width, n_random, walk_all=False):
    """buffers aimed at the case splits of the proofs: constant fills, one bit set/cleared at the field's
    edges and just outside them, optionally every single bit, and random contents"""
    out = [bytes(nbytes), bytes([0xff]) * nbytes, bytes([0xa5]) * nbytes]
    nb = nbytes * 8
    idxs = set()
    if walk_all:
        idxs = set(range(nb))
    else:
        for i in (first - 1, first, first + 1, first + width - 2, first + width - 1, first + width, first + 31, first + 32):
            if 0 <= i < nb:
                idxs.add(i)
    for i in sorted(idxs):
        b = bytearray(nbytes); b[i // 8] |= 0x80 >> (i % 8); out.append(bytes(b))
        if not walk_all:
            b = bytearray([0xff]) * nbytes; b[i // 8] &= ~(0x80 >> (i % 8)) & 0xff; out.append(bytes(b))
    for _ in range(n_random):
        out.append(rng.bytes(nbytes))
    return out

def values_for(rng, width, n_random):
    vs = [0, 1, (1 << width) - 1 if width else 0, 1 << width, (1 << width) + 1, (1 << 64) - 1,
          0xa5a5a5a5a5a5a5a5, (1 << (width - 1)) if width else 0]
    for _ in range(n_random):
        vs.append(rng.bits(64)); vs.append(rng.bits(width) if width else 0)
    seen = []
    for v in vs:
        v &= (1 << 64) - 1
        if v not in seen:
            seen.append(v)
    return seen

def put_bits(buf, first, width, value):
    """bytes with the bit range [first, first+width) (wire numbering, MSB first) replaced by value mod 2^width"""
    b = bytearray(buf)
    for k in range(width):
        pos = first + k
        if pos // 8 >= len(b):
            break
        bit = (value >> (width - 1 - k)) & 1
        if bit:
            b[pos // 8] |= 0x80 >> (pos % 8)
        else:
            b[pos // 8] &= ~(0x80 >> (pos % 8)) & 0xff
    return bytes(b)

def related_priors(rng, n, first, width, v):
    """prior buffer contents RELATED to the value about to be written to the field: the field already holds v, v with one
    half replaced, v with one bit flipped; surrounded by never-zero random bytes.  A 'nothing to do' shortcut that compares
    (part of) the current content with the value is only visible on such buffers."""
    if width == 0:
        return []
    m = (1 << width) - 1
    h = width // 2
    lo = (1 << h) - 1
    cur = [v & m, (v & lo) | (rng.bits(width) & ~lo & m), (v & ~lo & m) | (rng.bits(width) & lo), (v ^ 1) & m, (v ^ (1 << (width - 1))) & m]
    out = []
    for c in cur:
        base = bytes(x | 1 for x in rng.bytes(n))
        out.append(put_bits(base, first, width, c))
    return out

# ---------------------------------------------------------------------------
def get_cases(ctx, fmts, rng, tier, trailing=(0, 3)):
    """named-field reads through both paths"""
    ev = enum_values(ctx)
    nr = 2 if tier == 'quick' else 40
    cases = []
    for f in fmts:
        for fld in f.fields:
            idx = ev.get(fld['name'])
            for extra in trailing:
                n = f.hdr + extra
                pats = patterns(rng, n, fld['first'], fld['width'], nr, walk_all=(extra == 0 and (tier != 'quick' or f.hdr <= 16)))
                for b in pats:
                    hb = hexbuf(b)
                    spec = 'SG %s %s %s' % (f.name, fld['name'], hb)
                    if idx is not None:
                        cases.append({'kind': 'get', 'cmd': 'G %s %s %x' % (f.get_field, hb, idx), 'spec': spec,
                                      'key': {'format': f.name, 'field': fld['name'], 'accessor': f.get_field}, 'buf': hb})
                    if fld['getter']:
                        cases.append({'kind': 'get', 'cmd': 'G %s %s' % (fld['getter'], hb), 'spec': spec,
                                      'key': {'format': f.name, 'field': fld['name'], 'accessor': fld['getter']}, 'buf': hb})
    return cases

def set_cases(ctx, fmts, rng, tier, trailing=(0, 5)):
    ev = enum_values(ctx)
    nr = 1 if tier == 'quick' else 5
    cases = []
    for f in fmts:
        for fld in f.fields:
            idx = ev.get(fld['name'])
            for extra in trailing:
                n = f.hdr + extra
                fills = [bytes(n), bytes([0xff]) * n, bytes([0xa5]) * n] + [rng.bytes(n) for _ in range(nr)]
                vals = values_for(rng, fld['width'], nr)
                combos = [(b, v) for b in fills for v in (vals if extra == trailing[0] else vals[:4])]
                if extra == trailing[0]:
                    for v in [rng.bits(fld['width']), rng.bits(64), (1 << fld['width']) - 1, rng.bits(max(1, fld['width'] // 2)), 0]:      # incl. values that fit the low half
                        combos += [(b, v) for b in related_priors(rng, n, fld['first'], fld['width'], v)]
                for b, v in combos:
                    hb = hexbuf(b)
                    if True:
                        spec = 'SS %s %s %s %x' % (f.name, fld['name'], hb, v)
                        if idx is not None:
                            cases.append({'kind': 'set', 'cmd': 'S %s %s %x %x' % (f.set_field, hb, idx, v), 'spec': spec,
                                          'key': {'format': f.name, 'field': fld['name'], 'accessor': f.set_field}, 'buf': hb})
                        if fld['setter']:
                            cases.append({'kind': 'set', 'cmd': 'S %s %s %x' % (fld['setter'], hb, v), 'spec': spec,
                                          'key': {'format': f.name, 'field': fld['name'], 'accessor': fld['setter']}, 'buf': hb,
                                          'dedicated': True, 'value': v, 'width': fld['width']})
    return cases

def init_cases(ctx, fmts, rng, tier, trailing=(0, 7)):
    nr = 3 if tier == 'quick' else 60
    cases = []
    for f in fmts:
        if not f.init:
            continue
        for extra in trailing:
            n = f.hdr + extra
            fills = [bytes(n), bytes([0xff]) * n, bytes([0xa5]) * n, bytes([0x5a]) * n] + [rng.bytes(n) for _ in range(nr)]
            # prior contents RELATED to the result: the first k bytes already equal the canonical header, never-zero garbage behind
            # (an "already initialised" shortcut that looks at part of the header must still produce the whole canonical header)
            if f.canon and f.canon != 'NONE':
                canon = bytes.fromhex(f.canon)
                for k in sorted(set([1, 2, 4, 8, 12, f.hdr])):
                    if k <= f.hdr:
                        fills.append(canon[:k] + bytes(x | 1 for x in rng.bytes(n - k)))
            for b in fills:
                hb = hexbuf(b)
                cases.append({'kind': 'init', 'cmd': 'I %s %s' % (f.init, hb), 'spec': 'SI %s %s' % (f.name, hb),
                              'key': {'format': f.name, 'accessor': f.init}, 'buf': hb})
    return cases

SHAPES = [(o, w) for o in range(32) for w in range(65)]
def nquad(o, w):
    return 0 if w == 0 else (o + w + 31) // 32

def raw_cases(ctx, rng, tier, setter):
    """the generic reader / writer with caller-supplied one-row tables: all 2080 shapes the reader accepts"""
    cases = []
    qw = ctx['model_cfg']['qw_set' if setter else 'qw_get']
    highs = [1, 2, 3, 7, 100, 253, 254, 255]
    quick = tier == 'quick'
    for n, (o, w) in enumerate(SHAPES):
        h = highs[n % len(highs)]
        qs = ([0, h] if (h <= 7 or (n // len(highs)) % 6 == 0 or not setter) else [0]) if quick else [0] + highs
        for q in qs:
            nb = 4 * (q + nquad(o, w))
            first = 32 * q + o
            if q > 7 and quick:
                pats = [rng.bytes(nb)]
            elif q > 0 and quick:
                pats = [bytes([0xff]) * nb, rng.bytes(nb)]
            elif quick and setter:
                pats = [bytes(nb), bytes([0xff]) * nb, rng.bytes(nb)]
            elif setter and q > 0:
                # thorough writer runs: full pattern / value sets at quadlet 0 only; higher start quadlets (buffers up to 1 KiB)
                # get two fills and two values each, otherwise the stream grows to millions of kilobyte-sized cases
                pats = [bytes([0xff]) * nb, rng.bytes(nb)]
            else:
                pats = patterns(rng, nb, first, w, 1 if quick else (2 if setter else 8))
            if nb == 0:
                pats = [b'']
            for b in pats:
                hb = hexbuf(b)
                if not setter:
                    cases.append({'kind': 'get', 'cmd': 'RG %x %x %x %x %s' % (qw, q, o, w, hb),
                                  'spec': 'SX %x %x %s' % (first, w, hb), 'key': {'shape': 'q%d o%d w%d' % (q, o, w)}, 'buf': hb})
                else:
                    vals = values_for(rng, w, 0)
                    if quick:
                        vals = [vals[2], vals[4] & ((1 << 64) - 1), rng.bits(64)] if q == 0 else [rng.bits(64)]
                    elif q > 0:
                        vals = [vals[4] & ((1 << 64) - 1), rng.bits(64)]
                    else:
                        vals = vals[:4] + [rng.bits(64)]
                    for v in vals:
                        cases.append({'kind': 'set', 'cmd': 'RS %x %x %x %x %s %x' % (qw, q, o, w, hb, v),
                                      'spec': 'SN %x %x %s %x' % (first, w, hb, v), 'key': {'shape': 'q%d o%d w%d' % (q, o, w)}, 'buf': hb})
    return cases

# ---------------------------------------------------------------------------
def model_cfg(ctx):
    """Utils.c widths as the translator read them"""
    u = None
    for x in ctx['model']['units']:
        if 'utils' in x:
            u = x['utils']
    def w(fn, key):
        try:
            return u[fn][key] or 0
        except Exception:
            return 0
    return {'qw_get': w('Avtp_GetField', 'quadletId'), 'qw_set': w('Avtp_SetField', 'quadletId')}

def run_cases(ctx, cases, env_extra=None):
    """runs implementation, model and reference on every case; fills impl/model/ref"""
    impl = vlib.run_harness(ctx, [c['cmd'] for c in cases], env_extra=env_extra)
    lines = [c['cmd'] for c in cases] + [c['spec'] for c in cases if c.get('spec')]
    out = vlib.run_oracle(ctx, lines, parallel=True)      # G/S/I/RG/RS/SG/SS/SI/SX/SN/L commands carry their whole input
    n = len(cases)
    k = n
    for i, c in enumerate(cases):
        c['impl'] = impl[i] if i < len(impl) else 'MISSING'
        c['model'] = out[i]
        if c.get('spec'):
            c['ref'] = out[k]; k += 1
        else:
            c['ref'] = None
    return cases

def norm_impl(c):
    """implementation result in the oracle's vocabulary; a reader that modified its buffer is flagged"""
    s = c['impl']
    if s.startswith('CRASH'):
        return s
    p = s.split()
    if c['kind'] == 'get':
        if len(p) == 3 and p[0] == 'V':
            if p[2] != c['buf'] and not (p[2] == '-' ):
                return 'V %s MODIFIED-BUFFER %s' % (p[1], p[2])
            return 'V %s' % p[1]
        return s
    return s

def same(a, b):
    if a is None or b is None:
        return False
    pa, pb = a.split(), b.split()
    if len(pa) >= 2 and len(pb) >= 2 and pa[0] == 'V' and pb[0] == 'V':
        try:
            return int(pa[1], 16) == int(pb[1], 16) and len(pa) == len(pb) == 2
        except ValueError:
            return False
    return a == b

def judge(cases, oob_is_crash=True):
    """returns (failures against the reference, tie mismatches)"""
    failures, tie = [], []
    for c in cases:
        if c['impl'].startswith('SKIPPED'):
            continue
        i = norm_impl(c)
        m = c['model']
        r = c['ref']
        # tie: the model predicts the implementation; a modelled out-of-bounds access corresponds to a sanitizer abort
        tie_ok = same(i, m) or (m == 'OOB' and i.startswith('CRASH'))
        if not tie_ok:
            tie.append(c)
        if r is not None and r not in ('UNMOD',):
            if not same(i, r):
                failures.append({'key': c['key'], 'cmd': c['cmd'], 'spec_cmd': c['spec'], 'impl': i, 'expected': r, 'model': m,
                                 'what': '%s: implementation %s, reference %s' % (c['key'], i[:80], r[:80])})
    return failures, tie

def rerun_case(ctx, f):
    c = {'kind': 'get' if f['cmd'].split()[0] in ('G', 'RG') else 'set', 'cmd': f['cmd'], 'spec': f.get('spec_cmd'), 'key': f.get('key'),
         'buf': f['cmd'].split()[2] if f['cmd'].split()[0] in ('G', 'S', 'I') else f['cmd'].split()[5]}
    run_cases(ctx, [c])
    i = norm_impl(c)
    return {'impl': i, 'expected': c['ref'], 'fails': not same(i, c['ref'])}
