"""C03 - header operations touch only the declared header, whose size is the standard's."""
import vlib
from props.common import *
from props import fieldlib as F

PROP = 'C03'
FILES = ['Properties_C03.v']

def check(ctx, tier, seed, t0):
    proof = vlib.proof_status(ctx, FILES)
    rng = vlib.Rng(seed)
    fmts = F.load_spec(ctx)
    # every accessor and initialiser on a heap block of EXACTLY the wire header length: ASan redzones on both sides
    cases = F.get_cases(ctx, fmts, rng, 'quick', trailing=(0,)) if tier == 'quick' else F.get_cases(ctx, fmts, rng, tier, trailing=(0,))
    # keep the exact-extent stream small in the quick tier: three buffers per accessor are enough to reach every access
    if tier == 'quick':
        seen = {}
        keep = []
        for c in cases:
            k = c['key']['accessor'] + c['key']['field']
            seen[k] = seen.get(k, 0) + 1
            if seen[k] <= 3:
                keep.append(c)
        cases = keep
    sc = F.set_cases(ctx, fmts, rng, 'quick', trailing=(0,))
    if tier == 'quick':
        seen = {}
        keep = []
        for c in sc:
            k = c['key']['accessor'] + c['key']['field']
            seen[k] = seen.get(k, 0) + 1
            if seen[k] <= 3:
                keep.append(c)
        sc = keep
    cases += sc + F.init_cases(ctx, fmts, rng, tier, trailing=(0,))
    F.run_cases(ctx, cases)
    failures, tie = F.judge(cases)
    # sizes as compiled
    size_fail = []
    n_size = 0
    types = {}
    for u in ctx['model']['units']:
        for tn, t in u['types'].items():
            types[(u['src'], tn)] = t
    payload_cases = []
    for f in fmts:
        t = types.get((f.src, f.type))
        n_size += 1
        if t is None:
            size_fail.append({'key': {'format': f.name, 'what': 'type'}, 'cmd': 'probe sizeof(%s)' % f.type, 'impl': 'type not found', 'expected': str(f.hdr)})
            continue
        facts = {'sizeof': t['sizeof'], 'offsetof_payload': t['offsetof'].get('payload'), 'len_macro': t['len_macro_value']}
        for k, v in facts.items():
            if v != f.hdr:
                size_fail.append({'key': {'format': f.name, 'what': k}, 'cmd': 'probe %s of %s (%s)' % (k, f.type, t.get('len_macro')),
                                  'impl': str(v), 'expected': str(f.hdr),
                                  'what': '%s of %s is %s, the wire header has %d bytes' % (k, f.type, v, f.hdr)})
    # payload accessors return the address right after the header
    for u in ctx['model']['units']:
        for fn in u['funcs']:
            if fn['kind'] == 'payload':
                ty = fn['ptypes'][0].replace('*', '').strip()
                f = [x for x in fmts if x.type == ty and x.src == u['src']]
                if f:
                    hb = F.hexbuf(bytes(f[0].hdr))
                    payload_cases.append({'kind': 'get', 'cmd': 'G %s %s' % (fn['name'], hb), 'spec': None, 'key': {'format': f[0].name, 'accessor': fn['name']},
                                          'buf': hb, 'expect': f[0].hdr})
    if payload_cases:
        out = vlib.run_harness(ctx, [c['cmd'] for c in payload_cases])
        for c, o in zip(payload_cases, out):
            v = parse_v(o)
            if v is None or v[0] != c['expect']:
                size_fail.append({'key': c['key'], 'cmd': c['cmd'], 'impl': o, 'expected': 'V %x' % c['expect'],
                                  'what': '%s returns header+%s, expected header+%d' % (c['key']['accessor'], o, c['expect'])})
    failures += size_fail
    if tie and not failures:
        proof['broken'].append({'file': 'correspondence C03', 'line': 0,
                                'error': '%d cases differ, e.g. %s -> impl %s, model %s' % (len(tie), tie[0]['cmd'][:200], tie[0]['impl'][:80], tie[0]['model'][:80])})
    total = len(cases) + n_size * 3 + len(payload_cases)
    streams = stream_summary(total, len(set(c['cmd'] for c in cases)) + n_size * 3 + len(payload_cases),
        'every getter, setter and initialiser of all 23 formats called on a posix_memalign block of exactly the wire header length (Spec.v), '
        'under AddressSanitizer (redzones directly before and after the block) and UBSan; sizeof / offsetof(payload) / header-length macro of '
        'every header type as measured by gcc-compiled probes against the wire header size; payload accessors against header length. '
        'non-trivial = distinct command / distinct measured fact',
        [{'cmd': c['cmd'][:120], 'impl': c['impl'][:70], 'model': c['model'][:70]} for c in cases[::max(1, len(cases) // 5)]] +
        [{'probe': 'sizeof(%s)' % f.type, 'value': (types.get((f.src, f.type)) or {}).get('sizeof'), 'wire': f.hdr} for f in fmts[:2]],
        len(tie), len(failures),
        {'input_distribution': {'exact_extent_calls': len(cases), 'size_facts': n_size * 3, 'payload_accessors': len(payload_cases)}})
    return vlib.finish(PROP, tier, seed, t0, proof, streams, failures, ASSUME, TRUSTED)

def replay(ctx, path):
    def rerun(ctx, f):
        if f['cmd'].startswith('probe'):
            return {'impl': 're-run ./check C03 (probe facts are re-measured on every run)', 'expected': f['expected'], 'fails': True}
        return F.rerun_case(ctx, f)
    return replay_generic(ctx, path, rerun)
