"""C03 - header operations touch only the declared header, whose size is the standard's."""
import vlib
from props.common import *
from props import fieldlib as F

PROP = 'C03'
FILES = ['Properties_C03.v']

def check(ctx, tier, seed, t0):
    proof = vlib.proof_status(ctx, FILES)
    rng = vlib.Rng(seed)
    fmts = F.load_spec(ctx)
    # every accessor and initialiser on a heap block of EXACTLY the wire header length: ASan redzones on both sides
    cases = F.get_cases(ctx, fmts, rng, 'quick', trailing=(0,)) if tier == 'quick' else F.get_cases(ctx, fmts, rng, tier, trailing=(0,))
    # keep the exact-extent stream small in the quick tier: three buffers per accessor are enough to reach every access
    if tier == 'quick':
        seen = {}
        keep = []
        for c in cases:
            k = c['key']['accessor'] + c['key']['field']
            seen[k] = seen.get(k, 0) + 1
            if seen[k] <= 3:
                keep.append(c)
        cases = keep
    sc = F.set_cases(ctx, fmts, rng, 'quick', trailing=(0,))
    if tier == 'quick':
        seen = {}
        keep = []
        for c in sc:
            k = c['key']['accessor'] + c['key']['field']
            seen[k] = seen.get(k, 0) + 1
            if seen[k] <= 3:
                keep.append(c)
        sc = keep
    cases += sc + F.init_cases(ctx, fmts, rng, tier, trailing=(0,))
    F.run_cases(ctx, cases)
    failures, tie = F.judge(cases)
    # sizes as compiled
    size_fail = []
    n_size = 0
    types = {}
    for u in ctx['model']['units']:
        for tn, t in u['types'].items():
            types[(u['src'], tn)] = t
    payload_cases = []
    for f in fmts:
        t = types.get((f.src, f.type))
        n_size += 1
        if t is None:
            size_fail.append({'key': {'format': f.name, 'what': 'type'}, 'cmd': 'probe sizeof(%s)' % f.type, 'impl': 'type not found', 'expected': str(f.hdr)})
            continue
        facts = {'sizeof': t['sizeof'], 'offsetof_payload': t['offsetof'].get('payload'), 'len_macro': t['len_macro_value']}
        for k, v in facts.items():
            if v != f.hdr:
                size_fail.append({'key': {'format': f.name, 'what': k}, 'cmd': 'probe %s of %s (%s)' % (k, f.type, t.get('len_macro')),
                                  'impl': str(v), 'expected': str(f.hdr),
                                  'what': '%s of %s is %s, the wire header has %d bytes' % (k, f.type, v, f.hdr)})
    # payload accessors return the address right after the header
    for u in ctx['model']['units']:
        for fn in u['funcs']:
            if fn['kind'] == 'payload':
                ty = fn['ptypes'][0].replace('*', '').strip()
                f = [x for x in fmts if x.type == ty and x.src == u['src']]
                if f:
                    hb = F.hexbuf(bytes(f[0].hdr))
                    payload_cases.append({'kind': 'get', 'cmd': 'G %s %s' % (fn['name'], hb), 'spec': None, 'key': {'format': f[0].name, 'accessor': fn['name']},
                                          'buf': hb, 'expect': f[0].hdr})
    if payload_cases:
        out = vlib.run_harness(ctx, [c['cmd'] for c in payload_cases])
        for c, o in zip(payload_cases, out):
            v = parse_v(o)
            if v is None or v[0] != c['expect']:
                size_fail.append({'key': c['key'], 'cmd': c['cmd'], 'impl': o, 'expected': 'V %x' % c['expect'],
                                  'what': '%s returns header+%s, expected header+%d' % (c['key']['accessor'], o, c['expect'])})
    failures += size_fail
    # the deprecated entry points (wrappers and initialisers) on exact-extent blocks as well: they are header operations too
    from props import c11 as C11
    legacy_cmds = []
    try:
        apis, _aliases = C11.load_legacy(ctx)
    except Exception:
        apis = []
    ev = F.enum_values(ctx)
    byname = {f.name: f for f in fmts}
    for a in apis:
        f = byname.get(a['fmt'])
        if f is None:
            continue
        vw = 32 if a['set'] == 'avtp_pdu_set' else 64
        for fld in f.fields:
            idx = ev.get(fld['name'])
            if idx is None:
                continue
            for b in [bytes(f.hdr), bytes([0xff]) * f.hdr, rng.bytes(f.hdr)][:(2 if tier == 'quick' else 3)]:
                hb = F.hexbuf(b)
                legacy_cmds.append(({'format': f.name, 'field': fld['name'], 'accessor': a['get']}, 'L %s %s %x 0 %x' % (a['get'], hb, idx, rng.bits(32))))
                legacy_cmds.append(({'format': f.name, 'field': fld['name'], 'accessor': a['set']}, 'L %s %s %x %x x' % (a['set'], hb, idx, rng.bits(vw))))
        if a['init']:
            for b in [bytes(f.hdr), bytes([0xa5]) * f.hdr, rng.bytes(f.hdr)]:
                for x in ([0, 1, 2, 3, 0x7f, 0xff] if a['init_field'] else [0]):
                    legacy_cmds.append(({'format': f.name, 'accessor': a['init']}, 'L %s %s %x 0 x' % (a['init'], F.hexbuf(b), x)))
    n_legacy = len(legacy_cmds)
    legacy_unmodelled = []
    if legacy_cmds:
        impl_l = vlib.run_harness(ctx, [c for _, c in legacy_cmds])
        model_l = vlib.run_oracle(ctx, [c for _, c in legacy_cmds])
        for (key, c), il, ml in zip(legacy_cmds, impl_l, model_l):
            if il != ml and not il.startswith('SKIPPED') and not il.startswith('CRASH') and not ml.startswith('R '):
                legacy_unmodelled.append((c, il, ml))       # the wrapper is no longer recognised by the translator: not a witness by itself
            elif il != ml and not il.startswith('SKIPPED'):
                failures.append({'key': key, 'cmd': c, 'impl': il, 'expected': ml, 'kind': 'legacy',
                                 'what': '%s on a block of exactly the header length: implementation %s, model (header-only access) %s' % (key['accessor'], il[:90], ml[:90])})
    if legacy_unmodelled and not failures:
        proof['broken'].append({'file': 'correspondence C03 (deprecated entry points on exact-extent blocks)', 'line': 0,
                                'error': '%d calls have no model result, e.g. %s -> impl %s, model %s' % (len(legacy_unmodelled), legacy_unmodelled[0][0][:160], legacy_unmodelled[0][1][:60], legacy_unmodelled[0][2][:40])})
    if tie and not failures:
        proof['broken'].append({'file': 'correspondence C03', 'line': 0,
                                'error': '%d cases differ, e.g. %s -> impl %s, model %s' % (len(tie), tie[0]['cmd'][:200], tie[0]['impl'][:80], tie[0]['model'][:80])})
    total = len(cases) + n_size * 3 + len(payload_cases) + n_legacy
    streams = stream_summary(total, len(set(c['cmd'] for c in cases)) + n_size * 3 + len(payload_cases) + n_legacy,
        'every getter, setter and initialiser of all 23 formats called on a posix_memalign block of exactly the wire header length (Spec.v), '
        'under AddressSanitizer (redzones directly before and after the block) and UBSan; sizeof / offsetof(payload) / header-length macro of '
        'every header type as measured by gcc-compiled probes against the wire header size; payload accessors against header length; the deprecated get / set / init '
        'entry points of the five legacy formats on exact-extent blocks against the model of the wrappers. '
        'non-trivial = distinct command / distinct measured fact',
        [{'cmd': c['cmd'][:120], 'impl': c['impl'][:70], 'model': c['model'][:70]} for c in cases[::max(1, len(cases) // 5)]] +
        [{'probe': 'sizeof(%s)' % f.type, 'value': (types.get((f.src, f.type)) or {}).get('sizeof'), 'wire': f.hdr} for f in fmts[:2]],
        len(tie), len(failures),
        {'input_distribution': {'exact_extent_calls': len(cases), 'size_facts': n_size * 3, 'payload_accessors': len(payload_cases), 'deprecated_entry_points_exact_extent': n_legacy}})
    return vlib.finish(PROP, tier, seed, t0, proof, streams, failures, ASSUME, TRUSTED)

def replay(ctx, path):
    def rerun(ctx, f):
        if f['cmd'].startswith('probe'):
            return {'impl': 're-run ./check C03 (probe facts are re-measured on every run)', 'expected': f['expected'], 'fails': True}
        if f.get('kind') == 'legacy':
            il = vlib.run_harness(ctx, [f['cmd']])[0]; ml = vlib.run_oracle(ctx, [f['cmd']])[0]
            return {'impl': il, 'expected': ml, 'fails': il != ml}
        return F.rerun_case(ctx, f)
    return replay_generic(ctx, path, rerun)
