"""C14 - wire bytes do not depend on host endianness."""
import vlib
from props.common import *
from props import fieldlib as F
from props import c01, c06, c09, c10, c11, vsslib as V

PROP = 'C14'
FILES = ['Properties_C14.v', 'Properties_C13.v']

def sample(rng, l, n):
    return l if len(l) <= n else rng.sample(l, n)

def commands(ctx, tier, seed):
    rng = vlib.Rng(seed)
    k = 1 if tier == 'quick' else 6
    ctx['model_cfg'] = F.model_cfg(ctx)
    fmts = F.load_spec(ctx)
    out = {}
    out['generic reader'] = [c['cmd'] for c in sample(rng, F.raw_cases(ctx, rng, 'quick', setter=False), 300 * k)]
    out['generic writer'] = [c['cmd'] for c in sample(rng, F.raw_cases(ctx, rng, 'quick', setter=True), 300 * k)]
    out['named getters'] = [c['cmd'] for c in sample(rng, F.get_cases(ctx, fmts, rng, 'quick'), 400 * k)]
    out['named setters'] = [c['cmd'] for c in sample(rng, F.set_cases(ctx, fmts, rng, 'quick'), 400 * k)]
    out['initialisers'] = [c['cmd'] for c in sample(rng, F.init_cases(ctx, fmts, rng, 'quick'), 100 * k)]
    out['deprecated API'] = [c['cmd'] for c in sample(rng, [c for c in c11.build(ctx, 'quick', seed) if c['cmd'].startswith('L ')], 150 * k)]
    cc, _ = c06.build(ctx, 'quick', seed)
    out['CAN builders'] = [c['cmd'] for c in sample(rng, [c for c in cc if c['n'] <= 70], 200 * k)]
    # payload accessors: SetPayload on random buffers, payload length / payload pointer on the messages the builder produced
    pa = []
    for n in [0, 1, 2, 3, 4, 7, 8, 13, 31, 64] * k:
        pa.append('CP %s %s %x' % (F.hexbuf(rng.bytes(16 + n + rng.bits(2))), F.hexbuf(rng.bytes(n)), n))
    built = vlib.run_harness(ctx, [c for c in out['CAN builders'] if c.startswith('CC full')][:30 * k])
    pa += ['CL %s' % o.split()[1] for o in built if o.startswith('B ') and o.split()[1] != '.']
    out['CAN payload accessors'] = pa
    vp, _ = c09.build(ctx, 'quick', seed)
    out['VSS pad'] = [c['cmd'] for c in sample(rng, [c for c in vp if c['cmd'].startswith('VP') and not c.get('arena')], 100 * k)]
    sa, _ = c10.build(ctx, 'quick', seed)
    out['VSS string arrays'] = [c['cmd'] for c in sample(rng, [c for c in sa if len(c['cmd']) < 3000], 150 * k)]
    # VSS codec: path/data writes and reads on buffers whose header the forced configuration will misread in its own way
    # VSS codec: SetVssPath first, then the other operations on the buffer the library itself produced (so that lengths in
    # the message are sane in either configuration).  Forced configuration: the first header quadlet byte-reversed, so that
    # library and model instance both see the intended address mode / datatype and the element width of the caller's array matches.
    for cfgname, fbe in (('VSS codec', False), ('VSS codec@fbe', True)):
        plan = []
        for m in sample(rng, V.messages(ctx, rng, 'quick'), 120 * k):
            size = 12 + V.enc_path_len(m['path']) + V.enc_data_len(m['value']) + 4
            h = V.header(rng, m['mode'], m['dt'])
            if fbe:
                h = h[3::-1] + h[4:]
            b0 = F.hexbuf(h + rng.bytes(size - 12))
            plan.append((m, V.path_cmds(b0, m['path'])[0]))
        first = vlib.run_harness(ctx, [c for _, c in plan], exe=ctx.get('hx_fbe') if fbe else None)
        vs = [c for _, c in plan]
        for (m, _), o in zip(plan, first):
            if o.startswith('B '):
                b1 = o.split()[1]
                cap = len(m['path'][1]) if m['path'][0] == 'interop' else 0
                vs += [V.data_cmds(b1, m['value'])[0], 'VCL %s' % b1, 'VGP %s %x' % (b1, cap)]
        # ... and the data reader on the messages the data writer produced (destination of exactly the data size)
        # (little-endian configuration only: in the forced configuration harness and driver would print the elements of the
        #  misread datatype with different widths, a formatting artefact and not a property of the library)
        dset = [] if fbe else [(m, c) for (m, _), o in zip(plan, first) if o.startswith('B ') for c in [V.data_cmds(o.split()[1], m['value'])[0]]]
        second = vlib.run_harness(ctx, [c for _, c in dset], exe=ctx.get('hx_fbe') if fbe else None) if dset else []
        for (m, _), o in zip(dset, second):
            if o.startswith('B '):
                v = m['value']
                cap = 0 if v[0] == 'scalar' else (len(v[1]) if v[0] == 'bytes' else v[1] * len(v[2]))
                vs.append('VGD %s %s' % (o.split()[1], '-' if v[0] == 'scalar' else '%x' % cap))
        out[cfgname] = vs
    return out

NOSUCH_SEEN = []

def compare(ctx, cmds, fbe):
    impl = vlib.run_harness(ctx, cmds, exe=ctx['hx_fbe'] if fbe else None)
    model = vlib.run_oracle(ctx, cmds, fbe=fbe)
    bad, unmod = [], 0
    for c, i, m in zip(cmds, impl, model):
        if m in ('UNMOD', 'NOSUCH'):
            unmod += 1          # outside the model's domain, or a function the translator does not recognise (any more): not a comparison
            if m == 'NOSUCH':
                NOSUCH_SEEN.append(c)
            continue
        ii = i
        if c.split()[0] in ('G', 'RG') and i.startswith('V '):
            ii = ' '.join(i.split()[:2])
        if not (F.same(ii, m) or ii == m or (m == 'OOB' and i.startswith('CRASH')) or i.startswith('SKIPPED')):
            bad.append({'cmd': c, 'impl': i, 'model': m})
    return bad, unmod

def check(ctx, tier, seed, t0):
    proof = vlib.proof_status(ctx, FILES)
    fam = commands(ctx, tier, seed)
    dist, failures = {}, []
    total = 0
    tie_bad = []
    import time as _t
    for name, cmds in fam.items():
        for fbe in (False, True):
            if (name == 'VSS codec' and fbe) or (name == 'VSS codec@fbe' and not fbe):
                continue
            _t0 = _t.time()
            if fbe and not ctx.get('hx_fbe'):
                proof['broken'].append({'file': 'forced-big-endian harness build', 'line': 0, 'error': '; '.join(ctx.get('errors', []))[:400]})
                continue
            bad, unmod = compare(ctx, cmds, fbe)
            total += len(cmds)
            dist['%s / %s' % (name, 'BE helper set forced on this host' if fbe else 'little-endian build')] = {'commands': len(cmds), 'outside model domain': unmod, 'mismatches': len(bad)}
            for b in bad:
                b['config'] = 'forced-BE' if fbe else 'LE'
            tie_bad += bad
            vlib.log('C14 %s fbe=%s: %d commands %.1fs' % (name, fbe, len(cmds), _t.time() - _t0))
    # big-endian execution of the real sources (CBMC --big-endian as interpreter of concrete calls): results must equal the little-endian ones
    try:
        from props import c14_be
        bf, problems, st = c14_be.run(ctx, tier, seed)
        failures += bf[:40]
        dist['big-endian execution (CBMC --big-endian, big-endian helper branch)'] = st
        total += st.get('cbmc_cases', 0)
        for pr in problems:
            proof['broken'].append({'file': 'big-endian execution stage (cbmc)', 'line': 0, 'error': pr[:400]})
    except Exception as e:
        proof['broken'].append({'file': 'big-endian execution stage (cbmc)', 'line': 0, 'error': str(e)[:400]})
    if NOSUCH_SEEN:
        proof['broken'].append({'file': 'correspondence C14 (functions of the sample the translator does not recognise)', 'line': 0,
                                'error': '%d commands name functions without a model, e.g. %s' % (len(NOSUCH_SEEN), NOSUCH_SEEN[0][:160])})
    if tie_bad:
        # a conversion site that behaves differently from the model in one configuration: report with the command as replay
        for b in tie_bad[:20]:
            failures.append({'key': {'family': b['cmd'].split()[0], 'config': b['config']}, 'cmd': b['cmd'][:600], 'impl': b['impl'][:300], 'expected': b['model'][:300],
                             'config': b['config'],
                             'what': 'in the %s configuration the library computes %s where the model instance for that configuration computes %s: a byte-order '
                                     'conversion is missing, doubled or of the wrong kind at some site' % (b['config'], b['impl'][:80], b['model'][:80])})
    streams = stream_summary(total, total,
        'a sample of every command family of C01-C12 (generic reader/writer on all descriptor shapes, named accessors, initialisers, deprecated API, CAN builders, VSS pad, '
        'string arrays, VSS codec) executed twice: on the normal little-endian build against the model instance (helpers = LE branch, memory = LE), and on a build of the same '
        'sources with the BIG-ENDIAN helper branch forced on this host against the mismatched model instance (helpers = BE branch, memory = LE), whose deliberately wrong bytes '
        'the model must predict exactly; the second run distinguishes sites that swap unconditionally from sites that call the host-dependent helper. '
        'A native big-endian run is not possible in this sandbox; instead every named getter, setter and initialiser of every format is additionally executed on concrete inputs by CBMC with a big-endian memory model and the big-endian helper branch, and must return what the little-endian run returns. non-trivial = distinct command x configuration',
        [{'family': k, 'n': len(v)} for k, v in fam.items()][:6], len(tie_bad), len(failures), {'input_distribution': dist})
    return vlib.finish(PROP, tier, seed, t0, proof, streams, failures,
                       ASSUME + ['functional extensionality (Coq.Logic.FunctionalExtensionality.functional_extensionality_dep) is used by C14_all to turn pointwise equality of the access functions into equality'],
                       TRUSTED)

def replay(ctx, path):
    def rerun(ctx, f):
        if (f.get('key') or {}).get('stage', '').startswith('big-endian execution'):
            import re as _re
            from props import c14_be
            m = _re.match(r'case \d+: (.*) -> ', f['cmd'])
            cmd = f.get('full_cmd') or (m.group(1) if m else f['cmd'])
            res = vlib.run_harness(ctx, [cmd])
            if cmd.split()[0] in ('G', 'S', 'I'):
                files, _ = c14_be.emit(ctx, [cmd], res)
            else:
                files = c14_be.emit_codec(ctx, [cmd], res)
            outs = [c14_be.run_cbmc(src, path_) for src, path_, _n in files]
            if not files:
                return {'impl': 'the command could not be turned into a big-endian case', 'expected': res[0][:200], 'fails': True}
            bad = [x for _s, fl, err in outs for x in (fl or [])] + [err for _s, fl, err in outs if err]
            return {'impl': ('big-endian execution differs: %s' % bad[0][:200]) if bad else 'big-endian execution gives the little-endian result %s' % res[0][:80],
                    'expected': res[0][:200], 'fails': bool(bad)}
        fbe = f.get('config') == 'forced-BE'
        bad, _ = compare(ctx, [f['cmd']], fbe)
        return {'impl': bad[0]['impl'][:200] if bad else 'agrees with the model', 'expected': bad[0]['model'][:200] if bad else '', 'fails': bool(bad)}
    return replay_generic(ctx, path, rerun)
