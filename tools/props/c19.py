"""C19 - the example CAN tunnel is transparent."""
import struct, json
import vlib
from props.common import *
from props import exlib

PROP = 'C19'
FILES = ['Properties_C19.v']
EFF, RTR, ERR = 0x80000000, 0x40000000, 0x20000000
BRS, ESI, FDF = 1, 2, 4

def raw_frame(fd, can_id, data, flags=0, tail=None):
    """struct can_frame / canfd_frame as read() from a CAN_RAW socket delivers it (little-endian host)"""
    n = 64 if fd else 8
    body = bytes(data) + (tail if tail is not None else b'\0' * (n - len(data)))
    return struct.pack('<IBBBB', can_id, len(data), flags if fd else 0, 0, 0) + body[:n]

def view(fd, raw):
    """what the property compares: identifier with EFF/RTR, length, FD flag bits BRS/ESI, the data bytes"""
    can_id, ln, fl = struct.unpack('<IBB', raw[:6])
    return {'id': can_id & 0x1fffffff, 'eff': bool(can_id & EFF), 'rtr': bool(can_id & RTR), 'len': ln,
            'brs': bool(fl & BRS) if fd else None, 'esi': bool(fl & ESI) if fd else None, 'data': raw[8:8 + ln].hex()}

def frames_for(rng, fd, quick):
    maxp = 64 if fd else 8
    out = []
    ids_sff = [0, 1, 0x123, 0x7ff]
    ids_eff = [0, 0x12, 0x7ff, 0x800, 0x1abcdef0, 0x1fffffff]
    lens = list(range(0, 9)) + ([12, 16, 20, 24, 32, 48, 63, 64] if fd else [])
    flag_sets = [0, BRS, ESI, BRS | ESI, FDF, FDF | BRS, FDF | ESI, FDF | BRS | ESI] if fd else [0]
    for ln in lens:
        for fl in (flag_sets if ln in (0, 3, 8, 64) else [rng.choice(flag_sets)]):
            for rtr in (0, RTR):
                ident = rng.choice(ids_sff)
                out.append(('sff', raw_frame(fd, ident | rtr, rng.bytes(ln), fl)))
                ident = rng.choice(ids_eff)
                out.append(('eff', raw_frame(fd, ident | EFF | rtr, rng.bytes(ln), fl)))
    for ident in ids_eff:
        out.append(('eff-id', raw_frame(fd, ident | EFF, rng.bytes(rng.randint(0, maxp)), rng.choice(flag_sets))))
    for ident in ids_sff:
        out.append(('sff-id', raw_frame(fd, ident, rng.bytes(rng.randint(0, maxp)), rng.choice(flag_sets))))
    # bytes behind the payload inside the frame structure are not part of the frame
    out.append(('stale-tail', raw_frame(fd, 0x55, b'ab', 0, tail=b'\xee' * (maxp - 2))))
    for _ in range(10 if quick else 300):
        e = rng.bits(1)
        out.append(('random', raw_frame(fd, (rng.bits(29) | EFF if e else rng.bits(11)) | (RTR if rng.bits(1) else 0), rng.bytes(rng.choice(lens)), rng.choice(flag_sets))))
    return out

def sessions_for(tier, seed):
    rng = vlib.Rng(seed)
    quick = tier == 'quick'
    S = []
    for udp in (False, True):
        for tscf in (False, True):
            for fd in (False, True):
                fr = frames_for(rng, fd, quick)
                counts = [1, 2, 3, 5, 11] + ([] if quick else [4, 7, 18 if fd else 61])
                for c in counts:
                    use = fr if c == 1 else fr[:]
                    if c > 1:
                        rng.shuffle(use)
                    use = use[:len(use) // c * c]
                    if quick and c > 1:
                        use = use[:c * 12]
                    args = (['-t'] if tscf else []) + (['-u'] if udp else []) + (['--fd'] if fd else []) + ['-c', str(c)]
                    S.append({'id': 't-%d%d%d-%d' % (udp, tscf, fd, c), 'udp': udp, 'tscf': tscf, 'fd': fd, 'count': c, 'args': args, 'frames': use})
    return S

def check(ctx, tier, seed, t0):
    proof = vlib.proof_status(ctx, FILES)
    st = exlib.build(ctx, ['talker', 'can'])
    for n, e in st['errors'].items():
        proof['broken'].append({'file': 'example harness %s' % n, 'line': 0, 'error': e[:500]})
    S = sessions_for(tier, seed)
    failures, tie = [], []
    dist = {}
    n_frames = n_packets = 0
    if 'talker' in st['exe'] and 'can' in st['exe']:
        # 1. the real talker
        tr = exlib.run_sessions(st['exe']['talker'], [{'id': s['id'], 'args': s['args'], 'items': [('F', f) for _, f in s['frames']]} for s in S], timeout=1800)
        olines, lsessions, meta = [], [], []
        for s in S:
            r = tr[s['id']]
            packets = [exlib.unhex(e[1]) for idx in sorted(r['events']) for e in r['events'][idx] if e[0] == 'T']
            s['packets'] = packets
            c = s['count']
            groups = [s['frames'][i:i + c] for i in range(0, len(s['frames']), c)]
            if r['end'] != 'END' or len(packets) != len(groups):
                failures.append({'key': {'stage': 'talker', 'udp': s['udp'], 'tscf': s['tscf'], 'fd': s['fd'], 'count': c}, 'cmd': 'talker %s' % ' '.join(s['args']),
                                 'frames': [f.hex() for _, f in s['frames'][:20]], 'impl': '%s, %d packets for %d groups of frames' % (r['end'], len(packets), len(groups)),
                                 'expected': 'one packet per %d frames' % c, 'what': 'example talker %s: %s' % (' '.join(s['args']), r['end'])})
                s['packets'] = packets = packets[:len(groups)]
                groups = groups[:len(packets)]
            s['groups'] = groups
            # 2. model of the talker on the same frames (seq numbers, deterministic clock of the harness)
            k = 0
            for gi, grp in enumerate(groups):
                fr = []
                for _, f in grp:
                    k += 1
                    can_id, ln, fl = struct.unpack('<IBB', f[:6])
                    ts = 1000 * 10 ** 9 + 1000 * k
                    fr.append('%x:%x:%x:%s:%x' % (can_id, ln, fl if s['fd'] else 0, f[8:].hex(), ts))
                olines.append('XT %d %d %d %x %x %02x %s' % (s['udp'], s['tscf'], s['fd'], gi % 256, gi, exlib.PATTERN, ' '.join(fr)))
                meta.append((s, gi))
            lsessions.append({'id': s['id'], 'args': ['udp' if s['udp'] else 'raw', 'fd' if s['fd'] else 'cc'], 'items': [('D', p) for p in packets]})
        mo = vlib.run_oracle(ctx, olines, timeout=1800)
        for (s, gi), m in zip(meta, mo):
            n_packets += 1
            p = s['packets'][gi]
            if m != 'P ' + p.hex():
                tie.append({'stage': 'talker', 'session': s['id'], 'packet': gi, 'impl': p.hex()[:300], 'model': m[:300]})
        enc = exlib.Enc(ctx)
        # 3. the real listener on the real packets, the model listener on the same packets
        lr = exlib.run_sessions(st['exe']['can'], lsessions, timeout=1800)
        ol2, meta2 = [], []
        for s in S:
            for gi, p in enumerate(s['packets']):
                ol2.append('XL %d %d %s %02x' % (s['udp'], s['fd'], vlib.hexbuf(p), exlib.PATTERN)); meta2.append((s, gi))
        mo2 = vlib.run_oracle(ctx, ol2, timeout=1800)
        for (s, gi), m in zip(meta2, mo2):
            r = lr[s['id']]
            p = s['packets'][gi]
            grp = s['groups'][gi]
            key = {'udp': s['udp'], 'tscf': s['tscf'], 'fd': s['fd'], 'count': s['count']}
            out = [exlib.unhex(e[2]) for e in r['events'].get(gi, []) if e[0] == 'W']
            tok = m.split()
            if tok[0] != 'HANDLED' or [t for t in tok[1:]] != [o.hex() for o in out]:
                tie.append({'stage': 'listener', 'session': s['id'], 'packet': gi, 'impl': [o.hex()[:60] for o in out][:4], 'model': m[:300]})
            hdr = (4 if s['udp'] else 0) + (24 if s['tscf'] else 12)
            announced = enc.get(p, 4 if s['udp'] else 0, 'Tscf' if s['tscf'] else 'Ntscf', 'STREAM_DATA_LENGTH' if s['tscf'] else 'NTSCF_DATA_LENGTH')
            if announced != len(p) - hdr:
                failures.append({'key': dict(key, stage='data-length'), 'cmd': 'talker %s' % ' '.join(s['args']), 'frames': [f.hex() for _, f in grp], 'packet': p.hex(),
                                 'impl': 'announces %d bytes' % announced, 'expected': '%d bytes of ACF messages follow the header' % (len(p) - hdr),
                                 'what': 'control header announces %d bytes, %d follow' % (announced, len(p) - hdr)})
            if len(out) != len(grp):
                failures.append({'key': dict(key, stage='frame-count'), 'cmd': 'talker %s | listener' % ' '.join(s['args']), 'frames': [f.hex() for _, f in grp], 'packet': p.hex(),
                                 'impl': '%d frames written (%s)' % (len(out), r['end']), 'expected': '%d frames' % len(grp),
                                 'what': '%d frames went into the packet, %d came out (%s)' % (len(grp), len(out), r['end'])})
                continue
            for j, ((kind, fin), fout) in enumerate(zip(grp, out)):
                n_frames += 1
                dist['%s:%s' % ('fd' if s['fd'] else 'cc', kind)] = dist.get('%s:%s' % ('fd' if s['fd'] else 'cc', kind), 0) + 1
                a, b = view(s['fd'], fin), view(s['fd'], fout)
                if a != b:
                    diff = sorted(k for k in a if a[k] != b[k])
                    failures.append({'key': dict(key, stage='frame', differs=','.join(diff)), 'cmd': 'talker %s | listener' % ' '.join(s['args']),
                                     'frames': [f.hex() for _, f in grp], 'position': j, 'packet': p.hex(), 'impl': json.dumps(b), 'expected': json.dumps(a),
                                     'what': 'frame %d of %d in the packet comes out with different %s: in %s out %s' % (j + 1, len(grp), ','.join(diff), a, b)})
    if tie and not failures:
        proof['broken'].append({'file': 'correspondence C19 (ExCan.v vs acf-can-talker.c / acf-can-listener.c)', 'line': 0,
                                'error': '%d packets: implementation and model disagree, e.g. %s' % (len(tie), json.dumps(tie[0])[:600])})
    streams = stream_summary(n_frames + n_packets, n_frames,
        'the real talker main() (all of init_cf_pdu, prepare_acf_packet, update_cf_length and the sending loop; CAN frames supplied through read(), packets '
        'captured at sendto(), deterministic clock) for UDP/raw x TSCF/NTSCF x classic/FD x 1, 2, 3, 5 (thorough: 4, 7 and the MTU-filling 61 / 18) frames per '
        'packet; frames: 11-bit and 29-bit identifiers incl. 0, 0x7ff, 0x800, 2^29-1 and extended frames with identifiers <= 0x7ff, RTR on/off, every subset of '
        'BRS/ESI/FDF, lengths 0..8 and the FD lengths up to 64, random data, stale bytes behind the payload; packets compared byte for byte with the model talker, '
        'then given to the real listener new_packet(); frames written compared with the model listener and, per frame, with the frame that went in '
        '(identifier, EFF, RTR, length, BRS, ESI, data); data-length field compared with the bytes that follow the header. non-trivial = frames compared',
        [{'session': s['id'], 'first_frame': s['frames'][0][1].hex()[:60], 'first_packet': (s.get('packets') or [b''])[0].hex()[:100]} for s in S[::max(1, len(S) // 6)]],
        len(tie), len(failures), {'input_distribution': dist, 'packets': n_packets, 'sessions': len(S)})
    return vlib.finish(PROP, tier, seed, t0, proof, streams, failures, ASSUME19, TRUSTED19)

def replay(ctx, path):
    st = exlib.build(ctx, ['talker', 'can'])
    def rerun(ctx, f):
        k = f['key']
        fd = k.get('fd')
        args = (['-t'] if k.get('tscf') else []) + (['-u'] if k.get('udp') else []) + (['--fd'] if fd else []) + ['-c', str(len(f['frames']))]
        frames = [bytes.fromhex(x) for x in f['frames']]
        tr = exlib.run_sessions(st['exe']['talker'], [{'id': 'r', 'args': args, 'items': [('F', x) for x in frames]}])['r']
        packets = [exlib.unhex(e[1]) for idx in sorted(tr['events']) for e in tr['events'][idx] if e[0] == 'T']
        if not packets:
            return {'impl': 'talker: %s' % tr['end'], 'expected': f.get('expected'), 'fails': True}
        lr = exlib.run_sessions(st['exe']['can'], [{'id': 'r', 'args': ['udp' if k.get('udp') else 'raw', 'fd' if fd else 'cc'], 'items': [('D', packets[0])]}])['r']
        out = [exlib.unhex(e[2]) for e in lr['events'].get(0, []) if e[0] == 'W']
        same = len(out) == len(frames) and all(view(fd, a) == view(fd, b) for a, b in zip(frames, out))
        return {'impl': [json.dumps(view(fd, o)) for o in out][:6], 'expected': [json.dumps(view(fd, x)) for x in frames][:6], 'fails': not same}
    return replay_generic(ctx, path, rerun)

ASSUME19 = [
    'the Coq kernel; Print Assumptions: closed under the global context',
    'coq/ExCan.v represents acf-can-talker.c (packet builder) and acf-can-listener.c (receive path): checked on every run by comparing the packets of the real talker '
    'main() byte for byte with talker_packet, and the frames written by the real new_packet() with can_listener',
    'struct can_frame / canfd_frame layout of the Linux headers on this host; the timestamp is an input (clock_gettime replaced by a deterministic clock in the harness)',
    'FD mode: the talker marks every message FDF (Avtp_Can_CreateAcfMessage writes the tunnel variant), so frames leave the listener with CANFD_FDF set whatever the input bit was; '
    'the property quantifies over BRS/ESI only and the theorem states the FDF bit of the output explicitly',
]
TRUSTED19 = ['coqc 8.16.1 kernel', 'extraction (ExtrOcamlBasic) + tools/oracle/driver.ml', 'tools/harness_ex (macro redirection of read/sendto/recv/write/clock_gettime/socket set-up)',
             'gcc 12 -fsanitize=address,undefined']
