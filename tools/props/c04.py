"""C04 - initialisers yield the canonical header for the format, whatever the buffer held."""
import vlib
from props.common import *
from props import fieldlib as F

PROP = 'C04'
FILES = ['Properties_C04.v']

def build_cases(ctx, tier, seed):
    rng = vlib.Rng(seed)
    fmts = F.load_spec(ctx)
    cases = F.init_cases(ctx, fmts, rng, tier)
    # initialising twice: feed the implementation's own result back in
    return cases, fmts

def check(ctx, tier, seed, t0):
    proof = vlib.proof_status(ctx, FILES)
    cases, fmts = build_cases(ctx, tier, seed)
    F.run_cases(ctx, cases)
    again = []
    for c in cases:
        p = c['impl'].split()
        if len(p) == 2 and p[0] == 'B' and p[1] != '-':
            again.append({'kind': 'init', 'cmd': 'I %s %s' % (c['cmd'].split()[1], p[1]), 'spec': 'SI %s %s' % (c['key']['format'], c['buf']),
                          'key': dict(c['key'], twice=True), 'buf': p[1]})
    F.run_cases(ctx, again)
    allc = cases + again
    failures, tie = F.judge(allc)
    if tie and not failures:
        proof['broken'].append({'file': 'correspondence C04 (generated initialiser op lists vs implementation)', 'line': 0,
                                'error': '%d cases differ, e.g. %s -> impl %s, model %s' % (len(tie), tie[0]['cmd'][:200], tie[0]['impl'][:80], tie[0]['model'][:80])})
    missing = [f.name for f in fmts if f.init and not any(c['key']['format'] == f.name for c in cases)]
    streams = stream_summary(len(allc), len(set(c['cmd'] for c in allc)),
        'every initialiser named by Spec.v (20 current ones; legacy initialisers are exercised by C12) on buffers of exactly the header length and '
        'header+7, pre-filled with 0x00, 0xff, 0xa5, 0x5a and random bytes; result compared byte for byte with the extracted model and with the '
        'reference canonical header ++ old trailing bytes; then the initialiser is run a second time on its own output. non-trivial = distinct command',
        [{'cmd': c['cmd'][:120], 'impl': c['impl'][:70], 'model': c['model'][:70], 'reference': (c['ref'] or '')[:70]} for c in allc[::max(1, len(allc) // 6)]],
        len(tie), len(failures),
        {'input_distribution': {'initialisers': len(set(c['key']['accessor'] for c in cases)), 'first_run_cases': len(cases), 'second_run_cases': len(again)}})
    return vlib.finish(PROP, tier, seed, t0, proof, streams, failures, ASSUME, TRUSTED)

def replay(ctx, path):
    return replay_generic(ctx, path, F.rerun_case)
