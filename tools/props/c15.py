"""C15 - results do not depend on where the PDU lies in memory."""
import os, re
import vlib
from props.common import *
from props import fieldlib as F
from props import c14

PROP = 'C15'
FILES = ['Properties_C15.v']

PLAIN = ['-std=gnu99', '-g', '-w']
def variants(tier):
    if tier == 'quick':
        return [('gcc', '-O0'), ('gcc', '-O2'), ('clang', '-O3')]
    return [(cc, o) for cc in ('gcc', 'clang') for o in ('-O0', '-O1', '-O2', '-O3')]

def build(ctx, cc, opt):
    name = 'p_%s%s' % (cc, opt.replace('-', '_'))
    exe = os.path.join(vlib.WORK, 'harness_' + name, 'hx')
    stamp = exe + '.hash'
    if os.path.exists(exe) and os.path.exists(stamp) and open(stamp).read() == ctx['hash']:
        return exe
    exe = vlib.build_harness(ctx['model'], name, [], cc=cc, base_flags=PLAIN + [opt])
    open(stamp, 'w').write(ctx['hash'])
    return exe

def build_align(ctx):
    exe = os.path.join(vlib.WORK, 'harness_align', 'hx')
    stamp = exe + '.hash'
    if os.path.exists(exe) and os.path.exists(stamp) and open(stamp).read() == ctx['hash']:
        return exe
    exe = vlib.build_harness(ctx['model'], 'align', [], cc='gcc',
                             base_flags=['-std=gnu99', '-O1', '-g', '-w', '-fsanitize=alignment', '-fno-sanitize-recover=alignment', '-fno-omit-frame-pointer'])
    open(stamp, 'w').write(ctx['hash'])
    return exe

def check(ctx, tier, seed, t0):
    proof = vlib.proof_status(ctx, FILES)
    fam = c14.commands(ctx, tier, seed)
    cmds = []
    for name, l in fam.items():
        if name.endswith('@fbe'):
            continue
        cmds += l if tier != 'quick' else l[::2]
    # commands that leave their buffer by design (the short-buffer cases of C03/C06: the model says OOB) prove nothing about
    # placement, and on a build without ASan they corrupt the heap, which glibc reports or not depending on the offset
    try:
        verdicts = vlib.run_oracle(ctx, cmds)
        n0 = len(cmds)
        cmds = [c for c, v in zip(cmds, verdicts) if not v.startswith('OOB')]
    except Exception as e:
        proof['broken'].append({'file': 'oracle (model verdicts for the C15 command sample)', 'line': 0, 'error': str(e)[:300]})
        n0 = len(cmds)
    failures = []
    dist = {'commands': len(cmds), 'dropped_out_of_bounds_by_design': n0 - len(cmds)}
    # (1) inventory of alignment-raising pointer casts
    inv = [c for f in (ctx.get('align') or {}).get('files', []) for c in f['casts']]
    dist['wide_cast_sites'] = len(inv)
    # (2) alignment-instrumented build: the PDU at offsets 1..7 from a 16-byte boundary
    sites = {}
    try:
        hxa = build_align(ctx)
        for off in ((0, 1, 2, 3, 5) if tier == 'quick' else range(0, 8)):      # 0 too: a typed access may need MORE than the PDU's own 16-byte placement offers at an inner offset
            out = vlib.run_harness(ctx, cmds, env_extra={'HX_OFFSET': str(off)}, exe=hxa)
            for c, o in zip(cmds, out):
                if o.startswith('CRASH') and 'misaligned' in o:
                    site = o.split()[-1]
                    if site not in sites:
                        sites[site] = (c, off, o)
        dist['alignment_sanitizer_runs'] = len(cmds) * (5 if tier == 'quick' else 8)
    except Exception as e:
        proof['broken'].append({'file': 'alignment-instrumented harness build', 'line': 0, 'error': str(e)[:400]})
    for site, (c, off, o) in sorted(sites.items()):
        fn = next((x['function'] for x in inv if site.endswith('%s:%d' % (x['file'], x['line']))), '?')
        failures.append({'key': {'site': site.replace('/repo/', ''), 'function': fn}, 'cmd': c[:500], 'offset': off, 'impl': o[:300], 'expected': 'no access that requires more than byte alignment',
                         'what': 'PDU placed %d byte(s) behind a 16-byte boundary: %s' % (off, o[:200])})
    # sites the inventory lists but no run reached still count: the cast itself is the finding
    reached = set(s.replace('/repo/', '') for s in sites)
    for x in inv:
        k = '%s:%d' % (x['file'], x['line'])
        if k not in reached:
            failures.append({'key': {'site': k, 'function': x['function']}, 'cmd': 'inventory (tools/gen_align.py)', 'impl': 'cast of %s* to %s* (alignment %d -> %d)' % (x['from'], x['to'], x['from_align'], x['to_align']),
                             'expected': 'no pointer cast that raises the alignment requirement',
                             'what': '%s in %s: pointer cast %s* -> %s* raises the alignment requirement from %d to %d' % (k, x['function'], x['from'], x['to'], x['from_align'], x['to_align'])})
    # (3) same results at every offset, optimisation level and compiler
    ref = None
    nplace = 0
    for cc, opt in variants(tier):
        try:
            exe = build(ctx, cc, opt)
        except Exception as e:
            proof['broken'].append({'file': 'plain harness build %s %s' % (cc, opt), 'line': 0, 'error': str(e)[:400]})
            continue
        for off in ((0, 1, 2, 3, 4, 7) if tier == 'quick' else range(0, 8)):
            out = vlib.run_harness(ctx, cmds, env_extra={'HX_OFFSET': str(off)}, exe=exe)
            nplace += len(cmds)
            if ref is None:
                ref = out
                continue
            for c, o, r in zip(cmds, out, ref):
                if o != r:
                    failures.append({'key': {'compiler': cc, 'opt': opt, 'offset': off, 'family': c.split()[0]}, 'cmd': c[:500], 'offset': off, 'impl': o[:300], 'expected': r[:300],
                                     'what': '%s %s, PDU at offset %d: %s, at offset 0 with gcc -O0: %s' % (cc, opt, off, o[:80], r[:80])})
                    if len(failures) > 60:
                        break
    dist['placement_runs'] = nplace
    dist['builds'] = ['%s %s' % v for v in variants(tier)]
    total = nplace + dist.get('alignment_sanitizer_runs', 0) + 1
    streams = stream_summary(total, total,
        'the command sample of C14 (every operation family of C01-C12) executed with the PDU placed 0..7 bytes behind a 16-byte boundary (quick: 0,1,2,3,4,7) on plain builds at '
        'gcc -O0, gcc -O2, clang -O3 (thorough: gcc and clang x -O0..-O3): every output must equal the output at offset 0 of the first build; the same sample at offsets 0..7 on a '
        '-fsanitize=alignment build: every reported misaligned access is a violation with its source line; the regenerated inventory of alignment-raising pointer casts must be empty. '
        'non-trivial = distinct command x placement x build',
        [{'site': k, 'cmd': v[0][:100], 'offset': v[1]} for k, v in list(sites.items())[:6]],
        0, len(failures), {'input_distribution': dist})
    return vlib.finish(PROP, tier, seed, t0, proof, streams, failures,
                       ASSUME + ['"at every optimisation level" is observed on gcc 12 and clang 14 for x86-64 only; the theorem is about the C abstract machine (no access with an alignment requirement above 1)'],
                       TRUSTED + ['tools/gen_align.py: inventory of alignment-raising pointer casts from the clang AST'])

def replay(ctx, path):
    def rerun(ctx, f):
        if f['cmd'].startswith('inventory'):
            inv = [c for ff in (ctx.get('align') or {}).get('files', []) for c in ff['casts']]
            still = any('%s:%d' % (x['file'], x['line']) == f['key']['site'] for x in inv)
            return {'impl': 'site still in the inventory' if still else 'site gone', 'expected': f['expected'], 'fails': still}
        exe = build_align(ctx)
        o = vlib.run_harness(ctx, [f['cmd']], env_extra={'HX_OFFSET': str(f.get('offset', 1))}, exe=exe)[0]
        return {'impl': o[:200], 'expected': f['expected'][:200], 'fails': o.startswith('CRASH')}
    return replay_generic(ctx, path, rerun)
