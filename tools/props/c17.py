"""C17 - overlapping header views agree."""
import vlib
from props.common import *
from props import fieldlib as F

PROP = 'C17'
FILES = ['Properties_C17.v']

def load_views(ctx):
    r = vlib.sh([ctx['oracle'], '--dump-views'], inp=b'', timeout=60)
    groups = []
    for line in r.stdout.decode().split('\n'):
        p = line.split()
        if p and p[0] == 'GROUP':
            groups.append([tuple(x.split(':', 1)) for x in p[2:]])
    return groups

def build(ctx, tier, seed):
    rng = vlib.Rng(seed)
    fmts = {f.name: f for f in F.load_spec(ctx)}
    ev = F.enum_values(ctx)
    groups = load_views(ctx)
    nr = 3 if tier == 'quick' else 60
    cases = []
    for gi, g in enumerate(groups):
        members = []
        for fmt, fname in g:
            f = fmts.get(fmt)
            fld = next((x for x in f.fields if x['name'] == fname), None) if f else None
            members.append((f, fld))
        if any(f is None or fld is None for f, fld in members):
            cases.append({'kind': 'get', 'cmd': 'BADGROUP %d' % gi, 'spec': None, 'key': {'group': gi}, 'buf': '.', 'group': gi, 'slot': 'bad'})
            continue
        n = max(f.hdr for f, _ in members)
        first, width = members[0][1]['first'], members[0][1]['width']
        bufs = F.patterns(rng, n, first, width, nr)
        vals = F.values_for(rng, width, 1 if tier == 'quick' else 8)
        for bi, b in enumerate(bufs):
            hb = F.hexbuf(b)
            for f, fld in members:
                idx = ev.get(fld['name'])
                spec = 'SG %s %s %s' % (f.name, fld['name'], hb)
                paths = [('G %s %s %x' % (f.get_field, hb, idx), f.get_field)] if idx is not None else []
                if fld['getter']:
                    paths.append(('G %s %s' % (fld['getter'], hb), fld['getter']))
                for cmd, acc in paths:
                    cases.append({'kind': 'get', 'cmd': cmd, 'spec': spec, 'buf': hb, 'group': gi, 'slot': ('g', bi),
                                  'key': {'group': gi, 'format': f.name, 'field': fld['name'], 'accessor': acc}})
            if bi >= 4 and tier == 'quick':
                continue
            for vi, v in enumerate(vals[:4] if tier == 'quick' else vals):
                for f, fld in members:
                    idx = ev.get(fld['name'])
                    spec = 'SS %s %s %s %x' % (f.name, fld['name'], hb, v)
                    paths = [('S %s %s %x %x' % (f.set_field, hb, idx, v), f.set_field, False)] if idx is not None else []
                    if fld['setter']:
                        paths.append(('S %s %s %x' % (fld['setter'], hb, v), fld['setter'], True))
                    for cmd, acc, ded in paths:
                        cases.append({'kind': 'set', 'cmd': cmd, 'spec': spec, 'buf': hb, 'group': gi, 'slot': ('s', bi, vi),
                                      'key': {'group': gi, 'format': f.name, 'field': fld['name'], 'accessor': acc}})
    return groups, cases

def cross(cases):
    """all access paths of all views of a group must give the same implementation result on the same input"""
    slots = {}
    for c in cases:
        slots.setdefault((c['group'], c['slot']), []).append(c)
    fails = []
    for k, cs in slots.items():
        ref = F.norm_impl(cs[0])
        for c in cs[1:]:
            i = F.norm_impl(c)
            if not F.same(i, ref):
                fails.append({'key': dict(c['key'], other=cs[0]['key']['accessor']), 'cmd': c['cmd'], 'spec_cmd': c['spec'], 'impl': i,
                              'expected': ref, 'model': c['model'],
                              'what': 'views disagree: %s gives %s, %s gives %s on the same buffer' % (
                                  c['key']['accessor'], i[:60], cs[0]['key']['accessor'], ref[:60])})
    return fails, len(slots)

def check(ctx, tier, seed, t0):
    proof = vlib.proof_status(ctx, FILES)
    ctx['model_cfg'] = F.model_cfg(ctx)
    groups, cases = build(ctx, tier, seed)
    F.run_cases(ctx, cases)
    failures, tie = F.judge(cases)
    xf, nslots = cross(cases)
    seen = set(f['cmd'] for f in failures)
    failures += [f for f in xf if f['cmd'] not in seen]
    if tie and not failures:
        proof['broken'].append({'file': 'correspondence C17 (generated accessor records vs implementation)', 'line': 0,
                                'error': '%d cases differ, e.g. %s -> impl %s, model %s' % (len(tie), tie[0]['cmd'][:200], tie[0]['impl'][:80], tie[0]['model'][:80])})
    streams = stream_summary(len(cases), len(set(c['cmd'] for c in cases)),
        'for each of the %d view groups of coq/Views.v: every access path (by-identifier and dedicated accessor) of every member format on the '
        'same buffers (constant fills, bits at the field edges, random) and the same values; all implementation results of a group must coincide '
        '(cross-view comparison, %d input slots) and each must equal the extracted model and the reference. non-trivial = distinct command line' % (len(groups), nslots),
        [{'cmd': c['cmd'][:140], 'impl': c['impl'][:60], 'model': c['model'][:60]} for c in cases[::max(1, len(cases) // 6)]],
        len(tie), len(failures),
        {'input_distribution': {'groups': len(groups), 'views': sum(len(g) for g in groups), 'reads': sum(1 for c in cases if c['kind'] == 'get'),
                                'writes': sum(1 for c in cases if c['kind'] == 'set'), 'cross_view_slots': nslots}})
    return vlib.finish(PROP, tier, seed, t0, proof, streams, failures, ASSUME, TRUSTED)

def replay(ctx, path):
    ctx['model_cfg'] = F.model_cfg(ctx)
    return replay_generic(ctx, path, F.rerun_case)
