"""C18 - example listeners survive arbitrary datagrams."""
import struct, json
import vlib
from props.common import *
from props import exlib

PROP = 'C18'
FILES = ['Properties_C18.v']
LISTENERS = ['can', 'hello', 'vss', 'aaf', 'cvf', 'crf']
STREAM = 0xAABBCCDDEEFF0001
CRF_STREAM = 0xAABBCCDDEEFF0002

# ---------------------------------------------------------------------------
# datagram construction
class Gen:
    def __init__(self, ctx, rng):
        self.enc = exlib.Enc(ctx)
        self.rng = rng
    def put(self, b, fmt, f, v, base=0):
        self.enc.put(b, base, fmt, f, v)
    def udp(self, body, seq=None):
        b = bytearray(4)
        self.put(b, 'Udp', 'ENCAPSULATION_SEQ_NO', self.rng.bits(32) if seq is None else seq)
        return bytes(b) + body
    def cf(self, tscf, body, dlen=None, subtype=None):
        if tscf:
            b = bytearray(24)
            self.put(b, 'Tscf', 'SUBTYPE', 0x05 if subtype is None else subtype)
            self.put(b, 'Tscf', 'SV', 1); self.put(b, 'Tscf', 'STREAM_ID', STREAM); self.put(b, 'Tscf', 'SEQUENCE_NUM', self.rng.bits(8))
            self.put(b, 'Tscf', 'STREAM_DATA_LENGTH', len(body) if dlen is None else dlen)
        else:
            b = bytearray(12)
            self.put(b, 'Ntscf', 'SUBTYPE', 0x82 if subtype is None else subtype)
            self.put(b, 'Ntscf', 'SV', 1); self.put(b, 'Ntscf', 'STREAM_ID', STREAM); self.put(b, 'Ntscf', 'SEQUENCE_NUM', self.rng.bits(8))
            self.put(b, 'Ntscf', 'NTSCF_DATA_LENGTH', len(body) if dlen is None else dlen)
        return bytes(b) + body
    def can_msg(self, ident, data, eff=0, rtr=0, fdf=0, brs=0, esi=0, qlen=None, pad=None, mtype=1, extra=b''):
        n = len(data); p = (4 - n % 4) % 4
        b = bytearray(16 + n + p)
        b[16:16 + n] = data
        self.put(b, 'Can', 'ACF_MSG_TYPE', mtype)
        self.put(b, 'Can', 'ACF_MSG_LENGTH', (16 + n + p) // 4 if qlen is None else qlen)
        self.put(b, 'Can', 'PAD', p if pad is None else pad)
        for k, v in (('EFF', eff), ('RTR', rtr), ('FDF', fdf), ('BRS', brs), ('ESI', esi), ('MTV', self.rng.bits(1))):
            self.put(b, 'Can', k, v)
        self.put(b, 'Can', 'CAN_IDENTIFIER', ident)
        self.put(b, 'Can', 'MESSAGE_TIMESTAMP', self.rng.bits(64))
        return bytes(b) + extra
    def gpc(self, msg, qlen=None, code=None, mtype=5):
        n = len(msg); p = (4 - n % 4) % 4
        b = bytearray(8)
        self.put(b, 'Gpc', 'ACF_MSG_TYPE', mtype)
        self.put(b, 'Gpc', 'ACF_MSG_LENGTH', (8 + n + p) // 4 if qlen is None else qlen)
        self.put(b, 'Gpc', 'GPC_MSG_ID', self.rng.bits(48) if code is None else code)
        return bytes(b) + msg + b'\0' * p
    def vss(self, mode, path, dt, data, mtype=0x42):
        b = bytearray(12)
        self.put(b, 'Vss', 'ACF_MSG_TYPE', mtype); self.put(b, 'Vss', 'ADDR_MODE', mode); self.put(b, 'Vss', 'VSS_DATATYPE', dt)
        self.put(b, 'Vss', 'ACF_MSG_LENGTH', min(511, (12 + len(path) + len(data) + 3) // 4)); self.put(b, 'Vss', 'VSS_OP', self.rng.bits(2))
        return bytes(b) + path + data
    def aaf(self, seq, dlen=4, nbytes=4, **over):
        b = bytearray(24 + nbytes)
        v = dict(SUBTYPE=2, SV=1, VERSION=0, TV=1, SEQUENCE_NUM=seq, STREAM_ID=STREAM, AVTP_TIMESTAMP=self.rng.bits(32), FORMAT=4, NSR=5,
                 CHANNELS_PER_FRAME=2, BIT_DEPTH=16, STREAM_DATA_LENGTH=dlen, SP=0)
        v.update(over)
        for k, x in v.items():
            self.put(b, 'Pcm', k, x)
        b[24:] = self.rng.bytes(nbytes)
        return bytes(b)
    def cvf(self, seq, payload, sdl=None, **over):
        b = bytearray(28)
        v = dict(SUBTYPE=3, SV=1, VERSION=0, TV=1, SEQUENCE_NUM=seq, STREAM_ID=STREAM, AVTP_TIMESTAMP=self.rng.bits(32), FORMAT=2, FORMAT_SUBTYPE=1,
                 STREAM_DATA_LENGTH=4 + len(payload) if sdl is None else sdl)
        v.update(over)
        for k, x in v.items():
            self.put(b, 'Cvf', k, x)
        b[24:28] = self.rng.bytes(4)
        return bytes(b) + payload
    def crf(self, seq, ts0, **over):
        b = bytearray(68)
        v = dict(SUBTYPE=4, SV=1, VERSION=0, FS=0, SEQUENCE_NUM=seq, TYPE=1, STREAM_ID=CRF_STREAM, PULL=0, BASE_FREQUENCY=48000, CRF_DATA_LENGTH=48,
                 TIMESTAMP_INTERVAL=160)
        v.update(over)
        for k, x in v.items():
            self.put(b, 'Crf', k, x)
        for i in range(6):
            b[20 + 8 * i:28 + 8 * i] = struct.pack('>Q', (ts0 + i * 160 * 20833) % 2 ** 64)
        return bytes(b)

def mutate(rng, d, n):
    """byte-level damage to an otherwise well-formed datagram"""
    out = []
    for _ in range(n):
        b = bytearray(d)
        k = rng.choice(['trunc', 'flip', 'rand', 'ext', 'ff', 'zero'])
        if k == 'trunc' and len(b):
            b = b[:rng.randint(0, len(b))]
        elif k == 'flip' and len(b):
            for _ in range(rng.randint(1, 4)):
                i = rng.randint(0, min(len(b) - 1, 63)); b[i] ^= 1 << rng.randint(0, 7)
        elif k == 'rand' and len(b):
            i = rng.randint(0, len(b) - 1); b[i:i + 8] = rng.bytes(min(8, len(b) - i))
        elif k == 'ext':
            b += rng.bytes(rng.choice([1, 3, 4, 16, 200]))
        elif k == 'ff' and len(b):
            i = rng.randint(0, min(len(b) - 1, 40)); b[i:i + 4] = b'\xff' * min(4, len(b) - i)
        elif k == 'zero' and len(b):
            i = rng.randint(0, min(len(b) - 1, 40)); b[i:i + 4] = b'\0' * min(4, len(b) - i)
        out.append(bytes(b[:1600]))
    return out

# ---------------------------------------------------------------------------
# per-listener datagram streams
def can_stream(g, rng, udp, fd, n_rand):
    maxp = 64 if fd else 8
    out = []
    def wrap(tscf, body, **kw):
        d = g.cf(tscf, body, **kw)
        return g.udp(d) if udp else d
    for tscf in (False, True):
        hdr = (4 if udp else 0) + (24 if tscf else 12)
        good = [g.can_msg(rng.bits(11), rng.bytes(rng.randint(0, maxp)), fdf=int(fd), brs=rng.bits(1), esi=rng.bits(1), rtr=rng.bits(1)) for _ in range(3)]
        ext = g.can_msg(rng.bits(29), rng.bytes(maxp), eff=1, fdf=int(fd))
        base = wrap(tscf, b''.join(good) + ext)
        out += [('valid', base), ('valid-1msg', wrap(tscf, good[0])), ('valid-0msg', wrap(tscf, b''))]
        # every truncation around the header boundaries and inside the first message
        for k in sorted(set(list(range(0, hdr + 34)) + [len(base) - 1, len(base) - 4])):
            if 0 <= k <= len(base):
                out.append(('truncated', base[:k]))
        # data length field versus datagram
        body = b''.join(good)
        for dl in (0, 1, 15, 16, len(good[0]) - 1, len(good[0]), len(good[0]) + 1, len(body) - 1, len(body) + 1, len(body) + 4, len(body) + 16, 1499, 1500, 2047, 0xffff):
            out.append(('data-length-field', wrap(tscf, body, dlen=dl)))
        # ACF message length / pad / payload length
        for plen in sorted(set([0, 1, 3, 4, 7, 8, 9, 12, 63, 64, 65, 68, 200, 239, 240])):
            for ql in (None, 0, 1, 3, 4, 5, (16 + plen + 3) // 4 + 1, 511):
                for pad in (None, 0, 3):
                    if ql is not None and pad is not None and rng.bits(2):
                        continue
                    m = g.can_msg(rng.bits(11), rng.bytes(plen), qlen=ql, pad=pad, fdf=int(fd))
                    out.append(('acf-length/pad', wrap(tscf, m + good[1])))
                    if rng.bits(2) == 0:
                        out.append(('acf-length/pad-last', wrap(tscf, good[1] + m)))
        # flags and identifiers
        for eff in (0, 1):
            for ident in (0, 0x7ff, 0x800, 0x1fffffff):
                out.append(('flags/id', wrap(tscf, g.can_msg(ident, rng.bytes(2), eff=eff, rtr=rng.bits(1), fdf=rng.bits(1), brs=rng.bits(1), esi=rng.bits(1)))))
        for mt in (0, 2, 5, 0x42, 0x7f):
            out.append(('wrong-acf-type', wrap(tscf, good[0] + g.can_msg(1, b'ab', mtype=mt) + good[1])))
        for st in (0, 2, 3, 4, 0x7f, 0xff):
            out.append(('wrong-subtype', wrap(tscf, good[0], subtype=st)))
        # many messages, full datagram
        many = b''.join(g.can_msg(rng.bits(11), rng.bytes(rng.randint(0, maxp)), fdf=int(fd)) for _ in range(80))[:1500 - hdr]
        out.append(('full-mtu', wrap(tscf, many)))
        out.append(('full-mtu', wrap(tscf, many[:len(many) // 4 * 4], dlen=len(many) // 4 * 4)))
        out += [('mutated', m) for m in mutate(rng, base, n_rand)]
        # the receive buffer is an uninitialised local: whatever lies behind the received bytes is arbitrary.  Here it is a run of
        # well-formed CAN messages that starts exactly where the parser would go on reading (and fills pdu[] to its end), behind
        # datagrams that end inside or right behind their headers and announce more data than arrived
        filler = b''.join(g.can_msg(rng.bits(11), rng.bytes(8), fdf=int(fd)) for _ in range(70))
        stale = (bytes(hdr) + filler)[:1500]
        big = 2047 if not tscf else 0xffff
        for k in sorted(set([0, 1, 4, 11, 12, 13, 16, 20, 23, 24, 25, 26, 27, 28, 29, hdr - 1, hdr, hdr + 1, hdr + 8, hdr + 15, hdr + 16, hdr + 17])):
            for dl in (big, 24 * 5, None):
                d = wrap(tscf, good[0], dlen=dl)[:k]
                out.append(('short-with-stale-messages', d, stale))
    out += [('random', rng.bytes(rng.choice([0, 1, 11, 12, 13, 28, 40, 100, 1500]))) for _ in range(n_rand)]
    out += [('fill', bytes([v]) * n) for v in (0, 0xff, 0x02, 0x82, 0x05) for n in (12, 40, 1500)]
    out.append(('oversize', rng.bytes(1600)))
    return out

def hello_stream(g, rng, udp, n_rand):
    out = []
    def wrap(tscf, body, **kw):
        d = g.cf(tscf, body, **kw)
        return g.udp(d) if udp else d
    for tscf in (False, True):
        hdr = (4 if udp else 0) + (24 if tscf else 12)
        base = wrap(tscf, g.gpc(b'Hello World!\0'))
        out += [('valid', base), ('valid', wrap(tscf, g.gpc(b'Hi')))]
        for k in range(0, len(base) + 1):
            out.append(('truncated', base[:k]))
        for n in (0, 1, 3, 4, 88, 91, 92, 93, 96, 200, 1400, 1500 - hdr - 8):
            out.append(('unterminated', wrap(tscf, g.gpc(bytes([0x41 + i % 26 for i in range(n)])))))
            out.append(('unterminated-short-length', wrap(tscf, g.gpc(bytes([0x61] * n), qlen=rng.choice([0, 1, 2, 3, 10, 25, 26])))))
        for ql in (0, 1, 2, 3, 24, 25, 26, 511):
            out.append(('acf-length', wrap(tscf, g.gpc(b'abcdefgh' * 12, qlen=ql))))
            out.append(('acf-length-beyond-datagram', wrap(tscf, g.gpc(b'abc', qlen=ql))))
        for mt in (0, 1, 0x42):
            out.append(('wrong-acf-type', wrap(tscf, g.gpc(b'x\0', mtype=mt))))
        out.append(('embedded-nul', wrap(tscf, g.gpc(b'ab\0cd\0ef'))))
        out += [('mutated', m) for m in mutate(rng, base, n_rand)]
        # the buffer of main keeps what earlier datagrams left: a well-formed long GPC message without any NUL, right where the
        # parser reads, behind datagrams that end inside or just behind their headers
        residue = (bytes(hdr) + g.gpc(bytes([0x41 + i % 26 for i in range(88)]), qlen=24) + bytes([0x5a]) * 1500)[:1500]
        for k in sorted(set([0, 1, 4, 5, 8, 11, 12, 13, 16, 19, 20, 23, 24, 27, 28, hdr - 1, hdr, hdr + 1, hdr + 7, hdr + 8, hdr + 9])):
            out.append(('short-over-residue', base[:k], residue))
    out += [('fill', bytes([v]) * n) for v in (0, 0xff, 0x0a, 0x0b) for n in (20, 36, 1500)]
    out += [('random', rng.bytes(rng.choice([0, 1, 19, 20, 36, 100, 1500]))) for _ in range(n_rand)]
    out.append(('oversize', bytes([0x0b]) * 1600))
    return out

def vss_stream(g, rng, udp, n_rand):
    out = []
    def wrap(tscf, body, **kw):
        d = g.cf(tscf, body, **kw)
        return g.udp(d) if udp else d
    flt = lambda: struct.pack('>f', rng.choice([0.0, 1.5, -2.25, 1e10, 3.14159]))
    for tscf in (False, True):
        hdr = (4 if udp else 0) + (24 if tscf else 12)
        st = wrap(tscf, g.vss(1, struct.pack('>I', rng.bits(32)), 9, flt()))
        io = wrap(tscf, g.vss(0, struct.pack('>H', 11) + b'Vehicle.Spd', 9, flt()))
        out += [('valid-static', st), ('valid-interop', io)]
        for base in (st, io):
            for k in range(0, len(base) + 1):
                out.append(('truncated', base[:k]))
        for pl in (0, 1, 2, 3, 100, 1400, 1500 - hdr - 14, 1500 - hdr - 13, 1500, 0x7fff, 0xfffd, 0xfffe, 0xffff):
            body = bytes([0x30 + i % 10 for i in range(min(pl, 1480))])
            out.append(('interop-path-length', wrap(tscf, g.vss(0, struct.pack('>H', pl) + body, 9, flt()))))
            out.append(('interop-path-length-no-body', wrap(tscf, g.vss(0, struct.pack('>H', pl), 9, b''))))
        for dt in (0, 1, 8, 9, 0xa, 0xb, 0x81, 0x89, 0x8b, 0xff):
            out.append(('datatype', wrap(tscf, g.vss(1, struct.pack('>I', 7), dt, struct.pack('>H', 0xffff) + b'zz'))))
            out.append(('datatype', wrap(tscf, g.vss(0, struct.pack('>H', 2) + b'ab', dt, struct.pack('>H', 3) + b'xyz'))))
        for mode in (2, 3):
            out.append(('reserved-mode', wrap(tscf, g.vss(mode, b'\0\1\2\3', 9, flt()))))
        out.append(('embedded-nul', wrap(tscf, g.vss(0, struct.pack('>H', 5) + b'a\0b\0c', 9, flt()))))
        out.append(('wrong-acf-type', wrap(tscf, g.vss(1, b'\0\0\0\1', 9, flt(), mtype=5))))
        out += [('mutated', m) for base in (st, io) for m in mutate(rng, base, n_rand // 2)]
        # residue of an earlier datagram: a well-formed interop message with a long path right where the parser reads
        residue = (bytes(hdr) + g.vss(0, struct.pack('>H', 1300) + bytes([0x61 + i % 26 for i in range(1300)]), 9, flt()) + bytes(1500))[:1500]
        for k in sorted(set([0, 1, 4, 8, 12, 13, 16, 20, 24, 25, 28, hdr - 1, hdr, hdr + 1, hdr + 11, hdr + 12, hdr + 13, hdr + 14, hdr + 15, hdr + 16])):
            out.append(('short-over-residue', io[:k], residue))
    out += [('fill', bytes([v]) * n) for v in (0, 0xff, 0x84, 0x85) for n in (26, 42, 1500)]
    out += [('random', rng.bytes(rng.choice([0, 1, 25, 26, 42, 100, 1500]))) for _ in range(n_rand)]
    return out

def aaf_stream(g, rng, n_rand):
    out = []
    seq = 0
    for _ in range(6):
        out.append(('valid', g.aaf(seq))); seq = (seq + 1) % 256
    out.append(('seq-jump', g.aaf(200))); out.append(('valid', g.aaf(201))); out.append(('seq-wrap', g.aaf(255))); out.append(('valid', g.aaf(0)))
    base = g.aaf(1)
    for k in (0, 1, 4, 23, 24, 27):
        out.append(('short', base[:k]))
    out.append(('valid-after-short', g.aaf(1)))
    out.append(('long', base + b'zz')); out.append(('long', base + bytes(1400)))
    for f, v in (('SUBTYPE', 3), ('VERSION', 1), ('TV', 0), ('SP', 1), ('STREAM_ID', 5), ('FORMAT', 3), ('NSR', 4), ('CHANNELS_PER_FRAME', 1), ('BIT_DEPTH', 24),
                 ('STREAM_DATA_LENGTH', 5), ('STREAM_DATA_LENGTH', 0xffff)):
        out.append(('wrong-' + f.lower(), g.aaf(rng.bits(8), **{f: v})))
    out += [('mutated', m) for m in mutate(rng, base, n_rand)]
    out += [('random', rng.bytes(28)) for _ in range(n_rand // 2)]
    out.append(('valid-at-end', g.aaf(9)))
    return out

def cvf_stream(g, rng, n_rand):
    out = []
    for s in range(3):
        out.append(('valid', g.cvf(s, rng.bytes(rng.choice([1, 10, 100, 1400])))))
    base = g.cvf(3, rng.bytes(40))
    for k in list(range(0, 33)) + [len(base) - 1]:
        out.append(('truncated', base[:k]))
    for sdl in (0, 1, 2, 3, 4, 5, 43, 44, 45, 100, 1403, 1404, 1405, 1500, 0x7fff, 0xffff):
        out.append(('stream-data-length', g.cvf(rng.bits(8), rng.bytes(40), sdl=sdl)))
        out.append(('stream-data-length-full', g.cvf(rng.bits(8), rng.bytes(1400), sdl=sdl)))
    out.append(('oversize', g.cvf(1, rng.bytes(1500))))
    for f, v in (('SUBTYPE', 2), ('VERSION', 1), ('TV', 0), ('STREAM_ID', 5), ('FORMAT', 1), ('FORMAT_SUBTYPE', 0)):
        out.append(('wrong-' + f.lower(), g.cvf(rng.bits(8), rng.bytes(8), **{f: v})))
    out += [('mutated', m) for m in mutate(rng, base, n_rand)]
    out += [('random', rng.bytes(rng.choice([0, 27, 28, 29, 100, 1428]))) for _ in range(n_rand // 2)]
    out.append(('valid-at-end', g.cvf(7, b'end')))
    return out

def crf_stream(g, rng, talker, n_rand, variant):
    out = []
    t0 = 1000000 + 125000 * rng.randint(0, 1000)
    def aaf6(seq, ts, **over):
        return g.aaf(seq, dlen=24, nbytes=24, AVTP_TIMESTAMP=ts % 2 ** 32, **over)
    if talker:
        if variant == 0:
            out.append(('invalid-crf-first', g.crf(0, t0, TYPE=3)))
        elif variant == 1:
            out.append(('crf-all-stale', g.crf(0, 0)))
        out += [('valid-crf', g.crf(k, t0 + k * 160 * 125000)) for k in range(3)]
        out.append(('short', g.crf(3, t0)[:67])); out.append(('long', g.crf(3, t0) + b'x'))
        for f, v in (('SUBTYPE', 2), ('SV', 0), ('FS', 1), ('TYPE', 0), ('STREAM_ID', 1), ('PULL', 1), ('BASE_FREQUENCY', 44100), ('CRF_DATA_LENGTH', 40)):
            out.append(('wrong-' + f.lower(), g.crf(rng.bits(8), t0, **{f: v})))
        out.append(('crf-max-timestamp', g.crf(9, 2 ** 64 - 1)))
    else:
        if variant == 0:      # AAF first: free-wheeling media clock, unaligned timestamp
            out.append(('aaf-unaligned-first', aaf6(0, 3)))
        elif variant == 1:
            out.append(('aaf-far-first', aaf6(0, 8 * 12345)))
        elif variant == 2:
            out.append(('aaf-aligned-first', aaf6(0, 125000 * 7)))
        elif variant == 3:    # media clock timestamps just below 2^64 - 2^32: the search range crosses the 64-bit wrap
            out.append(('crf-near-wrap', g.crf(0, 2 ** 64 - 2 ** 32 - 100)))
            out.append(('aaf-unaligned-near-wrap', aaf6(0, 3)))
        out.append(('valid-crf', g.crf(1 if variant == 3 else 0, t0)))
        out += [('valid-aaf', aaf6(k + 1, t0 + k * 125000)) for k in range(4)]
        out.append(('aaf-misaligned', aaf6(5, t0 + 4 * 125000 + 6000)))
        out.append(('aaf-realigned', aaf6(6, t0 + 5 * 125000 + 100)))
        out.append(('crf-max-timestamp', g.crf(1, 2 ** 64 - 1)))
        out.append(('valid-aaf', aaf6(7, t0 + 6 * 125000)))
        for f, v in (('VERSION', 1), ('TV', 0), ('SP', 1), ('FORMAT', 2), ('STREAM_DATA_LENGTH', 4)):
            out.append(('wrong-' + f.lower(), aaf6(rng.bits(8), t0, **{f: v})))
        out.append(('other-subtype', aaf6(0, 0, SUBTYPE=0x7f)))
        for k in (0, 1, 47, 49, 67, 69):
            out.append(('size', rng.bytes(k)))
        out.append(('crf-sized-aaf', aaf6(8, t0 + 7 * 125000) + bytes(20)))
        out.append(('aaf-sized-crf', g.crf(2, t0 + 999)[:48]))
    out += [('mutated', m) for m in mutate(rng, g.crf(4, t0 + 5), n_rand // 2)]
    if not talker:
        out += [('mutated', m) for m in mutate(rng, aaf6(9, t0), n_rand // 2)]
    out += [('random', rng.bytes(rng.choice([48, 68]))) for _ in range(n_rand // 2)]
    return out

# ---------------------------------------------------------------------------
def fnv(b):
    h = 2166136261
    for x in b:
        h = ((h ^ x) * 16777619) & 0xffffffff
    return h

def expected_prints(tokens):
    """model events -> the bytes the listener must have printed (None where the text is not compared)"""
    out = []
    for t in tokens:
        p = t.split(':')
        hx = lambda s: b'' if s == '.' else bytes.fromhex(s)
        if p[0] == 'G':
            out.append(hx(p[1]) + b' : GPC Code %d\n' % int(p[2], 16))
        elif p[0] == 'S':
            out.append(b'VSS Path: ' + hx(p[1]) + b', ')
        elif p[0] == 'I':
            v = int(p[1], 16); v = v - 2 ** 32 if v >= 2 ** 31 else v
            out.append(b'VSS Path: %d, ' % v)
        elif p[0] == 'F':
            x = struct.unpack('>f', struct.pack('>I', int(p[1], 16)))[0]
            out.append(None if x != x else ('VSS Value: %f\n' % x).encode())
        elif p[0] == 'A':
            out.append(b'AAF Stream is aligned with common media clock\n' if p[1] == '1' else b'AAF Stream is not aligned with common media clock\n')
    return out

def kv(tokens):
    d = {}
    for t in tokens:
        if '=' in t:
            k, v = t.split('=', 1); d[k] = v
    return d

def sessions_for(ctx, tier, seed):
    rng = vlib.Rng(seed)
    g = Gen(ctx, rng)
    n_rand = 12 if tier == 'quick' else 150
    S = []
    def chunks(stream, size):
        return [stream[i:i + size] for i in range(0, len(stream), size)]
    for udp in (False, True):
        for fd in (False, True):
            for i, ch in enumerate(chunks(can_stream(g, rng, udp, fd, n_rand), 60)):
                S.append({'listener': 'can', 'mode': {'udp': udp, 'fd': fd}, 'id': 'can-%d%d-%d' % (udp, fd, i), 'args': ['udp' if udp else 'raw', 'fd' if fd else 'cc'],
                          'dgrams': [(t[0], t[1]) for t in ch], 'stale': {j: t[2] for j, t in enumerate(ch) if len(t) > 2}})
        for i, ch in enumerate(chunks(hello_stream(g, rng, udp, n_rand), 60)):
            S.append({'listener': 'hello', 'mode': {'udp': udp}, 'id': 'hello-%d-%d' % (udp, i), 'args': ['-u'] if udp else [],
                      'dgrams': [(t[0], t[1]) for t in ch], 'stale': {j: t[2] for j, t in enumerate(ch) if len(t) > 2}})
        for i, ch in enumerate(chunks(vss_stream(g, rng, udp, n_rand), 60)):
            S.append({'listener': 'vss', 'mode': {'udp': udp}, 'id': 'vss-%d-%d' % (udp, i), 'args': ['-u', 'aa:bb:cc:dd:ee:ff'] if udp else ['aa:bb:cc:dd:ee:ff'],
                      'dgrams': [(t[0], t[1]) for t in ch], 'stale': {j: t[2] for j, t in enumerate(ch) if len(t) > 2}})
    for i in range(2 if tier == 'quick' else 8):
        S.append({'listener': 'aaf', 'mode': {}, 'id': 'aaf-%d' % i, 'args': [], 'dgrams': aaf_stream(g, rng, n_rand)})
        S.append({'listener': 'cvf', 'mode': {}, 'id': 'cvf-%d' % i, 'args': [], 'dgrams': cvf_stream(g, rng, n_rand)})
    for talker in (False, True):
        for variant in range(4):
            for rep in range(1 if tier == 'quick' else 4):
                mtt = rng.choice([0, 0, 2000000, 2100000])
                S.append({'listener': 'crf', 'mode': {'talker': talker, 'mtt': mtt}, 'id': 'crf-%d-%d-%d' % (talker, variant, rep),
                          'args': ['talker' if talker else 'listener', str(mtt)], 'dgrams': crf_stream(g, rng, talker, n_rand, variant)})
    return S

def oracle_lines(s):
    L = s['listener']
    hx = lambda d: vlib.hexbuf(d)
    if L == 'can':
        st = s.get('stale', {})
        return [], ['XL %d %d %s %s' % (s['mode']['udp'], s['mode']['fd'], hx(d), ('S' + st[j].hex()) if j in st else '%02x' % exlib.PATTERN) for j, (_, d) in enumerate(s['dgrams'])]
    if L in ('hello', 'vss'):
        st = s.get('stale', {})
        c = 'XH' if L == 'hello' else 'XV'
        return ['%s0 %02x' % (c, exlib.PATTERN)], ['%s %d %s%s' % (c, s['mode']['udp'], hx(d), (' S' + st[j].hex()) if j in st else '') for j, (_, d) in enumerate(s['dgrams'])]
    if L == 'aaf':
        return ['XA0'], ['XA %s' % hx(d) for _, d in s['dgrams']]
    if L == 'cvf':
        return ['XC0'], ['XC %s' % hx(d) for _, d in s['dgrams']]
    if L == 'crf':
        mtt = s['mode']['mtt']
        rounded = -(-mtt // 125000) * 125000
        return ['XR0 %d %x' % (s['mode']['talker'], rounded)], ['XR %s' % hx(d) for _, d in s['dgrams']]

def compare(s, idx, model, impl_events):
    """None if the implementation did what the model says for datagram idx, else a description"""
    L = s['listener']
    tok = model.split()
    st = tok[0]
    writes = [e[2] for e in impl_events if e[0] == 'W']
    prints = [exlib.unhex(e[1]) for e in impl_events if e[0] == 'P']
    q = kv(next((e[1:] for e in impl_events if e[0] == 'Q'), ()))
    if L == 'can':
        exp = [t for t in tok[1:]]
        return None if writes == exp else 'frames written %s, model %s' % (writes[:4], exp[:4])
    if L in ('hello', 'vss'):
        exp = expected_prints(tok[1:])
        if len(exp) != len(prints):
            return 'printed %s, model %s' % (prints[:3], exp[:3])
        for a, b in zip(exp, prints):
            if a is not None and a != b:
                return 'printed %r, model %r' % (b[:80], a[:80])
        return None
    m = kv(tok[1:])
    if L == 'aaf':
        ok = int(q.get('queue', -1)) == int(m['queue']) and int(q.get('seq', -1)) == int(m['seq'], 16) and \
            (q.get('last') == (m['last'] if m['last'] != '-' else '-'))
        return None if ok else 'state %s, model %s' % (q, m)
    if L == 'cvf':
        last = b'' if m['last'] in ('-', '.') else bytes.fromhex(m['last'])
        ok = int(q.get('queue', -1)) == int(m['queue']) and int(q.get('seq', -1)) == int(m['seq'], 16) and \
            (int(q.get('lastlen', -2)) == (len(last) if m['last'] != '-' else -1)) and \
            (m['last'] == '-' or int(q.get('lasthash', '0'), 16) == fnv(last))
        return None if ok else 'state %s, model %s' % (q, {k: v[:40] for k, v in m.items()})
    if L == 'crf':
        exp = expected_prints([t for t in tok[1:] if ':' in t and '=' not in t])
        if exp != prints:
            return 'printed %s, model %s' % (prints, exp)
        ok = all(int(q.get(k, '-1'), 16 if k in ('first', 'last', 'prev') else 10) == int(m[k], 16 if k in ('first', 'last', 'prev', 'crfseq', 'aafseq') else 10)
                 for k in ('queue', 'first', 'last', 'prev', 'lookup', 'crfseq', 'aafseq', 'state', 'firstpdu'))
        return None if ok else 'state %s, model %s' % (q, m)
    return 'unknown listener'

BAD_MODEL = ('OOB', 'OVERFLOW', 'DIVERGED')

def run_all(ctx, sessions, st):
    failures, tie = [], []
    dist = {}
    n_dgrams = 0
    # model
    lines, spans = [], []
    for s in sessions:
        pre, per = oracle_lines(s)
        spans.append((len(lines) + len(pre), len(per)))
        lines += pre + per
    mout = vlib.run_oracle(ctx, lines, timeout=1800)
    # implementation
    by = {}
    for s in sessions:
        by.setdefault(s['listener'], []).append(s)
    impl = {}
    for L, ss in by.items():
        if L not in st['exe']:
            for s in ss:
                impl[s['id']] = {'events': {}, 'end': 'NOT BUILT: %s' % st['errors'].get(L, '?')[:300], 'last': -1}
            continue
        def items_of(s):
            it = []
            for j, (_, d) in enumerate(s['dgrams']):
                if j in s.get('stale', {}):
                    it.append(('X', s['stale'][j]))
                it.append(('D', d))
            return it
        r = exlib.run_sessions(st['exe'][L], [{'id': s['id'], 'args': s['args'], 'items': items_of(s)} for s in ss], timeout=1800)
        impl.update(r)
    for s, (start, cnt) in zip(sessions, spans):
        r = impl[s['id']]
        L = s['listener']
        dead_at = None if r['end'] == 'END' else r['last']
        for idx, (kind, d) in enumerate(s['dgrams']):
            n_dgrams += 1
            dist['%s:%s' % (L, kind)] = dist.get('%s:%s' % (L, kind), 0) + 1
            model = mout[start + idx]
            key = {'listener': L, 'kind': kind}
            key.update({k: v for k, v in s['mode'].items()})
            base = {'key': key, 'session': s['id'], 'args': s['args'], 'index': idx, 'datagram': d.hex(), 'model': model[:300],
                    'buffer_before': s.get('stale', {}).get(idx, b'').hex() or None,
                    'history': [x.hex() for _, x in s['dgrams'][:idx]] if L in ('hello', 'vss', 'aaf', 'cvf', 'crf') and idx <= 40 else '(see session)'}
            mstat = model.split()[0] if model else 'EXC'
            if any(mstat.startswith(b) for b in BAD_MODEL):
                failures.append(dict(base, impl=(r['end'] if dead_at == idx else 'survived'), expected='datagram dropped or handled',
                                     what='%s listener (%s): the model of the receive path leaves its bounds on this datagram: %s' % (L, s['args'], mstat)))
                continue
            if mstat in ('EXC', 'UNMOD'):
                tie.append(dict(base, impl='-', what='model has no answer: %s' % model[:100]))
                continue
            if dead_at is not None and idx == dead_at:
                failures.append(dict(base, impl=r['end'], expected='the listener processes the datagram and goes on to the next one',
                                     what='%s listener (%s): %s on datagram %d (%s, %d bytes)' % (L, ' '.join(s['args']), r['end'], idx, kind, len(d))))
                continue
            if dead_at is not None and idx > dead_at:
                continue
            diff = compare(s, idx, model, r['events'].get(idx, []))
            if diff:
                tie.append(dict(base, impl=diff[:300], what='%s listener: %s' % (L, diff[:300])))
    return failures, tie, dist, n_dgrams

def replay(ctx, path):
    """re-deliver the recorded history + datagram to the real listener and to the model"""
    st = exlib.build(ctx, LISTENERS)
    def rerun(ctx, f):
        L = f['key']['listener']
        mode = {k: v for k, v in f['key'].items() if k not in ('listener', 'kind')}
        hist = f.get('history') if isinstance(f.get('history'), list) else []
        dg = [('history', bytes.fromhex(x)) for x in hist] + [(f['key'].get('kind', '?'), bytes.fromhex(f['datagram']))]
        s = {'listener': L, 'mode': mode, 'id': 'replay', 'args': f.get('args', []), 'dgrams': dg,
             'stale': ({len(dg) - 1: bytes.fromhex(f['buffer_before'])} if f.get('buffer_before') else {})}
        fl, tie, _, _ = run_all(ctx, [s], st)
        bad = [x for x in fl + tie if x['index'] == len(dg) - 1]
        return {'impl': bad[0]['impl'] if bad else 'agrees with the model, survives', 'expected': f.get('expected', ''), 'fails': bool(bad)}
    for f in json.load(open(path)).get('failures', []):
        f.setdefault('cmd', '%s listener %s datagram %s' % (f['key'].get('listener'), f.get('args'), f.get('datagram', '')[:120]))
    body = json.load(open(path))
    for f in body.get('failures', []):
        f.setdefault('cmd', '%s listener %s datagram %s' % (f['key'].get('listener'), f.get('args'), f.get('datagram', '')[:120]))
    tmp = path + '.replaying'
    json.dump(body, open(tmp, 'w'))
    try:
        return replay_generic(ctx, tmp, rerun)
    finally:
        import os
        os.unlink(tmp)

def check(ctx, tier, seed, t0):
    proof = vlib.proof_status(ctx, FILES)
    st = exlib.build(ctx, LISTENERS)
    for n, e in st['errors'].items():
        proof['broken'].append({'file': 'example harness %s' % n, 'line': 0, 'error': e[:500]})
    sessions = sessions_for(ctx, tier, seed)
    failures, tie, dist, n = run_all(ctx, sessions, st)
    if tie and not failures:
        proof['broken'].append({'file': 'correspondence C18 (ExCan.v / ExListeners.v vs examples/*-listener.c)', 'line': 0,
                                'error': '%d datagrams: implementation and model disagree, e.g. %s' % (len(tie), json.dumps({k: tie[0][k] for k in ('session', 'index', 'datagram', 'what')})[:600])})
    streams = stream_summary(n, len(set((s['listener'], d) for s in sessions for _, d in s['dgrams'])),
        'sessions of datagrams delivered in order to one process per session (state carries over: receive buffer of main, sequence numbers, '
        'sample / NAL / media clock queues), for ACF-CAN (UDP/raw x classic/FD x TSCF/NTSCF), hello-world and ACF-VSS (UDP/raw x TSCF/NTSCF), AAF, CVF and '
        'CRF (listener / talker mode, with and without max transit time). Built from the regenerated field tables: valid packets; every truncation '
        'around the header boundaries; data-length fields below / equal / above the datagram; acf_msg_length 0, 1, 3, 4, exact+1, 511; pad and payload '
        'lengths around 8 / 64 / 240; wrong ACF types and subtypes; unterminated and over-long strings; interop path lengths up to 0xffff; '
        'stream_data_length 0..5, 1403..1405, 0xffff; misaligned / far / maximal timestamps; size filters; byte-level mutations; random and constant fills; '
        '1600-byte datagrams. The real example sources run under ASan/UBSan with pattern-initialised automatic variables (so an uninitialised pointer '
        'faults), a 4 s alarm per datagram (so a loop that does not end is a TIMEOUT) and exit detection; outputs (CAN frames written, text printed, '
        'state digests) are compared with the extracted model datagram by datagram. non-trivial = distinct (listener, datagram)',
        [{'session': s['id'], 'kind': s['dgrams'][0][0], 'datagram': s['dgrams'][0][1].hex()[:100]} for s in sessions[::max(1, len(sessions) // 6)]],
        len(tie), len(failures), {'input_distribution': dist, 'sessions': len(sessions)})
    return vlib.finish(PROP, tier, seed, t0, proof, streams, failures, ASSUME, TRUSTED)

ASSUME = [
    'the Coq kernel (coqc 8.16.1); no axioms: Print Assumptions reports "Closed under the global context" for every C18 theorem',
    'the hand-written models coq/ExCan.v (ACF-CAN listener) and coq/ExListeners.v (hello-world, ACF-VSS, AAF, CVF, CRF) represent the receive paths of the example sources; '
    'this is checked, not assumed, by the correspondence run above on every invocation (real sources, unmodified, #included by tools/harness_ex)',
    'AAF and CRF listeners call the deprecated avtp_*_pdu_get wrappers; the model reads the same field through the current by-identifier getter (equal by C12)',
    'recv() on a datagram socket returns min(datagram, buffer) bytes and writes nothing else; printf formats as ISO C says; malloc does not fail; time is not modelled',
    'ASan limits: see DESIGN.md (partly out-of-bounds unaligned accesses); -ftrivial-auto-var-init=pattern makes uninitialised pointers fault deterministically',
]
TRUSTED = ['coqc 8.16.1 kernel', 'extraction (ExtrOcamlBasic) + tools/oracle/driver.ml', 'tools/harness_ex (macro redirection of recv/write/printf/poll/socket set-up)',
           'gcc 12 -fsanitize=address,undefined -ftrivial-auto-var-init=pattern']
