"""C01 - field reads return exactly the bits the wire format assigns to the field."""
import time
import vlib
from props.common import *
from props import fieldlib as F

PROP = 'C01'
FILES = ['Properties_C01.v']

def build_cases(ctx, tier, seed):
    rng = vlib.Rng(seed)
    ctx['model_cfg'] = F.model_cfg(ctx)
    fmts = F.load_spec(ctx)
    return F.raw_cases(ctx, rng, tier, setter=False) + F.get_cases(ctx, fmts, rng, tier)

def check(ctx, tier, seed, t0):
    proof = vlib.proof_status(ctx, FILES)
    cases = build_cases(ctx, tier, seed)
    F.run_cases(ctx, cases)
    failures, tie = F.judge(cases)
    if tie and not failures:
        proof['broken'].append({'file': 'correspondence C01 (model of Avtp_GetField / generated getter records vs implementation)', 'line': 0,
                                'error': '%d cases differ, e.g. %s -> impl %s, model %s' % (len(tie), tie[0]['cmd'][:200], tie[0]['impl'][:80], tie[0]['model'][:80])})
    named = [c for c in cases if c['cmd'].startswith('G ')]
    streams = stream_summary(len(cases), len(set(c['cmd'] for c in cases)),
        'generic reader on all 2080 accepted descriptor shapes x start quadlets {0, one of 1,2,3,7,100,253,254,255} (thorough: all) on exact-extent '
        'buffers; every named field of all 23 formats through the by-identifier reader and the dedicated getter on buffers of exactly the '
        'header length and header+3: constant fills, one bit set/cleared at and next to the field edges, every single header bit (walking 1), '
        'random contents from VERIF_SEED. Three-way comparison implementation / extracted model / extracted reference (Spec.v), plus '
        '"buffer unchanged". non-trivial = distinct command line',
        [{'cmd': c['cmd'][:160], 'impl': c['impl'][:60], 'model': c['model'], 'reference': c['ref']} for c in cases[::max(1, len(cases) // 6)]],
        len(tie), len(failures),
        {'input_distribution': {'generic_reader_cases': len(cases) - len(named), 'named_field_cases': len(named),
                                'formats': len(set(c['key'].get('format') for c in named)),
                                'accessors': len(set(c['key'].get('accessor') for c in named))}})
    return vlib.finish(PROP, tier, seed, t0, proof, streams, failures, ASSUME, TRUSTED)

def replay(ctx, path):
    ctx['model_cfg'] = F.model_cfg(ctx)
    return replay_generic(ctx, path, F.rerun_case)
