"""C12 - legacy and current APIs are interchangeable."""
import vlib
from props.common import *
from props import fieldlib as F
from props import c11 as C11

PROP = 'C12'
FILES = ['Properties_C12.v']

def macro_value(ctx, src, name):
    u = F.unit_of(ctx, src)
    return (u or {}).get('macro_values', {}).get(name)

def build(ctx, tier, seed):
    rng = vlib.Rng(seed)
    fmts = {f.name: f for f in F.load_spec(ctx)}
    ev = F.enum_values(ctx)
    apis, aliases = C11.load_legacy(ctx)
    nr = 2 if tier == 'quick' else 40
    pairs = []          # (legacy command, current command(s), kind, key)
    for a in apis:
        f = fmts[a['fmt']]
        vw = 32 if a['set'] == 'avtp_pdu_set' else 64
        for fld in f.fields:
            idx = ev.get(fld['name'])
            if idx is None:
                continue
            bufs = F.patterns(rng, f.hdr + 3, fld['first'], fld['width'], nr)
            for b in bufs:
                hb = F.hexbuf(b)
                pairs.append({'legacy': 'L %s %s %x 0 %x' % (a['get'], hb, idx, rng.bits(32)), 'current': ['G %s %s %x' % (f.get_field, hb, idx)],
                              'kind': 'get', 'key': {'format': f.name, 'field': fld['name'], 'accessor': a['get']}})
            combos = [(b, v & ((1 << vw) - 1)) for b in bufs[:3] + bufs[-nr:] for v in F.values_for(rng, fld['width'], 1)[:6]]
            # prior field contents related to the value written (same value, same low / high half, one bit off)
            for v in [rng.bits(min(fld['width'], vw)), rng.bits(min(fld['width'], 32)), (1 << min(fld['width'], vw)) - 1, rng.bits(max(1, fld['width'] // 2)), 0]:
                combos += [(b, v) for b in F.related_priors(rng, f.hdr + 3, fld['first'], fld['width'], v)]
            for b, v in combos:
                hb = F.hexbuf(b)
                if True:
                    pairs.append({'legacy': 'L %s %s %x %x x' % (a['set'], hb, idx, v), 'current': ['S %s %s %x %x' % (f.set_field, hb, idx, v)],
                                  'kind': 'set', 'key': {'format': f.name, 'field': fld['name'], 'accessor': a['set']}})
        if a['init']:
            for b in [bytes(f.hdr + 4), bytes([0xff]) * (f.hdr + 4), bytes([0xa5]) * f.hdr] + [rng.bytes(f.hdr + 4) for _ in range(nr + 2)]:
                hb = F.hexbuf(b)
                xs = [0, 1, 2, 0x7f, 0xff, rng.bits(8)] if a['init_field'] else [0]
                for x in xs:
                    cur = ['I %s %s' % (f.init, hb)]
                    if a['init_field']:
                        st = next(q['setter'] for q in f.fields if q['name'] == a['init_field'])
                        cur.append('S %s {prev} %x' % (st, x))
                    pairs.append({'legacy': 'L %s %s %x 0 x' % (a['init'], hb, x), 'current': cur, 'kind': 'init',
                                  'key': {'format': f.name, 'accessor': a['init']}})
    return apis, aliases, pairs

def run(ctx, pairs):
    """legacy and current calls on the implementation, legacy call on the model"""
    lines = [p['legacy'] for p in pairs]
    impl_l = vlib.run_harness(ctx, lines)
    model_l = vlib.run_oracle(ctx, lines)
    # current side: chains (init then setter) are run step by step
    cur1 = vlib.run_harness(ctx, [p['current'][0] for p in pairs])
    second = [(i, p) for i, p in enumerate(pairs) if len(p['current']) > 1]
    cur2 = {}
    if second:
        cmds = []
        for i, p in second:
            prev = cur1[i].split()[1] if cur1[i].startswith('B ') else '.'
            cmds.append(p['current'][1].replace('{prev}', prev))
        out = vlib.run_harness(ctx, cmds)
        for (i, p), o in zip(second, out):
            cur2[i] = o
    failures, tie = [], []
    for i, p in enumerate(pairs):
        il, ml = impl_l[i], model_l[i]
        p['impl'], p['model'] = il, ml
        if il != ml and not (ml == 'OOB' and il.startswith('CRASH')) and not il.startswith('SKIPPED'):
            tie.append(p)
        c = cur2.get(i, cur1[i])
        p['current_out'] = c
        ok = False
        t = il.split()
        if p['kind'] == 'get':
            cv = c.split()
            buf = p['legacy'].split()[2]
            ok = len(t) == 4 and t[0] == 'R' and t[1] == '0' and t[2] == buf and len(cv) >= 2 and cv[0] == 'V' and int(t[3], 16) == int(cv[1], 16)
            exp = 'R 0 %s %s' % (buf, cv[1] if len(cv) > 1 else '?')
        else:
            cb = c.split()
            ok = len(t) == 4 and t[0] == 'R' and t[1] == '0' and len(cb) == 2 and cb[0] == 'B' and t[2] == cb[1]
            exp = 'R 0 %s x' % (cb[1] if len(cb) == 2 else '?')
        if not ok:
            failures.append({'key': p['key'], 'cmd': p['legacy'], 'current_cmd': p['current'], 'impl': il, 'expected': exp, 'model': ml,
                             'what': '%s: deprecated call gives %s, current API gives %s' % (p['key'], il[:80], c[:80])})
    return failures, tie

def check(ctx, tier, seed, t0):
    proof = vlib.proof_status(ctx, FILES)
    apis, aliases, pairs = build(ctx, tier, seed)
    failures, tie = run(ctx, pairs)
    # legacy field names: value as compiled in the format's translation unit vs the current enumerator
    fmts = {f.name: f for f in F.load_spec(ctx)}
    ev = F.enum_values(ctx)
    n_alias = 0
    for fmt, old, new in aliases:
        n_alias += 1
        got = macro_value(ctx, fmts[fmt].src, old)
        want = ev.get(new)
        if got is None or got != want:
            failures.append({'key': {'format': fmt, 'alias': old}, 'cmd': 'probe value of %s in %s' % (old, fmts[fmt].src), 'impl': str(got),
                             'expected': '%s = %s' % (new, want), 'what': 'legacy name %s has value %s, %s is %s' % (old, got, new, want)})
    # packed structs of the deprecated API: sizes and member offsets as measured by the compiled probes of this run, against the
    # layout they must overlay (recorded from the tree on which C12_layout was proved: tools/props/c12_layout_baseline.json).
    # A difference is the concrete witness when C12_layout breaks.
    import os as _os, json as _json
    n_struct = 0
    try:
        baseline = _json.load(open(_os.path.join(_os.path.dirname(_os.path.abspath(__file__)), 'c12_layout_baseline.json')))
    except Exception:
        baseline = {}
    seen = set()
    for u in ctx['model']['units']:
        for tag, st in u.get('legacy_structs', {}).items():
            n_struct += 1
            b = baseline.get(tag)
            if b is None or (tag, u['src']) in seen:
                continue
            seen.add((tag, u['src']))
            diffs = []
            if st['sizeof'] != b['sizeof']:
                diffs.append('sizeof %s (must be %s)' % (st['sizeof'], b['sizeof']))
            want = {mname: off for mname, off in b['members']}
            for mname, off in st['members']:
                if mname in want and want[mname] != off:
                    diffs.append('member %s at offset %s (must be %s)' % (mname, off, want[mname]))
            if diffs and not any(f.get('key', {}).get('struct') == tag for f in failures):
                failures.append({'key': {'struct': tag}, 'cmd': 'probe layout of struct %s in %s' % (tag, u['src']), 'impl': '; '.join(diffs), 'expected': 'sizeof %s, members %s' % (b['sizeof'], b['members']),
                                 'what': 'deprecated struct %s no longer overlays the current header: %s' % (tag, '; '.join(diffs))})
    if tie and not failures:
        proof['broken'].append({'file': 'correspondence C12 (model of the deprecated wrappers vs implementation)', 'line': 0,
                                'error': '%d cases differ, e.g. %s -> impl %s, model %s' % (len(tie), tie[0]['legacy'][:200], tie[0]['impl'][:80], tie[0]['model'][:80])})
    kinds = {}
    for p in pairs:
        kinds[p['kind']] = kinds.get(p['kind'], 0) + 1
    kinds['alias_names'] = n_alias; kinds['legacy_struct_probes'] = n_struct
    total = len(pairs) + n_alias
    streams = stream_summary(total, len(set(p['legacy'] for p in pairs)) + n_alias,
        'paired calls on identical buffers (constant fills, bits at the field edges, random): deprecated get vs current by-identifier reader for every '
        'field of the five formats; deprecated set vs current writer for values 0, 1, max, max+1, 2^w+1, all-ones (cut to the legacy value type); deprecated '
        'init vs current init (CVF: + SetFormatSubtype for several subtypes); return codes, result values and raw bytes compared; every legacy field '
        'name of LegacySpec.v against the value compiled into the format\'s translation unit. non-trivial = distinct legacy command / alias name',
        [{'legacy': p['legacy'][:110], 'impl': p['impl'][:70], 'model': p['model'][:70], 'current': p['current_out'][:70]} for p in pairs[::max(1, len(pairs) // 6)]],
        len(tie), len(failures), {'input_distribution': kinds})
    return vlib.finish(PROP, tier, seed, t0, proof, streams, failures, ASSUME, TRUSTED)

def replay(ctx, path):
    def rerun(ctx, f):
        if f['cmd'].startswith('probe'):
            return {'impl': 're-run ./check C12 (macro values are re-measured on every run)', 'expected': f['expected'], 'fails': True}
        kind = 'get' if f['cmd'].split()[5] not in ('x',) else ('init' if len(f['current_cmd']) > 1 or f['current_cmd'][0].startswith('I ') else 'set')
        p = {'legacy': f['cmd'], 'current': f['current_cmd'], 'kind': kind, 'key': f.get('key')}
        fl, _ = run(ctx, [p])
        return {'impl': p['impl'], 'expected': fl[0]['expected'] if fl else f['expected'], 'fails': bool(fl)}
    return replay_generic(ctx, path, rerun)
