"""C07 - VSS messages are encoded exactly as the ACF-VSS description prescribes."""
import vlib
from props.common import *
from props import fieldlib as F
from props import vsslib as V

PROP = 'C07'
FILES = ['Properties_C07.v']

def run3(ctx, cmds, specs):
    impl = vlib.run_harness(ctx, cmds)
    out = vlib.run_oracle(ctx, cmds + [s for s in specs if s], parallel=True)
    model = out[:len(cmds)]
    refs, k = [], len(cmds)
    for s in specs:
        if s:
            refs.append(out[k]); k += 1
        else:
            refs.append(None)
    return impl, model, refs

def check(ctx, tier, seed, t0):
    proof = vlib.proof_status(ctx, FILES)
    rng = vlib.Rng(seed)
    msgs = V.messages(ctx, rng, tier)
    dist = {}
    failures, tie = [], []
    # phase 1: path, on a buffer of exactly header + path + data (+ sometimes trailing bytes), three prior fills
    plan = []
    for m in msgs:
        size = 12 + V.enc_path_len(m['path']) + V.enc_data_len(m['value']) + rng.choice([0, 0, 3])
        fill = rng.choice([0x00, 0xff, None])
        body = bytes([fill]) * (size - 12) if fill is not None else rng.bytes(size - 12)
        b0 = F.hexbuf(V.header(rng, m['mode'], m['dt']) + body)
        c, s = V.path_cmds(b0, m['path'])
        plan.append({'m': m, 'b0': b0, 'pc': c, 'ps': s})
        dist['dt:%02x' % m['dt']] = dist.get('dt:%02x' % m['dt'], 0) + 1
    impl, model, refs = run3(ctx, [p['pc'] for p in plan], [p['ps'] for p in plan])
    def judge(p, cmd, spec, i, mo, r, what):
        if not (i == mo or (mo == 'OOB' and i.startswith('CRASH')) or i.startswith('SKIPPED')):
            tie.append({'cmd': cmd, 'impl': i, 'model': mo})
        if r is not None and r != 'UNMOD' and i != r:
            failures.append({'key': {'function': what, 'datatype': '%02x' % p['m']['dt'], 'mode': p['m']['mode']}, 'cmd': cmd[:700], 'spec_cmd': (spec or '')[:700],
                             'impl': i[:300], 'expected': r[:300], 'model': mo[:300],
                             'what': '%s (datatype 0x%02x, addr_mode %d): bytes differ from the reference encoding at hex offset %d' % (
                                 what, p['m']['dt'], p['m']['mode'], next((j for j, (x, y) in enumerate(zip(i, r)) if x != y), -1))})
    for p, i, mo, r in zip(plan, impl, model, refs):
        judge(p, p['pc'], p['ps'], i, mo, r, 'Avtp_Vss_SetVssPath')
        p['b1'] = i.split()[1] if i.startswith('B ') else None
    # phase 2: data
    plan2 = [p for p in plan if p['b1']]
    for p in plan2:
        p['dc'], p['ds'] = V.data_cmds(p['b1'], p['m']['value'])
    impl, model, refs = run3(ctx, [p['dc'] for p in plan2], [p['ds'] for p in plan2])
    for p, i, mo, r in zip(plan2, impl, model, refs):
        judge(p, p['dc'], p['ds'], i, mo, r, 'Avtp_Vss_SetVssData')
    n1 = len(plan) + len(plan2)
    # reserved address modes and datatypes write nothing
    res = []
    for mode in (2, 3):
        b = F.hexbuf(V.header(rng, mode, 4) + rng.bytes(12))
        res.append(('VSP %s static %x' % (b, rng.bits(32)), 'B ' + b, 'reserved addr_mode %d' % mode))
        res.append(('VSP %s interop 3 414243' % b, 'B ' + b, 'reserved addr_mode %d' % mode))
        res.append(('VSD %s scalar %x' % (b, rng.bits(32)), None, 'reserved addr_mode %d: data goes right behind the header' % mode))
    for dt in V.RESERVED_DT:
        b = F.hexbuf(V.header(rng, 1, dt) + rng.bytes(12))
        res.append(('VSD %s scalar %x' % (b, rng.bits(64)), 'B ' + b, 'reserved datatype 0x%02x' % dt))
        res.append(('VSD %s bytes 3 414243' % b, 'B ' + b, 'reserved datatype 0x%02x' % dt))
    impl = vlib.run_harness(ctx, [r[0] for r in res])
    model = vlib.run_oracle(ctx, [r[0] for r in res])
    for (cmd, exp, why), i, mo in zip(res, impl, model):
        if i != mo:
            tie.append({'cmd': cmd, 'impl': i, 'model': mo})
        if exp and i != exp:
            failures.append({'key': {'function': cmd.split()[0], 'case': why}, 'cmd': cmd, 'impl': i[:200], 'expected': exp[:200], 'model': mo[:200],
                             'what': '%s must write nothing; got %s' % (why, i[:80])})
    dist['reserved'] = len(res)
    if tie and not failures:
        proof['broken'].append({'file': 'correspondence C07 (VssModel.vss_set_path / vss_set_data vs Vss.c)', 'line': 0,
                                'error': '%d cases differ, e.g. %s -> impl %s, model %s' % (len(tie), tie[0]['cmd'][:200], tie[0]['impl'][:120], tie[0]['model'][:120])})
    total = n1 + len(res)
    streams = stream_summary(total, total,
        'all 24 datatypes x both address modes x static ids {random, 0, 2^32-1} / interoperable paths of 0, 1, 13, 255, 256 (thorough: 2, 1000) bytes x values: '
        'scalars {0, 1, max, sign bit, random; floats/doubles: +-0, subnormal, +-inf, quiet and signalling NaN}, strings/byte arrays of 0, 1, 3, 255, 256 bytes, element arrays of '
        '0, 1, 3 and 256/size elements; prior fills {0x00, 0xff, random}; buffers of exactly header+path+data (ASan redzone behind) or +3 trailing bytes; SetVssPath then '
        'SetVssData, each compared with the extracted model and the reference encoding; reserved address modes / datatypes must write nothing. non-trivial = distinct command',
        [{'cmd': p['pc'][:120], 'then': p.get('dc', '')[:120]} for p in plan[::max(1, len(plan) // 5)]],
        len(tie), len(failures), {'input_distribution': dist})
    return vlib.finish(PROP, tier, seed, t0, proof, streams, failures, ASSUME + ['float/double objects use the integer byte order of the host (every IEEE-754 target of gcc/clang)'], TRUSTED + ['coq/VssSpec.v: hand transcription of acf-vss.md'])

def replay(ctx, path):
    def rerun(ctx, f):
        i, mo, r = run3(ctx, [f['cmd']], [f.get('spec_cmd') or None])
        exp = r[0] if r[0] else f.get('expected')
        return {'impl': i[0][:200], 'expected': (exp or '')[:200], 'fails': i[0][:300] != (exp or '')[:300]}
    return replay_generic(ctx, path, rerun)
