"""C20 - public headers can be combined freely without changing meaning (partial: one known pair)."""
import os, re, subprocess, itertools
from concurrent.futures import ThreadPoolExecutor
import vlib
from props.common import *
from cast import INC

PROP = 'C20'
FILES = ['Properties_C20.v']

def closure(units, name, seen=None):
    seen = seen if seen is not None else []
    if name in seen:
        return seen
    seen.append(name)
    u = units.get(name)
    if u:
        for i in u['includes']:
            closure(units, i, seen)
    return seen

def uses(u):
    s = set(u['tokens'])
    for _, b in u['macros']:
        s |= set(b)
    return s

def model_interferes(units, a, b):
    """the Coq predicate HeaderModel.non_interfering, re-evaluated here only to name the clashing identifiers in reports"""
    ua, ub = units[a], units[b]
    ia = set(n for n, _ in ua['macros']) | set(ua['ordinary']); ib = set(n for n, _ in ub['macros']) | set(ub['ordinary'])
    why = []
    if ia & ib: why.append('introduced by both: %s' % sorted(ia & ib)[:5])
    if set(ua['tags']) & set(ub['tags']): why.append('tag declared by both: %s' % sorted(set(ua['tags']) & set(ub['tags'])))
    for x, y, ux, uy in ((a, b, ua, ub), (b, a, ub, ua)):
        if x not in closure(units, y):
            cap = set(n for n, _ in ux['macros']) & (uses(uy) | set(uy['ordinary']) | set(uy['tags']))
            if cap: why.append('macro of %s mentioned by %s: %s' % (x, y, sorted(cap)[:5]))
    return why

INTLIKE = re.compile(r'^[\s\w()+\-*/<>|&~]*$')
def standalone_values(units, h, workdir):
    """values of enumerators, integer-like macros and sizeof of typedef'd structs when the header is included alone"""
    u = units[h]
    names = [n for n in u['ordinary']]
    macros = [n for n, b in u['macros'] if not n.endswith('_H')]
    src = ['#include <stdio.h>', '#include "%s"' % h, 'int main(void) {']
    tu_txt = open(os.path.join(INC, h)).read()
    enums = [n for n in names if re.search(r'\b%s\b\s*(=|,|\n|\})' % re.escape(n), tu_txt) and re.match(r'^[A-Z][A-Z0-9_]*$', n)]
    types = [n for n in names if n.endswith('_t') and not re.match(r'^[A-Z0-9_]+$', n)]
    for n in enums:
        src.append('  printf("E %s %%lld\\n", (long long)(%s));' % (n, n))
    for n in types:
        src.append('  printf("S %s %%zu\\n", sizeof(%s));' % (n, n))
    body = '\n'.join(src)
    def run(extra):
        p = os.path.join(workdir, 'sa_' + re.sub(r'\W', '_', h))
        open(p + '.c', 'w').write(body + '\n' + '\n'.join(extra) + '\n  return 0; }\n')
        r = subprocess.run(['gcc', '-std=gnu99', '-w', '-I' + INC, p + '.c', '-o', p], capture_output=True)
        if r.returncode != 0:
            return None
        return subprocess.run([p], capture_output=True).stdout.decode()
    cand = []
    for n, b in u['macros']:
        if n.endswith('_H'):
            continue
        m = re.search(r'#\s*define\s+%s\b(.*)' % re.escape(n), tu_txt)
        if m and not m.group(1).lstrip().startswith('(') or (m and INTLIKE.match(m.group(1))):
            if m and INTLIKE.match(m.group(1)) and m.group(1).strip():
                cand.append(n)
    extra = ['  printf("M %s %%lld\\n", (long long)(%s));' % (n, n) for n in cand]
    out = run(extra)
    if out is None:
        out = run([]) or ''
    vals = {}
    for line in out.splitlines():
        k, n, v = line.split()
        vals[(k, n)] = int(v)
    return vals

def pair_tu(a, b, vals, lang):
    o = ['#include "%s"' % a, '#include "%s"' % b]
    sa = '_Static_assert' if lang == 'c' else 'static_assert'
    for (k, n), v in sorted(vals.items()):
        if k == 'S':
            o.append('%s(sizeof(%s) == %d, "sizeof(%s) changed");' % (sa, n, v, n))
        else:
            o.append('%s((long long)(%s) == %dLL, "%s changed");' % (sa, n, v, n))
    o.append('int main(void) { return 0; }')
    return '\n'.join(o) + '\n'

def compile_tu(src, lang):
    cmd = ['gcc', '-std=c99', '-x', 'c'] if lang == 'c' else ['g++', '-std=c++11', '-x', 'c++']
    r = subprocess.run(cmd + ['-I' + INC, '-fsyntax-only', '-w', '-'], input=src.encode(), capture_output=True)
    return r.returncode, r.stderr.decode(errors='replace')

def check(ctx, tier, seed, t0):
    proof = vlib.proof_status(ctx, FILES)
    hd = ctx.get('headers') or {'units': []}
    units = {u['name']: u for u in hd['units']}
    names = sorted(units)
    workdir = os.path.join(vlib.WORK, 'c20'); os.makedirs(workdir, exist_ok=True)
    with ThreadPoolExecutor(max_workers=16) as ex:
        sv = dict(zip(names, ex.map(lambda h: standalone_values(units, h, workdir), names)))
    n_vals = sum(len(v) for v in sv.values())
    jobs = [(a, b, lang) for a in names for b in names if a != b for lang in ('c', 'cpp')]
    def job(j):
        a, b, lang = j
        vals = dict(sv[a]); vals.update(sv[b])
        rc, err = compile_tu(pair_tu(a, b, vals, lang), lang)
        return (a, b, lang, rc, err)
    with ThreadPoolExecutor(max_workers=16) as ex:
        res = list(ex.map(job, jobs))
    failures, tie = [], []
    bad_pairs = {}
    for a, b, lang, rc, err in res:
        if rc != 0:
            first = next((l for l in err.splitlines() if 'error' in l), err[:200])
            bad_pairs.setdefault(tuple(sorted((a, b))), []).append((a, b, lang, first))
    model_bad = {}
    for a, b in itertools.combinations(names, 2):
        w = model_interferes(units, a, b)
        if w:
            model_bad[(a, b)] = w
    for pair, lst in sorted(bad_pairs.items()):
        a, b, lang, first = lst[0]
        failures.append({'key': {'pair': ','.join(pair)}, 'cmd': '#include "%s" then "%s" (%s), with static assertions on stand-alone values' % (a, b, 'C99' if lang == 'c' else 'C++11'),
                         'impl': first[:300], 'expected': 'compiles, every name keeps its stand-alone value', 'orders_failing': ['%s->%s (%s)' % (x[0], x[1], x[2]) for x in lst],
                         'model': '; '.join(model_bad.get(pair, ['model: non-interfering'])),
                         'what': 'headers %s and %s cannot be combined: %s' % (pair[0], pair[1], first[:160])})
    # tie: the model's verdict per unordered pair against the compilers' verdict
    for pair in set(bad_pairs) | set(model_bad):
        if (pair in bad_pairs) != (pair in model_bad):
            tie.append({'pair': pair, 'compilers': 'reject / change a value' if pair in bad_pairs else 'accept', 'model': model_bad.get(pair, 'non-interfering')})
    for t in tie:
        if t['compilers'] == 'accept':
            # the model sees an interference the pairwise compile does not expose: still a clash of names
            failures.append({'key': {'pair': ','.join(t['pair'])}, 'cmd': 'header unit model (tools/gen_headers.py)', 'impl': str(t['model'])[:300], 'expected': 'no shared or captured name',
                             'what': 'headers %s and %s interfere in the name model although both orders compile: %s' % (t['pair'][0], t['pair'][1], str(t['model'])[:200])})
    unsound = [t for t in tie if t['compilers'] != 'accept']
    if unsound:
        proof['broken'].append({'file': 'correspondence C20 (header unit model vs gcc/g++)', 'line': 0,
                                'error': 'the compilers reject pairs the model calls non-interfering: %s' % unsound[:3]})
    # thorough: random larger subsets in random orders (without the known pair)
    n_sub = 0
    if tier != 'quick':
        rng = vlib.Rng(seed)
        known = [set(e['key']['pair'].split(',')) for e in vlib.load_known() if e.get('property') == 'C20' and e.get('status') == 'known']
        subs = []
        for _ in range(300):
            k = rng.randint(3, len(names))
            sel = rng.sample(names, k)
            for kp in known:
                if kp <= set(sel):
                    sel.remove(sorted(kp)[0])
            subs.append(sel)
        def sub_job(sel):
            vals = {}
            for h in sel: vals.update(sv[h])
            src = '\n'.join('#include "%s"' % h for h in sel) + '\n' + '\n'.join(pair_tu(sel[0], sel[0], vals, 'c').splitlines()[2:])
            return sel, compile_tu(src, 'c')
        with ThreadPoolExecutor(max_workers=16) as ex:
            for sel, (rc, err) in ex.map(sub_job, subs):
                n_sub += 1
                if rc != 0:
                    first = next((l for l in err.splitlines() if 'error' in l), err[:200])
                    failures.append({'key': {'subset': ','.join(sel[:6]) + '...'}, 'cmd': 'include %s' % ' '.join(sel), 'impl': first[:300], 'expected': 'compiles',
                                     'what': 'a subset of %d headers in this order does not combine: %s' % (len(sel), first[:160])})
    total = len(jobs) + n_sub
    streams = stream_summary(total, total,
        'all 650 ordered pairs of the 26 public headers x {gcc -std=c99, g++ -std=c++11}, each translation unit followed by static assertions that every enumerator, every integer-valued '
        'macro and the size of every header type (%d facts, measured by compiling each header alone) keeps its stand-alone value; the verdict per unordered pair is compared with the header unit '
        'model regenerated by tools/gen_headers.py (tie); thorough: 300 random subsets of 3..26 headers in random order. non-trivial = distinct translation unit' % n_vals,
        [{'pair': '%s + %s' % (a, b), 'lang': lang, 'rc': rc} for a, b, lang, rc, _ in res[::max(1, len(res) // 5)]],
        len(unsound), len(failures), {'input_distribution': {'pair_units': len(jobs), 'standalone_facts': n_vals, 'subsets': n_sub, 'model_interfering_pairs': [list(k) for k in model_bad]}})
    return vlib.finish(PROP, tier, seed, t0, proof, streams, failures, ASSUME + ['the header model knows names and identifier tokens, not C typing: a pure type incompatibility between two prototypes of one name is seen by the compile sweep only'],
                       TRUSTED + ['tools/gen_headers.py: header units from a lexer + the clang AST of each header compiled alone'])

def replay(ctx, path):
    def rerun(ctx, f):
        return {'impl': 're-run ./check C20 (the sweep recompiles every pair on every run)', 'expected': f.get('expected', ''), 'fails': True}
    return replay_generic(ctx, path, rerun)
