"""C05 - a PDU behaves as a record of independent fields under any history of operations."""
import vlib
from props.common import *
from props import fieldlib as F
from props import c11 as C11

PROP = 'C05'
FILES = ['Properties_C05.v']

class Gen:
    def __init__(self, ctx, seed):
        self.rng = vlib.Rng(seed)
        self.fmts = F.load_spec(ctx)
        self.ev = F.enum_values(ctx)
        apis, _ = C11.load_legacy(ctx)
        self.api = {a['fmt']: a for a in apis}
        self.dist = {}
        self.last = {}          # (buffer, field enumerator) -> last value written in the current history

    def count(self, k):
        self.dist[k] = self.dist.get(k, 0) + 1

    def value(self, w, key=None):
        """a value for a field of width w; with some probability one that is RELATED to what the field currently holds
        (same value, its low or high half, one bit away, same low 32 bits): the inputs on which shortcuts such as
        'skip the write when nothing changes' or truncated comparisons go wrong"""
        r = self.rng
        old = self.last.get(key)
        if old is not None and r.randint(0, 3) == 0:
            c = r.randint(0, 6)
            v = [old, old & 0xffffffff, old >> 32, old ^ (1 << r.randint(0, max(w - 1, 0))), (old & 0xffffffff) | (r.bits(32) << 32),
                 old & 0xffff, (old + (1 << 32)) & ((1 << 64) - 1)][c]
            self.count('value:related-to-current')
        else:
            v = self.value0(w) & ((1 << 64) - 1)
        if key is not None:
            self.last[key] = v & ((1 << w) - 1) if w < 64 else v
        return v

    def value0(self, w):
        r = self.rng
        c = r.randint(0, 9)
        if c == 0: return 0
        if c == 1: return (1 << w) - 1 if w else 0
        if c == 2: return (1 << w) | r.bits(w)          # wider than the field
        if c == 3: return (1 << 64) - 1
        return r.bits(w) if r.randint(0, 3) else r.bits(64)

    def op(self, k, f, malformed):
        """(concrete op token, [reference op tokens], kind)"""
        r = self.rng
        a = self.api.get(f.name)
        fld = r.choice(f.fields)
        idx = self.ev.get(fld['name'])
        c = r.randint(0, 99)
        if malformed and c < 30:
            maxv = self.ev[f.sentinel]
            bad = r.choice([maxv, maxv + 1, 256 + (idx or 0), 255, 65536 + (idx or 0), (1 << 32) - 1])
            if bad < maxv:
                bad = maxv
            if a and r.randint(0, 1):
                self.count('malformed:legacy')
                if r.randint(0, 1):
                    return ('l:%s:%d:%x:%x:x' % (a['set'], k, bad, r.bits(32)), [], 'lset-bad')
                return ('l:%s:%d:%x:0:%x' % (a['get'], k, bad, r.bits(16)), [], 'lget-bad')
            self.count('malformed:by-id')
            if r.randint(0, 1):
                return ('s:%s:%d:%x:%x' % (f.set_field, k, bad, r.bits(64)), [], 'set-bad')
            return ('g:%s:%d:%x' % (f.get_field, k, bad), [], 'get-bad')
        if c < 5 and f.init:
            self.count('init:current')
            self.last = {kk: vv for kk, vv in self.last.items() if kk[0] != k}
            return ('i:%s:%d' % (f.init, k), ['i:%s:%d' % (f.name, k)], 'init')
        if c < 9 and a and a['init']:
            self.count('init:legacy')
            x = r.bits(8)
            ref = ['i:%s:%d' % (f.name, k)]
            if a['init_field']:
                ref.append('s:%s:%s:%d:%x' % (f.name, a['init_field'], k, x))
            return ('l:%s:%d:%x:0:x' % (a['init'], k, x), ref, 'linit')
        if c < 22 and a and idx is not None:
            if r.randint(0, 2):
                self.count('set:legacy')
                vw = 32 if a['set'] == 'avtp_pdu_set' else 64
                v = self.value(fld['width'], (k, fld['name'])) & ((1 << vw) - 1)
                return ('l:%s:%d:%x:%x:x' % (a['set'], k, idx, v), ['s:%s:%s:%d:%x' % (f.name, fld['name'], k, v)], 'lset')
            self.count('get:legacy')
            return ('l:%s:%d:%x:0:%x' % (a['get'], k, idx, r.bits(16)), ['g:%s:%s:%d' % (f.name, fld['name'], k)], 'lget')
        if c < 45 and fld['setter']:
            self.count('set:dedicated')
            v = self.value(fld['width'], (k, fld['name']))
            return ('s:%s:%d:%x' % (fld['setter'], k, v), ['s:%s:%s:%d:%x' % (f.name, fld['name'], k, v)], 'set')
        if c < 70 and idx is not None:
            self.count('set:by-id')
            v = self.value(fld['width'], (k, fld['name']))
            return ('s:%s:%d:%x:%x' % (f.set_field, k, idx, v), ['s:%s:%s:%d:%x' % (f.name, fld['name'], k, v)], 'set')
        if c < 85 and fld['getter']:
            self.count('get:dedicated')
            return ('g:%s:%d' % (fld['getter'], k), ['g:%s:%s:%d' % (f.name, fld['name'], k)], 'get')
        if idx is not None:
            self.count('get:by-id')
            return ('g:%s:%d:%x' % (f.get_field, k, idx), ['g:%s:%s:%d' % (f.name, fld['name'], k)], 'get')
        self.count('get:dedicated')
        return ('g:%s:%d' % (fld['getter'], k), ['g:%s:%s:%d' % (f.name, fld['name'], k)], 'get')

    def history(self, nops, malformed):
        r = self.rng
        self.last = {}
        nb = r.choice([1, 1, 2, 3])
        legacy = [f for f in self.fmts if f.name in self.api]
        fs = [r.choice(legacy) if r.randint(0, 3) == 0 else r.choice(self.fmts) for _ in range(nb)]
        bufs = []
        for f in fs:
            n = f.hdr + r.choice([0, 0, 1, 4])
            fill = r.randint(0, 2)
            bufs.append(bytes(n) if fill == 0 else (bytes([0xff]) * n if fill == 1 else r.bytes(n)))
        ops = []
        for _ in range(nops):
            k = r.randint(0, nb - 1)
            ops.append((k,) + self.op(k, fs[k], malformed))
        self.count('formats:' + '+'.join(sorted(f.name for f in fs)) if False else 'buffers:%d' % nb)
        return {'bufs': [F.hexbuf(b) for b in bufs], 'fmts': [f.name for f in fs], 'ops': ops, 'malformed': malformed}

def lines_of(h):
    q = 'Q %s %s' % (','.join(h['bufs']), ' '.join(o[1] for o in h['ops']))
    refops = [t for o in h['ops'] for t in o[2]]
    sq = 'SQ %s %s' % (','.join(h['bufs']), ' '.join(refops))
    return q, sq

def compare(h, impl, model, ref):
    """first step at which the implementation departs from the reference (or None), and whether impl == model"""
    tie_ok = impl == model
    it, rt = impl.split(), ref.split()
    if impl.startswith('CRASH'):
        return 0, 'implementation: ' + impl, tie_ok
    cur = list(h['bufs'])
    ri = 0
    for j, (k, tok, refops, kind) in enumerate(h['ops']):
        if j >= len(it):
            return j, 'missing output', tie_ok
        t = it[j]
        rtoks = rt[ri:ri + len(refops)]
        ri += len(refops)
        if kind in ('set', 'init'):
            if not rtoks or t != rtoks[-1]:
                return j, 'step %d (%s): implementation %s, reference %s' % (j, tok, t[:90], (rtoks or ['?'])[-1][:90]), tie_ok
            cur[k] = t[1:]
        elif kind == 'get':
            if not rtoks or int(t[1:], 16) != int(rtoks[-1][1:], 16) if (t[0] == 'v' and rtoks and rtoks[-1][0] == 'v') else True:
                return j, 'step %d (%s): implementation %s, reference %s' % (j, tok, t[:90], (rtoks or ['?'])[-1][:90]), tie_ok
        elif kind in ('lset', 'linit'):
            p = t.split(',')
            if len(p) != 3 or p[0] != 'r0' or not rtoks or ('b' + p[1]) != rtoks[-1]:
                return j, 'step %d (%s): implementation %s, reference %s' % (j, tok, t[:90], (rtoks or ['?'])[-1][:90]), tie_ok
            cur[k] = p[1]
        elif kind == 'lget':
            p = t.split(',')
            if len(p) != 3 or p[0] != 'r0' or p[1] != cur[k] or not rtoks or rtoks[-1][0] != 'v' or int(p[2], 16) != int(rtoks[-1][1:], 16):
                return j, 'step %d (%s): implementation %s, reference %s with the buffer unchanged' % (j, tok, t[:90], (rtoks or ['?'])[-1][:90]), tie_ok
        elif kind in ('set-bad',):
            if t != 'b' + cur[k]:
                return j, 'step %d (%s): invalid identifier must leave the buffer, got %s' % (j, tok, t[:90]), tie_ok
        elif kind == 'get-bad':
            if t != 'v0':
                return j, 'step %d (%s): invalid identifier must read 0, got %s' % (j, tok, t[:90]), tie_ok
        elif kind in ('lset-bad', 'lget-bad'):
            p = t.split(',')
            want_res = tok.split(':')[5]
            if len(p) != 3 or p[0] != 'rE' or p[1] != cur[k] or (p[2] != want_res and not (want_res != 'x' and int(p[2], 16) == int(want_res, 16))):
                return j, 'step %d (%s): -EINVAL without side effects expected, got %s' % (j, tok, t[:90]), tie_ok
    # final buffers
    fin_i = impl.split(' F ')[-1] if ' F ' in impl or impl.startswith('F ') else None
    fin_r = ref.split('F ')[-1]
    if fin_i is None or fin_i.strip() != fin_r.strip():
        return len(h['ops']), 'final buffers: implementation %s, reference %s' % (str(fin_i)[:90], fin_r[:90]), tie_ok
    return None, None, tie_ok

def run_hist(ctx, hs):
    qs = [lines_of(h) for h in hs]
    impl = vlib.run_harness(ctx, [q for q, _ in qs])
    out = vlib.run_oracle(ctx, [q for q, _ in qs] + [s for _, s in qs])
    n = len(hs)
    res = []
    for i, h in enumerate(hs):
        res.append((impl[i] if i < len(impl) else 'MISSING', out[i], out[n + i]))
    return res

def shrink(ctx, h, budget=40):
    """shortest failing prefix, then greedy removal of earlier steps"""
    def fails(hh):
        (i, m, r), = run_hist(ctx, [hh])
        j, why, tie = compare(hh, i, m, r)
        return j is not None or not tie
    (i, m, r), = run_hist(ctx, [h])
    j, why, tie = compare(h, i, m, r)
    cur = dict(h)
    if j is not None and j < len(h['ops']):
        cur['ops'] = h['ops'][:j + 1]
    k = 0
    while k < len(cur['ops']) - 1 and budget > 0:
        t = dict(cur); t['ops'] = cur['ops'][:k] + cur['ops'][k + 1:]
        budget -= 1
        if fails(t):
            cur = t
        else:
            k += 1
    return cur

def check(ctx, tier, seed, t0):
    proof = vlib.proof_status(ctx, FILES)
    g = Gen(ctx, seed)
    nh = 260 if tier == 'quick' else 4000
    hs = []
    # corpus first: the minimal histories of earlier findings, then generated ones
    for n in range(nh):
        nops = g.rng.choice([1, 2, 3, 5, 8, 13, 21, 34, 55, 89, 144, 200])
        hs.append(g.history(nops, malformed=(n % 8 == 7)))
    res = run_hist(ctx, hs)
    failures, tie = [], []
    steps = 0
    for h, (i, m, r) in zip(hs, res):
        steps += len(h['ops'])
        j, why, tie_ok = compare(h, i, m, r)
        if not tie_ok:
            tie.append((h, i, m))
        if j is not None:
            small = shrink(ctx, h)
            q, sq = lines_of(small)
            (i2, m2, r2), = run_hist(ctx, [small])
            j2, why2, _ = compare(small, i2, m2, r2)
            acc = small['ops'][-1][1].split(':')[1] if small['ops'] else '?'
            failures.append({'key': {'formats': '+'.join(small['fmts']), 'accessor': acc, 'steps': len(small['ops'])},
                             'cmd': q, 'spec_cmd': sq, 'impl': i2, 'expected': r2, 'model': m2, 'history': small,
                             'what': 'history of %d steps on %s: %s' % (len(small['ops']), small['fmts'], why2 or why)})
            if len(failures) >= 8:
                break
    if tie and not failures:
        h, i, m = tie[0]
        small = shrink(ctx, h)
        q, _ = lines_of(small)
        proof['broken'].append({'file': 'correspondence C05 (model vs implementation on operation histories)', 'line': 0,
                                'error': '%d histories differ; minimal: %s' % (len(tie), q[:600])})
    streams = stream_summary(steps, steps,
        '%d operation histories of 1..200 steps (Fibonacci lengths) over 1-3 buffers of mixed formats, initial fills 0x00 / 0xff / random, '
        'mostly valid operations through all entry-point families (current init, by-identifier and dedicated accessors, deprecated get/set/init) '
        'with every 8th history drawing 30%% malformed steps (identifiers >= MAX, 256+k, 2^32-1); each history runs in ONE process, a token is '
        'printed after every step and compared with the extracted model (tie) and with the reference record semantics (search); failing histories '
        'are cut to the first diverging step and then greedily minimised. evaluations = steps; non-trivial = steps (each carries fresh random choices)' % len(hs),
        [{'cmd': lines_of(h)[0][:200], 'impl': r_[0][:100], 'model': r_[1][:100]} for h, r_ in list(zip(hs, res))[::max(1, len(hs) // 5)]],
        len(tie), len(failures), {'input_distribution': dict(sorted(g.dist.items())), 'histories': len(hs)})
    return vlib.finish(PROP, tier, seed, t0, proof, streams, failures, ASSUME, TRUSTED)

def replay(ctx, path):
    def rerun(ctx, f):
        h = f['history']
        h['ops'] = [tuple(o) for o in h['ops']]
        (i, m, r), = run_hist(ctx, [h])
        j, why, tie = compare(h, i, m, r)
        return {'impl': i, 'expected': r, 'fails': j is not None}
    return replay_generic(ctx, path, rerun)
