"""Shared case generation for the ACF-VSS codec properties (C07 encode, C08 decode)."""
import struct
import vlib
from props import fieldlib as F

SCALARS = {0: 1, 1: 1, 8: 1, 2: 2, 3: 2, 4: 4, 5: 4, 9: 4, 6: 8, 7: 8, 10: 8}
BYTES = [11, 0x80, 0x81, 0x88, 0x8B]
ELEMS = {0x82: 2, 0x83: 2, 0x84: 4, 0x85: 4, 0x89: 4, 0x86: 8, 0x87: 8, 0x8A: 8}
RESERVED_DT = [0x0C, 0x7F, 0x8C, 0xFF]
FLOAT_BITS = [0x00000000, 0x80000000, 0x00000001, 0x7f800000, 0xff800000, 0x7fc00000, 0x7fa00000, 0x3f800000, 0xc2f6e979]
DOUBLE_BITS = [0, 1 << 63, 1, 0x7ff0000000000000, 0xfff0000000000000, 0x7ff8000000000000, 0x7ff4000000000000, 0x3ff0000000000000, 0xc05edd2f1a9fbe77]

def header(rng, mode, dt):
    h = bytearray(rng.bytes(12))
    h[0] = 0x84 | (h[0] & 1)            # acf_msg_type 0x42 in the upper seven bits
    h[2] = (h[2] & 0b11100111) | ((mode & 3) << 3)
    h[3] = dt
    return bytes(h)

def path_cases(rng, tier):
    lens = [0, 1, 2, 13, 255, 256, 1000] if tier != 'quick' else [0, 1, 13, 255, 256]
    out = [('static', rng.bits(32)), ('static', 0), ('static', 0xffffffff)]
    for n in lens:
        out.append(('interop', rng.bytes(n)))
    return out

def value_cases(rng, dt, tier):
    """list of (kind, payload) : ('scalar', w, v) | ('bytes', b) | ('elems', w, [v])"""
    quick = tier == 'quick'
    if dt in SCALARS:
        w = SCALARS[dt]
        vs = [0, 1, (1 << (8 * w)) - 1, 1 << (8 * w - 1), rng.bits(8 * w)]
        if dt == 9: vs += FLOAT_BITS
        if dt == 10: vs += DOUBLE_BITS
        return [('scalar', w, v) for v in (vs if not quick else vs[:4] + vs[5:8])]
    if dt in BYTES:
        lens = [0, 1, 2, 3, 255, 256, 257, 511, 512, 1001] if not quick else [0, 1, 3, 255, 256, 257, 512]
        return [('bytes', rng.bytes(n)) for n in lens]
    if dt in ELEMS:
        w = ELEMS[dt]
        # element COUNTS around 255/256/257 as well as byte lengths around 255/256: a count kept in a narrow integer wraps there
        ns = [0, 1, 2, 3, 255 // w, 256 // w, 64, 255, 256, 257, 300, 512, 1000] if not quick else [0, 1, 3, 256 // w, 255, 256, 257]
        out = []
        for n in ns:
            es = [rng.bits(8 * w) for _ in range(n)]
            if n and dt == 0x89: es[0] = rng.choice(FLOAT_BITS)
            if n and dt == 0x8A: es[0] = rng.choice(DOUBLE_BITS)
            out.append(('elems', w, es))
        return out
    return [('scalar', 4, rng.bits(32)), ('bytes', rng.bytes(3))]

def enc_path_len(p):
    return 4 if p[0] == 'static' else 2 + len(p[1])

def enc_data_len(v):
    if v[0] == 'scalar': return v[1]
    if v[0] == 'bytes': return 2 + len(v[1])
    return 2 + v[1] * len(v[2])

def path_cmds(buf, p):
    if p[0] == 'static':
        return 'VSP %s static %x' % (buf, p[1]), 'SVSP %s static %x' % (buf, p[1])
    hb = F.hexbuf(p[1])
    return 'VSP %s interop %x %s' % (buf, len(p[1]), hb), 'SVSP %s interop %x %s' % (buf, len(p[1]), hb)

def data_cmds(buf, v):
    if v[0] == 'scalar':
        return 'VSD %s scalar %x' % (buf, v[2]), 'SVSD %s scalar %d %x' % (buf, v[1], v[2])
    if v[0] == 'bytes':
        hb = F.hexbuf(v[1])
        return 'VSD %s bytes %x %s' % (buf, len(v[1]), hb), 'SVSD %s bytes %s' % (buf, hb)
    w, es = v[1], v[2]
    hx = ''.join('%0*x' % (2 * w, e) for e in es) or '.'
    return 'VSD %s elems %x %d %s' % (buf, w * len(es), w, hx), 'SVSD %s elems %d %s' % (buf, w, hx)

def messages(ctx, rng, tier):
    """yield dict(mode, dt, path, value, hdr) for the systematic sweep"""
    out = []
    for dt in list(SCALARS) + BYTES + list(ELEMS):
        vals = value_cases(rng, dt, tier)
        paths = path_cases(rng, tier)
        for i, v in enumerate(vals):
            # every value with two paths (one per mode), every path with the first value
            ps = [paths[i % 3], paths[3 + i % (len(paths) - 3)]] if i else paths
            for p in ps:
                mode = 1 if p[0] == 'static' else 0
                out.append({'mode': mode, 'dt': dt, 'path': p, 'value': v})
    return out
