"""C02 - field writes store the value in exactly the field's bits and nowhere else."""
import vlib
from props.common import *
from props import fieldlib as F

PROP = 'C02'
FILES = ['Properties_C02.v']

def build_cases(ctx, tier, seed):
    rng = vlib.Rng(seed)
    ctx['model_cfg'] = F.model_cfg(ctx)
    fmts = F.load_spec(ctx)
    return F.raw_cases(ctx, rng, tier, setter=True) + F.set_cases(ctx, fmts, rng, tier)

def check(ctx, tier, seed, t0):
    proof = vlib.proof_status(ctx, FILES)
    cases = build_cases(ctx, tier, seed)
    F.run_cases(ctx, cases)
    failures, tie = F.judge(cases)
    if tie and not failures:
        proof['broken'].append({'file': 'correspondence C02 (model of Avtp_SetField / generated setter records vs implementation)', 'line': 0,
                                'error': '%d cases differ, e.g. %s -> impl %s, model %s' % (len(tie), tie[0]['cmd'][:200], tie[0]['impl'][:80], tie[0]['model'][:80])})
    named = [c for c in cases if c['cmd'].startswith('S ')]
    streams = stream_summary(len(cases), len(set(c['cmd'] for c in cases)),
        'generic writer on all 2080 accepted descriptor shapes x start quadlets {0, one of 1,2,3,7,100,253,254,255} (thorough: all) x prior '
        'contents (0x00, 0xff, 0xa5, bits at the field edges, random) x values {0, 1, 2^w-1, 2^w, 2^w+1, 2^64-1, random}; every named field of '
        'all 23 formats through the by-identifier writer and the dedicated setter on buffers of exactly the header length and header+5 '
        '(trailing bytes must survive). Whole resulting buffer compared three ways: implementation / extracted model / extracted reference '
        '(Spec.spec_insert). non-trivial = distinct command line',
        [{'cmd': c['cmd'][:160], 'impl': c['impl'][:70], 'model': c['model'][:70], 'reference': (c['ref'] or '')[:70]} for c in cases[::max(1, len(cases) // 6)]],
        len(tie), len(failures),
        {'input_distribution': {'generic_writer_cases': len(cases) - len(named), 'named_field_cases': len(named),
                                'formats': len(set(c['key'].get('format') for c in named)),
                                'accessors': len(set(c['key'].get('accessor') for c in named))}})
    return vlib.finish(PROP, tier, seed, t0, proof, streams, failures, ASSUME, TRUSTED)

def replay(ctx, path):
    ctx['model_cfg'] = F.model_cfg(ctx)
    return replay_generic(ctx, path, F.rerun_case)
