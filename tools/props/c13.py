"""C13 - byte-order helpers convert correctly for every value."""
import time
import vlib
from props.common import *

KINDS = ['Bswap', 'CpuToLe', 'CpuToBe', 'LeToCpu', 'BeToCpu']

def bswap(x, w):
    return int.from_bytes(x.to_bytes(w // 8, 'big'), 'little')

def reference(branch, kind, w, x):
    """what the property demands of the helper selected for a host of byte order `branch`"""
    x &= (1 << w) - 1
    if kind == 'Bswap':
        return bswap(x, w)
    to_be = kind in ('CpuToBe', 'BeToCpu')
    swap = (branch == 'LE') == to_be
    return bswap(x, w) if swap else x

def values(rng, w, n_random):
    vs = {0, 1, (1 << w) - 1, 1 << (w - 1)}
    for i in range(w):
        vs.add(1 << i); vs.add(((1 << w) - 1) ^ (1 << i))
    for b in range(w // 8):
        vs.add(0xff << (8 * b)); vs.add(0xa5 << (8 * b))
    vs.add(int.from_bytes(bytes(range(1, w // 8 + 1)), 'big'))
    for _ in range(n_random):
        vs.add(rng.bits(w))
    return sorted(vs)

def cases(seed, tier):
    rng = vlib.Rng(seed)
    n = 200 if tier == 'quick' else 20000
    out = []
    for br in ('LE', 'BE'):
        for k in KINDS:
            for w in (16, 32, 64):
                for v in values(rng, w, n):
                    out.append((br, k, w, v))
    return out

def run(ctx, cs):
    lines = ['H %s %s %d %x' % c for c in cs]
    model = vlib.run_oracle(ctx, lines)
    le = [i for i, c in enumerate(cs) if c[0] == 'LE']
    be = [i for i, c in enumerate(cs) if c[0] == 'BE']
    impl = [None] * len(cs)
    got = vlib.run_harness(ctx, [lines[i] for i in le])
    for i, g in zip(le, got):
        impl[i] = g
    r = vlib.sh([ctx['hbe']], inp=('\n'.join(lines[i] for i in be) + '\n').encode(), timeout=300)
    gotb = r.stdout.decode().split('\n')
    for i, g in zip(be, gotb):
        impl[i] = g
    return lines, impl, model

def check(ctx, tier, seed, t0):
    proof = vlib.proof_status(ctx, ['Properties_C13.v'])
    cs = cases(seed, tier)
    lines, impl, model = run(ctx, cs)
    failures = []
    tie_bad = spec_bad = 0
    for c, l, i, m in zip(cs, lines, impl, model):
        br, k, w, v = c
        iv = parse_v(i or '')
        mv = parse_v(m)
        ref = reference(br, k, w, v)
        if iv is None or mv is None or iv[0] != mv[0]:
            tie_bad += 1
        if iv is None or iv[0] != ref:
            spec_bad += 1
            failures.append({'key': {'helper': 'Avtp_%s%d' % (k, w), 'branch': br}, 'cmd': l,
                             'impl': i, 'expected': 'V %x' % ref, 'model': m,
                             'what': 'Avtp_%s%d (%s branch) maps %#x to %s, the property demands %#x' % (k, w, br, v, i, ref)})
    if tie_bad and not failures:
        proof['broken'].append({'file': 'correspondence C13 (generated helper terms vs compiled helpers)', 'line': 0,
                                'error': '%d evaluations differ between the generated CExpr terms and the compiled helpers' % tie_bad})
    streams = stream_summary(len(cs), len(set(cs)),
        'every helper (5 kinds x 3 widths) in both #if branches (LE: the library as built; BE: branch forced on this host) on '
        '0, 1, all-ones, every walking-1 and walking-0, every single-byte 0xff/0xa5 pattern, 0x0102..., and random values from '
        'VERIF_SEED; non-trivial = distinct (branch, helper, width, value)',
        [{'cmd': l, 'impl': i, 'model': m} for l, i, m in list(zip(lines, impl, model))[::max(1, len(cs) // 6)]],
        tie_bad, spec_bad,
        {'input_distribution': {'branches': 2, 'helpers': 15, 'values_per_helper_width16/32/64': [len(values(vlib.Rng(seed), w, 0)) for w in (16, 32, 64)]}})
    return vlib.finish('C13', tier, seed, t0, proof, streams, failures, ASSUME, TRUSTED)

def replay(ctx, path):
    def rerun(ctx, f):
        p = f['cmd'].split()
        c = (p[1], p[2], int(p[3]), int(p[4], 16))
        _, impl, model = run(ctx, [c])
        ref = reference(*c)
        iv = parse_v(impl[0] or '')
        return {'impl': impl[0], 'expected': 'V %x' % ref, 'fails': iv is None or iv[0] != ref}
    return replay_generic(ctx, path, rerun)
