"""C06 - ACF-CAN message builders emit a well-formed, exactly padded message."""
import vlib
from props.common import *
from props import fieldlib as F

PROP = 'C06'
FILES = ['Properties_C06.v']
HDR = {'full': 16, 'brief': 8}

def pad_of(n):
    return (4 - n % 4) % 4

def build(ctx, tier, seed):
    rng = vlib.Rng(seed)
    quick = tier == 'quick'
    lens = list(range(0, 65)) + [65, 66, 67, 68, 127, 128, 129, 236, 237, 239, 240, 252, 253, 254, 255, 256, 257, 1021, 1022, 1023, 1024, 2025, 2026, 2027, 2028]
    lens += [rng.randint(69, 2028) for _ in range(6 if quick else 200)]
    big = [2029, 2033, 4096, 65535] if not quick else [2029, 65535]
    ids = [0, 1, 0x7ff, 0x800, 0x1fffffff, 0x20000000, 0xffffffff]
    cases = []
    dist = {}
    def cnt(k):
        dist[k] = dist.get(k, 0) + 1
    for kind in ('full', 'brief'):
        hdr = HDR[kind]
        for n in lens + big:
            total = hdr + n + pad_of(n)
            fills = [0x00, 0xff, None] if n <= 64 else [None]
            id_list = ids + [rng.bits(32)] if n <= 8 or n in (64, 63) else [rng.choice(ids), rng.bits(32)]
            for fill in fills:
                for ident in (id_list if fill is None or n <= 8 else id_list[:2]):
                    extra = rng.choice([0, 0, 1, 5])
                    size = total + extra
                    b = bytes([fill]) * size if fill is not None else rng.bytes(size)
                    pl = rng.bytes(n)
                    var = rng.choice([0, 1])
                    hb, hp = F.hexbuf(b), F.hexbuf(pl)
                    cases.append({'cmd': 'CC %s %s %x %s %x %x' % (kind, hb, ident, hp, n, var),
                                  'spec': ('SCC %s %s %x %s %x' % (kind, hb, ident, hp, var)) if n <= 2100 else None,
                                  'key': {'builder': kind, 'len': n, 'what': 'create'}, 'kind': 'create', 'n': n, 'fmt': kind})
                    cnt('create:%s' % kind)
        # finalise alone on arbitrary headers, every residue
        for n in list(range(0, 13)) + [60, 61, 62, 63, 64, 2028]:
            size = hdr + n + pad_of(n) + rng.choice([0, 3])
            hb = F.hexbuf(rng.bytes(size))
            cases.append({'cmd': 'CF %s %s %x' % (kind, hb, n), 'spec': None, 'key': {'builder': kind, 'len': n, 'what': 'finalize'},
                          'kind': 'finalize', 'n': n, 'fmt': kind})
            cnt('finalize:%s' % kind)
    # prior header states RELATED to the result: length / pad / eff / fdf / identifier fields that already hold (or nearly
    # hold) what is about to be written, over never-zero stale payload and pad bytes (a "nothing to do" shortcut must still
    # copy the payload and clear the pad)
    from props import exlib
    enc = exlib.Enc(ctx)
    for kind, fmt in (('full', 'Can'), ('brief', 'CanBrief')):
        hdr = HDR[kind]
        for n in (list(range(0, 13)) + [63, 64]) if quick else range(0, 65):
            total = hdr + n + pad_of(n)
            for dq, dp in ((0, 0), (0, 1), (0, 3), (1, 0), (-1, 0)):
                ident = rng.choice([0x123, 0x7ff, 0x800, 0x1abcdef0])
                var = rng.choice([0, 1])
                b = bytearray(x | 1 for x in rng.bytes(total + rng.choice([0, 5])))
                enc.put(b, 0, fmt, 'ACF_MSG_LENGTH', (total // 4 + dq) % 512)
                enc.put(b, 0, fmt, 'PAD', (pad_of(n) + dp) % 4)
                enc.put(b, 0, fmt, 'EFF', 1 if ident > 0x7ff else 0)
                enc.put(b, 0, fmt, 'FDF', var)
                enc.put(b, 0, fmt, 'CAN_IDENTIFIER', ident)
                hb, pl = F.hexbuf(bytes(b)), rng.bytes(n)
                cases.append({'cmd': 'CC %s %s %x %s %x %x' % (kind, hb, ident, F.hexbuf(pl), n, var), 'spec': 'SCC %s %s %x %s %x' % (kind, hb, ident, F.hexbuf(pl), var),
                              'key': {'builder': kind, 'len': n, 'what': 'create', 'prior': 'related'}, 'kind': 'create', 'n': n, 'fmt': kind})
                cases.append({'cmd': 'CF %s %s %x' % (kind, hb, n), 'spec': None, 'key': {'builder': kind, 'len': n, 'what': 'finalize', 'prior': 'related'},
                              'kind': 'finalize', 'n': n, 'fmt': kind})
                cnt('prior-header-related:%s' % kind)
    # exact-extent: a buffer one byte too short must be an out-of-bounds access in both model and implementation
    for kind in ('full', 'brief'):
        for n in (1, 5, 7, 64):
            size = HDR[kind] + n + pad_of(n) - 1
            hb, hp = F.hexbuf(rng.bytes(size)), F.hexbuf(rng.bytes(n))
            cases.append({'cmd': 'CC %s %s %x %s %x 0' % (kind, hb, 0x123, hp, n), 'spec': None,
                          'key': {'builder': kind, 'len': n, 'what': 'short-buffer'}, 'kind': 'short', 'n': n, 'fmt': kind})
            cnt('short-buffer')
    return cases, dist

def run(ctx, cases):
    impl = vlib.run_harness(ctx, [c['cmd'] for c in cases])
    lines = [c['cmd'] for c in cases] + [c['spec'] for c in cases if c['spec']]
    out = vlib.run_oracle(ctx, lines, parallel=True)
    k = len(cases)
    failures, tie = [], []
    extra = []
    for i, c in enumerate(cases):
        c['impl'] = impl[i] if i < len(impl) else 'MISSING'
        c['model'] = out[i]
        c['ref'] = None
        if c['spec']:
            c['ref'] = out[k]; k += 1
        tie_ok = c['impl'] == c['model'] or (c['model'] == 'OOB' and c['impl'].startswith('CRASH')) or c['impl'].startswith('SKIPPED')
        if not tie_ok:
            tie.append(c)
        if c['ref'] and c['ref'] not in ('UNMOD',) and c['impl'] != c['ref']:
            failures.append({'key': c['key'], 'cmd': c['cmd'], 'spec_cmd': c['spec'], 'impl': c['impl'][:400], 'expected': c['ref'][:400], 'model': c['model'][:400],
                             'what': '%s: built message differs from the reference (first difference at hex offset %d)' % (
                                 c['key'], next((j for j, (x, y) in enumerate(zip(c['impl'], c['ref'])) if x != y), -1))})
    return failures, tie

def follow_ups(ctx, cases, rng):
    """read-back of the payload length and composition of the separate steps, on the built messages"""
    fails = []
    n_rb = n_co = 0
    rb, co = [], []
    for c in cases:
        if c['kind'] != 'create' or not c['impl'].startswith('B '):
            continue
        msg = c['impl'].split()[1]
        if c['fmt'] == 'full' and c['n'] <= 255:
            rb.append((c, 'CL %s' % msg))
        if c['n'] <= 64 and c['fmt'] == 'full' and len(co) < 400:
            co.append(c)
    if rb:
        out = vlib.run_harness(ctx, [x[1] for x in rb])
        mod = vlib.run_oracle(ctx, [x[1] for x in rb])
        for (c, cmd), o, m in zip(rb, out, mod):
            n_rb += 1
            if o != 'V %x' % c['n'] or o != m:
                fails.append({'key': dict(c['key'], what='readback'), 'cmd': cmd, 'impl': o, 'expected': 'V %x' % c['n'], 'model': m,
                              'what': 'payload length read back from a message built with %d bytes: %s (model %s)' % (c['n'], o, m)})
    # composition: SetPayload, the three dedicated setters in a random order, Finalize (batched phase by phase)
    plans = []
    for c in co:
        p = c['cmd'].split()
        buf, ident, pl, n, var = p[2], int(p[3], 16), p[4], int(p[5], 16), int(p[6], 16)
        steps = [('Avtp_Can_SetEff', 1 if ident > 0x7ff else 0), ('Avtp_Can_SetCanIdentifier', ident), ('Avtp_Can_SetFdf', var)]
        rng.shuffle(steps)
        plans.append({'c': c, 'n': n, 'steps': steps, 'cur': None, 'first': 'CP %s %s %x' % (buf, pl, n)})
    if plans:
        out = vlib.run_harness(ctx, [q['first'] for q in plans])
        for q, o in zip(plans, out):
            q['cur'] = o.split()[1] if o.startswith('B ') else '.'
        for k in range(3):
            out = vlib.run_harness(ctx, ['S %s %s %x' % (q['steps'][k][0], q['cur'], q['steps'][k][1]) for q in plans])
            for q, o in zip(plans, out):
                q['cur'] = o.split()[1] if o.startswith('B ') else '.'
        out = vlib.run_harness(ctx, ['CF full %s %x' % (q['cur'], q['n']) for q in plans])
        for q, fin in zip(plans, out):
            n_co += 1
            c = q['c']
            if fin != c['impl']:
                fails.append({'key': dict(c['key'], what='compose'), 'cmd': c['cmd'], 'impl': fin[:300], 'expected': c['impl'][:300],
                              'what': 'SetPayload + %s + Finalize differs from CreateAcfMessage' % [s_[0] for s_ in q['steps']]})
    return fails, n_rb, n_co

def check(ctx, tier, seed, t0):
    proof = vlib.proof_status(ctx, FILES)
    cases, dist = build(ctx, tier, seed)
    failures, tie = run(ctx, cases)
    rng = vlib.Rng(seed + 1)
    sub = cases if tier != 'quick' else cases
    f2, n_rb, n_co = follow_ups(ctx, [c for c in sub if c['kind'] == 'create' and (c['n'] <= 64 or c['n'] in (236, 237, 255))][::(1 if tier != 'quick' else 7)], rng)
    failures += f2
    dist['readback'] = n_rb; dist['compose'] = n_co
    if tie and not failures:
        proof['broken'].append({'file': 'correspondence C06 (CanModel.v vs Can.c / CanBrief.c)', 'line': 0,
                                'error': '%d cases differ, e.g. %s -> impl %s, model %s' % (len(tie), tie[0]['cmd'][:200], tie[0]['impl'][:120], tie[0]['model'][:120])})
    total = len(cases) + n_rb + n_co
    streams = stream_summary(total, len(set(c['cmd'] for c in cases)) + n_rb + n_co,
        'both builders x payload lengths 0..64 exhaustively, boundaries up to 2028 (the 9-bit limit), random lengths, and lengths beyond it '
        '(2029, 65535; model only, the reference function is quadratic in the buffer size) x identifiers {0, 1, 0x7ff, 0x800, 2^29-1, 2^29, 2^32-1, random} x both variants x prior fills {0x00, 0xff, random} on '
        'exact-extent buffers (ASan redzone right behind the padded message, sometimes 1/5 trailing bytes that must survive); Finalize alone on random '
        'headers for every residue; buffers one byte short (model OOB <-> sanitizer abort); payload-length read-back and composition of the separate '
        'steps with the dedicated setters in random order. Three-way comparison implementation / extracted model / reference can_ref. '
        'non-trivial = distinct command',
        [{'cmd': c['cmd'][:150], 'impl': c['impl'][:80], 'model': c['model'][:80]} for c in cases[::max(1, len(cases) // 6)]],
        len(tie), len(failures), {'input_distribution': dist})
    return vlib.finish(PROP, tier, seed, t0, proof, streams, failures, ASSUME, TRUSTED)

def replay(ctx, path):
    def rerun(ctx, f):
        c = {'cmd': f['cmd'], 'spec': f.get('spec_cmd'), 'key': f.get('key'), 'kind': 'x', 'n': 0, 'fmt': ''}
        fl, _ = run(ctx, [c])
        return {'impl': c['impl'][:300], 'expected': (c['ref'] or f.get('expected') or '')[:300], 'fails': bool(fl) or (c['spec'] is None and c['impl'][:300] != f.get('expected'))}
    return replay_generic(ctx, path, rerun)
