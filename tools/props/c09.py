"""C09 - VSS finalisation pads to a quadlet and records length and pad correctly."""
import vlib
from props.common import *
from props import fieldlib as F

PROP = 'C09'
FILES = ['Properties_C09.v']

def pad_of(n):
    return (4 - n % 4) % 4

def build(ctx, tier, seed):
    rng = vlib.Rng(seed)
    quick = tier == 'quick'
    cases, dist = [], {}
    lens = list(range(12, 2045)) if not quick else sorted(set(list(range(12, 80)) + list(range(12, 2045, 37)) + [255, 256, 257, 1023, 1024, 2040, 2041, 2042, 2043, 2044]))
    for n in lens:
        total = n + pad_of(n)
        fills = [0x00, 0xff, None] if ((not quick and n <= 256) or n < 40) else ([None] if quick else [None, (0x00, 0xff)[n % 2]])
        for fill in fills:
            # exact-extent and with trailing memory that must survive; an arena that would receive a misplaced fill
            for extra in ((0, 7) if n % 4 else (0,)):
                size = total + extra
                b = bytes([fill]) * size if fill is not None else rng.bytes(size)
                hb = F.hexbuf(b)
                cases.append({'cmd': 'VP %s %x' % (hb, n), 'spec': 'SVP %s %x' % (hb, n), 'key': {'function': 'Avtp_Vss_Pad', 'len_mod_4': n % 4},
                              'n': n})
                dist['pad:mod%d' % (n % 4)] = dist.get('pad:mod%d' % (n % 4), 0) + 1
    # prior header states RELATED to the result: length / pad fields that already hold (or nearly hold) the values
    # about to be written, over non-zero stale pad bytes (a "nothing to do" shortcut must still clear the pad)
    from props import exlib
    enc = exlib.Enc(ctx)
    for n in (sorted(set(list(range(12, 30)) + [254, 255, 257, 1021, 1022, 1023, 2041, 2042, 2043])) if quick else range(12, 2045, 7)):
        total = n + pad_of(n)
        q = total // 4
        for dq, dp in ((0, 0), (0, 1), (0, 2), (0, 3), (1, 0), (-1, 0)):
            b = bytearray(x | 1 for x in rng.bytes(total + rng.choice([0, 5])))       # never-zero stale bytes
            enc.put(b, 0, 'Vss', 'ACF_MSG_LENGTH', (q + dq) % 512)
            enc.put(b, 0, 'Vss', 'PAD', (pad_of(n) + dp) % 4)
            hb = F.hexbuf(bytes(b))
            cases.append({'cmd': 'VP %s %x' % (hb, n), 'spec': 'SVP %s %x' % (hb, n), 'key': {'function': 'Avtp_Vss_Pad', 'len_mod_4': n % 4, 'prior': 'related'}, 'n': n})
            dist['pad:prior-header-related'] = dist.get('pad:prior-header-related', 0) + 1
    # 32 KiB arena: a fill placed at 12*len instead of len lands inside and is seen as a changed byte
    for n in ([13, 14, 15, 101, 1022, 2043] if quick else list(range(13, 2045, 97))):
        b = rng.bytes(12) + bytes([0xa5]) * (32768 - 12)
        hb = F.hexbuf(b)
        cases.append({'cmd': 'VP %s %x' % (hb, n), 'spec': None, 'key': {'function': 'Avtp_Vss_Pad', 'len_mod_4': n % 4}, 'n': n, 'arena': True})
        dist['arena'] = dist.get('arena', 0) + 1
    # all 512 values of the length field through the dedicated accessors versus the generic ones
    ev = F.enum_values(ctx)
    idx = ev.get('AVTP_VSS_FIELD_ACF_MSG_LENGTH')
    for v in range(512) if not quick else list(range(0, 512, 5)) + [255, 256, 257, 511]:
        hb = F.hexbuf(rng.bytes(12))
        cases.append({'cmd': 'S Avtp_Vss_SetAcfMsgLength %s %x' % (hb, v), 'spec': 'SS Vss AVTP_VSS_FIELD_ACF_MSG_LENGTH %s %x' % (hb, v),
                      'key': {'accessor': 'Avtp_Vss_SetAcfMsgLength'}, 'n': v, 'acc': True})
        dist['length-accessors'] = dist.get('length-accessors', 0) + 1
    return cases, dist

def run(ctx, cases):
    impl = vlib.run_harness(ctx, [c['cmd'] for c in cases])
    out = vlib.run_oracle(ctx, [c['cmd'] for c in cases] + [c['spec'] for c in cases if c['spec']], parallel=True)
    k = len(cases)
    failures, tie = [], []
    for i, c in enumerate(cases):
        c['impl'] = impl[i] if i < len(impl) else 'MISSING'
        c['model'] = out[i]
        c['ref'] = None
        if c['spec']:
            c['ref'] = out[k]; k += 1
        if not (c['impl'] == c['model'] or (c['model'] == 'OOB' and c['impl'].startswith('CRASH')) or c['impl'].startswith('SKIPPED')):
            tie.append(c)
        if c.get('arena') and c['impl'].startswith('B '):
            # independent of the reference: only the pad bytes and the two header fields may differ from the input
            got = bytes.fromhex(c['impl'].split()[1]); old = bytes.fromhex(c['cmd'].split()[1]); n = c['n']
            bad = [j for j in range(4, len(old)) if got[j] != old[j] and not (n <= j < n + pad_of(n))]
            if bad:
                failures.append({'key': c['key'], 'cmd': c['cmd'][:200] + '...', 'impl': 'byte %d changed' % bad[0], 'expected': 'only bytes [%d,%d) and the length/pad fields change' % (n, n + pad_of(n)),
                                 'model': c['model'][:80], 'what': 'Avtp_Vss_Pad(len=%d) changed byte %d of the surrounding memory' % (n, bad[0])})
                continue
        if c['ref'] and c['ref'] != 'UNMOD' and c['impl'] != c['ref']:
            failures.append({'key': c['key'], 'cmd': c['cmd'][:600], 'spec_cmd': (c['spec'] or '')[:600], 'impl': c['impl'][:300], 'expected': c['ref'][:300], 'model': c['model'][:300],
                             'what': '%s len=%d: implementation %s, reference %s' % (c['key'], c['n'], c['impl'][:80], c['ref'][:80])})
    return failures, tie

def check(ctx, tier, seed, t0):
    proof = vlib.proof_status(ctx, FILES)
    cases, dist = build(ctx, tier, seed)
    failures, tie = run(ctx, cases)
    # read-back of the written length through both getters
    rb = [c for c in cases if c.get('acc') and c['impl'].startswith('B ')]
    idx = F.enum_values(ctx).get('AVTP_VSS_FIELD_ACF_MSG_LENGTH')
    if rb:
        cmds = []
        for c in rb:
            hb = c['impl'].split()[1]
            cmds += ['G Avtp_Vss_GetAcfMsgLength %s' % hb, 'G Avtp_Vss_GetField %s %x' % (hb, idx)]
        out = vlib.run_harness(ctx, cmds)
        for j, c in enumerate(rb):
            for o, acc in ((out[2 * j], 'Avtp_Vss_GetAcfMsgLength'), (out[2 * j + 1], 'Avtp_Vss_GetField')):
                v = parse_v(o)
                if v is None or v[0] != c['n']:
                    failures.append({'key': {'accessor': acc}, 'cmd': cmds[2 * j], 'impl': o[:80], 'expected': 'V %x' % c['n'],
                                     'what': 'length %d written through Avtp_Vss_SetAcfMsgLength reads back as %s through %s' % (c['n'], o[:40], acc)})
        dist['length-readback'] = 2 * len(rb)
    if tie and not failures:
        proof['broken'].append({'file': 'correspondence C09 (VssModel.vss_pad vs Vss.c)', 'line': 0,
                                'error': '%d cases differ, e.g. %s -> impl %s, model %s' % (len(tie), tie[0]['cmd'][:200], tie[0]['impl'][:120], tie[0]['model'][:120])})
    total = len(cases) + dist.get('length-readback', 0)
    streams = stream_summary(total, len(set(c['cmd'] for c in cases)) + dist.get('length-readback', 0),
        'Avtp_Vss_Pad for message lengths 12..2044 (thorough: all 2033; quick: 12..79, every 37th, boundaries) x fills {0x00, 0xff, random} on '
        'exact-extent buffers and with 7 trailing bytes; the same on a 32 KiB arena where a misplaced fill is seen wherever it lands; '
        'all (quick: every 5th + boundaries) 512 length-field values through Avtp_Vss_SetAcfMsgLength, read back through the dedicated and the '
        'generic getter. Three-way comparison implementation / extracted model / reference. non-trivial = distinct command',
        [{'cmd': c['cmd'][:120], 'impl': c['impl'][:70], 'model': c['model'][:70]} for c in cases[::max(1, len(cases) // 6)]],
        len(tie), len(failures), {'input_distribution': dist})
    return vlib.finish(PROP, tier, seed, t0, proof, streams, failures, ASSUME, TRUSTED)

def replay(ctx, path):
    def rerun(ctx, f):
        c = {'cmd': f['cmd'], 'spec': f.get('spec_cmd'), 'key': f.get('key'), 'n': 0}
        if c['cmd'].endswith('...'):
            return {'impl': 'arena case: re-run ./check C09', 'expected': f['expected'], 'fails': True}
        fl, _ = run(ctx, [c])
        return {'impl': c['impl'][:200], 'expected': (c['ref'] or '')[:200], 'fails': bool(fl)}
    return replay_generic(ctx, path, rerun)
