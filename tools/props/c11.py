"""C11 - invalid arguments are rejected without side effects."""
import vlib
from props.common import *
from props import fieldlib as F

PROP = 'C11'
FILES = ['Properties_C11.v']

def load_legacy(ctx):
    r = vlib.sh([ctx['oracle'], '--dump-legacy'], inp=b'', timeout=60)
    apis, aliases = [], []
    for line in r.stdout.decode().split('\n'):
        p = line.split()
        if p and p[0] == 'API':
            apis.append({'fmt': p[1], 'get': p[2], 'set': p[3], 'init': None if p[4] == '-' else p[4],
                         'init_field': None if p[5] == '-' else p[5]})
        elif p and p[0] == 'ALIAS':
            aliases.append((p[1], p[2], p[3]))
    return apis, aliases

def bad_ids(maxv, rng, tier):
    ids = [maxv, maxv + 1, 255, 256, 257, 511, 512, 65535, 65536, 1 << 31, (1 << 32) - 1, (1 << 32) - 2]
    ids += [256 + k for k in range(maxv)] + [512 + k for k in range(0, maxv, 3)] + [65536 + k for k in range(0, maxv, 5)]
    ids += [rng.randint(maxv, (1 << 32) - 1) for _ in range(4 if tier == 'quick' else 60)]
    return sorted(set(i for i in ids if i >= maxv))

def build(ctx, tier, seed):
    rng = vlib.Rng(seed)
    fmts = F.load_spec(ctx)
    ev = F.enum_values(ctx)
    apis, _ = load_legacy(ctx)
    cases = []
    def add(cmd, expect, key, why):
        cases.append({'cmd': cmd, 'expect': expect, 'key': key, 'why': why})
    # 1. null pdu: every recognised function of every unit
    for u in ctx['model']['units']:
        for fn in u['funcs']:
            n = fn['name']
            key = {'accessor': n, 'case': 'null-pdu'}
            if fn['kind'] == 'getter':
                if fn['nparams'] == 1:
                    add('G %s -' % n, 'V 0 -', key, 'reader on a null pdu returns 0')
                else:
                    for f in (0, 1, 3, 255, 256, (1 << 32) - 1):
                        add('G %s - %x' % (n, f), 'V 0 -', key, 'reader on a null pdu returns 0')
            elif fn['kind'] == 'setter':
                for v in (0, 1, (1 << 64) - 1):
                    if fn['nparams'] == 2:
                        add('S %s - %x' % (n, v), 'B -', key, 'writer on a null pdu does nothing')
                    else:
                        for f in (0, 2, 256):
                            add('S %s - %x %x' % (n, f, v), 'B -', key, 'writer on a null pdu does nothing')
            elif fn['kind'] == 'init':
                add('I %s -' % n, 'B -', key, 'initialiser on a null pdu does nothing')
    # 2. identifiers outside the enumeration, by-identifier accessors of every format
    for f in fmts:
        maxv = ev.get(f.sentinel)
        if maxv is None:
            continue
        bufs = [bytes([0xff]) * f.hdr, rng.bytes(f.hdr), bytes(f.hdr)]
        for i in bad_ids(maxv, rng, tier):
            for bi, b in enumerate(bufs if tier != 'quick' else bufs[:2]):
                hb = F.hexbuf(b)
                add('G %s %s %x' % (f.get_field, hb, i), 'V 0 %s' % hb, {'accessor': f.get_field, 'field_id': str(i)},
                    'by-identifier reader with identifier %d >= %d returns 0 and leaves the buffer' % (i, maxv))
                add('S %s %s %x %x' % (f.set_field, hb, i, rng.bits(64) | 1), 'B %s' % hb, {'accessor': f.set_field, 'field_id': str(i)},
                    'by-identifier writer with identifier %d >= %d does nothing' % (i, maxv))
            add('G %s - %x' % (f.get_field, i), 'V 0 -', {'accessor': f.get_field, 'field_id': str(i), 'case': 'null-pdu'}, 'null pdu and bad identifier')
    # 3. deprecated entry points
    byname = {f.name: f for f in fmts}
    for a in apis:
        f = byname[a['fmt']]
        maxv = ev[f.sentinel]
        good = sorted(set([0, 1, maxv - 1, rng.randint(0, maxv - 1)]))
        allbad = bad_ids(maxv, rng, 'quick')
        bad = allbad[:8] + allbad[-8:]        # the smallest invalid identifiers and the largest (>= 2^31: negative as int)
        b = rng.bytes(f.hdr + 2); hb = F.hexbuf(b)
        for i in good + bad:
            for pdu in ('-', hb):
                for res in ('-', '4d'):
                    invalid = (pdu == '-') or (res == '-') or i >= maxv
                    if invalid:
                        add('L %s %s %x 0 %s' % (a['get'], pdu, i, res), 'R E %s %s' % (pdu, res),
                            {'accessor': a['get'], 'field_id': str(i), 'case': 'pdu=%s res=%s' % ('null' if pdu == '-' else 'valid', 'null' if res == '-' else 'valid')},
                            'deprecated reader must return -EINVAL and write nothing')
                    else:
                        add('L %s %s %x 0 %s' % (a['get'], pdu, i, res), 'R 0 %s *' % pdu,
                            {'accessor': a['get'], 'field_id': str(i), 'case': 'valid'}, 'deprecated reader returns 0 on valid arguments and leaves the pdu')
                invalid = (pdu == '-') or i >= maxv
                v = rng.bits(32)
                add('L %s %s %x %x x' % (a['set'], pdu, i, v), ('R E %s x' % pdu) if invalid else 'R 0 * x',
                    {'accessor': a['set'], 'field_id': str(i), 'case': 'pdu=%s' % ('null' if pdu == '-' else 'valid')},
                    'deprecated writer: -EINVAL without side effect iff pdu null or field out of range')
        if a['init']:
            add('L %s - 7 0 x' % a['init'], 'R E - x', {'accessor': a['init'], 'case': 'null-pdu'}, 'deprecated initialiser on a null pdu returns -EINVAL')
            add('L %s %s 7 0 x' % (a['init'], hb), 'R 0 * x', {'accessor': a['init'], 'case': 'valid'}, 'deprecated initialiser returns 0')
    return cases

def matches(got, expect):
    g, e = got.split(), expect.split()
    if len(g) != len(e):
        return False
    for x, y in zip(g, e):
        if y == '*':
            continue
        if x != y:
            try:
                if int(x, 16) != int(y, 16) or len(x) > 16 or len(y) > 16:
                    return False
            except ValueError:
                return False
    return True

def run(ctx, cases):
    impl = vlib.run_harness(ctx, [c['cmd'] for c in cases])
    model = vlib.run_oracle(ctx, [c['cmd'] for c in cases])
    failures, tie = [], []
    for c, i, m in zip(cases, impl, model):
        c['impl'], c['model'] = i, m
        mi = m if not m.startswith('V ') else m      # oracle prints 'V x' without buffer for readers
        ii = i
        if c['cmd'][0] == 'G' and i.startswith('V '):
            ii = ' '.join(i.split()[:2])
        if not (F.same(ii, mi) or ii == mi):
            tie.append(c)
        if not matches(i, c['expect']):
            failures.append({'key': c['key'], 'cmd': c['cmd'], 'impl': i, 'expected': c['expect'], 'model': m,
                             'what': '%s: %s; got %s' % (c['key'], c['why'], i[:90])})
    return failures, tie

def check(ctx, tier, seed, t0):
    proof = vlib.proof_status(ctx, FILES)
    cases = build(ctx, tier, seed)
    failures, tie = run(ctx, cases)
    if tie and not failures:
        proof['broken'].append({'file': 'correspondence C11 (model of accessors / legacy wrappers vs implementation)', 'line': 0,
                                'error': '%d cases differ, e.g. %s -> impl %s, model %s' % (len(tie), tie[0]['cmd'][:200], tie[0]['impl'][:80], tie[0]['model'][:80])})
    kinds = {}
    for c in cases:
        kinds[c['cmd'].split()[0]] = kinds.get(c['cmd'].split()[0], 0) + 1
    streams = stream_summary(len(cases), len(set(c['cmd'] for c in cases)),
        'null pdu on every recognised getter/setter/initialiser of all units; by-identifier reader and writer of all 23 formats with identifiers '
        'MAX, MAX+1, 255, 256, 256+k for every valid k (the aliasing case), 511, 512, 65535, 65536, 2^31, 2^32-1 and random ones on 0xff / random '
        'buffers; the 14 deprecated entry points on {null, valid} pdu x {null, valid} result pointer x valid and invalid identifiers. Expected '
        'results come from the rule in the property text (0 / unchanged / -EINVAL); the extracted model is compared as the tie. '
        'non-trivial = distinct command line',
        [{'cmd': c['cmd'][:120], 'impl': c['impl'][:60], 'model': c['model'][:60], 'expected': c['expect'][:60]} for c in cases[::max(1, len(cases) // 6)]],
        len(tie), len(failures), {'input_distribution': kinds})
    return vlib.finish(PROP, tier, seed, t0, proof, streams, failures, ASSUME, TRUSTED)

def replay(ctx, path):
    def rerun(ctx, f):
        c = {'cmd': f['cmd'], 'expect': f['expected'], 'key': f.get('key'), 'why': ''}
        fl, _ = run(ctx, [c])
        return {'impl': c['impl'], 'expected': c['expect'], 'fails': bool(fl)}
    return replay_generic(ctx, path, rerun)
