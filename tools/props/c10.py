"""C10 - VSS string-array packing round-trips and stays inside its buffers."""
import vlib
from props.common import *
from props import fieldlib as F

PROP = 'C10'
FILES = ['Properties_C10.v']

def gen_lists(rng, tier):
    quick = tier == 'quick'
    lists = [[], [b''], [b'', b''], [b'a'], [b'abc', b'', b'de'], [bytes([0xff]) * 255], [bytes(256)], [b'x'] * 255, [b'x'] * 256, [b'yz'] * 257,
             [b''] * 300, [rng.bytes(1000)] * 3]
    for _ in range(12 if quick else 300):
        k = rng.choice([1, 2, 3, 5, 8, 20, 100, 254, 255, 256, 300])
        maxl = rng.choice([0, 1, 3, 17, 64])
        lists.append([rng.bytes(rng.randint(0, maxl)) for _ in range(k)])
    lists.append([rng.bytes(65533)])                      # one maximal string: total 65535
    lists.append([rng.bytes(30000), rng.bytes(30000), rng.bytes(5529)])   # total 65535
    return [l for l in lists if sum(len(s) + 2 for s in l) <= 65535]

def packed(l):
    out = b''
    for s in l:
        out += len(s).to_bytes(2, 'big') + s
    return out

def build(ctx, tier, seed):
    rng = vlib.Rng(seed)
    cases, dist = [], {}
    def add(cmd, expect, spec, key, why):
        cases.append({'cmd': cmd, 'expect': expect, 'spec': spec, 'key': key, 'why': why})
        dist[key['op']] = dist.get(key['op'], 0) + 1
    for l in gen_lists(rng, tier):
        k = len(l)
        p = packed(l)
        total = len(p)
        hp = F.hexbuf(p)
        strs = ','.join('%x:%s' % (len(s), F.hexbuf(s)) for s in l) if l else '-'
        # pack into a destination of exactly the packed size, pre-filled
        for fill in (0x00, 0xee):
            out = F.hexbuf(bytes([fill]) * total)
            add('VAP %x %s %s x' % (k, out, strs), 'A %x %s' % (total, hp), 'SVAP %s' % (','.join(F.hexbuf(s) for s in l) if l else '-'),
                {'op': 'pack', 'function': 'Avtp_Vss_SerializeStringArray', 'strings': k}, 'packing yields the concatenation of BE16 length + bytes and records the total')
        # count
        add('VAC %x %s' % (total, hp), 'V %x' % k, None, {'op': 'count', 'function': 'Avtp_Vss_GetVSSDataStringArrayLength', 'strings': k},
            'counting a packed array returns the number of strings')
        # unpack with requested counts smaller, equal, greater
        for num in sorted(set([0, max(k - 1, 0), k, k + 1, 2 * k, k + 7])):
            if num > 1200:
                continue
            m = min(num, k)
            for null in (False, True):
                if null and num > 40:
                    continue
                dsts = ','.join(('-' if null else '%x' % len(l[i])) if i < k else ('-' if null else '0') for i in range(num)) if num else '.'
                exp = 'U' + ''.join(' %x:%s' % (len(l[i]), '-' if null else F.hexbuf(l[i])) for i in range(m))
                add('VAU %x %s %x %s' % (total, hp, num, dsts), exp, 'SVAU %x %s' % (total, hp) if (num >= k and not null and total < 3000) else None,
                    {'op': 'unpack', 'function': 'Avtp_Vss_DeserializeStringArray', 'strings': k, 'requested': 'more' if num > k else ('equal' if num == k else 'fewer'),
                     'dest': 'null' if null else 'buffers'},
                    'unpacking returns the first min(requested, packed) strings and touches nothing else')
    return cases, dist

def run(ctx, cases):
    impl = vlib.run_harness(ctx, [c['cmd'] for c in cases])
    out = vlib.run_oracle(ctx, [c['cmd'] for c in cases] + [c['spec'] for c in cases if c['spec']], parallel=True)
    k = len(cases)
    failures, tie = [], []
    for i, c in enumerate(cases):
        c['impl'] = impl[i] if i < len(impl) else 'MISSING'
        c['model'] = out[i]
        c['ref'] = None
        if c['spec']:
            c['ref'] = out[k]; k += 1
        if not (c['impl'] == c['model'] or (c['model'] == 'OOB' and c['impl'].startswith('CRASH')) or c['impl'].startswith('SKIPPED')):
            tie.append(c)
        bad = c['impl'] != c['expect']
        if c['ref'] is not None and c['ref'] != c['expect']:
            # the reference decoder and the rule of the property must agree with each other
            bad = True
        if bad:
            failures.append({'key': c['key'], 'cmd': c['cmd'][:500], 'spec_cmd': (c['spec'] or '')[:300], 'impl': c['impl'][:300], 'expected': c['expect'][:300],
                             'model': c['model'][:300], 'reference': (c['ref'] or '')[:300],
                             'what': '%s: %s; got %s' % (c['key'], c['why'], c['impl'][:100])})
    return failures, tie

def check(ctx, tier, seed, t0):
    proof = vlib.proof_status(ctx, FILES)
    cases, dist = build(ctx, tier, seed)
    failures, tie = run(ctx, cases)
    if tie and not failures:
        proof['broken'].append({'file': 'correspondence C10 (VssModel string-array functions vs Vss.c)', 'line': 0,
                                'error': '%d cases differ, e.g. %s -> impl %s, model %s' % (len(tie), tie[0]['cmd'][:200], tie[0]['impl'][:120], tie[0]['model'][:120])})
    streams = stream_summary(len(cases), len(set(c['cmd'] for c in cases)),
        'lists of 0..300 strings (empty array, empty strings, 255/256/257/300 strings, one 65533-byte string, total exactly 65535) with lengths 0..64 '
        'and random ones: pack into a destination of exactly the packed size (two prior fills); count; unpack with requested counts 0, k-1, k, k+1, 2k, k+7 into '
        'destinations of exactly the size of each string or with null data pointers (lengths only). Source array, string objects and destinations are separate '
        'exact-size heap blocks under ASan. Expected results follow from the property text; the extracted model is the tie, the reference decoder a cross-check. '
        'non-trivial = distinct command',
        [{'cmd': c['cmd'][:120], 'impl': c['impl'][:70], 'model': c['model'][:70], 'expected': c['expect'][:70]} for c in cases[::max(1, len(cases) // 6)]],
        len(tie), len(failures), {'input_distribution': dist})
    return vlib.finish(PROP, tier, seed, t0, proof, streams, failures, ASSUME, TRUSTED)

def replay(ctx, path):
    def rerun(ctx, f):
        c = {'cmd': f['cmd'], 'expect': f['expected'], 'spec': f.get('spec_cmd') or None, 'key': f.get('key'), 'why': ''}
        fl, _ = run(ctx, [c])
        return {'impl': c['impl'][:200], 'expected': c['expect'][:200], 'fails': bool(fl)}
    return replay_generic(ctx, path, rerun)
