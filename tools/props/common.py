"""Pieces shared by the per-property check modules."""
import json
import vlib

TRUSTED = [
    'Coq 8.16.1 kernel and its vm_compute evaluator (no native_compute)',
    'translators tools/gen_byteorder.py (T2) and tools/gen_tables.py + tools/emit_coq.py (T1): clang 14 JSON AST, gcc-compiled layout probes',
    'extraction: ExtrOcamlBasic only (bool, option, list, prod, unit, sumbool mapped to OCaml; N, positive, nat, string kept inductive); OCaml 4.13.1; tools/oracle/driver.ml',
    'correspondence harness tools/harness/*.c built from /repo working tree with gcc 12 -fsanitize=address,undefined; python3 driver tools/vlib.py',
    'coq/Spec.v: hand transcription of IEEE 1722-2016 and acf-vss.md layouts',
]
ASSUME = [
    'C integer widths / two\'s complement as on gcc and clang targets; a typed access of n bytes reads or writes the value\'s bytes in host order',
    'the implementation is executed on this little-endian x86-64 host only; the big-endian instance of the model is validated by forcing the big-endian helper branch on this host, never run natively',
]

def parse_v(line):
    """'V <hex> [buf]' -> (value, buf or None); anything else -> None"""
    p = line.split()
    if len(p) >= 2 and p[0] == 'V':
        return int(p[1], 16), (p[2] if len(p) > 2 else None)
    return None

def stream_summary(evaluations, distinct, rule, samples, tie_mismatch, spec_mismatch, extra=None):
    d = {'evaluations': evaluations, 'distinct_nontrivial': distinct, 'rule': rule, 'samples': samples[:6],
         'disagreements_checked': evaluations, 'model_vs_impl_mismatches': tie_mismatch,
         'spec_vs_impl_mismatches': spec_mismatch}
    if extra:
        d.update(extra)
    return d

def replay_generic(ctx, path, rerun):
    body = json.load(open(path))
    fails = body.get('failures', [])
    print('replay of %s: %d recorded failing cases, %d broken proof obligations' % (
        path, len(fails), len(body.get('broken_proofs', []))))
    for b in body.get('broken_proofs', []):
        print('  broken: %s line %s: %s' % (b.get('file'), b.get('line'), b.get('error', '')[:300]))
    still = 0
    for f in fails:
        r = rerun(ctx, f)
        print('  case %s\n    recorded impl=%s expected=%s\n    now      impl=%s expected=%s  -> %s' % (
            f.get('cmd'), f.get('impl'), f.get('expected'), r.get('impl'), r.get('expected'),
            'STILL FAILS' if r.get('fails') else 'passes'))
        still += 1 if r.get('fails') else 0
    if fails:
        print('%d of %d recorded cases still fail' % (still, len(fails)))
    return 1 if still or (not fails and body.get('broken_proofs')) else 0
