"""C16 - library calls are re-entrant: no shared mutable state."""
import os, re, glob, subprocess
import vlib
from props.common import *
from props import fieldlib as F
import gen_tables
from cast import INC

PROP = 'C16'
FILES = ['Properties_C16.v']

def objects(ctx):
    """plain objects of every library source, for nm / readelf"""
    d = os.path.join(vlib.WORK, 'objs_plain')
    os.makedirs(d, exist_ok=True)
    out = []
    for s in gen_tables.lib_sources():
        o = os.path.join(d, re.sub(r'[^A-Za-z0-9]', '_', os.path.relpath(s, '/')) + '.o')
        r = vlib.sh(['gcc', '-std=gnu99', '-O2', '-w', '-I' + INC, '-c', s, '-o', o], timeout=120)
        if r.returncode != 0:
            raise RuntimeError('%s does not compile: %s' % (s, r.stderr.decode()[:500]))
        out.append((s, o))
    return out

def build_stress(ctx):
    d = os.path.join(vlib.WORK, 'stress')
    os.makedirs(d, exist_ok=True)
    exe = os.path.join(d, 'stress_tsan')
    srcs = gen_tables.lib_sources() + sorted(glob.glob(os.path.join(vlib.TOOLS, 'stress', '*.c')))
    r = vlib.sh(['gcc', '-std=gnu99', '-O1', '-g', '-w', '-fsanitize=thread', '-I' + INC, '-o', exe] + srcs + ['-lpthread'], timeout=600)
    if r.returncode != 0:
        raise RuntimeError('stress program does not build: %s' % r.stderr.decode()[:800])
    return exe

def check(ctx, tier, seed, t0):
    proof = vlib.proof_status(ctx, FILES)
    failures = []
    dist = {}
    al = ctx.get('align') or {'files': []}
    statics = [s for f in al['files'] for s in f['statics']]
    dist['static_objects'] = len(statics)
    for s in statics:
        if not s['const']:
            failures.append({'key': {'object': s['name'], 'file': s['file']}, 'cmd': 'inventory (tools/gen_align.py)', 'impl': '%s %s (%s)' % (s['type'], s['name'], s['scope']),
                             'expected': 'every object with static storage duration is const',
                             'what': '%s:%s defines a writable object with static storage duration: %s %s (%s)' % (s['file'], s.get('line'), s['type'], s['name'], s['scope'])})
    callees = sorted(set(c for f in al['files'] for c in f['callees']))
    defined = set(d for f in al['files'] for d in f.get('defined', []))
    ext = [c for c in callees if c not in defined]
    dist['external_callees'] = ext
    for c in ext:
        if c not in ('memcpy', 'memset'):
            failures.append({'key': {'callee': c}, 'cmd': 'inventory (tools/gen_align.py)', 'impl': 'call of %s' % c, 'expected': 'only memcpy / memset are called outside the library',
                             'what': 'the library calls %s, which is not defined in the library (possible hidden state or side effects)' % c})
    # cross-check of the inventory against the compiled objects: no symbol in a writable section
    n_sym = 0
    try:
        for s, o in objects(ctx):
            r = vlib.sh(['nm', '--defined-only', o], timeout=60)
            for line in r.stdout.decode().splitlines():
                p = line.split()
                if len(p) >= 3:
                    n_sym += 1
                    if p[1] in 'dDbBCsSgG':
                        failures.append({'key': {'object': p[2], 'file': os.path.relpath(s, '/repo')}, 'cmd': 'nm --defined-only (gcc -O2 object of %s)' % os.path.relpath(s, '/repo'),
                                         'impl': line, 'expected': 'no symbol in .data/.bss/.common',
                                         'what': '%s: symbol %s lives in a writable section (%s)' % (os.path.relpath(s, '/repo'), p[2], p[1])})
            r = vlib.sh(['readelf', '-S', '-W', o], timeout=60)
            for line in r.stdout.decode().splitlines():
                m = re.search(r'\]\s+(\.data\S*|\.bss\S*|\.tdata\S*|\.tbss\S*)\s+\S+\s+\S+\s+\S+\s+([0-9a-f]+)', line)
                if m and int(m.group(2), 16) != 0:
                    failures.append({'key': {'section': m.group(1), 'file': os.path.relpath(s, '/repo')}, 'cmd': 'readelf -S', 'impl': line.strip(), 'expected': 'empty writable sections',
                                     'what': '%s: writable section %s has %d bytes' % (os.path.relpath(s, '/repo'), m.group(1), int(m.group(2), 16))})
    except Exception as e:
        proof['broken'].append({'file': 'object inspection', 'line': 0, 'error': str(e)[:400]})
    dist['symbols_inspected'] = n_sym
    # race detector + per-thread results against the sequential run
    runs = 1 if tier == 'quick' else 6
    n_ops = 0
    try:
        exe = build_stress(ctx)
        for k in range(runs):
            env = dict(os.environ); env['VERIF_SEED'] = str(seed + k); env['TSAN_OPTIONS'] = 'halt_on_error=1 second_deadlock_stack=1'
            r = vlib.sh([exe], env=env, timeout=900)
            out = (r.stdout + r.stderr).decode(errors='replace')
            n_ops += 8 * 20000
            if r.returncode != 0 or 'SAME' not in out:
                m = re.search(r'WARNING: ThreadSanitizer: ([^\n]*)', out)
                loc = re.findall(r'(/repo/[A-Za-z0-9_/\.\-]+:\d+)', out)
                failures.append({'key': {'stress': 'tsan', 'site': (loc[0] if loc else '?').replace('/repo/', '')}, 'cmd': 'VERIF_SEED=%d %s' % (seed + k, exe), 'impl': (m.group(0) if m else out[-300:])[:300],
                                 'expected': 'no data race, per-thread results equal to the sequential run',
                                 'what': '8-thread stress: %s %s' % (m.group(1) if m else 'results differ from the sequential run', loc[:2])})
                break
    except Exception as e:
        proof['broken'].append({'file': 'thread-sanitizer stress build', 'line': 0, 'error': str(e)[:400]})
    dist['stress_operations'] = n_ops
    total = len(statics) + len(callees) + n_sym + n_ops
    streams = stream_summary(total, total,
        'inventory regenerated from the clang AST of all library sources (objects with static storage duration incl. function-local statics, every callee); cross-check '
        'against nm / readelf of the gcc -O2 objects (no symbol and no bytes in .data/.bss/.tdata/.common); 8-thread stress under -fsanitize=thread: every thread runs a seeded '
        'sequence of field writes/reads, CAN message builds and VSS encode/pad/decode on its own PDUs while all threads read one shared PDU; the race detector must stay silent and '
        'the final buffers of every thread and result checksum must equal the sequential run of the same sequence (quick: 1 seed, thorough: 6). non-trivial = inventory entries + symbols + operations',
        [{'static_object': s['name'], 'const': s['const']} for s in statics[:3]] + [{'external_callees': ext}],
        0, len(failures), {'input_distribution': dist})
    return vlib.finish(PROP, tier, seed, t0, proof, streams, failures,
                       ASSUME + ['sequentially consistent byte memory for data-race-free programs (C11 DRF-SC); the theorem is at the granularity of whole calls on whole objects'],
                       TRUSTED + ['tools/gen_align.py: inventory of static storage and callees from the clang AST'])

def replay(ctx, path):
    def rerun(ctx, f):
        return {'impl': 're-run ./check C16 (inventories and objects are rebuilt on every run)', 'expected': f.get('expected', ''), 'fails': True}
    return replay_generic(ctx, path, rerun)
