"""Driving the example programs of /repo/examples (C18, C19): harness builds, PDU encoders, session runner."""
import os, glob, hashlib, json, subprocess, struct
import vlib
from props import fieldlib as F

EX_DIR = os.path.join(vlib.TOOLS, 'harness_ex')
EX_WORK = os.path.join(vlib.WORK, 'harness_ex')
EX_FLAGS = ['-std=gnu99', '-O1', '-g', '-fsanitize=address,undefined', '-fno-sanitize-recover=all', '-fno-sanitize=alignment',
            '-ftrivial-auto-var-init=pattern', '-fno-omit-frame-pointer', '-w']
PATTERN = 0xfe          # what gcc's -ftrivial-auto-var-init=pattern stores into otherwise uninitialised automatic objects
DRIVERS = {'can': ['acf-can/acf-can-common.c'], 'talker': ['acf-can/acf-can-common.c'], 'hello': [], 'vss': [], 'aaf': [], 'cvf': [], 'crf': []}

def lib_sources():
    out = []
    for dp, dn, fn in os.walk(os.path.join(vlib.REPO, 'src')):
        out += [os.path.join(dp, f) for f in fn if f.endswith('.c')]
    return sorted(out)

def build(ctx, names=None, flags=None, tag=''):
    """one executable per example driver; cached on the tree hash (which covers /repo/examples and tools/)"""
    os.makedirs(EX_WORK, exist_ok=True)
    stamp = os.path.join(EX_WORK, 'stamp%s.json' % tag)
    names = names or sorted(DRIVERS)
    try:
        st = json.load(open(stamp))
    except Exception:
        st = {}
    if st.get('hash') != ctx['hash']:
        st = {'hash': ctx['hash'], 'exe': {}, 'errors': {}}
    fl = EX_FLAGS if flags is None else flags
    # the library and the examples' common code once
    objdir = os.path.join(EX_WORK, 'obj' + tag)
    os.makedirs(objdir, exist_ok=True)
    todo = [n for n in names if n not in st['exe'] and n not in st['errors']]
    if todo:
        srcs = lib_sources() + [os.path.join(vlib.REPO, 'examples/common/common.c'), os.path.join(vlib.REPO, 'examples/acf-can/acf-can-common.c')]
        from concurrent.futures import ThreadPoolExecutor
        def comp(s):
            o = os.path.join(objdir, hashlib.md5(s.encode()).hexdigest()[:10] + '_' + os.path.basename(s) + '.o')
            r = vlib.sh(['gcc'] + fl + ['-I' + vlib.INC, '-I' + os.path.join(vlib.REPO, 'examples'), '-c', s, '-o', o], timeout=300)
            return o, r
        with ThreadPoolExecutor(max_workers=vlib.NPROC) as ex:
            res = list(ex.map(comp, srcs))
        bad = [(o, r) for o, r in res if r.returncode != 0]
        if bad:
            raise RuntimeError('library / example common code does not compile: %s' % bad[0][1].stderr.decode(errors='replace')[:2000])
        objs = [o for o, _ in res]
        def link(n):
            exe = os.path.join(EX_WORK, 'ex_%s%s' % (n, tag))
            r = vlib.sh(['gcc'] + fl + ['-I' + vlib.INC, '-I' + os.path.join(vlib.REPO, 'examples'), '-I' + EX_DIR,
                         os.path.join(EX_DIR, 'ex_%s.c' % n)] + objs + ['-lm', '-o', exe], timeout=300)
            return n, exe, r
        with ThreadPoolExecutor(max_workers=vlib.NPROC) as ex:
            for n, exe, r in ex.map(link, todo):
                if r.returncode != 0:
                    st['errors'][n] = r.stderr.decode(errors='replace')[:3000]
                else:
                    st['exe'][n] = exe
        json.dump(st, open(stamp, 'w'))
    return st

# ---------------------------------------------------------------------------
# PDU encoders from the regenerated field tables (big-endian bit numbering of the specification)
class Enc:
    def __init__(self, ctx):
        self.fmts = {f.name: f for f in F.load_spec(ctx)}
    def hdr(self, fmt):
        return self.fmts[fmt].hdr
    def field(self, fmt, suffix):
        for f in self.fmts[fmt].fields:
            if f['name'].endswith('_FIELD_' + suffix):
                return f
        raise KeyError('%s has no field %s' % (fmt, suffix))
    def put(self, buf, base, fmt, suffix, value):
        f = self.field(fmt, suffix)
        first, w = f['first'], f['width']
        value &= (1 << w) - 1
        for k in range(w):
            bit = (value >> (w - 1 - k)) & 1
            pos = base * 8 + first + k
            if pos // 8 >= len(buf):
                continue
            if bit:
                buf[pos // 8] |= 0x80 >> (pos % 8)
            else:
                buf[pos // 8] &= ~(0x80 >> (pos % 8)) & 0xff
    def get(self, buf, base, fmt, suffix):
        f = self.field(fmt, suffix)
        v = 0
        for k in range(f['width']):
            pos = base * 8 + f['first'] + k
            bit = (buf[pos // 8] >> (7 - pos % 8)) & 1 if pos // 8 < len(buf) else 0
            v = (v << 1) | bit
        return v

# ---------------------------------------------------------------------------
def run_sessions(exe, sessions, timeout=900, env_extra=None):
    """sessions: list of {'id', 'args': [...], 'items': [('D'|'F', bytes)]}.  Returns {id: result} with
    result = {'events': {idx: [(kind, ...)]}, 'end': 'END'|'EXIT ..'|'CRASH ..'|'TIMEOUT', 'last': idx}"""
    lines = []
    for s in sessions:
        lines.append('S %s %s' % (s['id'], ' '.join(s['args'])))
        for k, b in s['items']:
            lines.append('%s %s' % (k, bytes(b).hex() if len(b) else '-'))
        lines.append('E')
    env = dict(os.environ)
    env['ASAN_OPTIONS'] = 'detect_leaks=0:abort_on_error=0:allocator_may_return_null=1:detect_stack_use_after_return=0'
    env['UBSAN_OPTIONS'] = 'print_stacktrace=1'
    if env_extra:
        env.update(env_extra)
    r = vlib.sh([exe], inp=('\n'.join(lines) + '\n').encode(), env=env, timeout=timeout)
    res = {}
    for line in r.stdout.decode(errors='replace').split('\n'):
        p = line.split(' ')
        if len(p) < 2:
            continue
        sid = p[1]
        cur = res.setdefault(sid, {'events': {}, 'end': None, 'last': -1, 'ret': None})
        if p[0] == 'B':
            cur['last'] = int(p[2]); cur['events'].setdefault(int(p[2]), [])
        elif p[0] in ('W', 'T', 'P', 'Q'):
            idx = int(p[2])
            cur['events'].setdefault(idx, []).append((p[0],) + tuple(p[3:]))
        elif p[0] == 'X':
            cur['ret'] = p[2]
        elif p[0] == 'Z':
            cur['end'] = ' '.join(p[2:])
    for s in sessions:
        res.setdefault(s['id'], {'events': {}, 'end': 'MISSING (harness rc=%s %s)' % (r.returncode, r.stderr.decode(errors='replace')[-300:]), 'last': -1, 'ret': None})
        if res[s['id']]['end'] is None:
            res[s['id']]['end'] = 'MISSING (harness rc=%s)' % r.returncode
    return res

def unhex(s):
    return b'' if s == '-' else bytes.fromhex(s)
