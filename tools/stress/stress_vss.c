#include <string.h>
#include <stdint.h>
#include "avtp/acf/custom/Vss.h"
static uint64_t next(uint64_t* s) { *s ^= *s << 13; *s ^= *s >> 7; *s ^= *s << 17; return *s; }
int stress_vss_ops(uint8_t* buf, uint64_t* rng, uint64_t* acc) {
    Avtp_Vss_t* pdu = (Avtp_Vss_t*)buf;
    uint64_t r = next(rng);
    Avtp_Vss_Init(pdu);
    Avtp_Vss_SetAddrMode(pdu, VSS_INTEROP_MODE);
    Avtp_Vss_SetDatatype(pdu, VSS_UINT32_ARRAY);
    char path[24]; unsigned pl = (unsigned)(r % 20); for (unsigned k = 0; k < pl; k++) path[k] = (char)('a' + (next(rng) % 26));
    VssPath_t p; p.vss_interop_path.path_length = (uint16_t)pl; p.vss_interop_path.path = path;
    Avtp_Vss_SetVssPath(pdu, &p);
    uint32_t elems[8]; unsigned n = (unsigned)((r >> 8) % 9); for (unsigned k = 0; k < n; k++) elems[k] = (uint32_t)next(rng);
    VssDataUint32Array_t arr = { (uint16_t)(4 * n), elems }; VssData_t d; d.data_uint32_array = &arr;
    Avtp_Vss_SetVssData(pdu, &d);
    uint16_t len = (uint16_t)(12 + 2 + pl + 2 + 4 * n);
    Avtp_Vss_Pad(pdu, len);
    uint32_t out[8]; VssDataUint32Array_t oarr = { 0, out }; VssData_t od; od.data_uint32_array = &oarr;
    Avtp_Vss_GetVssData(pdu, &od);
    for (unsigned k = 0; k < n; k++) *acc += out[k];
    *acc += Avtp_Vss_CalcVssPathLength(pdu) + Avtp_Vss_GetAcfMsgLength(pdu);
    return 0;
}
