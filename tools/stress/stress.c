/* C16 stress: N threads run seeded operation sequences on their own PDUs while all of them read one shared,
   read-only PDU.  Built from /repo's sources with -fsanitize=thread.  Every thread's final buffers and result
   checksum must equal those of the same sequence run sequentially before the threads start. */
#include <pthread.h>
#include <stdio.h>
#include <stdlib.h>
#include <string.h>
#include <stdint.h>
#include "avtp/Utils.h"
#include "avtp/acf/Tscf.h"
#include "avtp/acf/Can.h"

int stress_vss_ops(uint8_t* buf, uint64_t* rng, uint64_t* acc);   /* stress_vss.c: VSS headers cannot share a TU with everything */

#define NTHREADS 8
#define NOPS 20000
static uint8_t shared_pdu[64];

static uint64_t next(uint64_t* s) { *s ^= *s << 13; *s ^= *s >> 7; *s ^= *s << 17; return *s; }

typedef struct { uint64_t seed; uint8_t can[96]; uint8_t tscf[32]; uint8_t vss[160]; uint64_t acc; } job_t;

static void run_job(job_t* j) {
    uint64_t s = j->seed; uint64_t acc = 0;
    Avtp_Can_Init((Avtp_Can_t*)j->can); Avtp_Tscf_Init((Avtp_Tscf_t*)j->tscf);
    for (int i = 0; i < NOPS; i++) {
        uint64_t r = next(&s);
        switch (r % 7) {
        case 0: Avtp_Can_SetField((Avtp_Can_t*)j->can, (Avtp_CanFields_t)((r >> 8) % AVTP_CAN_FIELD_MAX), next(&s)); break;
        case 1: acc += Avtp_Can_GetField((Avtp_Can_t*)j->can, (Avtp_CanFields_t)((r >> 8) % AVTP_CAN_FIELD_MAX)); break;
        case 2: { uint8_t pl[64]; unsigned n = (r >> 8) % 65; for (unsigned k = 0; k < n; k++) pl[k] = (uint8_t)next(&s);
                  Avtp_Can_CreateAcfMessage((Avtp_Can_t*)j->can, (uint32_t)next(&s), pl, (uint16_t)n, (Avtp_CanVariant_t)(r & 1)); } break;
        case 3: Avtp_Tscf_SetField((Avtp_Tscf_t*)j->tscf, (Avtp_TscfFields_t)((r >> 8) % AVTP_TSCF_FIELD_MAX), next(&s)); break;
        case 4: acc += Avtp_Tscf_GetField((Avtp_Tscf_t*)j->tscf, (Avtp_TscfFields_t)((r >> 8) % AVTP_TSCF_FIELD_MAX)); break;
        case 5: /* concurrent read-only use of a shared PDU */
                acc += Avtp_Can_GetCanIdentifier((Avtp_Can_t*)shared_pdu) + Avtp_Can_GetField((Avtp_Can_t*)shared_pdu, (Avtp_CanFields_t)((r >> 8) % AVTP_CAN_FIELD_MAX)); break;
        default: stress_vss_ops(j->vss, &s, &acc); break;
        }
    }
    j->acc = acc;
}
static void* thread_main(void* p) { run_job((job_t*)p); return 0; }

int main(void) {
    job_t seq[NTHREADS], par[NTHREADS]; pthread_t th[NTHREADS];
    for (unsigned i = 0; i < sizeof shared_pdu; i++) shared_pdu[i] = (uint8_t)(i * 37 + 11);
    const char* sd = getenv("VERIF_SEED"); uint64_t base = sd ? strtoull(sd, 0, 10) : 1722;
    for (int t = 0; t < NTHREADS; t++) { memset(&seq[t], 0xa5, sizeof seq[t]); seq[t].seed = base * 1000003ULL + t * 7919ULL + 1; par[t] = seq[t]; }
    for (int t = 0; t < NTHREADS; t++) run_job(&seq[t]);                 /* sequential reference */
    for (int t = 0; t < NTHREADS; t++) pthread_create(&th[t], 0, thread_main, &par[t]);
    for (int t = 0; t < NTHREADS; t++) pthread_join(th[t], 0);
    int bad = 0;
    for (int t = 0; t < NTHREADS; t++)
        if (seq[t].acc != par[t].acc || memcmp(seq[t].can, par[t].can, sizeof seq[t].can) || memcmp(seq[t].tscf, par[t].tscf, sizeof seq[t].tscf) ||
            memcmp(seq[t].vss, par[t].vss, sizeof seq[t].vss)) { printf("DIFF thread %d\n", t); bad = 1; }
    printf("%s threads=%d ops_per_thread=%d\n", bad ? "MISMATCH" : "SAME", NTHREADS, NOPS);
    return bad;
}
