#!/usr/bin/env python3
"""One-off: print a first version of coq/Spec.v from the translator's model of the
current sources.  The output was then reviewed row by row against IEEE 1722-2016 /
acf-vss.md and is maintained by hand from there on (it is NOT regenerated)."""
import json, sys, os
m = json.load(open(sys.argv[1]))
def q(s): return '"%s"' % s
INITC = {  # mandated constants, from the standard / property C04
 'Crf': [('SUBTYPE', 0x04), ('SV', 1)], 'Rvf': [('SUBTYPE', 0x07), ('SV', 1)], 'Pcm': [('SUBTYPE', 0x02), ('SV', 1)],
 'Cvf': [('SUBTYPE', 0x03), ('SV', 1), ('FORMAT', 0x2)], 'Tscf': [('SUBTYPE', 0x05), ('SV', 1)],
 'Ntscf': [('SUBTYPE', 0x82), ('SV', 1)],
 'FlexRay': [('ACF_MSG_TYPE', 0)], 'Can': [('ACF_MSG_TYPE', 1)], 'CanBrief': [('ACF_MSG_TYPE', 2)], 'Lin': [('ACF_MSG_TYPE', 3)],
 'Most': [('ACF_MSG_TYPE', 4)], 'Gpc': [('ACF_MSG_TYPE', 5)], 'Sensor': [('ACF_MSG_TYPE', 8)], 'SensorBrief': [('ACF_MSG_TYPE', 9)],
 'Vss': [('ACF_MSG_TYPE', 0x42)], 'VssBrief': [('ACF_MSG_TYPE', 0x43)], 'Udp': [], 'H264': [], 'Jpeg2000': [], 'Mjpeg': [] }
names = []
for u in m['units']:
    for tn, t in u['tables'].items():
        short = os.path.basename(u['src'])[:-2]
        sent = t['num_name'][0]
        gf = [f['name'] for f in u['funcs'] if f['kind'] == 'getter' and f['call']['field']['kind'] == 'param'][0]
        sf = [f['name'] for f in u['funcs'] if f['kind'] == 'setter' and f['call']['field']['kind'] == 'param'][0]
        htype = [p for f in u['funcs'] if f['name'] == gf for p in f['ptypes']][0].replace(' *', '')
        hl = u['types'][htype]['sizeof']
        inits = [f['name'] for f in u['funcs'] if f['kind'] == 'init']
        print('Definition spec_%s : sformat := mkfmt %s %s %s %d' % (short, q(short), q(u['src']), q(htype), hl))
        print('  %s %s %s' % (q(gf), q(sf), q(sent)))
        rows = []
        for (en, val), r in zip(t['enum'], t['rows']):
            def acc(kind):
                c = [f['name'] for f in u['funcs'] if f['kind'] == kind and f['call']['field']['kind'] == 'const' and f['call']['field']['ref'][1] == en]
                return c[0] if c else ''
            rows.append('    F %-46s %3d %2d %s %s' % (q(en), 32*r[0]+r[1], r[2], q(acc('getter')), q(acc('setter'))))
        print('  [\n' + ';\n'.join(rows) + ' ]')
        pref = sent[:-3]
        ic = INITC.get(short, [])
        print('  %s [%s].' % (q(inits[0] if inits else ''), '; '.join('(%s, %d)' % (q(pref + a), b) for a, b in ic)))
        print()
        names.append('spec_' + short)
print('Definition all_specs : list sformat := [%s].' % '; '.join(names))
