#!/usr/bin/env python3
"""Rewrite the table of DESIGN.md section 10.1 from seeded/*/meta.json (documentation helper, not part of any check)."""
import json, os, re, glob
root = os.path.dirname(os.path.dirname(os.path.dirname(os.path.abspath(__file__))))
rows = []
for d in sorted(glob.glob(os.path.join(root, 'seeded', '*'))):
    m = json.load(open(os.path.join(d, 'meta.json')))
    name = os.path.basename(d)
    rnd = m.get('round', 1)
    label = m['property'] + ('' if rnd == 1 else ' (round %d)' % rnd)
    first = ' First run: missed; ' if 'MISSED' in m.get('result', '') or 'missed' in m.get('result', '').lower()[:40] else ''
    rows.append((m['property'], rnd, name, '| %s | %s | %s |' % (label, m['change'].replace('|', '/'), (m.get('caught_by') or m.get('result', '')).replace('|', '/'))))
rows.sort(key=lambda r: (r[0], r[1], r[2]))
p = os.path.join(root, 'DESIGN.md')
s = open(p).read()
head = '| property | seeded change | caught by |\n|---|---|---|\n'
i = s.index(head) + len(head)
j = i
while s[j:j + 2] == '| ':
    j = s.index('\n', j) + 1
s = s[:i] + '\n'.join(r[3] for r in rows) + '\n' + s[j:]
open(p, 'w').write(s)
print(len(rows), 'rows')
