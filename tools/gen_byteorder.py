#!/usr/bin/env python3
"""T2: include/avtp/Byteorder.h -> Generated/Byteorder.v

Each of the 3 swap primitives and 12 conversion helpers becomes a CExpr term,
once for the little-endian branch of the #if (the host's) and once for the
big-endian branch (forced with -D__BYTE_ORDER__=__ORDER_BIG_ENDIAN__).
Anything outside the recognised fragment becomes EUnsupported, which makes the
classification in Coq fail (a broken proof obligation, never a silent pass)."""
import os, sys, tempfile
sys.path.insert(0, os.path.dirname(os.path.abspath(__file__)))
from cast import *

KINDS = [('KBswap', 'Avtp_Bswap'), ('KCpuToLe', 'Avtp_CpuToLe'), ('KCpuToBe', 'Avtp_CpuToBe'),
         ('KLeToCpu', 'Avtp_LeToCpu'), ('KBeToCpu', 'Avtp_BeToCpu')]
WIDTHS = [('W16', 16), ('W32', 32), ('W64', 64)]

class Tr:
    def __init__(self, tu):
        self.tenv = TypeEnv(tu)
        collect_anon_enums(tu, self.tenv)
        self.funcs = {}
        for n in tu.get('inner', []):
            if n.get('kind') == 'FunctionDecl' and n.get('name', '').startswith('Avtp_') and \
               any(c.get('kind') == 'CompoundStmt' for c in kids(n)):
                self.funcs[n['name']] = n
        self.memo = {}
        self.stack = []

    def func_term(self, name):
        """closed term of the function applied to EVar (the caller's argument value)"""
        if name in self.memo:
            return self.memo[name]
        if name in self.stack or name not in self.funcs:
            return 'EUnsupported'
        self.stack.append(name)
        try:
            fn = self.funcs[name]
            parms = [c for c in kids(fn) if c['kind'] == 'ParmVarDecl']
            body = [c for c in kids(fn) if c['kind'] == 'CompoundStmt']
            if len(parms) != 1 or len(body) != 1:
                return 'EUnsupported'
            pw = self.tenv.width(parms[0]['type'])
            if pw is None or pw[1]:
                return 'EUnsupported'
            st = kids(body[0])
            if len(st) != 1 or st[0]['kind'] != 'ReturnStmt' or len(kids(st[0])) != 1:
                return 'EUnsupported'
            # return type = type of the call = first part of the function type
            rt = fn['type']['qualType'].split('(')[0].strip()
            rw = self.tenv.width(rt)
            if rw is None or rw[1]:
                return 'EUnsupported'
            self.param_id = parms[0]['id']
            e = self.expr(kids(st[0])[0], parms[0]['id'])
            t = '(ECast %d%%nat (ELet (ECast %d%%nat EVar) %s))' % (rw[0], pw[0], e)
            self.memo[name] = t
            return t
        finally:
            self.stack.pop()

    def expr(self, n, pid):
        k = n.get('kind')
        if k in ('ParenExpr', 'ConstantExpr'):
            return self.expr(kids(n)[0], pid)
        if k in ('ImplicitCastExpr', 'CStyleCastExpr'):
            ck = n.get('castKind')
            inner = kids(n)[0]
            if ck in ('LValueToRValue', 'NoOp'):
                return self.expr(inner, pid)
            if ck == 'IntegralCast':
                w = self.tenv.width(n['type'])
                iw = self.tenv.width(inner['type'])
                if w is None or iw is None:
                    return 'EUnsupported'
                if not w[1]:
                    return '(ECast %d%%nat %s)' % (w[0], self.expr(inner, pid))
                # conversion to a signed type: value preserving only from a narrower unsigned type
                if (not iw[1]) and iw[0] < w[0]:
                    return self.expr(inner, pid)
                return 'EUnsupported'
            return 'EUnsupported'
        if k == 'IntegerLiteral':
            w = self.tenv.width(n['type'])
            v = int(n['value'])
            if w is None or v < 0:
                return 'EUnsupported'
            return '(EConst %d%%nat %d)' % (w[0], v)
        if k == 'DeclRefExpr':
            rd = n.get('referencedDecl', {})
            if rd.get('kind') == 'ParmVarDecl' and rd.get('id') == pid:
                return 'EVar'
            return 'EUnsupported'
        if k == 'BinaryOperator':
            op = n.get('opcode')
            a, b = kids(n)
            w = self.tenv.width(n['type'])
            if w is None:
                return 'EUnsupported'
            if op in ('&', '|', '^'):
                name = {'&': 'BAnd', '|': 'BOr', '^': 'BXor'}[op]
                return '(EBin %s %d%%nat %s %s)' % (name, w[0], self.expr(a, pid), self.expr(b, pid))
            if op in ('<<', '>>'):
                if w[1]:
                    return 'EUnsupported'       # shifts of signed operands are not in the fragment
                kb = strip_expr(b)
                if kb.get('kind') != 'IntegerLiteral':
                    return 'EUnsupported'
                cnt = int(kb['value'])
                return '(%s %d%%nat %s %d)' % ('EShl' if op == '<<' else 'EShr', w[0], self.expr(a, pid), cnt)
            return 'EUnsupported'
        if k == 'CallExpr':
            cs = kids(n)
            callee = strip_expr(cs[0]).get('referencedDecl', {}).get('name')
            if callee is None or len(cs) != 2:
                return 'EUnsupported'
            ft = self.func_term(callee)
            return '(ELet %s %s)' % (self.expr(cs[1], pid), ft)
        return 'EUnsupported'

def generate(outdir):
    src = os.path.join(INC, 'avtp', 'Byteorder.h')
    with tempfile.TemporaryDirectory(prefix='verif_bo_') as td:
        c = os.path.join(td, 'bo.c')
        with open(c, 'w') as f:
            f.write('#include "avtp/Byteorder.h"\n')
        tus = {'LE': run_clang_ast(c), 'BE': run_clang_ast(c, ['-D__BYTE_ORDER__=__ORDER_BIG_ENDIAN__'])}
    out = ['(* GENERATED by tools/gen_byteorder.py from include/avtp/Byteorder.h -- do not edit *)',
           'From Coq Require Import NArith.', 'From O1722 Require Import CExpr Host.',
           'Local Open Scope N_scope.', '']
    info = {}
    for E, tu in tus.items():
        tr = Tr(tu)
        for kn, prefix in KINDS:
            for wn, wb in WIDTHS:
                name = '%s%d' % (prefix, wb)
                t = tr.func_term(name)
                info['%s:%s' % (E, name)] = t
                out.append('Definition e_%s_%s : cexpr := %s.' % (E, name, t))
        out.append('Definition helpers_%s : hset := fun k w => match k, w with' % E)
        for kn, prefix in KINDS:
            for wn, wb in WIDTHS:
                out.append('  | %s, %s => e_%s_%s%d' % (kn, wn, E, prefix, wb))
        out.append('  end.')
        out.append('')
    write_if_changed(os.path.join(outdir, 'Byteorder.v'), '\n'.join(out) + '\n')
    return info

if __name__ == '__main__':
    info = generate(sys.argv[1])
    for k, v in info.items():
        print(k, v[:100])
