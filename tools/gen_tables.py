#!/usr/bin/env python3
"""T1: library sources -> model data (JSON) for Generated/Tables.v and the harness.

For every src/avtp/**/*.c:
  * compiled probe (gcc, the TU includes the .c file itself): rows of every
    static Avtp_FieldDescriptor_t table as compiled, value of every
    enumerator, sizeof / offsetof(payload) of every header type, value of every
    *_HEADER_LEN / *_LEN macro found in the TU's headers
  * clang JSON AST: every function defined in the file, classified by shape:
    getter, setter, initialiser, payload accessor, legacy wrapper; everything
    else is listed as 'other' (the hand-modelled algorithms)
"""
import os, sys, re, glob, json, subprocess, tempfile
from concurrent.futures import ThreadPoolExecutor
sys.path.insert(0, os.path.dirname(os.path.abspath(__file__)))
from cast import *

def lib_sources():
    return sorted(glob.glob(os.path.join(REPO, 'src', 'avtp', '**', '*.c'), recursive=True))

def in_main_file(n):
    loc = n.get('loc', {})
    if 'includedFrom' in loc:
        return False
    for k in ('spellingLoc', 'expansionLoc'):
        if k in loc and 'includedFrom' in loc[k]:
            return False
    return True

class Unit:
    def __init__(self, path):
        self.path = path
        self.rel = os.path.relpath(path, REPO)
        self.tu = run_clang_ast(path)
        self.tenv = TypeEnv(self.tu)
        collect_anon_enums(self.tu, self.tenv)
        self.enum_of_const = {}      # enumerator name -> (enum decl id, typedef/name)
        self.enums = {}              # enum decl id -> [enumerator names]
        self.tables = {}             # var name -> declared length
        self.records = {}            # typedef name -> {fields:[(name,type)]}
        self.funcs = []
        self.scan()

    def scan(self):
        main = None
        # clang's JSON omits "file" when unchanged from the previous node; track inclusion via includedFrom only
        for n in self.tu.get('inner', []):
            k = n.get('kind')
            if k == 'EnumDecl':
                names = [c['name'] for c in kids(n) if c.get('kind') == 'EnumConstantDecl']
                self.enums[n['id']] = names
                for nm in names:
                    self.enum_of_const[nm] = n['id']
            elif k == 'VarDecl':
                q = n['type']['qualType']
                m = re.match(r'const Avtp_FieldDescriptor_t\[(\d+)\]$', q)
                if m and in_main_file(n):
                    self.tables[n['name']] = int(m.group(1))
            elif k == 'TypedefDecl':
                # typedef struct {...} Name;
                for c in walk(n):
                    if c.get('kind') == 'RecordType' or c.get('kind') == 'ElaboratedType':
                        pass
            elif k == 'RecordDecl':
                fields = [(c['name'], c['type']['qualType']) for c in kids(n) if c.get('kind') == 'FieldDecl']
                self.records[n['id']] = {'name': n.get('name'), 'fields': fields}
            elif k == 'FunctionDecl':
                if in_main_file(n) and any(c.get('kind') == 'CompoundStmt' for c in kids(n)):
                    self.funcs.append(n)
        # header struct typedefs: Name -> record with fields header/payload
        self.header_types = {}
        for n in self.tu.get('inner', []):
            if n.get('kind') == 'TypedefDecl':
                rid = None
                for c in walk(n):
                    if c.get('kind') == 'RecordType' and 'decl' in c:
                        rid = c['decl'].get('id')
                    if c.get('ownedTagDecl', {}).get('kind') == 'RecordDecl':
                        rid = c['ownedTagDecl']['id']
                if rid and rid in self.records:
                    self.header_types[n['name']] = self.records[rid]

    # ---- constant evaluation (structure only; values come from the probe) ----
    def const_ref(self, n):
        """('enum', name) | ('int', value) | None for an expression that is a constant"""
        chain, core = cast_chain(n)
        k = core.get('kind')
        if k == 'DeclRefExpr' and core.get('referencedDecl', {}).get('kind') == 'EnumConstantDecl':
            return ('enum', core['referencedDecl']['name'])
        if k == 'IntegerLiteral':
            return ('int', int(core['value']))
        return None

    def int_casts(self, chain):
        """widths of the integral conversions, innermost first; None if something else is in the chain"""
        out = []
        for ck, ty in reversed(chain):
            if ck == 'IntegralCast':
                w = self.tenv.width(ty)
                if w is None:
                    return None
                out.append([w[0], bool(w[1])])
            elif ck in ('BitCast',):
                continue
            else:
                return None
        return out

def ret_type(fn):
    return fn['type']['qualType'].split('(')[0].strip()

def params(fn):
    return [c for c in kids(fn) if c.get('kind') == 'ParmVarDecl']

def body(fn):
    for c in kids(fn):
        if c.get('kind') == 'CompoundStmt':
            return c

def callee_name(call):
    return strip_expr(kids(call)[0]).get('referencedDecl', {}).get('name')

def is_param(n, p):
    core = strip_expr(n)
    return core.get('kind') == 'DeclRefExpr' and core.get('referencedDecl', {}).get('id') == p['id']

def is_null(n):
    core = strip_expr(n)
    return core.get('kind') == 'IntegerLiteral' and core.get('value') == '0'

def field_arg(u, n, ps):
    """describe the expression passed as 'field' (or as a value): constant or a parameter, with casts"""
    chain, core = cast_chain(n)
    casts = u.int_casts(chain)
    if casts is None:
        return None
    c = u.const_ref(n)
    if c:
        return {'kind': 'const', 'ref': c, 'casts': casts}
    if core.get('kind') == 'DeclRefExpr' and core.get('referencedDecl', {}).get('kind') == 'ParmVarDecl':
        for i, p in enumerate(ps):
            if p['id'] == core['referencedDecl']['id']:
                pw = u.tenv.width(p['type'])
                if pw is None:
                    return None
                return {'kind': 'param', 'index': i, 'ptype': [pw[0], bool(pw[1])], 'casts': casts}
    return None

def parse_generic_call(u, call, ps, setter):
    """Avtp_GetField(table, num, pdu, field) / Avtp_SetField(table, num, pdu, field, value)"""
    a = kids(call)[1:]
    if len(a) != (5 if setter else 4):
        return None
    t = strip_expr(a[0])
    if t.get('kind') != 'DeclRefExpr' or t['referencedDecl'].get('kind') != 'VarDecl':
        return None
    num = field_arg(u, a[1], ps)
    fld = field_arg(u, a[3], ps)
    if num is None or fld is None or num['kind'] != 'const':
        return None
    pdu_ok = len(ps) > 0 and is_param(a[2], ps[0])
    d = {'table': t['referencedDecl']['name'], 'num': num, 'pdu_is_param0': pdu_ok, 'field': fld}
    if setter:
        val = field_arg(u, a[4], ps)
        if val is None:
            return None
        d['value'] = val
    return d

def classify(u, fn):
    ps = params(fn)
    b = body(fn)
    st = kids(b)
    name = fn['name']
    rt = ret_type(fn)
    base = {'name': name, 'ret': rt, 'nparams': len(ps),
            'ptypes': [p['type']['qualType'] for p in ps]}
    # ---- getter / payload accessor ----
    if len(st) == 1 and st[0]['kind'] == 'ReturnStmt' and kids(st[0]):
        e = kids(st[0])[0]
        chain, core = cast_chain(e)
        if core.get('kind') == 'CallExpr' and callee_name(core) == 'Avtp_GetField':
            g = parse_generic_call(u, core, ps, False)
            rw = u.tenv.width(rt)
            casts = u.int_casts(chain)
            if g and rw and casts is not None:
                base.update(kind='getter', call=g, ret_width=[rw[0], bool(rw[1])], ret_casts=casts)
                return base
        if core.get('kind') == 'MemberExpr' and core.get('name') == 'payload' and ps and \
           is_param(kids(core)[0], ps[0]) and core.get('isArrow'):
            base.update(kind='payload')
            return base
    # ---- getter through one local: T v = (casts) Avtp_GetField(...); return (casts) v; ----
    if len(st) == 2 and st[0]['kind'] == 'DeclStmt' and st[1]['kind'] == 'ReturnStmt' and kids(st[1]) and len(kids(st[0])) == 1:
        vd = kids(st[0])[0]
        inits = [c for c in kids(vd) if c.get('kind') not in ('FullComment',)]
        if vd.get('kind') == 'VarDecl' and len(inits) == 1 and vd.get('storageClass') is None:
            chain1, core1 = cast_chain(inits[0])
            chain2, core2 = cast_chain(kids(st[1])[0])
            if core1.get('kind') == 'CallExpr' and callee_name(core1) == 'Avtp_GetField' and \
               core2.get('kind') == 'DeclRefExpr' and core2.get('referencedDecl', {}).get('id') == vd.get('id'):
                g = parse_generic_call(u, core1, ps, False)
                rw = u.tenv.width(rt)
                c1, c2 = u.int_casts(chain1), u.int_casts(chain2)
                if g and rw and c1 is not None and c2 is not None and u.tenv.width(vd['type']['qualType']):
                    base.update(kind='getter', call=g, ret_width=[rw[0], bool(rw[1])], ret_casts=c1 + c2)
                    return base
    # ---- setter ----
    if len(st) == 1:
        core = st[0]
        while core.get('kind') == 'ParenExpr':
            core = kids(core)[0]
        if core.get('kind') == 'CallExpr' and callee_name(core) == 'Avtp_SetField':
            s = parse_generic_call(u, core, ps, True)
            if s:
                base.update(kind='setter', call=s)
                return base
    # ---- initialiser: if (pdu != NULL) { memset(pdu, 0, sizeof(T)); sets... } ----
    if len(st) == 1 and st[0]['kind'] == 'IfStmt' and len(ps) >= 1 and rt == 'void':
        parts = kids(st[0])
        cond = strip_expr(parts[0])
        if len(parts) == 2 and cond.get('kind') == 'BinaryOperator' and cond.get('opcode') == '!=':
            l, r = kids(cond)
            if (is_param(l, ps[0]) and is_null(r)) or (is_param(r, ps[0]) and is_null(l)):
                ops = parse_init_ops(u, kids(parts[1]) if parts[1]['kind'] == 'CompoundStmt' else [parts[1]], ps)
                if ops is not None:
                    base.update(kind='init', guarded=True, ops=ops)
                    return base
    # ---- initialiser with an early return: if (pdu == NULL) return; memset(...); sets... ----
    if len(st) >= 2 and st[0]['kind'] == 'IfStmt' and len(ps) >= 1 and rt == 'void':
        parts = kids(st[0])
        cond = strip_expr(parts[0])
        if len(parts) == 2 and cond.get('kind') == 'BinaryOperator' and cond.get('opcode') == '==':
            l, r = kids(cond)
            then = parts[1]
            if then.get('kind') == 'CompoundStmt' and len(kids(then)) == 1:
                then = kids(then)[0]
            if ((is_param(l, ps[0]) and is_null(r)) or (is_param(r, ps[0]) and is_null(l))) and then.get('kind') == 'ReturnStmt' and not kids(then):
                ops = parse_init_ops(u, st[1:], ps)
                if ops is not None:
                    base.update(kind='init', guarded=True, ops=ops)
                    return base
    # ---- legacy wrappers ----
    lg = classify_legacy(u, fn, ps, st, rt)
    if lg:
        base.update(lg)
        return base
    if name.startswith('avtp_') and rt == 'int':
        # a deprecated entry point whose body the translator does not recognise: it stays callable from the harness (by its
        # signature), but there is no model record for it, so the proofs about the deprecated API no longer check
        base.update(kind='legacy_unrecognised')
        return base
    # a current-API function whose body the translator does not recognise but whose signature is that of an initialiser,
    # getter or setter: it stays callable from the harness (so that a failing input can be exhibited on the real code), but
    # there is no model record for it, so the theorems that enumerate the accessors no longer check
    if name.startswith('Avtp_') and len(ps) >= 1 and base['ptypes'][0].strip().endswith('*'):
        ints = all(u.tenv.width(t) for t in base['ptypes'][1:])
        if rt == 'void' and len(ps) == 1:
            base.update(kind='init_unrecognised'); return base
        if rt == 'void' and len(ps) in (2, 3) and ints:
            base.update(kind='setter_unrecognised'); return base
        if u.tenv.width(rt) and len(ps) in (1, 2) and ints:
            base.update(kind='getter_unrecognised'); return base
    base.update(kind='other')
    return base

def parse_init_ops(u, stmts, ps):
    ops = []
    for s in stmts:
        core = s
        while core.get('kind') == 'ParenExpr':
            core = kids(core)[0]
        if core.get('kind') != 'CallExpr':
            return None
        cn = callee_name(core)
        a = kids(core)[1:]
        if cn == 'memset':
            if len(a) != 3 or not is_param(a[0], ps[0]):
                return None
            v = u.const_ref(a[1])
            sz = strip_expr(a[2])
            if v is None or v[0] != 'int':
                return None
            if sz.get('kind') == 'UnaryExprOrTypeTraitExpr' and sz.get('name') == 'sizeof' and 'argType' in sz:
                ops.append({'op': 'memset', 'value': v[1], 'sizeof': sz['argType']['qualType']})
            else:
                return None
        elif cn == 'Avtp_SetField':
            g = parse_generic_call(u, core, ps, True)
            if g is None or g['field']['kind'] != 'const' or g['value']['kind'] != 'const':
                return None
            ops.append({'op': 'rawset', 'call': g})
        else:
            if not a or not is_param(a[0], ps[0]):
                return None
            args = [field_arg(u, x, ps) for x in a[1:]]
            if any(x is None for x in args):
                return None
            ops.append({'op': 'call', 'callee': cn, 'args': args})
    return ops

def classify_legacy(u, fn, ps, st, rt):
    """int avtp_*_pdu_{get,set,init}: recognise guard set, callee and argument mapping"""
    name = fn['name']
    if not name.startswith('avtp_') or rt != 'int':
        return None
    def einval(n):
        # return -EINVAL;  (EINVAL expands to 22)
        if n.get('kind') == 'CompoundStmt' and len(kids(n)) == 1:
            n = kids(n)[0]
        if n.get('kind') != 'ReturnStmt':
            return False
        e = strip_expr(kids(n)[0])
        return e.get('kind') == 'UnaryOperator' and e.get('opcode') == '-' and \
            strip_expr(kids(e)[0]).get('kind') == 'IntegerLiteral' and strip_expr(kids(e)[0]).get('value') == '22'
    def guards(cond):
        """flatten a || chain into a list of atomic guards"""
        c = strip_expr(cond)
        if c.get('kind') == 'BinaryOperator' and c.get('opcode') == '||':
            l, r = kids(c)
            gl, gr = guards(l), guards(r)
            return None if gl is None or gr is None else gl + gr
        if c.get('kind') == 'BinaryOperator' and c.get('opcode') == '==':
            l, r = kids(c)
            for i, p in enumerate(ps):
                if (is_param(l, p) and is_null(r)) or (is_param(r, p) and is_null(l)):
                    return [{'g': 'null', 'param': i}]
            return None
        if c.get('kind') == 'UnaryOperator' and c.get('opcode') == '!':
            for i, p in enumerate(ps):
                if is_param(kids(c)[0], p):
                    return [{'g': 'null', 'param': i}]
            return None
        if c.get('kind') == 'BinaryOperator' and c.get('opcode') in ('>=', '>'):
            l, r = kids(c)
            fl = field_arg(u, l, ps)
            cr = u.const_ref(r)
            lt = u.tenv.width(strip_cast_type(l))
            if fl and fl['kind'] == 'param' and cr:
                return [{'g': 'range', 'op': c['opcode'], 'param': fl['index'], 'casts': fl['casts'], 'ptype': fl['ptype'],
                         'bound': cr, 'cmp_type': cmp_type(u, c)}]
            return None
        return None
    def strip_cast_type(n):
        return n.get('type', {})
    def cmp_type(u, c):
        # type in which the comparison is carried out = type of the (converted) left operand
        l = kids(c)[0]
        w = u.tenv.width(l['type'])
        return [w[0], bool(w[1])] if w else None
    def ret_zero(n):
        if n.get('kind') != 'ReturnStmt':
            return False
        return is_null(kids(n)[0])
    # shape A: if (guards) return -EINVAL; else { ...; return 0; }
    if len(st) == 1 and st[0]['kind'] == 'IfStmt':
        parts = kids(st[0])
        if len(parts) == 3 and einval(parts[1]):
            g = guards(parts[0])
            els = kids(parts[2]) if parts[2]['kind'] == 'CompoundStmt' else [parts[2]]
            if g is not None and els and ret_zero(els[-1]):
                act = parse_legacy_actions(u, els[:-1], ps)
                if act is not None:
                    return {'kind': 'legacy', 'guards': g, 'actions': act}
    # shape C: if (guards) return -EINVAL; [if (guards) return -EINVAL; ...] actions...; return 0;
    # (every guard returns the same code, so consecutive guard statements are the || chain of shape A)
    k = 0
    gs = []
    while k < len(st) and st[k]['kind'] == 'IfStmt' and len(kids(st[k])) == 2 and einval(kids(st[k])[1]):
        g = guards(kids(st[k])[0])
        if g is None:
            gs = None
            break
        gs += g
        k += 1
    if gs and k >= 1 and len(st) > k and ret_zero(st[-1]) and st[k]['kind'] != 'DeclStmt':
        act = parse_legacy_actions(u, st[k:-1], ps)
        if act is not None:
            return {'kind': 'legacy', 'guards': gs, 'actions': act}
    # shape B (avtp_aaf_pdu_init): if (!pdu) return -EINVAL; memset; res = set(...); if (res<0) return res; ...; return 0;
    if len(st) >= 3 and st[0]['kind'] == 'DeclStmt' and st[1]['kind'] == 'IfStmt':
        parts = kids(st[1])
        if len(parts) == 2 and einval(parts[1]):
            g = guards(parts[0])
            rest = st[2:]
            if g is not None and ret_zero(rest[-1]):
                acts = []
                i = 0
                rest = rest[:-1]
                ok = True
                while i < len(rest):
                    s = rest[i]
                    core = strip_expr(s) if s.get('kind') in ('ParenExpr',) else s
                    if core.get('kind') == 'CallExpr' and callee_name(core) == 'memset':
                        a = parse_init_ops(u, [core], ps)
                        if a is None: ok = False; break
                        acts += a; i += 1; continue
                    if core.get('kind') == 'BinaryOperator' and core.get('opcode') == '=':
                        l, r = kids(core)
                        call = strip_expr(r)
                        if call.get('kind') == 'CallExpr':
                            a = parse_init_ops(u, [call], ps)
                            # must be followed by: if (res < 0) return res;
                            if a is None or i + 1 >= len(rest) or rest[i+1].get('kind') != 'IfStmt':
                                ok = False; break
                            a[0]['checked'] = True
                            acts += a; i += 2; continue
                    ok = False; break
                if ok:
                    return {'kind': 'legacy', 'guards': g, 'actions': acts, 'style': 'res-chain'}
    return None

def parse_legacy_actions(u, stmts, ps):
    """statements of the success branch:  [T tmp =] Callee((T*)pdu, field[, val]);  *val = [cast] tmp|call;"""
    acts = []
    tmpvars = {}
    for s in stmts:
        k = s.get('kind')
        if k == 'DeclStmt':
            vd = kids(s)[0]
            if vd.get('kind') != 'VarDecl' or not kids(vd):
                return None
            chain, core = cast_chain(kids(vd)[0])
            if core.get('kind') != 'CallExpr':
                return None
            a = parse_init_ops(u, [core], ps)
            w = u.tenv.width(vd['type'])
            casts = u.int_casts(chain)
            if a is None or w is None or casts is None:
                return None
            tmpvars[vd['id']] = {'call': a[0], 'casts': casts + [[w[0], bool(w[1])]]}
            continue
        core = s
        while core.get('kind') == 'ParenExpr':
            core = kids(core)[0]
        if core.get('kind') == 'CallExpr':
            a = parse_init_ops(u, [core], ps)
            if a is None:
                return None
            acts += a
            continue
        if core.get('kind') == 'BinaryOperator' and core.get('opcode') == '=':
            l, r = kids(core)
            lcore = strip_expr(l)
            # *val = ...
            if lcore.get('kind') == 'UnaryOperator' and lcore.get('opcode') == '*':
                tgt = None
                for i, p in enumerate(ps):
                    if is_param(kids(lcore)[0], p):
                        tgt = i
                if tgt is None:
                    return None
                pt = ps[tgt]['type']['qualType']          # e.g. 'uint32_t *'
                pw = u.tenv.width(pt.replace('*', '').strip())
                chain, rc = cast_chain(r)
                casts = u.int_casts(chain)
                if pw is None or casts is None:
                    return None
                if rc.get('kind') == 'CallExpr':
                    a = parse_init_ops(u, [rc], ps)
                    if a is None:
                        return None
                    acts.append({'op': 'store_result', 'param': tgt, 'width': pw[0], 'from': a[0], 'casts': casts})
                    continue
                if rc.get('kind') == 'DeclRefExpr' and rc['referencedDecl']['id'] in tmpvars:
                    t = tmpvars[rc['referencedDecl']['id']]
                    acts.append({'op': 'store_result', 'param': tgt, 'width': pw[0], 'from': t['call'],
                                 'casts': t['casts'] + casts})
                    continue
            return None
        return None
    return acts

# ---------------------------------------------------------------------------
# compiled probe
PROBE_HEAD = r'''
#include <stdio.h>
#include <stddef.h>
#include "%s"
int main(void) {
'''
def make_probe(u, macros):
    lines = [PROBE_HEAD % u.path]
    for t, n in u.tables.items():
        lines.append('  for (unsigned i = 0; i < sizeof(%s)/sizeof(%s[0]); i++) printf("ROW %s %%u %%u %%u %%u\\n", i, %s[i].quadlet, %s[i].offset, %s[i].bits);' % (t, t, t, t, t, t))
        lines.append('  printf("TABLELEN %s %%zu\\n", sizeof(%s)/sizeof(%s[0]));' % (t, t, t))
    for nm in u.enum_of_const:
        lines.append('  printf("ENUM %s %%lld\\n", (long long)%s);' % (nm, nm))
    for tn, rec in u.header_types.items():
        fnames = [f[0] for f in rec['fields']]
        lines.append('  printf("SIZEOF %s %%zu\\n", sizeof(%s));' % (tn, tn))
        for f in fnames:
            lines.append('  printf("OFFSETOF %s %s %%zu\\n", offsetof(%s, %s));' % (tn, f, tn, f))
    for rid, rec in u.records.items():
        if rec.get('name') and rec['name'].startswith('avtp_') and rec['fields'] and rec.get('complete', True):
            tag = rec['name']
            lines.append('  printf("SIZEOF struct:%s %%zu\\n", sizeof(struct %s));' % (tag, tag))
            for f in rec['fields']:
                lines.append('  printf("OFFSETOF struct:%s %s %%zu\\n", offsetof(struct %s, %s));' % (tag, f[0], tag, f[0]))
    for m in macros:
        lines.append('#ifdef %s\n  printf("MACRO %s %%lld\\n", (long long)(%s));\n#endif' % (m, m, m))
    lines.append('  return 0; }')
    return '\n'.join(lines)

MACRO_RE = re.compile(r'^\s*#\s*define\s+([A-Za-z_]\w*)\s+(.+?)\s*$', re.M)
def header_macros():
    """object-like macros of all public headers whose body looks like an integer expression"""
    out = {}
    for h in glob.glob(os.path.join(INC, 'avtp', '**', '*.h'), recursive=True):
        txt = open(h).read()
        txt = re.sub(r'/\*.*?\*/', '', txt, flags=re.S)
        for m in MACRO_RE.finditer(txt):
            name, bodytxt = m.group(1), m.group(2)
            if '(' in name:
                continue
            out.setdefault(name, []).append((os.path.relpath(h, INC), bodytxt))
    return out

HDRLEN_RE = re.compile(r'uint8_t\s+header\s*\[\s*([A-Za-z_]\w*)\s*\]\s*;\s*uint8_t\s+payload\s*\[\s*0?\s*\]\s*;\s*\}\s*([A-Za-z_]\w*)\s*;', re.S)
def header_len_macros():
    """header type name -> (macro naming its length, header file)"""
    out = {}
    for h in glob.glob(os.path.join(INC, 'avtp', '**', '*.h'), recursive=True):
        txt = open(h).read()
        txt = re.sub(r'/\*.*?\*/', '', txt, flags=re.S)
        txt = re.sub(r'//[^\n]*', '', txt)
        for m in HDRLEN_RE.finditer(txt):
            out[m.group(2)] = (m.group(1), os.path.relpath(h, INC))
    return out

def run_probe(u, macros, workdir):
    src = os.path.join(workdir, 'probe_' + os.path.basename(u.path))
    exe = src[:-2]
    with open(src, 'w') as f:
        f.write(make_probe(u, macros))
    r = subprocess.run(['gcc', '-std=gnu99', '-w', '-I' + INC, '-o', exe, src, os.path.join(workdir, 'libprobe.a')], capture_output=True)
    if r.returncode != 0:
        raise RuntimeError('probe for %s does not compile:\n%s' % (u.rel, r.stderr.decode()[:3000]))
    out = subprocess.run([exe], capture_output=True, timeout=20).stdout.decode()
    res = {'rows': {}, 'tablelen': {}, 'enum': {}, 'sizeof': {}, 'offsetof': {}, 'macro': {}}
    for line in out.splitlines():
        p = line.split()
        if p[0] == 'ROW':
            res['rows'].setdefault(p[1], []).append([int(p[3]), int(p[4]), int(p[5])])
        elif p[0] == 'TABLELEN':
            res['tablelen'][p[1]] = int(p[2])
        elif p[0] == 'ENUM':
            res['enum'][p[1]] = int(p[2])
        elif p[0] == 'SIZEOF':
            res['sizeof'][p[1]] = int(p[2])
        elif p[0] == 'OFFSETOF':
            res['offsetof'].setdefault(p[1], {})[p[2]] = int(p[3])
        elif p[0] == 'MACRO':
            res['macro'][p[1]] = int(p[2])
    return res

def build_probe_lib(srcs, workdir):
    """archive of all library objects, only so that the probes link"""
    objs = []
    def cc(p):
        o = os.path.join(workdir, 'pl_' + os.path.basename(p)[:-2] + '.o')
        r = subprocess.run(['gcc', '-std=gnu99', '-w', '-I' + INC, '-c', '-o', o, p], capture_output=True)
        if r.returncode != 0:
            raise RuntimeError('library source %s does not compile:\n%s' % (p, r.stderr.decode()[:3000]))
        return o
    with ThreadPoolExecutor(max_workers=16) as ex:
        objs = list(ex.map(cc, srcs))
    a = os.path.join(workdir, 'libprobe.a')
    if os.path.exists(a):
        os.unlink(a)
    subprocess.run(['ar', 'rcs', a] + objs, check=True)

def utils_facts(u):
    """facts about Avtp_GetField / Avtp_SetField read from the AST of Utils.c"""
    facts = {}
    for fn in u.funcs:
        if fn['name'] in ('Avtp_GetField', 'Avtp_SetField'):
            ps = params(fn)
            d = {'params': [[p['name'], list(u.tenv.width(p['type']) or (0, False))] if u.tenv.width(p['type']) else [p['name'], None] for p in ps]}
            for n in walk(body(fn)):
                if n.get('kind') == 'VarDecl' and n.get('name') in ('quadletId', 'quadletOffset', 'processedBits'):
                    w = u.tenv.width(n['type'])
                    d[n['name']] = w[0] if w and not w[1] else None
            facts[fn['name']] = d
    return facts

def memset_scales(u):
    """for every 'other' function: the pointee type of the pointer operand in memset(ptr + n, ...) / memcpy destinations,
    i.e. the factor C pointer arithmetic applies to n"""
    out = {}
    for fn in u.funcs:
        b = body(fn)
        if not b:
            continue
        for n in walk(b):
            if n.get('kind') == 'CallExpr' and callee_name(n) == 'memset':
                a = kids(n)[1:]
                if not a:
                    continue
                core = strip_expr(a[0])
                if core.get('kind') == 'BinaryOperator' and core.get('opcode') == '+':
                    l = kids(core)[0]
                    t = l.get('type', {}).get('qualType', '')
                    out.setdefault(fn['name'], []).append(t)
    return out

def other_facts(u):
    """small structural facts about hand-modelled functions: return type width, local variable widths,
    which local variables are assigned inside loops"""
    out = {}
    for fn in u.funcs:
        b = body(fn)
        if not b:
            continue
        rw = u.tenv.width(ret_type(fn))
        d = {'ret_bits': rw[0] if rw and not rw[1] else 0, 'locals': {}, 'loop_assigned': []}
        for n in walk(b):
            if n.get('kind') == 'VarDecl':
                w = u.tenv.width(n['type'])
                if w:
                    d['locals'][n['name']] = [w[0], bool(w[1])]
        def assigned(node, acc):
            for n in walk(node):
                if n.get('kind') in ('CompoundAssignOperator',) or (n.get('kind') == 'BinaryOperator' and n.get('opcode') == '=') or \
                   (n.get('kind') == 'UnaryOperator' and n.get('opcode') in ('++', '--')):
                    l = strip_expr(kids(n)[0])
                    if l.get('kind') == 'DeclRefExpr':
                        acc.add(l['referencedDecl'].get('name'))
        acc = set()
        for n in walk(b):
            if n.get('kind') in ('ForStmt', 'WhileStmt', 'DoStmt'):
                ks = kids(n)
                if ks:
                    assigned(ks[-1], acc)      # loop body
        d['loop_assigned'] = sorted(x for x in acc if x)
        out[fn['name']] = d
    return out

def analyse_unit(path, macros, hl, workdir):
    u = Unit(path)
    funcs = [classify(u, fn) for fn in u.funcs]
    probe = run_probe(u, [m for m in macros], workdir)
    # enum membership: enumerator names of each enum, in order
    enums = {eid: names for eid, names in u.enums.items()}
    tables = {}
    for t in u.tables:
        # the enum that indexes this table: the one containing the constant passed as numFields
        num_names = set()
        for f in funcs:
            c = f.get('call')
            if c and c['table'] == t and c['num']['ref'][0] == 'enum':
                num_names.add(c['num']['ref'][1])
        fenum = None
        if len(num_names) == 1:
            eid = u.enum_of_const.get(next(iter(num_names)))
            fenum = [[nm, probe['enum'][nm]] for nm in enums[eid]]
        tables[t] = {'declared_len': u.tables[t], 'rows': probe['rows'].get(t, []), 'enum': fenum,
                     'num_name': sorted(num_names)}
    htypes = {}
    for tn in u.header_types:
        if tn in hl:
            htypes[tn] = {'sizeof': probe['sizeof'].get(tn), 'offsetof': probe['offsetof'].get(tn, {}),
                          'len_macro': hl[tn][0], 'len_macro_value': probe['macro'].get(hl[tn][0]),
                          'header': hl[tn][1]}
        elif any(f[0] == 'payload' for f in u.header_types[tn]['fields']) or tn.startswith('avtp_'):
            htypes[tn] = {'sizeof': probe['sizeof'].get(tn), 'offsetof': probe['offsetof'].get(tn, {}),
                          'len_macro': None, 'len_macro_value': None, 'header': None}
    legacy_structs = {}
    for rid, rec in u.records.items():
        if rec.get('name') and rec['name'].startswith('avtp_') and rec['fields']:
            k = 'struct:' + rec['name']
            if k in probe['sizeof']:
                legacy_structs[rec['name']] = {'sizeof': probe['sizeof'][k], 'members': [[f[0], probe['offsetof'].get(k, {}).get(f[0])] for f in rec['fields']]}
    res = {'src': u.rel, 'tables': tables, 'funcs': funcs, 'types': htypes, 'legacy_structs': legacy_structs,
           'enum_values': probe['enum'], 'macro_values': probe['macro'], 'sizeof': probe['sizeof'],
           'offsetof': probe['offsetof']}
    if os.path.basename(path) == 'Utils.c':
        res['utils'] = utils_facts(u)
    res['memset_ptr_types'] = memset_scales(u)
    res['other_facts'] = other_facts(u)
    return res

def generate(workdir):
    os.makedirs(workdir, exist_ok=True)
    macros = sorted(header_macros().keys())
    hl = header_len_macros()
    srcs = lib_sources()
    build_probe_lib(srcs, workdir)
    with ThreadPoolExecutor(max_workers=16) as ex:
        units = list(ex.map(lambda p: analyse_unit(p, macros, hl, workdir), srcs))
    return {'units': units}

if __name__ == '__main__':
    out = generate(sys.argv[1] if len(sys.argv) > 1 else '/tmp/verif_t1')
    from collections import Counter
    c = Counter()
    for u in out['units']:
        for f in u['funcs']:
            c[f['kind']] += 1
            if f['kind'] == 'other':
                print('other:', u['src'], f['name'])
    print(dict(c))
    json.dump(out, open(os.path.join(sys.argv[1] if len(sys.argv) > 1 else '/tmp/verif_t1', 'model.json'), 'w'), indent=1)
