/* Byte-order helpers only, compiled with the big-endian branch of
   include/avtp/Byteorder.h forced on this little-endian host
   (-D__BYTE_ORDER__=__ORDER_BIG_ENDIAN__): validates the translator's terms for
   that branch against what the compiler makes of the same text. */
#include <stdio.h>
#include <stdlib.h>
#include <string.h>
#include <stdint.h>
#include "avtp/Byteorder.h"

static uint64_t helper(const char* k, const char* w, uint64_t x) {
    int W = atoi(w);
#define HSEL(N) if (strcmp(k, #N) == 0) { if (W == 16) return Avtp_##N##16((uint16_t)x); if (W == 32) return Avtp_##N##32((uint32_t)x); return Avtp_##N##64(x); }
    HSEL(Bswap) HSEL(CpuToLe) HSEL(CpuToBe) HSEL(LeToCpu) HSEL(BeToCpu)
    return 0;
}
int main(void) {
    char line[256]; char* a[8];
    while (fgets(line, sizeof line, stdin)) {
        int n = 0;
        for (char* t = strtok(line, " \n"); t && n < 8; t = strtok(0, " \n")) a[n++] = t;
        if (n == 5 && !strcmp(a[0], "H")) printf("V %llx\n", (unsigned long long)helper(a[2], a[3], strtoull(a[4], 0, 16)));
        else puts("BADCMD");
    }
    return 0;
}
