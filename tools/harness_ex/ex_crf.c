/* CRF listener: aaf_listener_recv_pdu() / aaf_talker_recv_pdu() driven as aaf_listener() / aaf_talker() drive them.
 * session arguments: listener|talker [mtt-ns] */
#include "ex_common.h"
#include <math.h>
#include "/repo/examples/crf/crf-listener.c"
#include "ex_post.h"
static void hx_state(char *out, size_t cap)
{
    int n = 0; struct media_clock_entry *e; uint64_t first = 0, last = 0;
    STAILQ_FOREACH(e, &mclk_timestamps, mclk_entries) { if (!n) first = e->timestamp; last = e->timestamp; n++; }
    snprintf(out, cap, "queue=%d first=%" PRIx64 " last=%" PRIx64 " prev=%" PRIx64 " lookup=%d crfseq=%u aafseq=%u state=%d firstpdu=%d",
             n, first, last, prev_mclk_timestamp, need_mclk_lookup, crf_seq_num, aaf_seq_num, prev_state, first_aaf_pdu);
}
static int hx_session_main(void)
{
    mode = (hx_nargs > 0 && !strcmp(hx_args[0], "talker")) ? MODE_TALKER : MODE_LISTENER;
    mtt = hx_nargs > 1 ? atoi(hx_args[1]) : 0;
    STAILQ_INIT(&mclk_timestamps);
    rounded_mtt = ceil((double)mtt / MCLK_PERIOD) * MCLK_PERIOD;
    for (;;) {
        int res = (mode == MODE_LISTENER) ? aaf_listener_recv_pdu(3) : aaf_talker_recv_pdu(3, 4);
        if (res < 0) return 1;
    }
}
