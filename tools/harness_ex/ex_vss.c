/* ACF-VSS listener: the receive path is the loop of main(); session arguments are its command line */
#include "ex_common.h"
#include "/repo/examples/acf-vss/acf-vss-listener.c"
#include "ex_post.h"
static void hx_state(char *out, size_t cap) { (void)out; (void)cap; }
static int hx_session_main(void) { return hx_run_main("acf-vss-listener"); }
