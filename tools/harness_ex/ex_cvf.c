/* CVF (H.264) listener: new_packet() driven as main() drives it; the state digest is the NAL queue */
#include "ex_common.h"
#include "/repo/examples/cvf/cvf-listener.c"
#include "ex_post.h"
static void hx_state(char *out, size_t cap)
{
    int n = 0; struct nal_entry *e, *last = NULL;
    STAILQ_FOREACH(e, &nals, entries) { n++; last = e; }
    uint32_t h = 2166136261u;
    if (last) for (int i = 0; i < last->len && i < DATA_LEN; i++) h = (h ^ last->nal[i]) * 16777619u;
    snprintf(out, cap, "queue=%d seq=%u armed=%d lastlen=%d lasthash=%08x", n, expected_seq, hx_timer_armed, last ? last->len : -1, last ? h : 0);
}
static int hx_session_main(void)
{
    STAILQ_INIT(&nals);
    for (;;) {
        int res = new_packet(3, 4);
        if (res < 0) return 1;
    }
}
