/* ACF-CAN listener: new_packet() of examples/acf-can/acf-can-listener.c, driven as its main() drives it.
 * session arguments: udp|raw  cc|fd */
#include "ex_common.h"
#include "/repo/examples/acf-can/acf-can-listener.c"
#include "ex_post.h"
int hx_setup_can_socket(const char *can_ifname, Avtp_CanVariant_t v) { (void)can_ifname; (void)v; return 9; }
static void hx_state(char *out, size_t cap) { (void)out; (void)cap; }
static int hx_session_main(void)
{
    use_udp = (hx_nargs > 0 && !strcmp(hx_args[0], "udp"));
    can_variant = (hx_nargs > 1 && !strcmp(hx_args[1], "fd")) ? AVTP_CAN_FD : AVTP_CAN_CLASSIC;
    for (;;) {
        /* main(): res = new_packet(fd, can_socket); if (res < 0) goto err; */
        int res = new_packet(3, 9);
        if (res < 0) return 1;
    }
}
