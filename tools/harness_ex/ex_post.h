/* stand-ins for the socket set-up of examples/common/common.c, included after the example source */
#include "common/common.h"
int hx_create_listener_socket(char *ifname, uint8_t macaddr[], int protocol) { (void)ifname; (void)macaddr; (void)protocol; return hx_fake_fd(); }
int hx_create_listener_socket_udp(uint32_t udp_port) { (void)udp_port; return hx_fake_fd(); }
int hx_create_talker_socket(int priority) { (void)priority; return hx_fake_fd(); }
int hx_create_talker_socket_udp(int priority) { (void)priority; return hx_fake_fd(); }
int hx_setup_socket_address(int fd, const char *ifname, uint8_t macaddr[], int protocol, struct sockaddr_ll *sk_addr)
{ (void)fd; (void)ifname; (void)macaddr; (void)protocol; memset(sk_addr, 0, sizeof *sk_addr); return 0; }
int hx_setup_udp_socket_address(struct in_addr *addr, uint32_t port, struct sockaddr_in *sk_addr)
{ (void)addr; (void)port; memset(sk_addr, 0, sizeof *sk_addr); return 0; }
static int hx_timer_armed;
int hx_arm_timer(int fd, struct timespec *tspec) { (void)fd; (void)tspec; hx_timer_armed++; return 0; }
static int hx_run_main(const char *prog)
{
    char *argv[40];
    int argc = 0;
    argv[argc++] = (char *)prog;
    for (int i = 0; i < hx_nargs; i++) argv[argc++] = hx_args[i];
    argv[argc] = NULL;
    return x_main(argc, argv);
}
