/* AAF listener: new_packet() driven as main() drives it; the state digest is the sample queue */
#include "ex_common.h"
#include "/repo/examples/aaf/aaf-listener.c"
#include "ex_post.h"
static void hx_state(char *out, size_t cap)
{
    int n = 0; struct sample_entry *e, *last = NULL;
    STAILQ_FOREACH(e, &samples, entries) { n++; last = e; }
    int k = snprintf(out, cap, "queue=%d seq=%u armed=%d last=", n, expected_seq, hx_timer_armed);
    if (last) for (int i = 0; i < DATA_LEN && k + 3 < (int)cap; i++) k += snprintf(out + k, cap - k, "%02x", last->pcm_sample[i]);
    else snprintf(out + k, cap - k, "-");
}
static int hx_session_main(void)
{
    STAILQ_INIT(&samples);
    for (;;) {
        int res = new_packet(3, 4);
        if (res < 0) return 1;
    }
}
