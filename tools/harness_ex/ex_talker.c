/* ACF-CAN talker: main() of examples/acf-can/acf-can-talker.c on CAN frames supplied as F items; the packets it
 * sends are reported as T lines.  Session arguments are its command line.  clock_gettime is made deterministic
 * (the message timestamp is an input of the model): second k-th call returns 1000 s + k * 1000 ns. */
#include "ex_common.h"
static int hx_clock_calls;
static int hx_clock_gettime(clockid_t c, struct timespec *ts) { (void)c; ts->tv_sec = 1000; ts->tv_nsec = 1000 * (++hx_clock_calls); return 0; }
#define clock_gettime hx_clock_gettime
#include "/repo/examples/acf-can/acf-can-talker.c"
#include "ex_post.h"
int hx_setup_can_socket(const char *can_ifname, Avtp_CanVariant_t v) { (void)can_ifname; (void)v; return 9; }
static void hx_state(char *out, size_t cap) { (void)out; (void)cap; }
static int hx_session_main(void) { return hx_run_main("acf-can-talker"); }
