/* Driver for the example programs of /repo/examples, included at the top of a translation unit that then
 * #include's the example's own .c file unchanged.  The example's calls to recv / write / printf / poll / socket
 * set-up are redirected by macros to the functions below, so that its receive path (and for the programs whose
 * receive path is the body of main(), main itself) runs on datagrams supplied on stdin:
 *
 *   stdin   S <session> <arg>...      start a session (a fresh child process; <arg>s configure the mode)
 *           D <hex>|-                 one datagram ('-' = empty)
 *           X <hex>                   contents of the receive buffer before the next datagram arrives
 *           F <hex>                   (talker only) one CAN frame as read from the CAN socket
 *           E                         end of session: run it
 *   stdout  B <session> <idx>         datagram idx is being delivered
 *           W <session> <idx> <fd> <hex>   write() by the example
 *           T <session> <idx> <hex>        sendto() by the example
 *           P <session> <idx> <hex>        printf text of the example
 *           Q <session> <idx> <text>       state digest after the datagram was processed
 *           Z <session> END|EXIT <code>|CRASH <what>|TIMEOUT  <last idx>
 */
#ifndef EX_COMMON_H
#define EX_COMMON_H
#define _GNU_SOURCE
#include <stdio.h>
#include <stdlib.h>
#include <string.h>
#include <stdarg.h>
#include <stdint.h>
#include <stdbool.h>
#include <unistd.h>
#include <signal.h>
#include <errno.h>
#include <poll.h>
#include <time.h>
#include <inttypes.h>
#include <alloca.h>
#include <assert.h>
#include <argp.h>
#include <arpa/inet.h>
#include <sys/types.h>
#include <sys/socket.h>
#include <sys/wait.h>
#include <sys/ioctl.h>
#include <sys/queue.h>
#include <sys/timerfd.h>
#include <linux/if.h>
#include <linux/if_ether.h>
#include <linux/if_packet.h>
#include <linux/can.h>
#include <linux/can/raw.h>

#define HX_MAX_ITEMS 4096
typedef struct { int kind; size_t len; uint8_t *bytes; } hx_item;      /* kind 'D' or 'F' */
static hx_item hx_items[HX_MAX_ITEMS];
static int hx_nitems, hx_next_d, hx_next_f, hx_cur = -1;
static char hx_session[64];
static char *hx_args[32];
static int hx_nargs;
static unsigned hx_alarm_secs = 4;

static void hx_state(char *out, size_t cap);       /* defined by each driver: digest of the example's state */

static void hx_hex(const void *p, size_t n)
{
    const uint8_t *b = p;
    if (!n) fputc('-', stdout);
    for (size_t i = 0; i < n; i++) fprintf(stdout, "%02x", b[i]);
}
static void hx_close_datagram(void)
{
    if (hx_cur >= 0) {
        char st[512]; st[0] = 0;
        hx_state(st, sizeof st);
        fprintf(stdout, "Q %s %d %s\n", hx_session, hx_cur, st[0] ? st : "-");
        fflush(stdout);
        hx_cur = -1;
    }
}
static void hx_finish(void)
{
    hx_close_datagram();
    fflush(stdout);
    _exit(0);
}
/* next item of the given kind, or NULL */
static hx_item *hx_take(int kind, int *cursor)
{
    while (*cursor < hx_nitems) {
        hx_item *it = &hx_items[(*cursor)++];
        if (it->kind == kind) return it;
    }
    return NULL;
}
static int hx_d_index;
static ssize_t hx_recv(int fd, void *buf, size_t n, int flags)
{
    (void)fd; (void)flags;
    hx_close_datagram();
    /* an X item in front of a datagram: what the receive buffer holds before the datagram arrives (the contents of an
       uninitialised / reused buffer are arbitrary; this makes them a controlled input) */
    hx_item *it = NULL, *stale = NULL;
    while (hx_next_d < hx_nitems) {
        hx_item *c = &hx_items[hx_next_d++];
        if (c->kind == 'X') stale = c;
        else if (c->kind == 'D') { it = c; break; }
    }
    if (!it) hx_finish();
    if (stale) memcpy(buf, stale->bytes, stale->len < n ? stale->len : n);
    hx_cur = hx_d_index++;
    fprintf(stdout, "B %s %d\n", hx_session, hx_cur);
    fflush(stdout);
    alarm(hx_alarm_secs);
    size_t k = it->len < n ? it->len : n;        /* a datagram socket truncates to the buffer size */
    /* the bytes sit in an exact-extent heap block: reading more than arrived would be flagged too */
    memcpy(buf, it->bytes, k);
    return (ssize_t)k;
}
static ssize_t hx_read(int fd, void *buf, size_t n)
{
    (void)fd;
    hx_item *it = hx_take('F', &hx_next_f);
    if (!it) hx_finish();
    alarm(hx_alarm_secs);
    size_t k = it->len < n ? it->len : n;
    memcpy(buf, it->bytes, k);
    return (ssize_t)k;
}
static ssize_t hx_write(int fd, const void *buf, size_t n)
{
    fprintf(stdout, "W %s %d %d ", hx_session, hx_cur, fd);
    hx_hex(buf, n);
    fputc('\n', stdout);
    return (ssize_t)n;
}
static ssize_t hx_sendto(int fd, const void *buf, size_t n, int flags, const void *addr, socklen_t alen)
{
    (void)fd; (void)flags; (void)addr; (void)alen;
    fprintf(stdout, "T %s %d ", hx_session, hx_cur);
    hx_hex(buf, n);
    fputc('\n', stdout);
    fflush(stdout);
    return (ssize_t)n;
}
static int hx_printf(const char *fmt, ...)
{
    /* formatted by the real vsnprintf, so that a %s on unterminated bytes is still an (intercepted) over-read */
    va_list ap, ap2;
    va_start(ap, fmt);
    va_copy(ap2, ap);
    int n = vsnprintf(NULL, 0, fmt, ap);
    va_end(ap);
    if (n < 0) { va_end(ap2); return n; }
    char *s = malloc((size_t)n + 1);
    vsnprintf(s, (size_t)n + 1, fmt, ap2);
    va_end(ap2);
    fprintf(stdout, "P %s %d ", hx_session, hx_cur);
    hx_hex(s, (size_t)n);
    fputc('\n', stdout);
    free(s);
    return n;
}
static int hx_fprintf(FILE *f, const char *fmt, ...)
{
    /* diagnostics of the example (stderr): formatted, then dropped */
    (void)f;
    va_list ap;
    va_start(ap, fmt);
    int n = vsnprintf(NULL, 0, fmt, ap);
    va_end(ap);
    return n;
}
static int hx_poll(struct pollfd *fds, nfds_t n, int timeout)
{
    (void)timeout;
    for (nfds_t i = 0; i < n; i++) fds[i].revents = 0;
    fds[0].revents = POLLIN;                    /* only the network socket ever becomes readable */
    return 1;
}
static int hx_fd_counter = 100;
static int hx_fake_fd(void) { return hx_fd_counter++; }

/* ---- reading the script and running sessions ---- */
static int hx_unhex(const char *s, uint8_t **out, size_t *len)
{
    size_t n = strlen(s);
    if (n == 1 && s[0] == '-') { *len = 0; *out = malloc(1); return 0; }   /* malloc(1): see DESIGN, ASan and size 0 */
    if (n % 2) return -1;
    *len = n / 2;
    *out = malloc(*len ? *len : 1);
    for (size_t i = 0; i < *len; i++) {
        unsigned v;
        if (sscanf(s + 2 * i, "%2x", &v) != 1) return -1;
        (*out)[i] = (uint8_t)v;
    }
    return 0;
}

static int hx_session_main(void);              /* defined by each driver: runs the example on the loaded items */

static void hx_report_crash(const char *path, char *out, size_t cap)
{
    FILE *f = fopen(path, "r");
    out[0] = 0;
    if (!f) return;
    char line[1024], kind[256] = "", site[512] = "";
    while (fgets(line, sizeof line, f)) {
        char *p;
        if (!kind[0] && (p = strstr(line, "ERROR: AddressSanitizer: "))) {
            sscanf(p + 25, "%200s", kind);
        } else if (!kind[0] && (p = strstr(line, "runtime error: "))) {
            snprintf(kind, sizeof kind, "ubsan:%s", p + 15);
            for (char *q = kind; *q; q++) if (*q == ' ' || *q == '\n') *q = '_';
            char *c = strchr(line, ' ');
            if (c) { *c = 0; snprintf(site, sizeof site, "%s", line); }
        } else if (!kind[0] && (p = strstr(line, "WARNING: MemorySanitizer: "))) {
            sscanf(p + 26, "%200s", kind);
        }
        if (kind[0] && !site[0] && (p = strstr(line, " in ")) && strstr(line, "/repo/")) {
            char fn[200], loc[300];
            if (sscanf(p + 4, "%199s %299s", fn, loc) == 2) snprintf(site, sizeof site, "%s@%s", fn, loc);
        }
    }
    fclose(f);
    snprintf(out, cap, "%s %s", kind[0] ? kind : "?", site[0] ? site : "?");
}

int main(int argc, char **argv)
{
    (void)argc; (void)argv;
    static char line[2 * 70000];
    setvbuf(stdout, NULL, _IOLBF, 0);
    int in_session = 0;
    while (fgets(line, sizeof line, stdin)) {
        size_t L = strlen(line);
        while (L && (line[L - 1] == '\n' || line[L - 1] == '\r')) line[--L] = 0;
        if (line[0] == 'S' && line[1] == ' ') {
            for (int i = 0; i < hx_nitems; i++) free(hx_items[i].bytes);
            hx_nitems = 0; hx_nargs = 0; in_session = 1;
            char *tok = strtok(line + 2, " ");
            snprintf(hx_session, sizeof hx_session, "%s", tok ? tok : "?");
            while ((tok = strtok(NULL, " ")) && hx_nargs < 31) hx_args[hx_nargs++] = strdup(tok);
            hx_args[hx_nargs] = NULL;
        } else if ((line[0] == 'D' || line[0] == 'F' || line[0] == 'X') && line[1] == ' ' && in_session) {
            if (hx_nitems < HX_MAX_ITEMS) {
                hx_item *it = &hx_items[hx_nitems];
                if (hx_unhex(line + 2, &it->bytes, &it->len) == 0) { it->kind = line[0]; hx_nitems++; }
            }
        } else if (line[0] == 'E' && in_session) {
            in_session = 0;
            fflush(stdout);
            char errpath[] = "/dev/shm/hx_ex_XXXXXX";
            int efd = mkstemp(errpath);
            pid_t pid = fork();
            if (pid == 0) {
                if (efd >= 0) { dup2(efd, 2); close(efd); }
                hx_next_d = hx_next_f = 0; hx_cur = -1; hx_d_index = 0;
                int rc = hx_session_main();
                hx_close_datagram();
                fprintf(stdout, "X %s %d\n", hx_session, rc);
                fflush(stdout);
                _exit(200);              /* the example returned although datagrams may be left: listener gone */
            }
            int st = 0;
            waitpid(pid, &st, 0);
            if (efd >= 0) close(efd);
            if (WIFEXITED(st) && WEXITSTATUS(st) == 0) printf("Z %s END\n", hx_session);
            else if (WIFEXITED(st) && WEXITSTATUS(st) == 200) printf("Z %s EXIT returned\n", hx_session);
            else if (WIFSIGNALED(st) && WTERMSIG(st) == SIGALRM) printf("Z %s TIMEOUT\n", hx_session);
            else {
                char what[800];
                hx_report_crash(errpath, what, sizeof what);
                if (WIFSIGNALED(st)) printf("Z %s CRASH signal%d %s\n", hx_session, WTERMSIG(st), what);
                else if (what[0] == '?') printf("Z %s EXIT code%d\n", hx_session, WEXITSTATUS(st));
                else printf("Z %s CRASH exit%d %s\n", hx_session, WEXITSTATUS(st), what);
            }
            unlink(errpath);
            fflush(stdout);
            for (int i = 0; i < hx_nargs; i++) free(hx_args[i]);
            hx_nargs = 0;
        }
    }
    return 0;
}

/* ---- redirections seen by the example source that follows ---- */
#define main x_main
#define recv hx_recv
#define write hx_write
#define read hx_read
#define sendto hx_sendto
#define printf hx_printf
#define fprintf hx_fprintf
#define perror(s) ((void)(s))
#define poll hx_poll
#define create_listener_socket hx_create_listener_socket
#define create_listener_socket_udp hx_create_listener_socket_udp
#define create_talker_socket hx_create_talker_socket
#define create_talker_socket_udp hx_create_talker_socket_udp
#define setup_socket_address hx_setup_socket_address
#define setup_udp_socket_address hx_setup_udp_socket_address
#define setup_can_socket hx_setup_can_socket
#define arm_timer hx_arm_timer
#define timerfd_create(a, b) hx_fake_fd()
#define timerfd_settime(fd, fl, nv, ov) 0
#endif
