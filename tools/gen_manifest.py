#!/usr/bin/env python3
"""Writes MANIFEST.json from the table below (kept in one place so that it stays valid)."""
import json, os
HERE = os.path.dirname(os.path.dirname(os.path.abspath(__file__)))
CLAIMED = {
 'C13': dict(text='Theorems (Coq, all 2^16/2^32/2^64 values, both #if branches) about the 15 helper terms regenerated from '
                  'include/avtp/Byteorder.h on every run by translator T2; a verified symbolic evaluator (CExpr.analyse_sound) '
                  'classifies each term as identity or byte reversal by vm_compute and generic lemmas give memory images, '
                  'inverses, involution, mirror symmetry. Tie: generated terms are evaluated against the compiled helpers '
                  '(both branches; the big-endian one forced on this host).',
             note='Trusts Coq kernel + vm_compute, translator T2 (validated differentially on every run), gcc/clang integer semantics; '
                  'Print Assumptions: closed under the global context.',
             technique='Coq proof over regenerated CExpr terms (verified symbolic bit analysis + vm_compute), differential tie',
             ref='DESIGN.md section 4 C13'),
}
ALL = ['C%02d' % i for i in range(1, 21)]
def main():
    checks = []
    for pid in ALL:
        if pid in CLAIMED:
            c = CLAIMED[pid]
            checks.append({
                'property_id': pid,
                'quick_cmd': './check %s --tier quick' % pid,
                'thorough_cmd': './check %s --tier thorough' % pid,
                'evidence_file': 'evidence/%s.json' % pid,
                'replay_cmd_template': './check %s --replay {path}' % pid,
                'engine': 'coq-open1722',
                'level_claimed': {'category': 'proof', 'text': c['text'], 'design_ref': c['ref']},
                'level_note': c['note'],
                'technique': c['technique'],
            })
    na = [{'property_id': p, 'reason': 'check not built yet in this round; the Coq design for it is in DESIGN.md section 4 (not a claim that proof cannot apply)'}
          for p in ALL if p not in CLAIMED]
    m = {
        'version': 1,
        'setup_cmd': './check --setup',
        'hooks': {'guard': 'COVESA_OPEN1722_VERIF', 'enable': 'the harness compiles /repo sources with -DCOVESA_OPEN1722_VERIF (no hook is needed so far: no guarded code exists in /repo)',
                  'baseline_off_cmd': 'cmake -G Ninja -B /repo/_build -S /repo && cmake --build /repo/_build && ctest --test-dir /repo/_build -j8 --timeout 900',
                  'source_commits': [], 'add_only': True},
        'engines': [{'name': 'coq-open1722', 'path': 'coq/', 'serves_properties': sorted(CLAIMED.keys()),
                     'kind_free_text': 'Coq 8.16.1 development (model + theorems), translators from the C sources, extracted OCaml oracle, sanitizer-built C correspondence harness, python3 driver ./check'}],
        'checks': checks,
        'not_applicable': na,
        'notes': 'All checks share one build under /verif/_work and /verif/coq (file lock); every run re-derives the generated Coq files from /repo\'s working tree.',
    }
    json.dump(m, open(os.path.join(HERE, 'MANIFEST.json'), 'w'), indent=1)
if __name__ == '__main__':
    main()
