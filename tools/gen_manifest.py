#!/usr/bin/env python3
"""Writes MANIFEST.json from the table below (kept in one place so that it stays valid)."""
import json, os
HERE = os.path.dirname(os.path.dirname(os.path.abspath(__file__)))
CLAIMED = {
 'C13': dict(text='Theorems (Coq, all 2^16/2^32/2^64 values, both #if branches) about the 15 helper terms regenerated from '
                  'include/avtp/Byteorder.h on every run by translator T2; a verified symbolic evaluator (CExpr.analyse_sound) '
                  'classifies each term as identity or byte reversal by vm_compute and generic lemmas give memory images, '
                  'inverses, involution, mirror symmetry. Tie: generated terms are evaluated against the compiled helpers '
                  '(both branches; the big-endian one forced on this host).',
             note='Trusts Coq kernel + vm_compute, translator T2 (validated differentially on every run), gcc/clang integer semantics; '
                  'Print Assumptions: closed under the global context.',
             technique='Coq proof over regenerated CExpr terms (verified symbolic bit analysis + vm_compute), differential tie',
             ref='DESIGN.md section 4 C13'),
}
FIELD_NOTE = ('Trusts Coq kernel + vm_compute, translator T1 (clang AST shapes + gcc-compiled probes; cross-checked on every run by executing every '
              'generated accessor record against the compiled function), the hand-written model of the Avtp_GetField/Avtp_SetField loops '
              '(tied by differential execution on all 2080 descriptor shapes), Spec.v as transcription of the standard. '
              'Print Assumptions: closed under the global context.')
CLAIMED.update({
 'C01': dict(text='Theorem C01_generic: for every descriptor the reader accepts (offset 0..31, width 0..64), every start quadlet 0..255, every buffer '
                  'content and both host byte orders the modelled Avtp_GetField returns exactly the field\'s wire bits (symbolic-word sweep over all 2080 '
                  'shapes by vm_compute + verified soundness lemmas + relation lemma by induction on the loop). Theorem C01_fields: for all 23 formats, '
                  'all named fields, by-identifier reader and dedicated getter (records regenerated from the sources each run) the result is the complete '
                  'value of the bit range Spec.v assigns (return type wide enough), for every buffer of at least the header length.',
             note=FIELD_NOTE, technique='Coq proof (symbolic sweep lifted to all contents) over regenerated tables/accessor records; differential tie + reference search',
             ref='DESIGN.md section 4 C01'),
 'C02': dict(text='Theorem C02_generic / C02_fields: the modelled Avtp_SetField and every by-identifier writer / dedicated setter replace exactly the '
                  'field\'s bits by v mod 2^width (bit-for-bit equal to the reference Spec.spec_insert), keep the length, leave bytes of untouched quadlets '
                  'literally unchanged, for every prior content, every value and both byte orders; dedicated setters carry every value that fits; '
                  'read-after-write corollary.',
             note=FIELD_NOTE, technique='Coq proof (symbolic sweep lifted to all contents and values) over regenerated records; differential tie + reference search',
             ref='DESIGN.md section 4 C02'),
 'C03': dict(text='Theorems C03_sizes (header-length macro = sizeof = offsetof(payload) = wire header size, multiple of 4, from gcc-compiled probes '
                  're-measured each run) and C03_exact_buffer_* (every reader/writer/initialiser returns normally - never the model\'s OOB outcome - on any '
                  'buffer of exactly the header length and changes nothing at or after it). Tie/search: every accessor on exact-extent heap blocks under ASan.',
             note=FIELD_NOTE, technique='Coq proof over regenerated tables and probe facts; exact-extent sanitizer runs as tie and search',
             ref='DESIGN.md section 4 C03'),
 'C04': dict(text='Theorem C04_init: for every initialiser named by Spec.v and every prior buffer, the modelled initialiser (op list regenerated from its '
                  'AST: memset size, setter calls, constants) yields the canonical header of Spec.v bit for bit, leaves every byte behind the header '
                  'literally unchanged, ignores the old header content; C04_idempotent; null pdu untouched.',
             note=FIELD_NOTE, technique='Coq proof by tracked execution of regenerated initialiser op lists; differential tie + reference search',
             ref='DESIGN.md section 4 C04'),
})
CLAIMED.update({
 'C17': dict(text='Theorem C17_views: for every group of coq/Views.v (AVTP common header over all stream formats, ACF common header over all ACF '
                  'messages incl. VSS/VSS-brief, stream header over TSCF/AAF/PCM/CVF/RVF, AAF vs AAF-PCM) and any two member views, every access '
                  'path of either view (by-identifier and dedicated accessor, records regenerated each run) returns the same value on every buffer, '
                  'writes leave the same bits, and a value written through one view is read back through the other; both byte orders.',
             note=FIELD_NOTE + ' The grouping itself (which fields are shared) is hand-written in Views.v.',
             technique='Coq proof (corollary of the C01/C02 field theorems + computation over Spec.v/Views.v); cross-view differential runs',
             ref='DESIGN.md section 4 C17'),
})
CLAIMED.update({
 'C11': dict(text='Theorems C11_null_reads/_writes/_inits: for EVERY recognised getter, setter and initialiser of every unit and every value of the other '
                  'parameters a null pdu gives 0 / no effect. C11_unknown_field: for all 23 formats and every 32-bit identifier f >= MAX (so 256+k too) the '
                  'by-identifier reader returns 0 and the writer leaves any pdu unchanged. C11_legacy: each of the 14 deprecated entry points returns -EINVAL '
                  'exactly for null pdu / null result pointer / field >= MAX with pdu and result location untouched, and 0 otherwise. Records (guards, casts, '
                  'parameter widths) regenerated from the clang AST each run.',
             note=FIELD_NOTE + ' Scope: field accessors, initialisers and deprecated entry points, as the property quantifies; the model of a wrapper is the list of '
                  'its atomic guards and success-path statements recognised by the translator (an unrecognised shape breaks the proof).',
             technique='Coq proof (boolean recognisers with soundness lemmas, evaluated by vm_compute on regenerated records); differential tie + rule-based search',
             ref='DESIGN.md section 4 C11'),
 'C12': dict(text='Theorem C12_api: for the five formats with a deprecated API, legacy get stores exactly the value the current by-identifier reader returns, legacy '
                  'set is the current writer behind its argument check (every value of its type), legacy init equals the current initialiser (CVF: plus format_subtype; '
                  'AAF-PCM: memset + legacy-set chain proved to yield the canonical header for every prior buffer); every legacy field name has the value of the current '
                  'enumerator; C12_layout: packed legacy structs have the size of the current header types, payload member at the same offset (compiled probes).',
             note=FIELD_NOTE + ' LegacySpec.v (which alias names which field, which struct overlays which header) is hand-written.',
             technique='Coq proof over regenerated wrapper records, macro values and struct probes; paired legacy/current differential runs',
             ref='DESIGN.md section 4 C12'),
})
CLAIMED.update({
 'C05': dict(text='Theorem C05_history (refinement, induction over the operation list): for every format, every finite sequence of well-formed operations '
                  '(current init, by-identifier/dedicated writer of any field, deprecated set/init) on any buffer of bytes >= header length, the model runs to '
                  'completion and its final buffer IS the buffer of the abstract record semantics (RecordTheory.hrun). Corollaries: C05_last_write (every field '
                  'reads, through every getter, as the last value written mod width / canonical content after a later init / initial content), C05_encoding '
                  '(final bytes = reference encoding of exactly those values over the residual bits), C05_commute, C05_idempotent, C05_overwrite, '
                  'C05_fields_disjoint, C05_local (interleaved histories over several buffers: buffer k depends only on its own sub-history).',
             note=FIELD_NOTE + ' Absence of hidden state in the C code is tied by running every generated history inside one process over several buffers '
                  'and comparing after every step, and by C16 (static-storage inventory).',
             technique='Coq proof (refinement to an abstract record by induction over histories, on top of the C01/C02/C04/C12 theorems); differential runs of generated histories with shrinking',
             ref='DESIGN.md section 4 C05'),
})
CLAIMED.update({
 'C06': dict(text='Theorem C06_build: the modelled Avtp_Can_CreateAcfMessage / Avtp_CanBrief_SetPayload (hand model CanModel.v of Can.c / CanBrief.c, field writes through the '
                  'generated accessor records) produce exactly the reference message for every 32-bit identifier, both variants, every payload length < 2^16, every prior buffer; '
                  'C06_message_bytes / C06_header_fields say what that message is (payload verbatim, zero pad to the quadlet, length/pad/id/eff/fdf, every other bit and every later '
                  'byte unchanged, brief builder returns hdr+len+pad); C06_readback (payload length reads back for all len < 256, by a verified sweep of the 8-bit arithmetic); '
                  'C06_compose (SetPayload + the three dedicated setters in ANY order + Finalize = one-call builder, via Permutation).',
             note=FIELD_NOTE + ' The builder functions themselves are hand-modelled statement by statement (C integer conversions explicit) and tied to the code by differential '
                  'execution on exact-extent buffers under ASan: all lengths 0..64, boundaries to 2028 and beyond.',
             technique='Coq proof over a hand-written executable model of the builders on top of the regenerated accessor records; differential tie + reference search',
             ref='DESIGN.md section 4 C06'),
})
CLAIMED.update({
 'C09': dict(text='Theorem C09_pad: the modelled Avtp_Vss_Pad (hand model; the pointer type the offset is added to is read from the AST each run and must be a byte '
                  'pointer) equals the reference pad for every length 12 <= n < 2^16 and every prior content; C09_pad_meaning: length field = ceil(n/4), pad field = '
                  'bytes added, exactly [n, n+pad) zeroed, every other header bit and byte unchanged (n <= 2044); C09_length_accessors: the dedicated length accessors '
                  'carry all 512 values.',
             note=FIELD_NOTE + ' Avtp_Vss_Pad is hand-modelled and tied by differential execution on exact-extent buffers and a 32 KiB arena.',
             technique='Coq proof over a hand-written model with AST-derived pointer scale; differential tie + reference search',
             ref='DESIGN.md section 4 C09'),
})
CLAIMED.update({
 'C10': dict(text='Theorems by induction over the list of strings (unbounded number and lengths, total < 2^16): C10_pack (recorded length = packed size; destination receives '
                  'exactly the reference encoding enc_strings, nothing else touched), C10_count (count = number of strings, also > 255), C10_unpack (first min(requested, packed) '
                  'strings, lengths only for null destinations, nothing beyond; with the source block of exactly the recorded length the outcome is Ok, never out-of-bounds, for every '
                  'requested count). Hand model of the three functions; two code facts (index advanced in the loop, 16-bit return type) re-read from the AST each run.',
             note='Trusts Coq kernel + vm_compute, the hand-written model VssModel.v of Vss.c:158-190/576-590 (typed 16-bit accesses through the generated byte-order helpers), '
                  'tied by differential execution on exact-size heap objects under ASan; VssSpec.v as transcription of acf-vss.md. Print Assumptions: closed under the global context.',
             technique='Coq proof by induction over string lists on a hand-written model; differential tie + rule-based search',
             ref='DESIGN.md section 4 C10'),
})
VSS_NOTE = ('Trusts Coq kernel + vm_compute, the hand-written model VssModel.v of Vss.c (typed 16/32/64-bit accesses through the generated byte-order helpers, header fields through the '
            'generated accessor records), tied to the code by differential execution on exact-extent heap objects under ASan; VssSpec.v as transcription of acf-vss.md (reference encoder/decoder); '
            'float/double objects are modelled as their bit patterns. Print Assumptions: closed under the global context.')
CLAIMED.update({
 'C07': dict(text='Theorem C07_encode: for either address mode, every datatype shape (scalars, strings/byte arrays, arrays of 2/4/8-byte elements of ANY length whose byte size fits 16 bits - '
                  'by induction over the element list -, packed string arrays), every path, every prior buffer and both byte orders, SetVssPath then SetVssData leave '
                  'header ++ enc_path ++ enc_data ++ old tail, the reference encoding of VssSpec.v; C07_path / C07_data for the single steps; C07_reserved_mode / C07_reserved_datatype: '
                  'reserved codes write nothing; C07_datatype_codes: the model\'s dispatch codes equal the regenerated enum values.',
             note=VSS_NOTE, technique='Coq proof (induction over element lists) on a hand-written model of the encoder; differential tie + reference-encoder search',
             ref='DESIGN.md section 4 C07'),
 'C08': dict(text='Theorems C08_path_size, C08_path, C08_data: on every well-formed message hdr ++ enc_path p ++ enc_data d ++ post (post arbitrary, in particular empty = exact extent) the modelled '
                  'decoder returns exactly p and d (bit-exact, every element, any array length), the on-wire path size is |enc_path p|, a null destination yields only the byte length and '
                  'writes nothing (C08_length_query), a destination of at least the reported size receives exactly the value; the outcome is Ok, i.e. no access outside the message or the destination.',
             note=VSS_NOTE, technique='Coq proof (induction over element lists) on a hand-written model of the decoder; differential tie on reference-encoded messages',
             ref='DESIGN.md section 4 C08'),
})
CLAIMED.update({
 'C14': dict(text='Theorem C14_access (closed): on either host a typed 16/32/64-bit access combined with the byte-order helper regenerated from the corresponding #if branch of Byteorder.h reads/writes '
                  'the big-endian byte sequence. Theorem C14_all: every modelled operation of C01-C12 (generic and named accessors, initialisers, deprecated API, CAN builders, VSS pad/path/data codec, '
                  'string arrays) instantiated for a little-endian and for a big-endian host returns equal values and leaves equal bytes on ALL inputs.',
             note='C14_all depends on functional_extensionality_dep (Coq standard library axiom, Coq.Logic.FunctionalExtensionality), used only to turn the pointwise C14_access into equality of the access functions; '
                  'everything else is closed under the global context. The big-endian build cannot be executed in this sandbox: the tie runs every command family on the little-endian build AND on a build '
                  'with the big-endian helper branch forced on this host, against the corresponding (deliberately mismatched) model instance - this detects conversion sites that use the wrong or no helper, '
                  'which a little-endian run alone cannot see. Hand models as for C06-C10.',
             technique='Coq proof (both byte orders as a parameter of every model; helper sets regenerated per #if branch); differential tie in two build configurations',
             ref='DESIGN.md section 4 C14'),
})
CLAIMED.update({
 'C15': dict(text='Theorem C15_no_wide_access: the inventory, regenerated from the clang AST of every library source on each run, of pointer casts that raise the alignment requirement of their pointee '
                  '(byte pointer / byte-array header type to a 16/32/64-bit type) is empty, so every PDU access goes through byte lvalues, memcpy or memset; C15_bytewise_safe: such access traces are '
                  'defined at every placement; C15_typed_unsafe: a single typed 2/4/8-byte access is undefined at some placement. The models of C01-C12 do not have the address as an input, so their '
                  'theorems hold at every placement.',
             note='The step from "no alignment-raising cast in the source" to "no access with an alignment requirement" is the C abstract machine argument, trusted together with the translator tools/gen_align.py. '
                  'Tie/search: every operation family at PDU offsets 0..7 from a 16-byte boundary on gcc/clang builds at several optimisation levels (results must equal offset 0) and on a -fsanitize=alignment '
                  'build (any report is a violation with file:line). "Every optimisation level" is empirical for gcc 12 / clang 14 on x86-64. Print Assumptions: closed under the global context.',
             technique='Coq proof over a regenerated AST inventory + small abstract-machine theory of placement; placement/optimisation-level differential runs and alignment sanitizer',
             ref='DESIGN.md section 4 C15'),
})
CLAIMED.update({
 'C16': dict(text='Theorems C16_static_storage and C16_external_callees over the inventory regenerated from the clang AST of every library source on each run: every object with static storage duration '
                  '(file scope or function-local static) is const at every level, and the only functions called from outside the library are memcpy and memset. Theorem C16_order_irrelevant (generic, by '
                  'induction over the call list and over Permutation): calls that touch only the object they are given and are pairwise conflict-free (same object + at least one writer = conflict) end in '
                  'the same memory in ANY execution order and each returns what it returns when run alone. C05_local gives the same for interleaved histories of the concrete library operations.',
             note='Granularity: whole calls on whole objects over sequentially consistent memory; the step from data-race freedom to hardware behaviour is the C11 DRF-SC guarantee (assumed). That library '
                  'operations touch only the buffer they are given is the shape of every model function (buffer in, buffer out), tied to the code by the C05 multi-buffer histories. Cross-checks: nm/readelf of '
                  'the compiled objects (no writable section content), 8-thread ThreadSanitizer stress with per-thread results compared with the sequential run. Print Assumptions: closed under the global context.',
             technique='Coq proof over a regenerated AST inventory + generic commutation theorem for conflict-free calls; object inspection and TSan stress as supporting runs',
             ref='DESIGN.md section 4 C16'),
})
CLAIMED.update({
 'C20': dict(text='PARTIAL (one known finding: aaf/Aaf.h + aaf/Pcm.h). Theorem C20_pairs_partial: over the header units regenerated from include/avtp/**/*.h on every run (macros with the identifiers of '
                  'their bodies, ordinary identifiers and tags from the clang AST of each header alone, identifier tokens, include graph), every ordered pair of different headers except the known one is '
                  'non-interfering; C20_includes_first; Theorem C20_subsets_partial (generic proof + the pair computation): for EVERY selection of headers in EVERY order that is closed under #include and does '
                  'not contain the known pair, no name or tag is introduced twice and every identifier any header mentions is bound (to a macro body or to nothing) exactly as when that header is included alone. '
                  'The full statement is kept as C20_full_statement; C20_known_pair_refuted exhibits the clash.',
             note='A name/token-level model of the preprocessor and of C declaration rules (no C typing). Tie: all 650 ordered pairs x {gcc -std=c99, g++ -std=c++11} are compiled with static assertions on 527 stand-alone '
                  'values (enumerators, integer macros, sizeof); the compilers\' verdict per pair must equal the model\'s. Print Assumptions: closed under the global context.',
             technique='Coq proof (pairwise non-interference lifted to all subsets and orders) over regenerated header units; exhaustive pair compile sweep as tie and search',
             ref='DESIGN.md section 4 C20'),
})
ALL = ['C%02d' % i for i in range(1, 21)]
EX_NOTE = ('Trusts Coq kernel + vm_compute; the HAND-WRITTEN models coq/ExCan.v / coq/ExListeners.v of the example sources (statement by statement over the '
           'accessor models regenerated from the library), tied on every run by executing the unmodified example .c files (#included by tools/harness_ex, '
           'recv/write/printf/poll redirected by macros) under ASan/UBSan with pattern-initialised locals on thousands of structured and malformed datagrams and '
           'comparing frames written / text printed / state digests with the extracted model; real sockets, timerfd, clock values, malloc failure and libc internals '
           'are not modelled. Print Assumptions: closed under the global context.')
CLAIMED.update({
 'C18': dict(text='Theorems C18_can / C18_can_stale_independent (the CAN listener never reads stale buffer bytes) / C18_hello / C18_vss / C18_aaf / C18_cvf / C18_crf: for the modelled receive path of each of the six example listeners, in '
                  'each mode (UDP/raw, TSCF/NTSCF, classic/FD, CRF listener/talker, any max transit time), both byte orders, EVERY datagram of any length and '
                  'content and every SEQUENCE of datagrams from every reachable listener state (receive buffer with arbitrary stale content, queues, counters): '
                  'each datagram ends as handled or dropped - never an access outside the receive buffer / CAN frame / queue entry / decoder destination, never the '
                  'fuel-exhaustion outcome (loops end: the ACF walk advances >= 16 bytes per message, the media clock search ends within |queue| + 34360 steps '
                  'for every timestamp, C18_crf_search_ends), and the state invariant is kept so the next datagram is processed. Partial: the model stands for the code via the '
                  'correspondence run only; libc/kernel behaviour is outside.',
             note=EX_NOTE, technique='Coq proof (invariants + induction over datagram sequences and loop fuel) over a hand-written model; sanitizer-run differential tie and search',
             ref='DESIGN.md section 4 C18'),
})
CLAIMED.update({
 'C19': dict(text='Theorem C19_tunnel: for both byte orders, UDP/raw x TSCF/NTSCF x classic/FD, ANY list of well-formed CAN frames (len <= 8 / 64, frames without EFF have '
                  '11-bit identifiers) whose messages fit the 1500-byte packet, any sequence numbers and timestamps, any prior content of the talker\'s and the '
                  'listener\'s buffers: the modelled talker (init_cf_pdu, prepare_acf_packet per frame, update_cf_length) sends exactly header + sum of message '
                  'lengths bytes, its control header announces exactly that sum, and the modelled listener handles the packet and writes exactly one frame per '
                  'frame sent, in order (induction over the frame list through Avtp_Can_CreateAcfMessage = C06). C19_identifier_and_flags / C19_fd_flags / '
                  'C19_length_and_data: each written frame has the same 29 identifier bits, EFF, RTR, length, BRS, ESI and data bytes as the frame sent; FDF is set '
                  'in FD mode and the error-frame bit is not tunnelled (stated in the theorems).',
             note=EX_NOTE + ' The talker is tied by comparing the packets of the real talker main() byte for byte with talker_packet.',
             technique='Coq proof (record algebra of C05/C06 + induction over the frames of a packet) over a hand-written model; end-to-end differential tie (real talker main -> real listener)',
             ref='DESIGN.md section 4 C19'),
})
def main():
    checks = []
    for pid in ALL:
        if pid in CLAIMED:
            c = CLAIMED[pid]
            checks.append({
                'property_id': pid,
                'quick_cmd': './check %s --tier quick' % pid,
                'thorough_cmd': './check %s --tier thorough' % pid,
                'evidence_file': 'evidence/%s.json' % pid,
                'replay_cmd_template': './check %s --replay {path}' % pid,
                'engine': 'coq-open1722',
                'level_claimed': {'category': 'proof', 'text': c['text'], 'design_ref': c['ref']},
                'level_note': c['note'],
                'technique': c['technique'],
            })
    na = [{'property_id': p, 'reason': 'check not built yet in this round; the Coq design for it is in DESIGN.md section 4 (not a claim that proof cannot apply)'}
          for p in ALL if p not in CLAIMED]
    m = {
        'version': 1,
        'setup_cmd': './check --setup',
        'hooks': {'guard': 'COVESA_OPEN1722_VERIF', 'enable': 'the harness compiles /repo sources with -DCOVESA_OPEN1722_VERIF (no hook is needed so far: no guarded code exists in /repo)',
                  'baseline_off_cmd': 'cmake -G Ninja -B /repo/_build -S /repo -DUNIT_TESTING=ON && cmake --build /repo/_build && ctest --test-dir /repo/_build -j8 --timeout 900',
                  'source_commits': [], 'add_only': True},
        'engines': [{'name': 'coq-open1722', 'path': 'coq/', 'serves_properties': sorted(CLAIMED.keys()),
                     'kind_free_text': 'Coq 8.16.1 development (model + theorems), translators from the C sources, extracted OCaml oracle, sanitizer-built C correspondence harness, python3 driver ./check'}],
        'checks': checks,
        'not_applicable': na,
        'notes': 'All checks share one build under /verif/_work and /verif/coq (file lock); every run re-derives the generated Coq files from /repo\'s working tree.',
    }
    json.dump(m, open(os.path.join(HERE, 'MANIFEST.json'), 'w'), indent=1)
if __name__ == '__main__':
    main()
