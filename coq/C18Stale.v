(* C18, ACF-CAN listener: the result does not depend on what the receive buffer held before. *)
From Coq Require Import List NArith ZArith Bool Lia Arith String ZifyBool ZifyN.
From O1722 Require Import Sym Bits Host FieldModel FieldProofs Spec SpecProofs AccModel FormatChecks Paths CanModel
  C13Proofs C01Proofs C05Proofs FieldOpsProofs ByteLemmas VssModel ExCan ExListeners C18Proofs C19Proofs.
From O1722.Generated Require Import Tables.
Import ListNotations.
Local Open Scope string_scope.
Local Open Scope list_scope.
Local Open Scope N_scope.

Lemma sub_app_le (d t:list N) off : off <= blen d -> sub (d ++ t) off = sub d off ++ t.
Proof.
  intros H. unfold sub. rewrite skipn_app. unfold blen in H.
  replace (N.to_nat off - List.length d)%nat with 0%nat by lia. reflexivity.
Qed.
Lemma slice_app_le (d t:list N) a n : a + N.of_nat n <= blen d -> slice (d ++ t) a n = slice d a n.
Proof.
  intros H. unfold slice. apply map_ext_in. intros i Hi. apply in_seq in Hi. unfold byte_at, nthN.
  rewrite app_nth1; [reflexivity|]. unfold blen in H. lia.
Qed.

Section Stale.
  Variable E : endian.
  Notation LD := (ldqE E). Notation ST := (stqE E).

  (* a header read inside the received bytes sees only received bytes *)
  Lemma get_prefix s name (d t:list N) off : In s all_specs -> name_ok s name = true ->
    off + sp_hdr_len s <= blen d ->
    get LD ST s name (d ++ t) off = Ok (ref_get s name (sub d off)).
  Proof.
    intros Hs Hn Hb. rewrite (get_ok E s name (d ++ t) off Hs Hn) by (unfold blen in *; rewrite app_length; lia).
    f_equal. rewrite sub_app_le by lia. apply ref_get_app; [exact Hs|exact Hn|rewrite blen_sub; lia].
  Qed.
  Lemma cpl_prefix (d t:list N) off : off + 16 <= blen d ->
    can_payload_length LD ST cf_full (sub (d ++ t) off) = can_payload_length LD ST cf_full (sub d off).
  Proof.
    intros Hb. unfold can_payload_length, getf_ded. cbn [cf_len cf_pad cf_full cf_spec].
    assert (H1 : 16 <= blen (sub (d ++ t) off)) by (rewrite blen_sub; unfold blen in *; rewrite app_length; lia).
    assert (H2 : 16 <= blen (sub d off)) by (rewrite blen_sub; lia).
    rewrite !(fgetd_exact E spec_Can spec_Can_in) by (first [assumption | nok | eqrefl]). cbn [Paths.bind].
    rewrite sub_app_le by lia.
    rewrite !(ref_get_app spec_Can _ (sub d off) t spec_Can_in) by (first [nok | eqrefl | exact H2]). reflexivity.
  Qed.

  Lemma lloop_stale fd (d t1 t2:list N) proc msg_length : proc + msg_length <= blen d ->
    forall fuel mpb fr acc, mpb <= msg_length ->
    lloop LD ST E fuel (d ++ t1) fd proc msg_length mpb fr acc = lloop LD ST E fuel (d ++ t2) fd proc msg_length mpb fr acc.
  Proof.
    intros Hfit. induction fuel as [|k IH]; intros mpb fr acc Hle; [reflexivity|].
    cbn [lloop]. destruct (mpb <? msg_length) eqn:E1; cbn [negb]; [|reflexivity]. apply N.ltb_lt in E1.
    destruct (msg_length - mpb <? 16) eqn:E2; [reflexivity|]. apply N.ltb_ge in E2.
    rewrite !(get_prefix spec_AcfCommon) by (first [inspec | nok | eqrefl | (cbn [sp_hdr_len spec_AcfCommon]; lia)]). cbn [lbind].
    destruct (negb (_ =? 1)); [reflexivity|].
    rewrite !(get_prefix spec_Can "AVTP_CAN_FIELD_CAN_IDENTIFIER") by (first [inspec | nok | eqrefl | (cbn [sp_hdr_len spec_Can]; lia)]). cbn [lbind].
    rewrite !(get_prefix spec_Can "AVTP_CAN_FIELD_ACF_MSG_LENGTH") by (first [inspec | nok | eqrefl | (cbn [sp_hdr_len spec_Can]; lia)]). cbn [lbind].
    rewrite !cpl_prefix by lia.
    destruct (can_payload_length LD ST cf_full (sub d (proc + mpb))) as [cpl| |]; cbn [lbind]; [|reflexivity|reflexivity].
    set (ql := ref_get spec_Can "AVTP_CAN_FIELD_ACF_MSG_LENGTH" (sub d (proc + mpb))).
    set (acf := (ql * 4) mod 2 ^ 16).
    set (maxp := if fd then 64 else 8).
    destruct ((acf <? 16) || (msg_length - mpb <? acf) || (acf - 16 <? cpl) || (maxp <? cpl)) eqn:E3; [reflexivity|].
    apply orb_false_iff in E3. destruct E3 as [E3 E3d]. apply orb_false_iff in E3. destruct E3 as [E3 E3c].
    apply orb_false_iff in E3. destruct E3 as [E3a E3b]. apply N.ltb_ge in E3a, E3b, E3c, E3d.
    rewrite !(get_prefix spec_Can "AVTP_CAN_FIELD_EFF") by (first [inspec | nok | eqrefl | (cbn [sp_hdr_len spec_Can]; lia)]). cbn [lbind].
    destruct ((_ =? 0) && (0x7FF <? _)); [reflexivity|].
    rewrite !(get_prefix spec_Can "AVTP_CAN_FIELD_RTR") by (first [inspec | nok | eqrefl | (cbn [sp_hdr_len spec_Can]; lia)]). cbn [lbind].
    assert (Hb1 : blen (d ++ t1) = blen d + blen t1) by (unfold blen; rewrite app_length; lia).
    assert (Hb2 : blen (d ++ t2) = blen d + blen t2) by (unfold blen; rewrite app_length; lia).
    assert (Hc1 : (cpl <=? maxp) && (proc + mpb + 16 + cpl <=? blen (d ++ t1)) = true) by (apply andb_true_iff; split; apply N.leb_le; lia).
    assert (Hc2 : (cpl <=? maxp) && (proc + mpb + 16 + cpl <=? blen (d ++ t2)) = true) by (apply andb_true_iff; split; apply N.leb_le; lia).
    rewrite !slice_app_le by lia.
    destruct fd.
    - rewrite !(get_prefix spec_Can "AVTP_CAN_FIELD_BRS") by (first [inspec | nok | eqrefl | (cbn [sp_hdr_len spec_Can]; lia)]). cbn [lbind].
      rewrite !(get_prefix spec_Can "AVTP_CAN_FIELD_FDF") by (first [inspec | nok | eqrefl | (cbn [sp_hdr_len spec_Can]; lia)]). cbn [lbind].
      rewrite !(get_prefix spec_Can "AVTP_CAN_FIELD_ESI") by (first [inspec | nok | eqrefl | (cbn [sp_hdr_len spec_Can]; lia)]). cbn [lbind].
      rewrite Hc1, Hc2. apply IH. lia.
    - rewrite Hc1, Hc2. apply IH. lia.
  Qed.

  Theorem can_listener_stale_independent udp fd d s1 s2 : List.length s1 = 1500%nat -> List.length s2 = 1500%nat ->
    can_listener LD ST E udp fd d s1 = can_listener LD ST E udp fd d s2.
  Proof.
    intros H1 H2. unfold can_listener. change (N.to_nat MAX_PDU_SIZE) with 1500%nat.
    set (d' := firstn 1500 d). set (res := N.of_nat (List.length d')).
    assert (Hres : res = blen d') by reflexivity.
    set (proc0 := if udp then 4 else 0).
    assert (Hp0 : proc0 <= 4) by (unfold proc0; destruct udp; lia).
    destruct (res <? proc0 + 12) eqn:E0; [reflexivity|]. apply N.ltb_ge in E0.
    set (t1 := skipn (List.length d') s1). set (t2 := skipn (List.length d') s2).
    assert (Hudp : (if udp then get LD ST spec_Udp "AVTP_UDP_FIELD_ENCAPSULATION_SEQ_NO" (d' ++ t1) 0 else Ok 0) =
                   (if udp then get LD ST spec_Udp "AVTP_UDP_FIELD_ENCAPSULATION_SEQ_NO" (d' ++ t2) 0 else Ok 0)).
    { destruct udp; [|reflexivity]. rewrite !(get_prefix spec_Udp) by (first [inspec | nok | eqrefl | (cbn [sp_hdr_len spec_Udp]; unfold proc0 in *; lia)]). reflexivity. }
    rewrite Hudp. destruct (if udp then get LD ST spec_Udp "AVTP_UDP_FIELD_ENCAPSULATION_SEQ_NO" (d' ++ t2) 0 else Ok 0); cbn [lbind]; [|reflexivity|reflexivity].
    rewrite !(get_prefix spec_CommonHeader) by (first [inspec | nok | eqrefl | (cbn [sp_hdr_len spec_CommonHeader]; lia)]). cbn [lbind].
    destruct (negb _); [reflexivity|].
    destruct (_ =? 5).
    - destruct (res <? proc0 + 24) eqn:E1; [reflexivity|]. apply N.ltb_ge in E1.
      rewrite !(get_prefix spec_Tscf) by (first [inspec | nok | eqrefl | (cbn [sp_hdr_len spec_Tscf]; lia)]). cbn [lbind].
      destruct (res - (proc0 + 24) <? _) eqn:E2; [reflexivity|]. apply N.ltb_ge in E2.
      apply lloop_stale; lia.
    - rewrite !(get_prefix spec_Ntscf) by (first [inspec | nok | eqrefl | (cbn [sp_hdr_len spec_Ntscf]; lia)]). cbn [lbind].
      destruct (res - (proc0 + 12) <? _) eqn:E2; [reflexivity|]. apply N.ltb_ge in E2.
      apply lloop_stale; lia.
  Qed.
End Stale.

(* hello-world listener: what it does with a datagram does not depend on what the buffer of main held before *)
Section Stale2.
  Variable E : endian.
  Notation LD := (ldqE E). Notation ST := (stqE E).

  Lemma recv_shape (old d:list N) : List.length old = 1500%nat ->
    exists d' t, recv_into MAX_PDU_SIZE old d = (d' ++ t, blen d') /\ d' = firstn 1500 d /\ blen (d' ++ t) = 1500 /\ blen d' <= 1500.
  Proof.
    intros H. unfold recv_into. change (N.to_nat MAX_PDU_SIZE) with 1500%nat.
    exists (firstn 1500 d), (skipn (List.length (firstn 1500 d)) old). split; [reflexivity|]. split; [reflexivity|].
    unfold blen. rewrite app_length, skipn_length, firstn_length. lia.
  Qed.

  (* the part of the loop body behind the control format header *)
  Definition hello_tail (pdu:buf) (res proc:N) : lstat * list pevent * buf :=
    if res <? proc + 8 then (XDropped, [], pdu) else
    xbind (get LD ST spec_AcfCommon "AVTP_ACF_FIELD_ACF_MSG_TYPE" pdu proc) (fun st => (st, [], pdu)) (fun t =>
    if negb (t =? 5) then (XDropped, [], pdu) else
    xbind (get LD ST spec_Gpc "AVTP_GPC_FIELD_GPC_MSG_ID" pdu proc) (fun st => (st, [], pdu)) (fun code =>
    xbind (get LD ST spec_Gpc "AVTP_GPC_FIELD_ACF_MSG_LENGTH" pdu proc) (fun st => (st, [], pdu)) (fun ql =>
    let l := ql * 4 in
    if (l <=? 100) && (8 <=? l) && (proc + l <=? res) then
      if proc + l <=? blen pdu then (XHandled, [PGpc (until_nul (slice pdu (proc + 8) (N.to_nat (l - 8)))) code], pdu)
      else (XOverflow l, [], pdu)
    else (XHandled, [], pdu)))).

  Lemma hello_tail_indep (d t1 t2:list N) proc : blen (d ++ t1) = 1500 -> blen (d ++ t2) = 1500 ->
    fst (hello_tail (d ++ t1) (blen d) proc) = fst (hello_tail (d ++ t2) (blen d) proc).
  Proof.
    intros H1 H2. unfold hello_tail. destruct (blen d <? proc + 8) eqn:E1; [reflexivity|]. apply N.ltb_ge in E1.
    rewrite !(get_prefix E spec_AcfCommon) by (first [inspec | nok | eqrefl | (cbn [sp_hdr_len spec_AcfCommon]; lia)]). cbn [xbind].
    destruct (negb _); [reflexivity|].
    rewrite !(get_prefix E spec_Gpc "AVTP_GPC_FIELD_GPC_MSG_ID") by (first [inspec | nok | eqrefl | (cbn [sp_hdr_len spec_Gpc]; lia)]). cbn [xbind].
    rewrite !(get_prefix E spec_Gpc "AVTP_GPC_FIELD_ACF_MSG_LENGTH") by (first [inspec | nok | eqrefl | (cbn [sp_hdr_len spec_Gpc]; lia)]). cbn [xbind].
    match goal with |- context [if ?c then _ else _] => destruct c eqn:E2 end; [|reflexivity].
    apply andb_true_iff in E2. destruct E2 as [E2 E3]. apply andb_true_iff in E2. destruct E2 as [E2a E2b].
    apply N.leb_le in E2a, E2b, E3.
    rewrite H1, H2. destruct (_ <=? 1500); [|reflexivity]. rewrite !slice_app_le by lia. reflexivity.
  Qed.

  Lemma hello_unfold udp old d : hello_recv LD ST udp old d =
    cf_prefix LD ST udp (fst (recv_into MAX_PDU_SIZE old d)) (fun st => (st, [], fst (recv_into MAX_PDU_SIZE old d)))
      (hello_tail (fst (recv_into MAX_PDU_SIZE old d)) (snd (recv_into MAX_PDU_SIZE old d))).
  Proof. unfold hello_recv. destruct (recv_into MAX_PDU_SIZE old d) as [pdu res]. reflexivity. Qed.

  Theorem hello_stale_independent udp old1 old2 d : List.length old1 = 1500%nat -> List.length old2 = 1500%nat ->
    fst (hello_recv LD ST udp old1 d) = fst (hello_recv LD ST udp old2 d).
  Proof.
    intros H1 H2.
    destruct (recv_shape old1 d H1) as [d1 [t1 [R1 [D1 [L1 Hres]]]]]. destruct (recv_shape old2 d H2) as [d2 [t2 [R2 [D2 [L2 _]]]]].
    subst d2. rename d1 into d'. subst d'. set (d' := firstn 1500 d) in *.
    rewrite !hello_unfold, R1, R2. cbn [fst snd]. set (res := blen d') in *.
    set (proc0 := if udp then 4 else 0).
    destruct (N.lt_ge_cases res (proc0 + 4)) as [Hs|Hs].
    - (* not even the subtype arrived: whatever the stale header says, the packet is too short *)
      destruct (cf_prefix_ok E udp (d' ++ t1) (fun st => (st, [], d' ++ t1)) (hello_tail (d' ++ t1) res) L1) as [p1 [Hp1 K1]].
      destruct (cf_prefix_ok E udp (d' ++ t2) (fun st => (st, [], d' ++ t2)) (hello_tail (d' ++ t2) res) L2) as [p2 [Hp2 K2]].
      rewrite K1, K2. unfold hello_tail.
      replace (res <? p1 + 8) with true by (symmetry; apply N.ltb_lt; unfold proc0 in Hs; destruct udp; lia).
      replace (res <? p2 + 8) with true by (symmetry; apply N.ltb_lt; unfold proc0 in Hs; destruct udp; lia).
      reflexivity.
    - unfold cf_prefix. fold proc0.
      assert (Hp0 : proc0 <= 4) by (unfold proc0; destruct udp; lia).
      assert (Hu : forall t, blen (d' ++ t) = 1500 -> exists x, (if udp then get LD ST spec_Udp "AVTP_UDP_FIELD_ENCAPSULATION_SEQ_NO" (d' ++ t) 0 else Ok 0) = Ok x).
      { intros t Ht. destruct udp; [|eexists; reflexivity]. rewrite (get_ok E); [eexists; reflexivity|inspec|nok|rewrite Ht; cbn; lia]. }
      destruct (Hu t1 L1) as [x1 X1]. destruct (Hu t2 L2) as [x2 X2]. rewrite X1, X2. cbn [xbind].
      rewrite !(get_prefix E spec_CommonHeader) by (first [inspec | nok | eqrefl | (cbn [sp_hdr_len spec_CommonHeader]; fold res; lia)]). cbn [xbind].
      destruct (_ =? 5).
      + rewrite !(get_ok E spec_Tscf) by (first [inspec | nok | eqrefl | (rewrite ?L1, ?L2; cbn [sp_hdr_len spec_Tscf]; lia)]). cbn [xbind].
        apply hello_tail_indep; assumption.
      + rewrite !(get_ok E spec_Ntscf) by (first [inspec | nok | eqrefl | (rewrite ?L1, ?L2; cbn [sp_hdr_len spec_Ntscf]; lia)]). cbn [xbind].
        apply hello_tail_indep; assumption.
  Qed.
End Stale2.

(* ACF-VSS listener: status and printed events do not depend on what the buffer of main held before *)
Section Stale3.
  Variable E : endian.
  Notation LD := (ldqE E). Notation ST := (stqE E). Notation LW := (ldwE E).

  Lemma blen_app (a b:list N) : blen (a ++ b) = blen a + blen b.
  Proof. unfold blen. rewrite app_length. lia. Qed.

  Lemma addr_mode_app (m t:list N) : 12 <= blen m -> addr_mode LD ST (m ++ t) = addr_mode LD ST m.
  Proof.
    intros H. rewrite !(addr_mode_ok E) by (rewrite ?blen_app; lia). f_equal.
    apply ref_get_app; [inspec|nok|exact H].
  Qed.
  Lemma datatype_app (m t:list N) : 12 <= blen m -> datatype LD ST (m ++ t) = datatype LD ST m.
  Proof.
    intros H. rewrite !(datatype_ok E) by (rewrite ?blen_app; lia). f_equal.
    apply ref_get_app; [inspec|nok|exact H].
  Qed.
  Lemma ld_app w (m t:list N) a : a + N.of_nat (wbytes w) <= blen m -> ld LW w (m ++ t) a = ld LW w m a.
  Proof.
    intros H. rewrite !(ld_ok E) by (rewrite ?blen_app; lia). f_equal.
    rewrite !ldwE_wire. f_equal. apply slice_app_le. exact H.
  Qed.
  Lemma cpy_out_app (m t:list N) a n cap : a + n <= blen m -> cpy_out (m ++ t) a n cap = cpy_out m a n cap.
  Proof.
    intros H. unfold cpy_out.
    replace (a + n <=? blen (m ++ t)) with true by (symmetry; apply N.leb_le; rewrite blen_app; lia).
    replace (a + n <=? blen m) with true by (symmetry; apply N.leb_le; exact H).
    cbn [andb]. destruct (n <=? cap); [|reflexivity]. f_equal. rewrite !slice_fast_eq. apply slice_app_le. lia.
  Qed.
  Lemma calc_app (m t:list N) : 14 <= blen m -> vss_calc_path_len LW LD ST (m ++ t) = vss_calc_path_len LW LD ST m.
  Proof.
    intros H. unfold vss_calc_path_len. rewrite addr_mode_app by lia.
    destruct (addr_mode LD ST m) as [mode| |]; cbn [Paths.bind]; [|reflexivity|reflexivity].
    destruct (mode =? 1); [reflexivity|]. destruct (mode =? 0); [|reflexivity].
    rewrite ld_app by (cbn [wbytes]; unfold VHDR; lia). reflexivity.
  Qed.

  Definition vss_tail (pdu:buf) (res proc:N) : lstat * list pevent * buf :=
    let fail st := (st, [], pdu) in
    if res <? proc + 14 then (XDropped, [], pdu) else
    xbind (get LD ST spec_AcfCommon "AVTP_ACF_FIELD_ACF_MSG_TYPE" pdu proc) fail (fun t =>
    if negb (t =? 0x42) then (XDropped, [], pdu) else
    let m := sub pdu proc in
    xbind (addr_mode LD ST m) fail (fun mode =>
    xbind (vss_calc_path_len LW LD ST m) fail (fun pl =>
    let vss_length := 12 + pl in
    if res <? proc + vss_length then (XDropped, [], pdu) else
    if (mode =? 0) && (vss_length <? 14) then (XDropped, [], pdu) else
    xbind (vss_get_path LW LD ST m MAX_PDU_SIZE) fail (fun gp =>
    let ev1 := match gp with
               | GInterop len w => [PVssPathStr (until_nul w)]
               | GStatic id => [PVssPathId id]
               | GPathNone => []
               end in
    xbind (datatype LD ST m) fail (fun dt =>
    if (dt =? 9) && (proc + vss_length + 4 <=? res) then
      xbind (vss_get_data LW LD ST m None) (fun st => (st, ev1, pdu)) (fun gd =>
        match gd with GScalar v => (XHandled, ev1 ++ [PVssFloat v], pdu) | _ => (XUnmodelled, ev1, pdu) end)
    else (XHandled, ev1, pdu)))))).

  Lemma vss_unfold udp old d : vss_recv LW LD ST udp old d =
    cf_prefix LD ST udp (fst (recv_into MAX_PDU_SIZE old d)) (fun st => (st, [], fst (recv_into MAX_PDU_SIZE old d)))
      (vss_tail (fst (recv_into MAX_PDU_SIZE old d)) (snd (recv_into MAX_PDU_SIZE old d))).
  Proof. unfold vss_recv. destruct (recv_into MAX_PDU_SIZE old d) as [pdu res]. reflexivity. Qed.

  Lemma vss_tail_indep (d t1 t2:list N) proc :
    fst (vss_tail (d ++ t1) (blen d) proc) = fst (vss_tail (d ++ t2) (blen d) proc).
  Proof.
    unfold vss_tail. destruct (blen d <? proc + 14) eqn:E1; [reflexivity|]. apply N.ltb_ge in E1.
    rewrite !(get_prefix E spec_AcfCommon) by (first [inspec | nok | eqrefl | (cbn [sp_hdr_len spec_AcfCommon]; lia)]). cbn [xbind].
    destruct (negb _); [reflexivity|].
    rewrite !sub_app_le by lia. set (m := sub d proc).
    assert (Hm : blen m = blen d - proc) by (unfold m; apply blen_sub).
    rewrite !addr_mode_app by lia.
    destruct (addr_mode LD ST m) as [mode| |] eqn:EM; cbn [xbind]; [|reflexivity|reflexivity].
    rewrite !calc_app by lia.
    destruct (vss_calc_path_len LW LD ST m) as [pl| |] eqn:EP; cbn [xbind]; [|reflexivity|reflexivity].
    destruct (blen d <? proc + (12 + pl)) eqn:E2; [reflexivity|]. apply N.ltb_ge in E2.
    destruct ((mode =? 0) && (12 + pl <? 14)) eqn:E5; [reflexivity|].
    (* the path reader sees received bytes only *)
    assert (HG : forall t, vss_get_path LW LD ST (m ++ t) MAX_PDU_SIZE = vss_get_path LW LD ST m MAX_PDU_SIZE).
    { intros t. unfold vss_get_path. rewrite addr_mode_app by lia. rewrite EM. cbn [Paths.bind].
      unfold vss_calc_path_len in EP. rewrite EM in EP. cbn [Paths.bind] in EP.
      destruct (mode =? 1) eqn:M1.
      - injection EP as EP. subst pl. rewrite ld_app by (cbn [wbytes]; unfold VHDR; lia). reflexivity.
      - destruct (mode =? 0) eqn:M0; [|reflexivity].
        rewrite ld_app by (cbn [wbytes]; unfold VHDR; lia).
        rewrite (ld_ok E) in EP |- * by (cbn [wbytes]; unfold VHDR; lia). cbn [Paths.bind] in EP |- *.
        set (l := ldwE E W16 m VHDR) in *. pose proof (ld16_lt E m VHDR) as Hl. fold l in Hl.
        injection EP as EP. cbn [andb] in E5. apply N.ltb_ge in E5.
        assert (Hnw : (l + 2) mod 2 ^ 16 = l + 2).
        { destruct (N.lt_ge_cases (l + 2) (2 ^ 16)) as [H|H]; [apply N.mod_small; exact H|].
          exfalso. assert ((l + 2) mod 2 ^ 16 = l + 2 - 2 ^ 16); [|lia].
          symmetry. apply (N.mod_unique _ _ 1); lia. }
        rewrite cpy_out_app by (unfold VHDR; lia). reflexivity. }
    rewrite !HG.
    destruct (vss_get_path LW LD ST m MAX_PDU_SIZE) as [gp| |]; cbn [xbind]; [|reflexivity|reflexivity].
    rewrite !datatype_app by lia.
    destruct (datatype LD ST m) as [dt| |] eqn:ED; cbn [xbind]; [|reflexivity|reflexivity].
    destruct ((dt =? 9) && (proc + (12 + pl) + 4 <=? blen d)) eqn:E3; [|reflexivity].
    apply andb_true_iff in E3. destruct E3 as [E3 E4]. apply N.eqb_eq in E3. apply N.leb_le in E4.
    assert (HD : forall t, vss_get_data LW LD ST (m ++ t) None = vss_get_data LW LD ST m None).
    { intros t. unfold vss_get_data. rewrite calc_app by lia. rewrite EP. cbn [Paths.bind].
      rewrite datatype_app by lia. rewrite ED. cbn [Paths.bind]. rewrite E3.
      replace (vss_kind 9) with (KS (WW W32)) by reflexivity.
      rewrite ld_app by (cbn [wbytes]; unfold VHDR; lia). reflexivity. }
    rewrite !HD.
    destruct (vss_get_data LW LD ST m None) as [gd| |]; cbn [xbind]; [|reflexivity|reflexivity].
    destruct gd; reflexivity.
  Qed.

  Theorem vss_stale_independent udp old1 old2 d : List.length old1 = 1500%nat -> List.length old2 = 1500%nat ->
    fst (vss_recv LW LD ST udp old1 d) = fst (vss_recv LW LD ST udp old2 d).
  Proof.
    intros H1 H2.
    destruct (recv_shape old1 d H1) as [d1 [t1 [R1 [D1 [L1 Hres]]]]]. destruct (recv_shape old2 d H2) as [d2 [t2 [R2 [D2 [L2 _]]]]].
    subst d2. rename d1 into d'. subst d'. set (d' := firstn 1500 d) in *.
    rewrite !vss_unfold, R1, R2. cbn [fst snd]. set (res := blen d') in *.
    set (proc0 := if udp then 4 else 0).
    destruct (N.lt_ge_cases res (proc0 + 4)) as [Hs|Hs].
    - destruct (cf_prefix_ok E udp (d' ++ t1) (fun st => (st, [], d' ++ t1)) (vss_tail (d' ++ t1) res) L1) as [p1 [Hp1 K1]].
      destruct (cf_prefix_ok E udp (d' ++ t2) (fun st => (st, [], d' ++ t2)) (vss_tail (d' ++ t2) res) L2) as [p2 [Hp2 K2]].
      rewrite K1, K2. unfold vss_tail.
      replace (res <? p1 + 14) with true by (symmetry; apply N.ltb_lt; unfold proc0 in Hs; destruct udp; lia).
      replace (res <? p2 + 14) with true by (symmetry; apply N.ltb_lt; unfold proc0 in Hs; destruct udp; lia).
      reflexivity.
    - unfold cf_prefix. fold proc0.
      assert (Hp0 : proc0 <= 4) by (unfold proc0; destruct udp; lia).
      assert (Hu : forall t, blen (d' ++ t) = 1500 -> exists x, (if udp then get LD ST spec_Udp "AVTP_UDP_FIELD_ENCAPSULATION_SEQ_NO" (d' ++ t) 0 else Ok 0) = Ok x).
      { intros t Ht. destruct udp; [|eexists; reflexivity]. rewrite (get_ok E); [eexists; reflexivity|inspec|nok|rewrite Ht; cbn; lia]. }
      destruct (Hu t1 L1) as [x1 X1]. destruct (Hu t2 L2) as [x2 X2]. rewrite X1, X2. cbn [xbind].
      rewrite !(get_prefix E spec_CommonHeader) by (first [inspec | nok | eqrefl | (cbn [sp_hdr_len spec_CommonHeader]; fold res; lia)]). cbn [xbind].
      destruct (_ =? 5).
      + rewrite !(get_ok E spec_Tscf) by (first [inspec | nok | eqrefl | (rewrite ?L1, ?L2; cbn [sp_hdr_len spec_Tscf]; lia)]). cbn [xbind].
        apply vss_tail_indep.
      + rewrite !(get_ok E spec_Ntscf) by (first [inspec | nok | eqrefl | (rewrite ?L1, ?L2; cbn [sp_hdr_len spec_Ntscf]; lia)]). cbn [xbind].
        apply vss_tail_indep.
  Qed.
End Stale3.
