(* C18, ACF-CAN listener: the result does not depend on what the receive buffer held before. *)
From Coq Require Import List NArith ZArith Bool Lia Arith String ZifyBool ZifyN.
From O1722 Require Import Sym Bits Host FieldModel FieldProofs Spec SpecProofs AccModel FormatChecks Paths CanModel
  C13Proofs C01Proofs C05Proofs FieldOpsProofs ByteLemmas ExCan C18Proofs C19Proofs.
From O1722.Generated Require Import Tables.
Import ListNotations.
Local Open Scope string_scope.
Local Open Scope list_scope.
Local Open Scope N_scope.

Lemma sub_app_le (d t:list N) off : off <= blen d -> sub (d ++ t) off = sub d off ++ t.
Proof.
  intros H. unfold sub. rewrite skipn_app. unfold blen in H.
  replace (N.to_nat off - List.length d)%nat with 0%nat by lia. reflexivity.
Qed.
Lemma slice_app_le (d t:list N) a n : a + N.of_nat n <= blen d -> slice (d ++ t) a n = slice d a n.
Proof.
  intros H. unfold slice. apply map_ext_in. intros i Hi. apply in_seq in Hi. unfold byte_at, nthN.
  rewrite app_nth1; [reflexivity|]. unfold blen in H. lia.
Qed.

Section Stale.
  Variable E : endian.
  Notation LD := (ldqE E). Notation ST := (stqE E).

  (* a header read inside the received bytes sees only received bytes *)
  Lemma get_prefix s name (d t:list N) off : In s all_specs -> name_ok s name = true ->
    off + sp_hdr_len s <= blen d ->
    get LD ST s name (d ++ t) off = Ok (ref_get s name (sub d off)).
  Proof.
    intros Hs Hn Hb. rewrite (get_ok E s name (d ++ t) off Hs Hn) by (unfold blen in *; rewrite app_length; lia).
    f_equal. rewrite sub_app_le by lia. apply ref_get_app; [exact Hs|exact Hn|rewrite blen_sub; lia].
  Qed.
  Lemma cpl_prefix (d t:list N) off : off + 16 <= blen d ->
    can_payload_length LD ST cf_full (sub (d ++ t) off) = can_payload_length LD ST cf_full (sub d off).
  Proof.
    intros Hb. unfold can_payload_length, getf_ded. cbn [cf_len cf_pad cf_full cf_spec].
    assert (H1 : 16 <= blen (sub (d ++ t) off)) by (rewrite blen_sub; unfold blen in *; rewrite app_length; lia).
    assert (H2 : 16 <= blen (sub d off)) by (rewrite blen_sub; lia).
    rewrite !(fgetd_exact E spec_Can spec_Can_in) by (first [assumption|reflexivity]). cbn [Paths.bind].
    rewrite sub_app_le by lia.
    rewrite !(ref_get_app spec_Can _ (sub d off) t spec_Can_in) by (first [reflexivity|exact H2]). reflexivity.
  Qed.

  Lemma lloop_stale fd (d t1 t2:list N) proc msg_length : proc + msg_length <= blen d ->
    forall fuel mpb fr acc, mpb <= msg_length ->
    lloop LD ST E fuel (d ++ t1) fd proc msg_length mpb fr acc = lloop LD ST E fuel (d ++ t2) fd proc msg_length mpb fr acc.
  Proof.
    intros Hfit. induction fuel as [|k IH]; intros mpb fr acc Hle; [reflexivity|].
    cbn [lloop]. destruct (mpb <? msg_length) eqn:E1; cbn [negb]; [|reflexivity]. apply N.ltb_lt in E1.
    destruct (msg_length - mpb <? 16) eqn:E2; [reflexivity|]. apply N.ltb_ge in E2.
    rewrite !(get_prefix spec_AcfCommon) by (first [vm_compute; tauto | reflexivity | (cbn [sp_hdr_len spec_AcfCommon]; lia)]). cbn [lbind].
    destruct (negb (_ =? 1)); [reflexivity|].
    rewrite !(get_prefix spec_Can "AVTP_CAN_FIELD_CAN_IDENTIFIER") by (first [vm_compute; tauto | reflexivity | (cbn [sp_hdr_len spec_Can]; lia)]). cbn [lbind].
    rewrite !(get_prefix spec_Can "AVTP_CAN_FIELD_ACF_MSG_LENGTH") by (first [vm_compute; tauto | reflexivity | (cbn [sp_hdr_len spec_Can]; lia)]). cbn [lbind].
    rewrite !cpl_prefix by lia.
    destruct (can_payload_length LD ST cf_full (sub d (proc + mpb))) as [cpl| |]; cbn [lbind]; [|reflexivity|reflexivity].
    set (ql := ref_get spec_Can "AVTP_CAN_FIELD_ACF_MSG_LENGTH" (sub d (proc + mpb))).
    set (acf := (ql * 4) mod 2 ^ 16).
    set (maxp := if fd then 64 else 8).
    destruct ((acf <? 16) || (msg_length - mpb <? acf) || (acf - 16 <? cpl) || (maxp <? cpl)) eqn:E3; [reflexivity|].
    apply orb_false_iff in E3. destruct E3 as [E3 E3d]. apply orb_false_iff in E3. destruct E3 as [E3 E3c].
    apply orb_false_iff in E3. destruct E3 as [E3a E3b]. apply N.ltb_ge in E3a, E3b, E3c, E3d.
    rewrite !(get_prefix spec_Can "AVTP_CAN_FIELD_EFF") by (first [vm_compute; tauto | reflexivity | (cbn [sp_hdr_len spec_Can]; lia)]). cbn [lbind].
    destruct ((_ =? 0) && (0x7FF <? _)); [reflexivity|].
    rewrite !(get_prefix spec_Can "AVTP_CAN_FIELD_RTR") by (first [vm_compute; tauto | reflexivity | (cbn [sp_hdr_len spec_Can]; lia)]). cbn [lbind].
    assert (Hb1 : blen (d ++ t1) = blen d + blen t1) by (unfold blen; rewrite app_length; lia).
    assert (Hb2 : blen (d ++ t2) = blen d + blen t2) by (unfold blen; rewrite app_length; lia).
    assert (Hc1 : (cpl <=? maxp) && (proc + mpb + 16 + cpl <=? blen (d ++ t1)) = true) by (apply andb_true_iff; split; apply N.leb_le; lia).
    assert (Hc2 : (cpl <=? maxp) && (proc + mpb + 16 + cpl <=? blen (d ++ t2)) = true) by (apply andb_true_iff; split; apply N.leb_le; lia).
    rewrite !slice_app_le by lia.
    destruct fd.
    - rewrite !(get_prefix spec_Can "AVTP_CAN_FIELD_BRS") by (first [vm_compute; tauto | reflexivity | (cbn [sp_hdr_len spec_Can]; lia)]). cbn [lbind].
      rewrite !(get_prefix spec_Can "AVTP_CAN_FIELD_FDF") by (first [vm_compute; tauto | reflexivity | (cbn [sp_hdr_len spec_Can]; lia)]). cbn [lbind].
      rewrite !(get_prefix spec_Can "AVTP_CAN_FIELD_ESI") by (first [vm_compute; tauto | reflexivity | (cbn [sp_hdr_len spec_Can]; lia)]). cbn [lbind].
      rewrite Hc1, Hc2. apply IH. lia.
    - rewrite Hc1, Hc2. apply IH. lia.
  Qed.

  Theorem can_listener_stale_independent udp fd d s1 s2 : List.length s1 = 1500%nat -> List.length s2 = 1500%nat ->
    can_listener LD ST E udp fd d s1 = can_listener LD ST E udp fd d s2.
  Proof.
    intros H1 H2. unfold can_listener. change (N.to_nat MAX_PDU_SIZE) with 1500%nat.
    set (d' := firstn 1500 d). set (res := N.of_nat (List.length d')).
    assert (Hres : res = blen d') by reflexivity.
    set (proc0 := if udp then 4 else 0).
    assert (Hp0 : proc0 <= 4) by (unfold proc0; destruct udp; lia).
    destruct (res <? proc0 + 12) eqn:E0; [reflexivity|]. apply N.ltb_ge in E0.
    set (t1 := skipn (List.length d') s1). set (t2 := skipn (List.length d') s2).
    assert (Hudp : (if udp then get LD ST spec_Udp "AVTP_UDP_FIELD_ENCAPSULATION_SEQ_NO" (d' ++ t1) 0 else Ok 0) =
                   (if udp then get LD ST spec_Udp "AVTP_UDP_FIELD_ENCAPSULATION_SEQ_NO" (d' ++ t2) 0 else Ok 0)).
    { destruct udp; [|reflexivity]. rewrite !(get_prefix spec_Udp) by (first [vm_compute; tauto | reflexivity | (cbn [sp_hdr_len spec_Udp]; unfold proc0 in *; lia)]). reflexivity. }
    rewrite Hudp. destruct (if udp then get LD ST spec_Udp "AVTP_UDP_FIELD_ENCAPSULATION_SEQ_NO" (d' ++ t2) 0 else Ok 0); cbn [lbind]; [|reflexivity|reflexivity].
    rewrite !(get_prefix spec_CommonHeader) by (first [vm_compute; tauto | reflexivity | (cbn [sp_hdr_len spec_CommonHeader]; lia)]). cbn [lbind].
    destruct (negb _); [reflexivity|].
    destruct (_ =? 5).
    - destruct (res <? proc0 + 24) eqn:E1; [reflexivity|]. apply N.ltb_ge in E1.
      rewrite !(get_prefix spec_Tscf) by (first [vm_compute; tauto | reflexivity | (cbn [sp_hdr_len spec_Tscf]; lia)]). cbn [lbind].
      destruct (res - (proc0 + 24) <? _) eqn:E2; [reflexivity|]. apply N.ltb_ge in E2.
      apply lloop_stale; lia.
    - rewrite !(get_prefix spec_Ntscf) by (first [vm_compute; tauto | reflexivity | (cbn [sp_hdr_len spec_Ntscf]; lia)]). cbn [lbind].
      destruct (res - (proc0 + 12) <? _) eqn:E2; [reflexivity|]. apply N.ltb_ge in E2.
      apply lloop_stale; lia.
  Qed.
End Stale.
