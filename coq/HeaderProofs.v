(* C20: pairwise non-interference suffices for every subset of the headers in every order. *)
From Coq Require Import List Bool String Lia.
From O1722 Require Import HeaderModel.
Import ListNotations.
Local Open Scope string_scope.

Lemma mem_in x l : mem x l = true <-> In x l.
Proof.
  unfold mem. rewrite existsb_exists. split.
  - intros [y [Hy He]]. apply String.eqb_eq in He. subst. exact Hy.
  - intros H. exists x. split; [exact H|apply String.eqb_refl].
Qed.
Lemma inter_false a b x : inter a b = false -> In x a -> In x b -> False.
Proof.
  unfold inter. intros H Ha Hb. assert (existsb (fun y => mem y b) a = true); [|congruence].
  apply existsb_exists. exists x. split; [exact Ha|apply mem_in; exact Hb].
Qed.

Lemma assoc_body_in l t b : assoc_body l t = Some b -> In t (map fst l).
Proof.
  induction l as [|[n bd] r IH]; cbn; [discriminate|]. destruct (String.eqb n t) eqn:E; intros H.
  - apply String.eqb_eq in E. left. exact E.
  - right. auto.
Qed.
Lemma assoc_body_none l t : assoc_body l t = None -> ~ In t (map fst l).
Proof.
  induction l as [|[n bd] r IH]; cbn; [tauto|]. destruct (String.eqb n t) eqn:E; [discriminate|].
  intros H [He|Hr]; [subst; rewrite String.eqb_refl in E; discriminate|exact (IH H Hr)].
Qed.

(* a binding comes from some unit of the list that defines the identifier *)
Lemma binding_some l t b : binding l t = Some b -> exists u, In u l /\ assoc_body (h_macros u) t = Some b.
Proof.
  induction l as [|u r IH]; cbn; [discriminate|]. destruct (assoc_body (h_macros u) t) as [b'|] eqn:E.
  - intros H. inversion H; subst. exists u. auto.
  - intros H. destruct (IH H) as [v [Hv Hb]]. exists v. auto.
Qed.
Lemma binding_none l t : binding l t = None -> forall u, In u l -> assoc_body (h_macros u) t = None.
Proof.
  induction l as [|u r IH]; cbn; [tauto|]. destruct (assoc_body (h_macros u) t) eqn:E; [discriminate|].
  intros H v [<-|Hv]; [exact E|apply IH; assumption].
Qed.
(* if exactly one unit of the list defines t, the binding is its replacement list *)
Lemma binding_unique l t u b : In u l -> assoc_body (h_macros u) t = Some b ->
  (forall v, In v l -> assoc_body (h_macros v) t <> None -> v = u) -> binding l t = Some b.
Proof.
  induction l as [|w r IH]; cbn; [tauto|]. intros Hin Hb Huniq.
  destruct (assoc_body (h_macros w) t) as [bw|] eqn:E.
  - assert (w = u) by (apply Huniq; [left; reflexivity|rewrite E; discriminate]). subst w. congruence.
  - destruct Hin as [->|Hin]; [congruence|]. apply IH; auto.
Qed.

Section Sets.
  Variable us : list hunit.       (* all public headers *)

  (* a selection of headers: distinct names, closed under #include, pairwise non-interfering *)
  Definition distinct_names (l:list hunit) : Prop := NoDup (map h_name l).
  Definition closed (l:list hunit) : Prop :=
    forall u, In u l -> forall n, In n (closure_of us u) -> exists v, In v l /\ h_name v = n.
  Definition pairwise_ok (l:list hunit) : Prop :=
    forall a b, In a l -> In b l -> h_name a <> h_name b -> non_interfering us a b = true.

  Lemma same_name_same_unit l a b : distinct_names l -> In a l -> In b l -> h_name a = h_name b -> a = b.
  Proof.
    unfold distinct_names. induction l as [|x r IH]; cbn; [tauto|]. intros Hnd Ha Hb He. inversion Hnd as [|? ? Hni Hnd']; subst.
    destruct Ha as [->|Ha]; destruct Hb as [->|Hb]; auto.
    - exfalso. apply Hni. rewrite He. apply in_map. exact Hb.
    - exfalso. apply Hni. rewrite <- He. apply in_map. exact Ha.
  Qed.

  (* Every identifier a header mentions stands, in ANY selection containing the header (any subset, any order), for what
     it stands for when the header is included alone (= in the units of its own include closure). *)
  Theorem meaning_stable l u t : distinct_names l -> closed l -> pairwise_ok l -> In u l -> In t (uses u) ->
    forall alone, (forall v, In v alone <-> In v l /\ In (h_name v) (closure_of us u)) ->
    binding l t = binding alone t.
  Proof.
    intros Hd Hc Hp Hu Ht alone Halone.
    destruct (binding l t) as [b|] eqn:Eb.
    - destruct (binding_some l t b Eb) as [v [Hv Hvb]]. symmetry.
      (* v defines t, u mentions t: v must be in the closure of u *)
      assert (Hvc : In (h_name v) (closure_of us u)).
      { destruct (String.eqb (h_name v) (h_name u)) eqn:En.
        - apply String.eqb_eq in En. rewrite En. unfold closure_of. destruct (List.length us); cbn; left; reflexivity.
        - apply String.eqb_neq in En. specialize (Hp v u Hv Hu En). unfold non_interfering in Hp.
          apply andb_true_iff in Hp. destruct Hp as [Hp _]. apply andb_true_iff in Hp. destruct Hp as [_ Hone].
          unfold one_way in Hone. apply orb_true_iff in Hone. destruct Hone as [Hm|Hni]; [apply mem_in; exact Hm|].
          exfalso. apply negb_true_iff in Hni. apply (inter_false _ _ t Hni).
          + unfold macro_names. eapply assoc_body_in; eauto.
          + apply in_or_app. left. exact Ht. }
      apply (binding_unique alone t v b); [apply Halone; auto|exact Hvb|].
      intros w Hw Hwt. apply Halone in Hw. destruct Hw as [Hwl _].
      (* two units of l defining t: same unit, otherwise they share an introduced name *)
      destruct (String.eqb (h_name w) (h_name v)) eqn:En.
      + apply String.eqb_eq in En. eapply same_name_same_unit; eauto.
      + exfalso. apply String.eqb_neq in En. specialize (Hp w v Hwl Hv En). unfold non_interfering in Hp.
        apply andb_true_iff in Hp. destruct Hp as [Hp _]. apply andb_true_iff in Hp. destruct Hp as [Hp _].
        apply andb_true_iff in Hp. destruct Hp as [Hintro _]. apply negb_true_iff in Hintro.
        destruct (assoc_body (h_macros w) t) as [bw|] eqn:Ew; [|contradiction].
        apply (inter_false _ _ t Hintro); unfold introduces; apply in_or_app; left; unfold macro_names; eapply assoc_body_in; eauto.
    - symmetry. destruct (binding alone t) as [b|] eqn:Ea; [|reflexivity].
      destruct (binding_some alone t b Ea) as [v [Hv Hvb]]. apply Halone in Hv. destruct Hv as [Hvl _].
      rewrite (binding_none l t Eb v Hvl) in Hvb. discriminate.
  Qed.

  (* ... and the selection contains no clash: no name introduced twice, no tag declared twice *)
  Theorem clash_free l a b n : pairwise_ok l -> In a l -> In b l -> h_name a <> h_name b ->
    (In n (introduces a) -> In n (introduces b) -> False) /\ (In n (h_tags a) -> In n (h_tags b) -> False) /\
    (In n (macro_names a) -> In n (h_ordinary b ++ h_tags b) -> In (h_name a) (closure_of us b)).
  Proof.
    intros Hp Ha Hb Hn. specialize (Hp a b Ha Hb Hn). unfold non_interfering in Hp.
    apply andb_true_iff in Hp. destruct Hp as [Hp _]. apply andb_true_iff in Hp. destruct Hp as [Hp Hone].
    apply andb_true_iff in Hp. destruct Hp as [Hi Ht]. apply negb_true_iff in Hi, Ht.
    split. { intros H1 H2. exact (inter_false _ _ n Hi H1 H2). }
    split. { intros H1 H2. exact (inter_false _ _ n Ht H1 H2). }
    intros Hm Hd. unfold one_way in Hone. apply orb_true_iff in Hone. destruct Hone as [Hc|Hni]; [apply mem_in; exact Hc|].
    exfalso. apply negb_true_iff in Hni. apply (inter_false _ _ n Hni Hm). apply in_or_app. right. exact Hd.
  Qed.

  (* pairwise non-interference of ALL headers gives it for every sub-selection in every order *)
  Definition all_pairs_ok (except:hunit -> hunit -> bool) : bool :=
    forallb (fun a => forallb (fun b => String.eqb (h_name a) (h_name b) || except a b || non_interfering us a b) us) us.
  Theorem pairs_suffice except l : all_pairs_ok except = true ->
    (forall a, In a l -> In a us) -> (forall a b, In a l -> In b l -> except a b = false) -> pairwise_ok l.
  Proof.
    unfold all_pairs_ok. intros H Hsub Hex a b Ha Hb Hn. rewrite forallb_forall in H. specialize (H a (Hsub a Ha)).
    rewrite forallb_forall in H. specialize (H b (Hsub b Hb)).
    apply orb_true_iff in H. destruct H as [H|H]; [|exact H].
    apply orb_true_iff in H. destruct H as [H|H]; [apply String.eqb_eq in H; contradiction|].
    rewrite (Hex a b Ha Hb) in H. discriminate.
  Qed.
End Sets.
