(* C18 - example listeners survive arbitrary datagrams. *)
From Coq Require Import List NArith String Bool.
From O1722 Require Import Bits Host FieldModel Spec ExCan ExListeners C13Proofs C18Proofs C18Stale.
Import ListNotations.
Local Open Scope N_scope.

(* "survives": the receive path returned to its caller with a result that keeps the listener's loop running
   (packet handled or packet dropped) - not an access outside an object (XOob / XOverflow: receive buffer, CAN frame,
   queue entry, destination of a decoder), not a loop that did not end (XDiverged), not an exit.
   Every theorem is for both host byte orders E, every datagram of ANY length and content (longer ones are cut by
   recv to the buffer size, as a datagram socket does), and every sequence of them. *)

(* ACF-CAN listener, UDP/raw x classic/FD x TSCF/NTSCF (the subtype is read from the packet): any datagram, whatever
   the receive buffer held before (stale); the listener keeps no state between datagrams *)
Theorem C18_can : forall E udp fd d stale, List.length stale = 1500%nat ->
  survives (fst (can_listener (ldqE E) (stqE E) E udp fd d stale)).
Proof. exact can_listener_safe. Qed.

(* ... and what it does - status and every frame written - does not depend on those stale bytes at all: every
   read the receive path performs lies inside the bytes that were received (no use of uninitialised memory) *)
Theorem C18_can_stale_independent : forall E udp fd d s1 s2, List.length s1 = 1500%nat -> List.length s2 = 1500%nat ->
  can_listener (ldqE E) (stqE E) E udp fd d s1 = can_listener (ldqE E) (stqE E) E udp fd d s2.
Proof. exact can_listener_stale_independent. Qed.

(* hello-world (GPC) and ACF-VSS listeners: state = the receive buffer of main, whose previous contents stay behind
   a shorter datagram; every sequence of datagrams from every initial buffer content *)
Theorem C18_hello : forall E udp ds old, List.length old = 1500%nat ->
  Forall survives (fst (runs (drop_events (hello_recv (ldqE E) (stqE E) udp)) old ds)) /\
  List.length (snd (runs (drop_events (hello_recv (ldqE E) (stqE E) udp)) old ds)) = 1500%nat.
Proof.
  intros E udp ds old. apply (runs_safe _ (fun b => List.length b = 1500%nat)). intros st d H. exact (hello_safe E udp st d H).
Qed.
(* the hello-world listener's status and output for a datagram do not depend on the old buffer content either *)
Theorem C18_hello_stale_independent : forall E udp old1 old2 d, List.length old1 = 1500%nat -> List.length old2 = 1500%nat ->
  fst (hello_recv (ldqE E) (stqE E) udp old1 d) = fst (hello_recv (ldqE E) (stqE E) udp old2 d).
Proof. exact hello_stale_independent. Qed.
(* ... and so do the ACF-VSS listener's status and printed events *)
Theorem C18_vss_stale_independent : forall E udp old1 old2 d, List.length old1 = 1500%nat -> List.length old2 = 1500%nat ->
  fst (vss_recv (ldwE E) (ldqE E) (stqE E) udp old1 d) = fst (vss_recv (ldwE E) (ldqE E) (stqE E) udp old2 d).
Proof. exact vss_stale_independent. Qed.
Theorem C18_vss : forall E udp ds old, List.length old = 1500%nat ->
  Forall survives (fst (runs (drop_events (vss_recv (ldwE E) (ldqE E) (stqE E) udp)) old ds)) /\
  List.length (snd (runs (drop_events (vss_recv (ldwE E) (ldqE E) (stqE E) udp)) old ds)) = 1500%nat.
Proof.
  intros E udp ds old. apply (runs_safe _ (fun b => List.length b = 1500%nat)). intros st d H. exact (vss_safe E udp st d H).
Qed.

(* AAF and CVF listeners: state = expected sequence number and the queue of scheduled samples / NAL units *)
Theorem C18_aaf : forall E ds st, Forall survives (fst (runs (aaf_recv (ldqE E) (stqE E)) st ds)).
Proof.
  intros E ds st. apply (runs_safe _ (fun _ => True)); [|exact I]. intros s d _. split; [exact (aaf_safe E s d)|exact I].
Qed.
Theorem C18_cvf : forall E ds st, Forall survives (fst (runs (cvf_recv (ldqE E) (stqE E)) st ds)).
Proof.
  intros E ds st. apply (runs_safe _ (fun _ => True)); [|exact I]. intros s d _. split; [exact (cvf_safe E s d)|exact I].
Qed.

(* CRF listener, listener and talker mode, any max transit time: state = media clock queue and counters; the
   invariant (timestamps are 64-bit values) holds initially and is kept; in particular the media clock search
   mclk_lookup ends for every AVTP timestamp and every queue content *)
Theorem C18_crf : forall E talker mtt ds st, cinv st ->
  Forall survives (fst (runs (drop_events (crf_recv (ldqE E) (stqE E) talker mtt)) st ds)) /\
  cinv (snd (runs (drop_events (crf_recv (ldqE E) (stqE E) talker mtt)) st ds)).
Proof.
  intros E talker mtt ds st. apply (runs_safe _ cinv). intros s d H. exact (crf_safe E talker mtt s d H).
Qed.
Theorem C18_crf_initial : cinv cstate0.
Proof. split; [constructor|reflexivity]. Qed.
Theorem C18_crf_search_ends : forall avtp start q fuel t lk, start < 2 ^ 64 -> t < 2 ^ 64 -> Forall lt64 q ->
  N.of_nat (List.length q) + 34360 <= N.of_nat fuel ->
  exists t' q' lk', lookup_loop fuel avtp start t q lk = Some (t', q', lk') /\ t' < 2 ^ 64 /\ Forall lt64 q'.
Proof. intros avtp start q fuel t lk Hs. exact (lookup_term avtp start Hs q fuel t lk). Qed.

(* non-vacuity: concrete datagrams that are handled and produce output *)
Example C18_example_can :
  can_listener (ldqE LE) (stqE LE) LE false false
    [0x82;0x80;0x14;0;0xaa;0xbb;0xcc;0xdd;0xee;0xff;0;1; 2;5;0x60;0;0;0;0;0;0;0;0;0;0;0;1;0x23; 0x61;0x62;0x63;0] (repeat 0xfe 1500)
  = (XHandled, [[0x23;1;0;0; 3;0;0;0; 0x61;0x62;0x63;0;0;0;0;0]]).
Proof. vm_compute. reflexivity. Qed.
Example C18_example_can_zero_length :   (* a zero-length ACF message is dropped, not looped on *)
  fst (can_listener (ldqE LE) (stqE LE) LE false false
    [0x82;0x80;0x14;0;0xaa;0xbb;0xcc;0xdd;0xee;0xff;0;1; 2;0;0x60;0;0;0;0;0;0;0;0;0;0;0;1;0x23; 0x61;0x62;0x63;0] (repeat 0xfe 1500)) = XDropped.
Proof. vm_compute. reflexivity. Qed.

Print Assumptions C18_can.
Print Assumptions C18_can_stale_independent.
Print Assumptions C18_hello.
Print Assumptions C18_hello_stale_independent.
Print Assumptions C18_vss.
Print Assumptions C18_vss_stale_independent.
Print Assumptions C18_aaf.
Print Assumptions C18_cvf.
Print Assumptions C18_crf.
Print Assumptions C18_crf_search_ends.
