(* Byte buffers, wire-order bits, big/little-endian byte sequences.

   A buffer is a list of bytes (N).  Every read normalises the byte with
   [mod 256], so no well-formedness hypothesis is needed on the read side;
   every write stores normalised bytes.  Wire bit [i] of a buffer is bit
   [7 - i mod 8] of byte [i / 8]: network order, most significant bit first. *)
From Coq Require Import List NArith ZArith Bool Lia Arith ZifyN ZifyNat ZifyBool.
From O1722 Require Sym.
Import ListNotations.
Local Open Scope N_scope.
Ltac Zify.zify_post_hook ::= Z.div_mod_to_equations.

Definition buf := list N.
Definition blen (b:buf) : N := N.of_nat (length b).
Definition nthN (l:list N) (i:N) : N := nth (N.to_nat i) l 0.
Definition byte_at (b:buf) (i:N) : N := nthN b i mod 256.
Definition bit_at (b:buf) (i:N) : bool := N.testbit (byte_at b (i / 8)) (7 - i mod 8).

(* n bytes starting at a; bytes beyond the end read as 0 (callers that care
   about bounds check them separately and discard the value) *)
Definition slice (b:buf) (a:N) (n:nat) : list N :=
  map (fun i => byte_at b (a + N.of_nat i)) (seq 0 n).

(* replace |bs| bytes at a; identity when the range is not inside the buffer *)
Definition upd (b:buf) (a:N) (bs:list N) : buf :=
  if a + N.of_nat (length bs) <=? blen b
  then firstn (N.to_nat a) b ++ bs ++ skipn (N.to_nat a + length bs) b
  else b.

Definition be_of (bs:list N) : N :=
  fold_left (fun acc x => N.lor (N.shiftl acc 8) (x mod 256)) bs 0.
Definition le_of (bs:list N) : N := be_of (rev bs).
Fixpoint le_bytes (n:nat) (v:N) : list N :=
  match n with O => [] | S k => v mod 256 :: le_bytes k (N.shiftr v 8) end.
Definition be_bytes (n:nat) (v:N) : list N := rev (le_bytes n v).

(* ---------- lengths ---------- *)
Lemma length_slice b a n : length (slice b a n) = n.
Proof. unfold slice. now rewrite map_length, seq_length. Qed.
Lemma length_le_bytes n v : length (le_bytes n v) = n.
Proof. revert v; induction n; intros; simpl; auto. Qed.
Lemma length_be_bytes n v : length (be_bytes n v) = n.
Proof. unfold be_bytes. now rewrite rev_length, length_le_bytes. Qed.
Lemma length_upd b a bs : length (upd b a bs) = length b.
Proof.
  unfold upd, blen. destruct (N.leb_spec (a + N.of_nat (length bs)) (N.of_nat (length b))); auto.
  rewrite !app_length, firstn_length, skipn_length. lia.
Qed.
Lemma blen_upd b a bs : blen (upd b a bs) = blen b.
Proof. unfold blen. now rewrite length_upd. Qed.

(* ---------- reading a slice / an updated buffer ---------- *)
Lemma nth_slice b a n i : (i < n)%nat -> nth i (slice b a n) 0 = byte_at b (a + N.of_nat i).
Proof.
  intros Hi. unfold slice.
  rewrite nth_indep with (d' := byte_at b (a + N.of_nat 0)) by (rewrite map_length, seq_length; auto).
  rewrite (map_nth (fun i => byte_at b (a + N.of_nat i)) (seq 0 n) 0%nat i).
  rewrite seq_nth; auto.
Qed.

Lemma nthN_upd b a bs j :
  a + N.of_nat (length bs) <= blen b ->
  nthN (upd b a bs) j =
    if (a <=? j) && (j <? a + N.of_nat (length bs)) then nthN bs (j - a) else nthN b j.
Proof.
  intros Hin. unfold upd. destruct (N.leb_spec (a + N.of_nat (length bs)) (blen b)); [|lia].
  unfold nthN, blen in *.
  destruct (N.leb_spec a j) as [Haj|Haj]; cbn [andb].
  - destruct (N.ltb_spec j (a + N.of_nat (length bs))) as [Hj|Hj].
    + rewrite app_nth2 by (rewrite firstn_length; lia).
      rewrite firstn_length. rewrite app_nth1 by lia.
      f_equal. lia.
    + rewrite app_nth2 by (rewrite firstn_length; lia).
      rewrite firstn_length. rewrite app_nth2 by lia.
      rewrite Sym.nth_skipn. f_equal. lia.
  - rewrite app_nth1 by (rewrite firstn_length; lia).
    rewrite Sym.nth_firstn_lt by lia. reflexivity.
Qed.

Lemma byte_at_upd b a bs j :
  a + N.of_nat (length bs) <= blen b ->
  byte_at (upd b a bs) j =
    if (a <=? j) && (j <? a + N.of_nat (length bs)) then nthN bs (j - a) mod 256 else byte_at b j.
Proof.
  intros H. unfold byte_at. rewrite nthN_upd by exact H.
  destruct ((a <=? j) && (j <? a + N.of_nat (length bs))); reflexivity.
Qed.

(* ---------- bits of a big-endian value ---------- *)
Lemma be_of_snoc bs x : be_of (bs ++ [x]) = N.lor (N.shiftl (be_of bs) 8) (x mod 256).
Proof. unfold be_of. rewrite fold_left_app. reflexivity. Qed.

Lemma be_of_testbit bs k :
  N.testbit (be_of bs) k =
    if k / 8 <? N.of_nat (length bs)
    then N.testbit (nthN bs (N.of_nat (length bs) - 1 - k / 8) mod 256) (k mod 8)
    else false.
Proof.
  revert k. induction bs as [|x bs IH] using rev_ind; intros k.
  - cbn. destruct (k / 8 <? 0) eqn:E; [apply N.ltb_lt in E; lia| reflexivity].
  - rewrite be_of_snoc, N.lor_spec, app_length. cbn [length].
    destruct (N.lt_ge_cases k 8) as [Hk|Hk].
    + rewrite N.shiftl_spec_low by lia. cbn [orb].
      assert (E0: k / 8 = 0) by (apply N.div_small; lia).
      rewrite E0. replace (0 <? N.of_nat (length bs + 1)) with true by (symmetry; apply N.ltb_lt; lia).
      unfold nthN. rewrite app_nth2 by lia.
      replace (N.to_nat (N.of_nat (length bs + 1) - 1 - 0) - length bs)%nat with 0%nat by lia.
      cbn [nth]. rewrite N.mod_small with (a:=k) by lia. reflexivity.
    + rewrite N.shiftl_spec_high' by lia.
      change (x mod 256) with (x mod 2^8). rewrite (N.mod_pow2_bits_high x 8 k) by lia. rewrite orb_false_r.
      rewrite IH.
      assert (E1: (k - 8) / 8 = k / 8 - 1) by lia.
      assert (E2: (k - 8) mod 8 = k mod 8) by lia.
      assert (E3: 1 <= k / 8) by lia.
      rewrite E1, E2.
      destruct (N.ltb_spec (k / 8 - 1) (N.of_nat (length bs))) as [Hl|Hl];
        destruct (N.ltb_spec (k / 8) (N.of_nat (length bs + 1))) as [Hl'|Hl']; try lia; try reflexivity.
      unfold nthN. rewrite app_nth1 by lia. do 3 f_equal. lia.
Qed.

Lemma be_of_lt bs : be_of bs < 2 ^ (8 * N.of_nat (length bs)).
Proof.
  destruct (N.eq_dec (be_of bs) 0) as [E|E]; [rewrite E; apply N.neq_0_lt_0, N.pow_nonzero; lia|].
  apply N.log2_lt_pow2; [lia|].
  destruct (N.lt_ge_cases (N.log2 (be_of bs)) (8 * N.of_nat (length bs))) as [H|H]; auto.
  exfalso. pose proof (N.bit_log2 (be_of bs) E) as Hb. rewrite be_of_testbit in Hb.
  destruct (N.ltb_spec (N.log2 (be_of bs) / 8) (N.of_nat (length bs))); [lia|discriminate].
Qed.

Lemma nth_le_bytes n v i : (i < n)%nat -> nth i (le_bytes n v) 0 = N.shiftr v (8 * N.of_nat i) mod 256.
Proof.
  revert v i; induction n as [|n IH]; intros v i Hi; [lia|]. cbn [le_bytes].
  destruct i as [|i]; cbn [nth].
  - now rewrite N.shiftr_0_r.
  - rewrite IH by lia. rewrite N.shiftr_shiftr. do 2 f_equal. lia.
Qed.

Lemma nthN_be_bytes n v i :
  i < N.of_nat n -> nthN (be_bytes n v) i = N.shiftr v (8 * (N.of_nat n - 1 - i)) mod 256.
Proof.
  intros Hi. unfold nthN, be_bytes.
  rewrite rev_nth by (rewrite length_le_bytes; lia). rewrite length_le_bytes.
  rewrite nth_le_bytes by lia. do 2 f_equal. lia.
Qed.

Lemma be_of_be_bytes n v : be_of (be_bytes n v) = v mod 2 ^ (8 * N.of_nat n).
Proof.
  apply N.bits_inj. intros k. rewrite be_of_testbit, length_be_bytes.
  destruct (N.ltb_spec (k / 8) (N.of_nat n)) as [Hk|Hk].
  - rewrite nthN_be_bytes by lia. rewrite N.mod_mod by lia.
    change 256 with (2^8). rewrite (N.mod_pow2_bits_low _ 8) by lia. rewrite N.shiftr_spec'.
    rewrite N.mod_pow2_bits_low by lia. f_equal. lia.
  - rewrite N.mod_pow2_bits_high by lia. reflexivity.
Qed.

Lemma le_of_le_bytes n v : le_of (le_bytes n v) = v mod 2 ^ (8 * N.of_nat n).
Proof. unfold le_of. change (rev (le_bytes n v)) with (be_bytes n v). apply be_of_be_bytes. Qed.

(* ---------- quadlets in wire order ---------- *)
Definition ldq_be (b:buf) (q:N) : N := be_of (slice b (4 * q) 4).
Definition stq_be (b:buf) (q:N) (v:N) : buf := upd b (4 * q) (be_bytes 4 v).

Lemma ldq_be_bit b q k :
  N.testbit (ldq_be b q) k = (k <? 32) && bit_at b (32 * q + 31 - k).
Proof.
  unfold ldq_be. rewrite be_of_testbit, length_slice.
  change (N.of_nat 4) with 4.
  destruct (N.ltb_spec (k / 8) 4) as [Hk|Hk]; destruct (N.ltb_spec k 32) as [Hk'|Hk']; try lia; cbn [andb]; try reflexivity.
  unfold nthN. rewrite nth_slice by lia. rewrite N2Nat.id.
  unfold bit_at, byte_at. rewrite N.mod_mod by lia.
  replace ((32 * q + 31 - k) / 8) with (4 * q + (4 - 1 - k / 8)) by lia.
  replace (7 - (32 * q + 31 - k) mod 8) with (k mod 8) by lia.
  reflexivity.
Qed.

Lemma ldq_be_lt b q : ldq_be b q < 2 ^ 32.
Proof. unfold ldq_be. pose proof (be_of_lt (slice b (4*q) 4)) as H. rewrite length_slice in H. exact H. Qed.

Lemma length_stq_be b q v : length (stq_be b q v) = length b.
Proof. apply length_upd. Qed.

Lemma byte_at_stq_be b q v j :
  4 * q + 4 <= blen b ->
  byte_at (stq_be b q v) j =
    if j / 4 =? q then N.shiftr v (8 * (3 - j mod 4)) mod 256 else byte_at b j.
Proof.
  intros Hin. unfold stq_be. rewrite byte_at_upd by (rewrite length_be_bytes; exact Hin).
  rewrite length_be_bytes. change (N.of_nat 4) with 4.
  destruct (N.leb_spec (4*q) j) as [H1|H1]; destruct (N.ltb_spec j (4*q+4)) as [H2|H2];
    destruct (N.eqb_spec (j/4) q) as [H3|H3]; cbn [andb]; try lia; try reflexivity.
  rewrite nthN_be_bytes by (change (N.of_nat 4) with 4; lia). change (N.of_nat 4) with 4.
  rewrite N.mod_mod by lia. do 3 f_equal. lia.
Qed.

Lemma bit_at_stq_be b q v i :
  4 * q + 4 <= blen b ->
  bit_at (stq_be b q v) i =
    if i / 32 =? q then N.testbit v (31 - i mod 32) else bit_at b i.
Proof.
  intros Hin. unfold bit_at at 1. rewrite byte_at_stq_be by exact Hin.
  replace (i / 8 / 4) with (i / 32) by lia.
  destruct (N.eqb_spec (i/32) q) as [E|E]; [|reflexivity].
  change 256 with (2^8). rewrite (N.mod_pow2_bits_low _ 8) by lia. rewrite N.shiftr_spec'. f_equal. lia.
Qed.

(* bytes outside the quadlet are literally unchanged *)
Lemma nthN_stq_be_other b q v j :
  4 * q + 4 <= blen b -> j / 4 <> q -> nthN (stq_be b q v) j = nthN b j.
Proof.
  intros Hin Hj. unfold stq_be. rewrite nthN_upd by (rewrite length_be_bytes; exact Hin).
  rewrite length_be_bytes. change (N.of_nat 4) with 4.
  destruct (N.leb_spec (4*q) j); destruct (N.ltb_spec j (4*q+4)); cbn [andb]; try reflexivity. lia.
Qed.

(* two buffers with equal length and equal bytes are equal *)
Lemma buf_ext (a b:buf) : length a = length b -> (forall j, j < blen a -> nthN a j = nthN b j) -> a = b.
Proof.
  intros Hl H. apply nth_ext with (d:=0) (d':=0); [exact Hl|].
  intros n Hn. specialize (H (N.of_nat n)). unfold nthN, blen in H. rewrite Nat2N.id in H. apply H. lia.
Qed.

(* the same slice computed in one pass (the models copy long ranges with it) *)
Definition slice_fast (b:buf) (a:N) (n:nat) : list N :=
  let avail := firstn n (skipn (N.to_nat a) b) in
  map (fun x => x mod 256) avail ++ repeat 0 (n - length avail).
Lemma slice_fast_eq b a n : slice_fast b a n = slice b a n.
Proof.
  unfold slice_fast. set (avail := firstn n (skipn (N.to_nat a) b)).
  assert (Hla : (length avail <= n)%nat) by (unfold avail; apply firstn_le_length).
  apply nth_ext with (d:=0) (d':=0).
  - rewrite app_length, map_length, repeat_length, length_slice. lia.
  - intros i Hi. rewrite app_length, map_length, repeat_length in Hi.
    rewrite nth_slice by lia.
    destruct (Nat.lt_ge_cases i (length avail)) as [Hlt|Hge].
    + rewrite app_nth1 by (rewrite map_length; exact Hlt).
      rewrite nth_indep with (d' := (fun x => x mod 256) 0) by (rewrite map_length; exact Hlt).
      rewrite (map_nth (fun x => x mod 256)). unfold avail. rewrite Sym.nth_firstn_lt by (unfold avail in Hlt; rewrite firstn_length in Hlt; lia).
      rewrite Sym.nth_skipn. unfold byte_at, nthN. do 2 f_equal. lia.
    + rewrite app_nth2 by (rewrite map_length; exact Hge). rewrite nth_repeat.
      unfold byte_at, nthN. rewrite nth_overflow; [reflexivity|].
      unfold avail in Hge. rewrite firstn_length, skipn_length in Hge. lia.
Qed.
