(* Ground facts over the regenerated tables: C01 - C04. *)
From Coq Require Import List NArith ZArith Bool Lia String.
From O1722 Require Import Bits Host FieldModel FieldProofs Spec SpecProofs AccModel AccProofs FormatChecks C13Proofs.
From O1722.Generated Require Import Tables.
Import ListNotations.
Local Open Scope N_scope.

(* ---- computations on the regenerated data ---- *)
Lemma all_read_ok : forallb (fmt_read_ok cfg all_units) all_specs = true.
Proof. vm_compute. reflexivity. Qed.
Lemma all_write_ok : forallb (fmt_write_ok cfg all_units) all_specs = true.
Proof. vm_compute. reflexivity. Qed.
Lemma all_sizes_ok : forallb (sizes_ok header_types) all_specs = true.
Proof. vm_compute. reflexivity. Qed.
Lemma all_init_ok : forallb (init_ok cfg all_units) all_specs = true.
Proof. vm_compute. reflexivity. Qed.
(* the quadlet index of the reader / writer is wide enough for every start quadlet *)
Lemma qw_wide : (9 <=? qw_get cfg) && (9 <=? qw_set cfg) = true.
Proof. vm_compute. reflexivity. Qed.

Lemma pow_qw q : 9 <= q -> 2 ^ 9 <= 2 ^ q.
Proof. intros. apply N.pow_le_mono_r; lia. Qed.

(* ---- C01 ---- *)
Lemma generic_read E d b :
  desc_valid d = true -> dq d <= 255 -> dextent d <= blen b ->
  get_via (ldqE E) (stqE E) (qw_get cfg) d b = Ok (spec_extract b (dfirst d) (dbits d)).
Proof.
  intros Hv Hq Hb. pose proof qw_wide as Hw. apply andb_true_iff in Hw. destruct Hw as [Hw _].
  apply N.leb_le in Hw. pose proof (pow_qw _ Hw).
  apply (get_via_spec _ _ _ (ldqE_wire E) (stqE_wire E)); try assumption.
  change (2^9) with 512 in *. lia.
Qed.

Definition getters_correct (E:endian) (s:sformat) (f:sfield) : Prop :=
  exists u t idx, fmt_unit all_units s = Some (u, t) /\ assoc (t_enum t) (sf_name f) = Some idx /\
    reads_field (ldqE E) (stqE E) cfg u (sp_get_field s) [0; idx] f (sp_hdr_len s) /\
    (sf_getter f <> EmptyString -> reads_field (ldqE E) (stqE E) cfg u (sf_getter f) [0] f (sp_hdr_len s)).

Lemma fields_read E s f : In s all_specs -> In f (sp_fields s) -> getters_correct E s f.
Proof.
  intros Hs Hf. pose proof all_read_ok as H. rewrite forallb_forall in H. specialize (H s Hs).
  destruct (fmt_read_ok_sound (ldqE E) (stqE E) (ldqE_wire E) (stqE_wire E) cfg all_units s H) as [u [t [Hu Hall]]].
  destruct (Hall f Hf) as [idx [Hi [H1 H2]]]. exists u, t, idx. auto.
Qed.

(* ---- C02 ---- *)
Lemma generic_write E d b v :
  desc_valid d = true -> dq d <= 255 -> dextent d <= blen b ->
  exists b', set_via (ldqE E) (stqE E) (qw_set cfg) d b v = Ok b' /\
    List.length b' = List.length b /\
    (forall j, ~ (dq d <= j / 4 < dq d + nquad d) -> nthN b' j = nthN b j) /\
    (forall i, bit_at b' i = bit_at (spec_insert b (dfirst d) (dbits d) v) i).
Proof.
  intros Hv Hq Hb. pose proof qw_wide as Hw. apply andb_true_iff in Hw. destruct Hw as [_ Hw].
  apply N.leb_le in Hw. pose proof (pow_qw _ Hw).
  apply (set_via_spec _ _ _ (ldqE_wire E) (stqE_wire E)); try assumption.
  change (2^9) with 512 in *. lia.
Qed.

Definition setters_correct (E:endian) (s:sformat) (f:sfield) : Prop :=
  exists u t idx, fmt_unit all_units s = Some (u, t) /\ assoc (t_enum t) (sf_name f) = Some idx /\
    writes (ldqE E) (stqE E) cfg u (sp_set_field s) (fun v => [0; idx; v]) f (sp_hdr_len s) /\
    (sf_setter f <> EmptyString -> writes (ldqE E) (stqE E) cfg u (sf_setter f) (fun v => [0; v]) f (sp_hdr_len s)).

Lemma fields_written E s f : In s all_specs -> In f (sp_fields s) -> setters_correct E s f.
Proof.
  intros Hs Hf. pose proof all_write_ok as H. rewrite forallb_forall in H. specialize (H s Hs).
  destruct (fmt_write_ok_sound (ldqE E) (stqE E) (ldqE_wire E) (stqE_wire E) cfg all_units s H) as [u [t [Hu Hall]]].
  destruct (Hall f Hf) as [idx [Hi [H1 H2]]]. exists u, t, idx. auto.
Qed.

(* a read immediately after a write returns v mod 2^width *)
Lemma extract_insert b first w v : first + w <= 8 * blen b ->
  spec_extract (spec_insert b first w v) first w = v mod 2 ^ w.
Proof.
  intros Hin. apply N.bits_inj. intros k. rewrite spec_extract_testbit.
  destruct (N.ltb_spec k w) as [Hk|Hk]; cbn [andb].
  - rewrite bit_at_spec_insert.
    replace ((first + w - 1 - k) / 8 <? blen b) with true by (symmetry; apply N.ltb_lt; apply N.div_lt_upper_bound; lia).
    replace ((first <=? first + w - 1 - k) && (first + w - 1 - k <? first + w)) with true
      by (symmetry; apply andb_true_iff; split; [apply N.leb_le|apply N.ltb_lt]; lia).
    rewrite N.mod_pow2_bits_low by exact Hk. f_equal. lia.
  - rewrite N.mod_pow2_bits_high by exact Hk. reflexivity.
Qed.

(* ---- C03 ---- *)
Lemma sizes s : In s all_specs ->
  exists t, find_type header_types (sp_type s) (sp_src s) = Some t /\
    ty_sizeof t = sp_hdr_len s /\ ty_payload_off t = Some (sp_hdr_len s) /\
    ty_len_value t = Some (sp_hdr_len s) /\ sp_hdr_len s mod 4 = 0.
Proof.
  intros Hs. pose proof all_sizes_ok as H. rewrite forallb_forall in H. specialize (H s Hs).
  unfold sizes_ok in H. destruct (find_type header_types (sp_type s) (sp_src s)) as [t|]; [|discriminate].
  exists t. split; [reflexivity|].
  apply andb_true_iff in H. destruct H as [H H4]. apply andb_true_iff in H. destruct H as [H H3].
  apply andb_true_iff in H. destruct H as [H1 H2].
  apply N.eqb_eq in H1, H4. unfold opt_is in H2, H3.
  destruct (ty_payload_off t) as [x|]; [|discriminate]. destruct (ty_len_value t) as [y|]; [|discriminate].
  apply N.eqb_eq in H2, H3. subst. auto.
Qed.

(* ---- C04 ---- *)
Definition init_correct (E:endian) (s:sformat) : Prop :=
  sp_init s <> EmptyString ->
  exists u t i h, fmt_unit all_units s = Some (u, t) /\ find_init (u_inits u) (sp_init s) = Some i /\
    canonical_header s = Some h /\
    run_init (ldqE E) (stqE E) cfg u i None = Ok None /\
    forall old, sp_hdr_len s <= blen old ->
      exists b', run_init (ldqE E) (stqE E) cfg u i (Some old) = Ok (Some b') /\
                 agrees b' h old (sp_hdr_len s).

Lemma inits E s : In s all_specs -> init_correct E s.
Proof.
  intros Hs Hne. pose proof all_init_ok as H. rewrite forallb_forall in H. specialize (H s Hs).
  unfold init_ok in H. apply orb_true_iff in H. destruct H as [H|H].
  - unfold str_empty in H. apply String.eqb_eq in H. contradiction.
  - destruct (fmt_unit all_units s) as [[u t]|] eqn:Eu; [|discriminate].
    destruct (find_init (u_inits u) (sp_init s)) as [i|] eqn:Efi; [|discriminate].
    destruct (init_image cfg u i (sp_hdr_len s)) as [c|] eqn:Ei; [|discriminate].
    destruct (canonical_header s) as [h|] eqn:Eh; [|discriminate].
    apply list_eqb_eq in H. subst c.
    pose proof (init_image_sound (ldqE E) (stqE E) (ldqE_wire E) (stqE_wire E) cfg u i _ h Ei) as [Hn Ho].
    exists u, t, i, h. split; [reflexivity|]. split; [exact Efi|]. split; [reflexivity|]. split; [exact Hn|exact Ho].
Qed.
