(* C06 - ACF-CAN message builders emit a well-formed, exactly padded message. *)
From Coq Require Import List NArith String Bool Permutation.
From O1722 Require Import Bits Host FieldModel Spec SpecProofs AccModel CanModel C13Proofs C01Proofs C06Proofs.
From O1722.Generated Require Import Tables.
Import ListNotations.
Local Open Scope N_scope.

Definition can_formats := [cf_full; cf_brief].
Lemma can_format_facts c : In c can_formats -> In (cf_spec c) all_specs /\ canfmt_ok c = true.
Proof. intros [<-|[<-|[]]]; split; first [exact cf_full_in|exact cf_brief_in|exact cf_full_ok|exact cf_brief_ok]. Qed.

(* the one-call builders (Avtp_Can_CreateAcfMessage, Avtp_CanBrief_SetPayload) produce EXACTLY the reference message
   CanModel.can_ref, and the brief builder returns header+len+pad: for every 32-bit identifier, both variants, every
   payload whose length the 16-bit parameter can carry (so 0..64 and every longer one), every prior content of header,
   payload area, pad bytes and trailing memory; both host byte orders *)
Theorem C06_build : forall E c b id payload variant, In c can_formats ->
  let len := N.of_nat (List.length payload) in
  let pad := (4 - len mod 4) mod 4 in
  SpecProofs.normal b -> id < 2 ^ 32 -> variant < 2 ^ 8 -> len < 2 ^ 16 -> sp_hdr_len (cf_spec c) + len + pad <= blen b ->
  can_create (ldqE E) (stqE E) c b id payload len variant = Ok (can_ref c b id payload variant).
Proof. intros E c b id payload variant Hc. destruct (can_format_facts c Hc) as [Hs Hok]. apply (create_exact E c Hs Hok). Qed.

(* what the reference message is, byte for byte: returned length; header bits = the old header with the five fields
   written; payload verbatim behind the header; zeros up to the quadlet boundary; every later byte literally untouched *)
Theorem C06_message_bytes : forall c b id payload variant, In c can_formats ->
  let hdr := sp_hdr_len (cf_spec c) in
  let len := N.of_nat (List.length payload) in
  let pad := (4 - len mod 4) mod 4 in
  SpecProofs.normal b -> hdr + len + pad <= blen b ->
  let m := fst (can_ref c b id payload variant) in
  snd (can_ref c b id payload variant) = hdr + len + pad /\
  List.length m = List.length b /\
  (forall i, i / 8 < hdr -> bit_at m i = bit_at (can_hdr c b id variant len pad) i) /\
  (forall j, hdr <= j < hdr + len -> nthN m j = nth (N.to_nat (j - hdr)) payload 0 mod 256) /\
  (forall j, hdr + len <= j < hdr + len + pad -> nthN m j = 0) /\
  (forall j, hdr + len + pad <= j -> nthN m j = nthN b j).
Proof. intros c b id payload variant Hc. destruct (can_format_facts c Hc) as [Hs Hok]. apply (can_ref_bytes c Hs Hok). Qed.

(* ... and what the five header writes mean: eff = (id > 0x7ff), identifier = id mod 2^29, fdf = variant mod 2,
   acf_msg_length = (hdr+len+pad)/4 mod 2^9 quadlets, pad = pad; every other bit of the header (message type, mtv, rtr, brs,
   esi, bus id, timestamp, reserved bits) is the old one.  Widths: C06_widths. *)
Theorem C06_header_fields : forall c b id variant len pad, In c can_formats -> sp_hdr_len (cf_spec c) <= blen b ->
  let h := can_hdr c b id variant len pad in
  blen h = blen b /\
  fieldval c (cf_eff c) h = (if 0x7ff <? id then 1 else 0) mod 2 ^ fwidth c (cf_eff c) /\
  fieldval c (cf_id c) h = id mod 2 ^ fwidth c (cf_id c) /\
  fieldval c (cf_fdf c) h = variant mod 2 ^ fwidth c (cf_fdf c) /\
  fieldval c (cf_len c) h = ((sp_hdr_len (cf_spec c) + len + pad) / 4) mod 2 ^ fwidth c (cf_len c) /\
  fieldval c (cf_pad c) h = pad mod 2 ^ fwidth c (cf_pad c) /\
  (forall i, fcovers c (cf_eff c) i = false -> fcovers c (cf_id c) i = false -> fcovers c (cf_fdf c) i = false ->
             fcovers c (cf_len c) i = false -> fcovers c (cf_pad c) i = false -> bit_at h i = bit_at b i).
Proof. intros c b id variant len pad Hc. destruct (can_format_facts c Hc) as [Hs Hok]. apply (can_hdr_meaning c Hs Hok). Qed.
Theorem C06_widths :
  fwidth cf_full (cf_eff cf_full) = 1 /\ fwidth cf_full (cf_id cf_full) = 29 /\ fwidth cf_full (cf_fdf cf_full) = 1 /\
  fwidth cf_full (cf_len cf_full) = 9 /\ fwidth cf_full (cf_pad cf_full) = 2 /\
  fwidth cf_brief (cf_eff cf_brief) = 1 /\ fwidth cf_brief (cf_id cf_brief) = 29 /\ fwidth cf_brief (cf_fdf cf_brief) = 1 /\
  fwidth cf_brief (cf_len cf_brief) = 9 /\ fwidth cf_brief (cf_pad cf_brief) = 2 /\
  sp_hdr_len spec_Can = 16 /\ sp_hdr_len spec_CanBrief = 8.
Proof. exact can_widths. Qed.

(* Avtp_Can_GetCanPayloadLength on a built message returns the original length (0..64 and up to 255) *)
Theorem C06_readback : forall E b id payload variant,
  let len := N.of_nat (List.length payload) in
  let pad := (4 - len mod 4) mod 4 in
  SpecProofs.normal b -> len < 256 -> 16 + len + pad <= blen b ->
  can_payload_length (ldqE E) (stqE E) cf_full (fst (can_ref cf_full b id payload variant)) = Ok len.
Proof. exact readback. Qed.

(* copy + the three dedicated setters in ANY order + finalise = the one-call builder *)
Theorem C06_compose : forall E c b id payload variant l, In c can_formats ->
  let len := N.of_nat (List.length payload) in
  let pad := (4 - len mod 4) mod 4 in
  Permutation l [(cf_eff c, if 0x7ff <? id then 1 else 0); (cf_id c, id); (cf_fdf c, variant)] ->
  SpecProofs.normal b -> id < 2 ^ 32 -> variant < 2 ^ 8 -> len < 2 ^ 16 -> sp_hdr_len (cf_spec c) + len + pad <= blen b ->
  can_compose (ldqE E) (stqE E) c b l payload len = can_create (ldqE E) (stqE E) c b id payload len variant.
Proof. intros E c b id payload variant l Hc. destruct (can_format_facts c Hc) as [Hs Hok]. apply (compose_exact E c Hs Hok). Qed.

Example C06_example :
  can_create (ldqE LE) (stqE LE) cf_full (repeat 0xff 25) 0x123 [1;2;3;4;5] 5 1 =
  Ok ([0xfe;0x06;0xf7;0xff; 0xff;0xff;0xff;0xff; 0xff;0xff;0xff;0xff; 0xe0;0;1;0x23; 1;2;3;4; 5;0;0;0; 0xff], 24).
Proof. vm_compute. reflexivity. Qed.
