(* Soundness of the computable checks on generated accessor records:
   if [getter_reads] / [setter_writes] evaluates to true for a record, then for
   EVERY buffer (and value) the modelled C function computes the reference
   semantics of Spec.v on the stated bit range, touching nothing outside the
   first [hdr] bytes. *)
From Coq Require Import List NArith ZArith Bool Lia Arith String ZifyN ZifyNat ZifyBool.
From O1722 Require Import Sym Bits FieldModel FieldProofs Spec SpecProofs AccModel.
Import ListNotations.
Local Open Scope N_scope.
Ltac Zify.zify_post_hook ::= Z.div_mod_to_equations.

Lemma spec_extract_lt b first w : spec_extract b first w < 2 ^ w.
Proof. unfold spec_extract. pose proof (bits_value_lt (N.to_nat w) (fun i => bit_at b (first + i))) as H.
       rewrite N2Nat.id in H. exact H. Qed.

Lemma bits_value_ext n f g : (forall i, i < N.of_nat n -> f i = g i) -> bits_value n f = bits_value n g.
Proof.
  induction n as [|n IH]; intros H; cbn [bits_value]; [reflexivity|].
  rewrite IH by (intros i Hi; apply H; lia). rewrite H by lia. reflexivity.
Qed.

(* spec_insert looks only at the low [w] bits of the value *)
Lemma spec_insert_low b first w v v' :
  (forall k, k < w -> N.testbit v k = N.testbit v' k) ->
  spec_insert b first w v = spec_insert b first w v'.
Proof.
  intros H. unfold spec_insert. apply map_ext. intros j. apply bits_value_ext. intros t _. cbv zeta.
  destruct (N.leb_spec first (8 * N.of_nat j + t)); destruct (N.ltb_spec (8 * N.of_nat j + t) (first + w));
    cbn [andb]; try reflexivity.
  apply H. lia.
Qed.

(* the conversions applied to an argument keep the low bits when every type is wide enough *)
Definition casts_keep (w:N) (casts:list nat) : bool := forallb (fun c => w <=? N.of_nat c) casts.
Lemma apply_casts_low w casts : casts_keep w casts = true ->
  forall v k, k < w -> N.testbit (apply_casts v casts) k = N.testbit v k.
Proof.
  unfold apply_casts. induction casts as [|c r IH]; intros Hc v k Hk; cbn [fold_left]; [reflexivity|].
  cbn [casts_keep forallb] in Hc. apply andb_true_iff in Hc. destruct Hc as [Hc1 Hc2].
  apply N.leb_le in Hc1. rewrite (IH Hc2) by exact Hk. apply N.mod_pow2_bits_low. lia.
Qed.
Lemma apply_casts_small w casts : casts_keep w casts = true -> forall v, v < 2^w -> apply_casts v casts = v.
Proof.
  unfold apply_casts. induction casts as [|c r IH]; intros Hc v Hv; cbn [fold_left]; [reflexivity|].
  cbn [casts_keep forallb] in Hc. apply andb_true_iff in Hc. destruct Hc as [Hc1 Hc2].
  apply N.leb_le in Hc1.
  assert (E : v mod 2 ^ N.of_nat c = v).
  { apply N.mod_small. apply N.lt_le_trans with (2^w); [exact Hv|]. apply N.pow_le_mono_r; lia. }
  rewrite E. apply IH; assumption.
Qed.

(* the value argument is parameter [idx], passed through types at least [w] bits wide *)
Definition value_passes (a:arg) (idx:nat) (w:N) : bool :=
  negb (a_signed a) &&
  match a_src a with
  | AParam i pw => Nat.eqb i idx && (w <=? N.of_nat pw) && casts_keep w (a_casts a)
  | AConst _ _ => false
  end.
Lemma value_passes_low a idx w : value_passes a idx w = true ->
  forall params k, k < w -> N.testbit (arg_value a params) k = N.testbit (nth idx params 0) k.
Proof.
  unfold value_passes, arg_value. intros H params k Hk. apply andb_true_iff in H. destruct H as [_ H].
  destruct (a_src a) as [|i pw]; [discriminate|].
  apply andb_true_iff in H. destruct H as [H H3]. apply andb_true_iff in H. destruct H as [H1 H2].
  apply Nat.eqb_eq in H1. subst i. apply N.leb_le in H2.
  rewrite (apply_casts_low w _ H3) by exact Hk. apply N.mod_pow2_bits_low. lia.
Qed.

(* an argument that does not read parameter 2 (the value of a by-identifier setter) *)
Definition arg_not_param2 (a:arg) : bool :=
  match a_src a with AParam i _ => negb (Nat.eqb i 2) | AConst _ _ => true end.
Lemma arg_value_indep a x y v v' : arg_not_param2 a = true ->
  arg_value a [x; y; v] = arg_value a [x; y; v'].
Proof.
  unfold arg_not_param2, arg_value. destruct (a_src a) as [|i pw]; [reflexivity|].
  intros H. destruct i as [|[|[|i]]]; cbn in *; try reflexivity; try discriminate.
Qed.
Lemma resolve_call_indep nw fw ts c x y v v' :
  arg_not_param2 (c_num c) = true -> arg_not_param2 (c_field c) = true ->
  resolve_call nw fw ts c [x; y; v] = resolve_call nw fw ts c [x; y; v'].
Proof.
  intros H1 H2. unfold resolve_call.
  rewrite (arg_value_indep (c_num c) x y v v' H1), (arg_value_indep (c_field c) x y v v' H2). reflexivity.
Qed.

Section Acc.
  Variable ldq : buf -> N -> N.
  Variable stq : buf -> N -> N -> buf.
  Hypothesis Hld : forall b q, ldq b q = ldq_be b q.
  Hypothesis Hst : forall b q v, stq b q v = stq_be b q v.
  Variable cfg : utilcfg.

  Definition desc_fits (qw:N) (d:desc) (first width hdr:N) : bool :=
    desc_valid d && (dq d + 4 <=? 2 ^ qw) && (dfirst d =? first) && (dbits d =? width) && (dextent d <=? hdr).

  Lemma desc_fits_spec qw d first width hdr : desc_fits qw d first width hdr = true ->
    desc_valid d = true /\ dq d + 4 <= 2 ^ qw /\ dfirst d = first /\ dbits d = width /\ dextent d <= hdr.
  Proof.
    unfold desc_fits. intros H.
    apply andb_true_iff in H. destruct H as [H H5]. apply andb_true_iff in H. destruct H as [H H4].
    apply andb_true_iff in H. destruct H as [H H3]. apply andb_true_iff in H. destruct H as [H1 H2].
    apply N.leb_le in H2, H5. apply N.eqb_eq in H3, H4. auto.
  Qed.

  (* ---- readers ---- *)
  Definition getter_reads (ts:list table) (g:getter) (params:list N) (first width hdr:N) : bool :=
    match resolve_call (nw_get cfg) (fw_get cfg) ts (g_call g) params with
    | RDesc d => desc_fits (qw_get cfg) d first width hdr &&
                 negb (g_ret_signed g) && (width <=? N.of_nat (g_ret g))
    | _ => false
    end.

  Theorem getter_reads_sound ts g params first width hdr :
    getter_reads ts g params first width hdr = true ->
    forall b, hdr <= blen b ->
      run_getter ldq stq cfg ts g (Some b) params = Ok (spec_extract b first width).
  Proof.
    unfold getter_reads, run_getter, run_gcall_get. intros H b Hb.
    destruct (resolve_call _ _ ts (g_call g) params) as [| |d]; try discriminate.
    apply andb_true_iff in H. destruct H as [H Hret]. apply andb_true_iff in H. destruct H as [Hfit Hsg].
    apply desc_fits_spec in Hfit. destruct Hfit as [Hv [Hw [Hf [Hbits Hext]]]].
    rewrite (get_via_spec ldq stq (qw_get cfg) Hld Hst d b Hv Hw) by lia.
    apply negb_true_iff in Hsg. rewrite Hsg. rewrite Hf, Hbits. f_equal.
    apply N.mod_small. apply N.leb_le in Hret.
    apply N.lt_le_trans with (2 ^ width); [apply spec_extract_lt|]. apply N.pow_le_mono_r; lia.
  Qed.

  (* a field identifier outside the enumeration, or a null pdu: the reader returns 0 *)
  Definition getter_skips (ts:list table) (g:getter) (params:list N) : bool :=
    match resolve_call (nw_get cfg) (fw_get cfg) ts (g_call g) params with
    | RSkip => negb (g_ret_signed g)
    | _ => false
    end.
  Theorem getter_skips_sound ts g params : getter_skips ts g params = true ->
    forall pdu, run_getter ldq stq cfg ts g pdu params = Ok 0.
  Proof.
    unfold getter_skips, run_getter, run_gcall_get. intros H pdu.
    destruct (resolve_call _ _ ts (g_call g) params); try discriminate.
    apply negb_true_iff in H. rewrite H. rewrite N.mod_0_l by (apply N.pow_nonzero; lia). reflexivity.
  Qed.
  Definition getter_resolves (ts:list table) (g:getter) (params:list N) : bool :=
    match resolve_call (nw_get cfg) (fw_get cfg) ts (g_call g) params with
    | RUnmodelled => false
    | _ => negb (g_ret_signed g)
    end.
  Theorem getter_null_sound ts g params : getter_resolves ts g params = true ->
    run_getter ldq stq cfg ts g None params = Ok 0.
  Proof.
    unfold getter_resolves, run_getter, run_gcall_get. intros H.
    destruct (resolve_call _ _ ts (g_call g) params); try discriminate;
      apply negb_true_iff in H; rewrite H; rewrite N.mod_0_l by (apply N.pow_nonzero; lia); reflexivity.
  Qed.

  (* ---- writers ---- *)
  (* [vidx]: index of the parameter carrying the value *)
  Definition setter_writes (ts:list table) (s:setter) (params:list N) (vidx:nat) (first width hdr:N) : bool :=
    value_passes (s_value s) vidx width &&
    match resolve_call (nw_set cfg) (fw_set cfg) ts (s_call s) params with
    | RDesc d => desc_fits (qw_set cfg) d first width hdr
    | _ => false
    end.

  Definition writes_field (b b':buf) (first width hdr v:N) : Prop :=
    List.length b' = List.length b /\
    (forall i, bit_at b' i = bit_at (spec_insert b first width v) i) /\
    (forall j, hdr <= j -> nthN b' j = nthN b j).

  Theorem setter_writes_sound ts s params vidx first width hdr :
    setter_writes ts s params vidx first width hdr = true ->
    forall b, hdr <= blen b ->
      exists b', run_setter ldq stq cfg ts s (Some b) params = Ok (Some b') /\
                 writes_field b b' first width hdr (nth vidx params 0).
  Proof.
    unfold setter_writes, run_setter, run_gcall_set. intros H b Hb.
    apply andb_true_iff in H. destruct H as [Hval H].
    assert (Hsg : a_signed (s_value s) = false).
    { unfold value_passes in Hval. apply andb_true_iff in Hval. destruct Hval as [Hs _].
      apply negb_true_iff in Hs. exact Hs. }
    rewrite Hsg.
    destruct (resolve_call _ _ ts (s_call s) params) as [| |d]; try discriminate.
    apply desc_fits_spec in H. destruct H as [Hv [Hw [Hf [Hbits Hext]]]].
    destruct (set_via_spec ldq stq (qw_set cfg) Hld Hst d b (arg_value (s_value s) params) Hv Hw ltac:(lia))
      as [b' [Hs [Hl [Hfr Hb']]]].
    rewrite Hs. exists b'. split; [reflexivity|]. split; [exact Hl|]. split.
    - intros i. rewrite Hb'. rewrite Hf, Hbits.
      rewrite (spec_insert_low b first width _ (nth vidx params 0)); [reflexivity|].
      intros k Hk. apply (value_passes_low _ _ _ Hval). exact Hk.
    - intros j Hj. apply Hfr. unfold dextent in Hext. lia.
  Qed.

  Definition setter_skips (ts:list table) (s:setter) (params:list N) : bool :=
    negb (a_signed (s_value s)) &&
    match resolve_call (nw_set cfg) (fw_set cfg) ts (s_call s) params with
    | RSkip => true
    | _ => false
    end.
  Theorem setter_skips_sound ts s params : setter_skips ts s params = true ->
    forall pdu, run_setter ldq stq cfg ts s pdu params = Ok pdu.
  Proof.
    unfold setter_skips, run_setter, run_gcall_set. intros H pdu.
    apply andb_true_iff in H. destruct H as [Hs H]. apply negb_true_iff in Hs. rewrite Hs.
    destruct (resolve_call _ _ ts (s_call s) params); try discriminate. reflexivity.
  Qed.
  Definition setter_resolves (ts:list table) (s:setter) (params:list N) : bool :=
    negb (a_signed (s_value s)) &&
    match resolve_call (nw_set cfg) (fw_set cfg) ts (s_call s) params with
    | RUnmodelled => false
    | _ => true
    end.
  Theorem setter_null_sound ts s params : setter_resolves ts s params = true ->
    run_setter ldq stq cfg ts s None params = Ok None.
  Proof.
    unfold setter_resolves, run_setter, run_gcall_set. intros H.
    apply andb_true_iff in H. destruct H as [Hs H]. apply negb_true_iff in Hs. rewrite Hs.
    destruct (resolve_call _ _ ts (s_call s) params); try discriminate; reflexivity.
  Qed.
End Acc.
