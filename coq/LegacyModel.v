(* Model of the deprecated entry points (avtp_*_pdu_get / _set / _init).
   The translator emits one record per wrapper: the atomic guards of its
   "invalid argument" test and the statements of its success path.  The
   wrapper takes a pdu pointer (parameter 0), integer parameters, and at
   most one result pointer. *)
From Coq Require Import List NArith Bool String.
From O1722 Require Import Bits FieldModel AccModel.
Import ListNotations.
Local Open Scope N_scope.

Inductive lguard :=
| GNull (param:nat)                                  (* param == NULL *)
| GRange (a:arg) (ge:bool) (bound:N) (cmpw:nat) (cmp_signed:bool).
                                                     (* a >= bound (ge) or a > bound, compared in a cmpw-bit type *)
Inductive lstep :=
| LSet (callee:string) (args:list arg)               (* current setter / by-identifier writer on the pdu *)
| LInit (callee:string)                              (* current initialiser on the pdu *)
| LMemset (v size:N)
| LStore (rparam:nat) (width:nat) (callee:string) (args:list arg) (casts:list nat) (signed:bool)
                                                     (* *result = (casts) callee(pdu, args) *)
| LLegacy (callee:string) (args:list arg) (checked:bool).
                                                     (* res = legacy(pdu, args); if (res < 0) return res; *)
Record legacy := mklegacy { l_name : string; l_guards : list lguard; l_steps : list lstep }.

Inductive lret := LOk | LEinval.
(* return code, pdu after the call, result location after the call *)
Definition lres := (lret * option buf * option N)%type.

Fixpoint find_legacy (ls:list legacy) (n:string) : option legacy :=
  match ls with
  | [] => None
  | l :: r => if String.eqb (l_name l) n then Some l else find_legacy r n
  end.

Definition is_none {A} (o:option A) : bool := match o with None => true | Some _ => false end.

(* outp: index of the result-pointer parameter (0 = the wrapper has none) *)
Definition guard_std (outp:nat) (g:lguard) : bool :=
  match g with
  | GNull i => Nat.eqb i 0 || (negb (Nat.eqb outp 0) && Nat.eqb i outp)
  | GRange a _ _ _ sg => negb (a_signed a) && negb sg
  end.
Definition guard_fires (outp:nat) (pdu:option buf) (params:list N) (res:option N) (g:lguard) : bool :=
  match g with
  | GNull i => if Nat.eqb i 0 then is_none pdu else is_none res
  | GRange a ge bound cmpw _ =>
      let v := arg_value a params mod 2 ^ N.of_nat cmpw in
      if ge then bound <=? v else bound <? v
  end.

Section Run.
  Variable ldq : buf -> N -> N.
  Variable stq : buf -> N -> N -> buf.
  Variable cfg : utilcfg.
  Variable u : unit_model.
  Variable ls : list legacy.

  Definition out_param (l:legacy) : nat :=
    fold_left (fun acc s => match s with LStore r _ _ _ _ _ => r | _ => acc end) (l_steps l) 0%nat.

  Fixpoint run_steps (fuel:nat) {struct fuel} : list lstep -> option buf -> list N -> option N -> outcome lres :=
   fix go (steps:list lstep) (pdu:option buf) (params:list N) (res:option N) {struct steps} : outcome lres :=
    match steps with
    | [] => Ok (LOk, pdu, res)
    | st :: rest =>
      match st with
      | LSet callee args =>
          match find_setter (u_setters u) callee with
          | Some s =>
              match run_setter ldq stq cfg (u_tables u) s pdu (0 :: map (fun a => arg_value a params) args) with
              | Ok pdu' => go rest pdu' params res
              | OOB q => OOB q | Unmodelled => Unmodelled
              end
          | None => Unmodelled
          end
      | LInit callee =>
          match find_init (u_inits u) callee with
          | Some i => match run_init ldq stq cfg u i pdu with
                      | Ok pdu' => go rest pdu' params res
                      | OOB q => OOB q | Unmodelled => Unmodelled
                      end
          | None => Unmodelled
          end
      | LMemset v size =>
          match pdu with
          | Some b => match do_memset b v size with
                      | Ok pdu' => go rest pdu' params res
                      | OOB q => OOB q | Unmodelled => Unmodelled
                      end
          | None => Unmodelled        (* memset(NULL, ...) *)
          end
      | LStore _ width callee args casts signed =>
          match find_getter (u_getters u) callee, res with
          | Some g, Some _ =>
              if signed then Unmodelled else
              match run_getter ldq stq cfg (u_tables u) g pdu (0 :: map (fun a => arg_value a params) args) with
              | Ok v => go rest pdu params (Some (apply_casts v casts mod 2 ^ N.of_nat width))
              | OOB q => OOB q | Unmodelled => Unmodelled
              end
          | _, _ => Unmodelled        (* unknown callee, or store through a null pointer *)
          end
      | LLegacy callee args checked =>
          match fuel with
          | O => Unmodelled
          | S f =>
            match find_legacy ls callee with
            | Some l =>
                let params' := 0 :: map (fun a => arg_value a params) args in
                if forallb (guard_std (out_param l)) (l_guards l) && Nat.eqb (out_param l) 0 then
                  if existsb (guard_fires 0 pdu params' None) (l_guards l)
                  then (if checked then Ok (LEinval, pdu, res) else go rest pdu params res)
                  else match run_steps f (l_steps l) pdu params' None with
                       | Ok (LOk, pdu', _) => go rest pdu' params res
                       | Ok (LEinval, pdu', _) => if checked then Ok (LEinval, pdu', res) else go rest pdu' params res
                       | OOB q => OOB q | Unmodelled => Unmodelled
                       end
                else Unmodelled
            | None => Unmodelled
            end
          end
      end
    end.

  Definition run_legacy (l:legacy) (pdu:option buf) (params:list N) (res:option N) : outcome lres :=
    if forallb (guard_std (out_param l)) (l_guards l) then
      if existsb (guard_fires (out_param l) pdu params res) (l_guards l)
      then Ok (LEinval, pdu, res)
      else run_steps 2 (l_steps l) pdu params res
    else Unmodelled.
End Run.
