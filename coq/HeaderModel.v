(* Public headers as units of names (C20).  A unit lists what the header itself introduces and mentions; its includes
   point to other units.  Every public header uses #pragma once and places its #includes before its first definition
   (h_inc_late = false, checked), so a translation unit that includes h1 ... hn is the concatenation, without
   repetition, of the units in their include closures. *)
From Coq Require Import List Bool String.
Import ListNotations.
Local Open Scope string_scope.

Record hunit := mkhunit {
  h_name : string;
  h_includes : list string;                     (* direct #include "avtp/..." *)
  h_macros : list (string * list string);       (* macro name, identifiers of its replacement list *)
  h_ordinary : list string;                     (* typedef names, enumerators, functions, objects *)
  h_tags : list string;                         (* struct / union / enum tags *)
  h_tokens : list string;                       (* identifiers occurring in the header's declarations *)
  h_inc_late : bool;                            (* an #include after the first definition *)
  h_state_leak : bool                           (* leaves compiler / preprocessor state behind: #pragma pack not restored,
                                                   push_macro / pop_macro, #undef of a macro it did not define *)
}.

Definition mem (x:string) (l:list string) : bool := existsb (String.eqb x) l.
Definition inter (a b:list string) : bool := existsb (fun x => mem x b) a.
Definition macro_names (u:hunit) : list string := map fst (h_macros u).
(* everything the text of the unit mentions: a macro of another header occurring here changes what the text means *)
Definition uses (u:hunit) : list string := h_tokens u ++ List.concat (map snd (h_macros u)).
Definition introduces (u:hunit) : list string := macro_names u ++ h_ordinary u.

Fixpoint find_unit (us:list hunit) (n:string) : option hunit :=
  match us with [] => None | u :: r => if String.eqb (h_name u) n then Some u else find_unit r n end.
(* names of the units in the include closure of a unit (itself included) *)
Fixpoint closure (fuel:nat) (us:list hunit) (n:string) : list string :=
  match fuel with
  | O => [n]
  | S f => n :: match find_unit us n with
                | Some u => flat_map (closure f us) (h_includes u)
                | None => []
                end
  end.
Definition closure_of (us:list hunit) (u:hunit) : list string := closure (List.length us) us (h_name u).

(* two different headers do not interfere: no name introduced by both, no tag declared by both, and neither mentions a
   macro of the other without including it *)
Definition one_way (us:list hunit) (a b:hunit) : bool :=
  (* macros of a are invisible to b unless b includes a *)
  mem (h_name a) (closure_of us b) || negb (inter (macro_names a) (uses b ++ h_ordinary b ++ h_tags b)).
Definition non_interfering (us:list hunit) (a b:hunit) : bool :=
  negb (inter (introduces a) (introduces b)) && negb (inter (h_tags a) (h_tags b)) &&
  one_way us a b && one_way us b a.

(* what a mentioned identifier stands for in a list of units: the replacement list of the first unit defining it *)
Fixpoint assoc_body (l:list (string * list string)) (t:string) : option (list string) :=
  match l with [] => None | (n, b) :: r => if String.eqb n t then Some b else assoc_body r t end.
Fixpoint binding (l:list hunit) (t:string) : option (list string) :=
  match l with
  | [] => None
  | u :: r => match assoc_body (h_macros u) t with Some b => Some b | None => binding r t end
  end.
Definition units_named (us:list hunit) (ns:list string) : list hunit :=
  flat_map (fun n => match find_unit us n with Some u => [u] | None => [] end) ns.
