(* Reference description of the deprecated API (C11, C12): which wrappers
   exist for which format, which legacy field names designate which current
   enumerators, and which current header type each packed legacy struct
   overlays.  HAND-MAINTAINED (from the libavtp API the wrappers preserve). *)
From Coq Require Import List NArith Bool String.
From O1722 Require Import Bits Spec.
Import ListNotations.
Local Open Scope string_scope.

Record lapi := mklapi {
  la_fmt : string;                       (* format name in Spec.all_specs *)
  la_get : string; la_set : string; la_init : string;   (* "" when the API has none *)
  la_init_field : string;                (* field set from the initialiser's extra parameter, "" if none *)
  la_aliases : list (string * string)    (* legacy field name -> current enumerator *)
}.

Definition legacy_api : list lapi := [
  mklapi "CommonHeader" "avtp_pdu_get" "avtp_pdu_set" "" ""
    [("AVTP_FIELD_SUBTYPE", "AVTP_COMMON_HEADER_FIELD_SUBTYPE"); ("AVTP_FIELD_VERSION", "AVTP_COMMON_HEADER_FIELD_VERSION");
     ("AVTP_FIELD_MAX", "AVTP_COMMON_HEADER_FIELD_MAX")];
  mklapi "Pcm" "avtp_aaf_pdu_get" "avtp_aaf_pdu_set" "avtp_aaf_pdu_init" ""
    [("AVTP_AAF_FIELD_SV", "AVTP_PCM_FIELD_SV"); ("AVTP_AAF_FIELD_MR", "AVTP_PCM_FIELD_MR"); ("AVTP_AAF_FIELD_TV", "AVTP_PCM_FIELD_TV");
     ("AVTP_AAF_FIELD_SEQ_NUM", "AVTP_PCM_FIELD_SEQUENCE_NUM"); ("AVTP_AAF_FIELD_TU", "AVTP_PCM_FIELD_TU");
     ("AVTP_AAF_FIELD_STREAM_ID", "AVTP_PCM_FIELD_STREAM_ID"); ("AVTP_AAF_FIELD_TIMESTAMP", "AVTP_PCM_FIELD_AVTP_TIMESTAMP");
     ("AVTP_AAF_FIELD_STREAM_DATA_LEN", "AVTP_PCM_FIELD_STREAM_DATA_LENGTH"); ("AVTP_AAF_FIELD_FORMAT", "AVTP_PCM_FIELD_FORMAT");
     ("AVTP_AAF_FIELD_NSR", "AVTP_PCM_FIELD_NSR"); ("AVTP_AAF_FIELD_CHAN_PER_FRAME", "AVTP_PCM_FIELD_CHANNELS_PER_FRAME");
     ("AVTP_AAF_FIELD_BIT_DEPTH", "AVTP_PCM_FIELD_BIT_DEPTH"); ("AVTP_AAF_FIELD_SP", "AVTP_PCM_FIELD_SP");
     ("AVTP_AAF_FIELD_EVT", "AVTP_PCM_FIELD_EVT"); ("AVTP_AAF_FIELD_MAX", "AVTP_PCM_FIELD_MAX")];
  mklapi "Crf" "avtp_crf_pdu_get" "avtp_crf_pdu_set" "avtp_crf_pdu_init" ""
    [("AVTP_CRF_FIELD_SEQ_NUM", "AVTP_CRF_FIELD_SEQUENCE_NUM"); ("AVTP_CRF_FIELD_BASE_FREQ", "AVTP_CRF_FIELD_BASE_FREQUENCY");
     ("AVTP_CRF_FIELD_CRF_DATA_LEN", "AVTP_CRF_FIELD_CRF_DATA_LENGTH")];
  mklapi "Cvf" "avtp_cvf_pdu_get" "avtp_cvf_pdu_set" "avtp_cvf_pdu_init" "AVTP_CVF_FIELD_FORMAT_SUBTYPE" [];
  mklapi "Rvf" "avtp_rvf_pdu_get" "avtp_rvf_pdu_set" "avtp_rvf_pdu_init" ""
    [("AVTP_RVF_FIELD_SEQ_NUM", "AVTP_RVF_FIELD_SEQUENCE_NUM"); ("AVTP_RVF_FIELD_TIMESTAMP", "AVTP_RVF_FIELD_AVTP_TIMESTAMP");
     ("AVTP_RVF_FIELD_STREAM_DATA_LEN", "AVTP_RVF_FIELD_STREAM_DATA_LENGTH"); ("AVTP_RVF_FIELD_RAW_PIXEL_DEPTH", "AVTP_RVF_FIELD_PIXEL_DEPTH");
     ("AVTP_RVF_FIELD_RAW_PIXEL_FORMAT", "AVTP_RVF_FIELD_PIXEL_FORMAT"); ("AVTP_RVF_FIELD_RAW_FRAME_RATE", "AVTP_RVF_FIELD_FRAME_RATE");
     ("AVTP_RVF_FIELD_RAW_COLORSPACE", "AVTP_RVF_FIELD_COLORSPACE"); ("AVTP_RVF_FIELD_RAW_NUM_LINES", "AVTP_RVF_FIELD_NUM_LINES");
     ("AVTP_RVF_FIELD_RAW_I_SEQ_NUM", "AVTP_RVF_FIELD_I_SEQ_NUM"); ("AVTP_RVF_FIELD_RAW_LINE_NUMBER", "AVTP_RVF_FIELD_LINE_NUMBER")]
].

(* packed legacy structs: tag, trailing (payload) member, the structs laid end to end that make up the
   header (tags), the current formats whose header type they overlay, and members that name a field's bytes *)
Record lstruct := mklstruct {
  ls_tags : list string;               (* e.g. [avtp_stream_pdu; avtp_rvf_payload]: laid out back to back *)
  ls_payload : string;                 (* trailing member of the last struct *)
  ls_fmts : list string;               (* formats whose header the struct(s) overlay *)
  ls_members : list (string * string)  (* member of the FIRST struct -> suffix of the field whose first byte it is *)
}.
Definition legacy_layouts : list lstruct := [
  mklstruct ["avtp_common_pdu"] "pdu_specific" ["CommonHeader"] [("subtype_data", "SUBTYPE")];
  mklstruct ["avtp_stream_pdu"] "avtp_payload" ["Pcm"; "Aaf"; "Cvf"; "Tscf"]
    [("subtype_data", "SUBTYPE"); ("stream_id", "STREAM_ID"); ("avtp_time", "AVTP_TIMESTAMP")];
  mklstruct ["avtp_crf_pdu"] "crf_data" ["Crf"] [("subtype_data", "SUBTYPE"); ("stream_id", "STREAM_ID")];
  mklstruct ["avtp_stream_pdu"; "avtp_rvf_payload"] "raw_data" ["Rvf"]
    [("subtype_data", "SUBTYPE"); ("stream_id", "STREAM_ID"); ("avtp_time", "AVTP_TIMESTAMP")]
].
