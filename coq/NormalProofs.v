(* The model keeps every byte below 256. *)
From Coq Require Import List NArith ZArith Bool Lia Arith String.
From O1722 Require Import Sym Bits Host FieldModel FieldProofs Spec SpecProofs AccModel AccProofs.
Import ListNotations.
Local Open Scope N_scope.

Notation normal := SpecProofs.normal.

(* ---------- the model keeps bytes below 256 ---------- *)
Section Normal.
  Variable ldq : buf -> N -> N.
  Variable stq : buf -> N -> N -> buf.
  Hypothesis Hst : forall b q v, stq b q v = stq_be b q v.
  Variable cfg : utilcfg.

  Lemma set_loop_normal qw d value fuel : forall mc k pr tr mc' tr',
    set_loop (opsN ldq stq qw d) fuel d value mc k pr tr = Some (mc', tr') -> normal mc -> normal mc'.
  Proof.
    induction fuel as [|f IH]; intros mc k pr tr mc' tr'; cbn [set_loop].
    - destruct (pr <? dbits d); [discriminate|]. intros H Hn. inversion H; subst. exact Hn.
    - destruct (pr <? dbits d).
      + intros H Hn. apply IH in H; [exact H|]. cbn [opsN o_st]. rewrite Hst. apply normal_stq_be. exact Hn.
      + intros H Hn. inversion H; subst. exact Hn.
  Qed.
  Lemma set_via_normal qw d b v b' : set_via ldq stq qw d b v = Ok b' -> normal b -> normal b'.
  Proof.
    unfold set_via, set_desc. destruct (desc_valid d); [|discriminate].
    destruct (set_loop (opsN ldq stq qw d) fuel0 d (v mod 2 ^ 64) b 0 0 []) as [[b1 tr]|] eqn:E; [|discriminate].
    destruct (first_oob b (map (qid qw d) tr)); [discriminate|]. intros H Hn. inversion H; subst.
    eapply set_loop_normal; eauto.
  Qed.
  Lemma run_setter_normal ts st b p b' : run_setter ldq stq cfg ts st (Some b) p = Ok (Some b') -> normal b -> normal b'.
  Proof.
    unfold run_setter, run_gcall_set. destruct (a_signed (s_value st)); [discriminate|].
    destruct (resolve_call _ _ ts (s_call st) p) as [| |d]; try discriminate.
    - intros H Hn. inversion H; subst. exact Hn.
    - destruct (set_via ldq stq (qw_set cfg) d b (arg_value (s_value st) p)) as [b1| |] eqn:E; try discriminate.
      intros H Hn. inversion H; subst. eapply set_via_normal; eauto.
  Qed.
  Lemma normal_repeat x n : x < 256 -> normal (repeat x n).
  Proof. intros Hx. unfold normal. apply Forall_forall. intros y Hy. apply repeat_spec in Hy. subst. exact Hx. Qed.
  Lemma normal_upd b a bs : normal b -> normal bs -> normal (upd b a bs).
  Proof.
    intros Hb Hbs. unfold upd. destruct (a + N.of_nat (List.length bs) <=? blen b); [|exact Hb].
    unfold normal in *. apply Forall_app. split.
    - apply Forall_forall. intros x Hx. apply In_firstn in Hx. rewrite Forall_forall in Hb. auto.
    - apply Forall_app. split; [exact Hbs|]. apply Forall_forall. intros x Hx. apply In_skipn in Hx. rewrite Forall_forall in Hb. auto.
  Qed.
  Lemma run_initops_normal u ops : forall b p b', run_initops ldq stq cfg u ops b p = Ok (Some b') -> normal b -> normal b'.
  Proof.
    induction ops as [|op r IH]; intros b p b'; cbn [run_initops].
    - intros H Hn. inversion H; subst. exact Hn.
    - destruct (run_initop ldq stq cfg u op b p) as [[b1|]| |] eqn:E; try discriminate.
      intros H Hn. apply (IH _ _ _ H). destruct op as [v size|c value|callee args]; cbn [run_initop] in E.
      + unfold do_memset in E. destruct (size <=? blen b); [|discriminate]. inversion E; subst.
        apply normal_upd; [exact Hn|]. apply normal_repeat. apply N.mod_lt. lia.
      + unfold run_gcall_set in E. destruct (a_signed value); [discriminate|].
        destruct (resolve_call _ _ (u_tables u) c p) as [| |d]; try discriminate.
        * inversion E; subst. exact Hn.
        * destruct (set_via ldq stq (qw_set cfg) d b (arg_value value p)) as [b2| |] eqn:E2; try discriminate.
          inversion E; subst. eapply set_via_normal; eauto.
      + destruct (find_setter (u_setters u) callee) as [st|]; [|discriminate]. eapply run_setter_normal; eauto.
  Qed.
  Lemma run_init_normal u i b b' : run_init ldq stq cfg u i (Some b) = Ok (Some b') -> normal b -> normal b'.
  Proof. unfold run_init. apply run_initops_normal. Qed.
End Normal.

