(* Placement of a PDU in memory (C15): what an access of the C abstract machine requires of the address. *)
From Coq Require Import List NArith ZArith Bool Lia ZifyN ZifyBool.
Import ListNotations.
Local Open Scope N_scope.
Ltac Zify.zify_post_hook ::= Z.div_mod_to_equations.

(* an access to the PDU at byte offset a: through a byte lvalue / memcpy / memset (no alignment requirement),
   or through an lvalue of an n-byte integer type (the address must be a multiple of n, otherwise the behaviour is undefined) *)
Inductive access := ByteAcc (a len:N) | TypedAcc (a n:N).
Definition acc_defined (base:N) (x:access) : bool :=
  match x with ByteAcc _ _ => true | TypedAcc a n => (base + a) mod n =? 0 end.
(* a trace of accesses is placement-safe when it is defined wherever the PDU is placed *)
Definition placement_safe (tr:list access) : Prop := forall base, forallb (acc_defined base) tr = true.
Definition bytewise (x:access) : bool := match x with ByteAcc _ _ => true | TypedAcc _ n => n =? 1 end.

Theorem bytewise_safe tr : forallb bytewise tr = true -> placement_safe tr.
Proof.
  intros H base. rewrite forallb_forall in *. intros x Hx. specialize (H x Hx).
  destruct x as [a l|a n]; cbn [bytewise acc_defined] in *; [reflexivity|]. apply N.eqb_eq in H. subst n.
  apply N.eqb_eq. apply N.mod_1_r.
Qed.
(* one typed access of 2, 4 or 8 bytes already makes a function placement-dependent: some placement is undefined *)
Theorem typed_unsafe a n tr : 2 <= n -> In (TypedAcc a n) tr -> ~ placement_safe tr.
Proof.
  intros Hn Hin Hs. set (base := (n - a mod n) mod n + 1).
  specialize (Hs base). rewrite forallb_forall in Hs. specialize (Hs _ Hin). cbn in Hs. apply N.eqb_eq in Hs.
  unfold base in Hs. 
  assert (Hz : (((n - a mod n) mod n + 1) + a) mod n = 1 mod n).
  { rewrite <- N.add_assoc, (N.add_comm 1 a), N.add_assoc. rewrite <- (N.add_mod_idemp_l _ 1) by lia.
    replace (((n - a mod n) mod n + a) mod n) with 0; [reflexivity|].
    symmetry. rewrite N.add_mod_idemp_l by lia. rewrite <- N.add_mod_idemp_r by lia.
    pose proof (N.mod_lt a n ltac:(lia)). replace (n - a mod n + a mod n) with n by lia. apply N.mod_same. lia. }
  rewrite Hz in Hs. rewrite N.mod_small in Hs by lia. discriminate.
Qed.
