(* C14: wire bytes do not depend on host endianness. *)
From Coq Require Import List NArith Bool FunctionalExtensionality.
From O1722 Require Import Bits Host FieldModel Spec AccModel LegacyModel Paths CanModel VssModel C13Proofs.
From O1722.Generated Require Import Tables.
Import ListNotations.
Local Open Scope N_scope.

(* the four memory access paths every model goes through are the same functions on either host
   (pointwise by C13Proofs.*_wire; as functions by functional extensionality) *)
Lemma ldqE_indep E1 E2 : ldqE E1 = ldqE E2.
Proof. extensionality b. extensionality q. rewrite !ldqE_wire. reflexivity. Qed.
Lemma stqE_indep E1 E2 : stqE E1 = stqE E2.
Proof. extensionality b. extensionality q. extensionality v. rewrite !stqE_wire. reflexivity. Qed.
Lemma ldwE_indep E1 E2 : ldwE E1 = ldwE E2.
Proof. extensionality w. extensionality b. extensionality a. rewrite !ldwE_wire. reflexivity. Qed.
Lemma stwE_indep E1 E2 : stwE E1 = stwE E2.
Proof. extensionality w. extensionality b. extensionality a. extensionality v. rewrite !stwE_wire. reflexivity. Qed.

Section Indep.
  Variables E1 E2 : endian.
  Ltac indep := rewrite (ldqE_indep E1 E2), ?(stqE_indep E1 E2), ?(ldwE_indep E1 E2), ?(stwE_indep E1 E2); reflexivity.

  (* every operation of C01-C12, for ALL inputs including those on which it fails *)
  Theorem all_indep :
    (forall qw d b, get_via (ldqE E1) (stqE E1) qw d b = get_via (ldqE E2) (stqE E2) qw d b) /\
    (forall qw d b v, set_via (ldqE E1) (stqE E1) qw d b v = set_via (ldqE E2) (stqE E2) qw d b v) /\
    (forall ts g pdu ps, run_getter (ldqE E1) (stqE E1) cfg ts g pdu ps = run_getter (ldqE E2) (stqE E2) cfg ts g pdu ps) /\
    (forall ts s pdu ps, run_setter (ldqE E1) (stqE E1) cfg ts s pdu ps = run_setter (ldqE E2) (stqE E2) cfg ts s pdu ps) /\
    (forall u i pdu, run_init (ldqE E1) (stqE E1) cfg u i pdu = run_init (ldqE E2) (stqE E2) cfg u i pdu) /\
    (forall u ls l pdu ps r, run_legacy (ldqE E1) (stqE E1) cfg u ls l pdu ps r = run_legacy (ldqE E2) (stqE E2) cfg u ls l pdu ps r) /\
    (forall c b id pl n var, can_create (ldqE E1) (stqE E1) c b id pl n var = can_create (ldqE E2) (stqE E2) c b id pl n var) /\
    (forall c b n, can_finalize (ldqE E1) (stqE E1) c b n = can_finalize (ldqE E2) (stqE E2) c b n) /\
    (forall c b, can_payload_length (ldqE E1) (stqE E1) c b = can_payload_length (ldqE E2) (stqE E2) c b) /\
    (forall b n, vss_pad (ldqE E1) (stqE E1) b n = vss_pad (ldqE E2) (stqE E2) b n) /\
    (forall b, vss_calc_path_len (ldwE E1) (ldqE E1) (stqE E1) b = vss_calc_path_len (ldwE E2) (ldqE E2) (stqE E2) b) /\
    (forall b p, vss_set_path (stwE E1) (ldqE E1) (stqE E1) b p = vss_set_path (stwE E2) (ldqE E2) (stqE E2) b p) /\
    (forall b cap, vss_get_path (ldwE E1) (ldqE E1) (stqE E1) b cap = vss_get_path (ldwE E2) (ldqE E2) (stqE E2) b cap) /\
    (forall b d, vss_set_data (ldwE E1) (stwE E1) (ldqE E1) (stqE E1) b d = vss_set_data (ldwE E2) (stwE E2) (ldqE E2) (stqE E2) b d) /\
    (forall b dst, vss_get_data (ldwE E1) (ldqE E1) (stqE E1) b dst = vss_get_data (ldwE E2) (ldqE E2) (stqE E2) b dst) /\
    (forall ss n out, strs_pack (stwE E1) ss n out = strs_pack (stwE E2) ss n out) /\
    (forall dl data, strs_count (ldwE E1) dl data = strs_count (ldwE E2) dl data) /\
    (forall dl data dsts n, strs_unpack (ldwE E1) dl data dsts n = strs_unpack (ldwE E2) dl data dsts n).
  Proof.
    repeat split; intros;
      rewrite ?(ldqE_indep E1 E2), ?(stqE_indep E1 E2), ?(ldwE_indep E1 E2), ?(stwE_indep E1 E2); reflexivity.
  Qed.
End Indep.
