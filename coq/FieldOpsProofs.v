(* The field operations used by the hand-written models (Paths.fsetf / fsetd / fgetf / fgetd) are the
   reference write / read, for every field whose access paths exist. *)
From Coq Require Import List NArith ZArith Bool Lia Arith String.
From O1722 Require Import Sym Bits Host FieldModel FieldProofs Spec SpecProofs RecordTheory AccModel AccProofs FormatChecks
  NormalProofs Paths C13Proofs C01Proofs C17Proofs C12Proofs C05Proofs.
From O1722.Generated Require Import Tables.
Import ListNotations.
Local Open Scope N_scope.

Notation normal := SpecProofs.normal.

(* the enumerator designates a reference field that has both a by-identifier and a dedicated accessor, each way *)
Definition name_ok (s:sformat) (name:string) : bool :=
  match find_sfield (sp_fields s) name with
  | Some f => (2 <=? List.length (writers_of s f))%nat && (2 <=? List.length (readers_of s f))%nat
  | None => false
  end.

Section Ops.
  Variable E : endian.
  Notation LD := (ldqE E). Notation ST := (stqE E).
  Variable s : sformat.
  Hypothesis Hs : In s all_specs.

  Lemma name_ok_field name : name_ok s name = true ->
    exists f w1 w2 wr r1 r2 rr, find_sfield (sp_fields s) name = Some f /\ In f (sp_fields s) /\
      writers_of s f = w1 :: w2 :: wr /\ readers_of s f = r1 :: r2 :: rr.
  Proof.
    unfold name_ok. destruct (find_sfield (sp_fields s) name) as [f|] eqn:Ef; [|discriminate].
    destruct (find_sfield_name s _ _ Ef) as [Hf _]. intros H. apply andb_true_iff in H. destruct H as [Hw Hr].
    destruct (writers_of s f) as [|w1 [|w2 wr]] eqn:Ew; try discriminate.
    destruct (readers_of s f) as [|r1 [|r2 rr]] eqn:Er; try discriminate.
    exists f, w1, w2, wr, r1, r2, rr. repeat split; try reflexivity; assumption.
  Qed.

  Lemma path_set_exact f p v b : In f (sp_fields s) -> In p (writers_of s f) -> normal b -> sp_hdr_len s <= blen b ->
    run_path_set LD ST p v b = Ok (spec_insert b (sf_first f) (sf_width f) v).
  Proof.
    intros Hf Hp Hn Hb. destruct p as [[u st] pf]. unfold run_path_set.
    pose proof (set_step E s Hs f u st pf v b Hf Hp Hn Hb) as H. unfold unwrap in H.
    destruct (run_setter LD ST cfg (u_tables u) st (Some b) (pf v)) as [[b'|]| |]; try discriminate.
    inversion H; subst. reflexivity.
  Qed.

  Lemma fsetf_exact name v b : name_ok s name = true -> normal b -> sp_hdr_len s <= blen b ->
    fsetf LD ST s name v b = Ok (ref_set s name v b).
  Proof.
    intros Hok Hn Hb. destruct (name_ok_field name Hok) as [f [w1 [w2 [wr [r1 [r2 [rr [Ef [Hf [Ew Er]]]]]]]]]].
    unfold fsetf, ref_set. rewrite Ef, Ew. apply (path_set_exact f); [exact Hf|rewrite Ew; left; reflexivity|exact Hn|exact Hb].
  Qed.
  Lemma fsetd_exact name v b : name_ok s name = true -> normal b -> sp_hdr_len s <= blen b ->
    fsetd LD ST s name v b = Ok (ref_set s name v b).
  Proof.
    intros Hok Hn Hb. destruct (name_ok_field name Hok) as [f [w1 [w2 [wr [r1 [r2 [rr [Ef [Hf [Ew Er]]]]]]]]]].
    unfold fsetd, ref_set. rewrite Ef, Ew. apply (path_set_exact f); [exact Hf|rewrite Ew; right; left; reflexivity|exact Hn|exact Hb].
  Qed.
  Lemma fgetf_exact name b : name_ok s name = true -> sp_hdr_len s <= blen b ->
    fgetf LD ST s name b = Ok (ref_get s name b).
  Proof.
    intros Hok Hb. destruct (name_ok_field name Hok) as [f [w1 [w2 [wr [[[u g] p] [r2 [rr [Ef [Hf [Ew Er]]]]]]]]]].
    unfold fgetf, ref_get. rewrite Ef, Er.
    assert (Hin : In (u, g, p) (readers_of s f)) by (rewrite Er; left; reflexivity).
    exact (readers_read E s f Hs Hf u g p Hin b Hb).
  Qed.
  Lemma fgetd_exact name b : name_ok s name = true -> sp_hdr_len s <= blen b ->
    fgetd LD ST s name b = Ok (ref_get s name b).
  Proof.
    intros Hok Hb. destruct (name_ok_field name Hok) as [f [w1 [w2 [wr [r1 [[[u g] p] [rr [Ef [Hf [Ew Er]]]]]]]]]].
    unfold fgetd, ref_get. rewrite Ef, Er.
    assert (Hin : In (u, g, p) (readers_of s f)) by (rewrite Er; right; left; reflexivity).
    exact (readers_read E s f Hs Hf u g p Hin b Hb).
  Qed.

  (* properties of the reference write used by every model proof *)
  Lemma normal_ref_set name v b : normal b -> normal (ref_set s name v b).
  Proof. intros Hn. unfold ref_set. destruct (find_sfield (sp_fields s) name); [apply normal_spec_insert|exact Hn]. Qed.
  Lemma length_ref_set name v b : List.length (ref_set s name v b) = List.length b.
  Proof. unfold ref_set. destruct (find_sfield (sp_fields s) name); [rewrite length_spec_insert|]; reflexivity. Qed.
  Lemma blen_ref_set name v b : blen (ref_set s name v b) = blen b.
  Proof. unfold ref_set, blen. destruct (find_sfield (sp_fields s) name); [rewrite length_spec_insert|]; reflexivity. Qed.
  Lemma ref_get_same name v b : name_ok s name = true -> sp_hdr_len s <= blen b ->
    ref_get s name (ref_set s name v b) =
      v mod 2 ^ (match find_sfield (sp_fields s) name with Some f => sf_width f | None => 0 end).
  Proof.
    intros Hok Hb. destruct (name_ok_field name Hok) as [f [? [? [? [? [? [? [Ef [Hf _]]]]]]]]].
    unfold ref_get, ref_set. rewrite Ef. apply extract_insert_same. pose proof (field_inside s f Hs Hf). lia.
  Qed.
  Lemma ref_get_other n1 n2 v b : name_ok s n1 = true -> name_ok s n2 = true -> n1 <> n2 ->
    ref_get s n1 (ref_set s n2 v b) = ref_get s n1 b.
  Proof.
    intros H1 H2 Hne. destruct (name_ok_field n1 H1) as [f1 [? [? [? [? [? [? [E1 [Hf1 _]]]]]]]]].
    destruct (name_ok_field n2 H2) as [f2 [? [? [? [? [? [? [E2 [Hf2 _]]]]]]]]].
    unfold ref_get, ref_set. rewrite E1, E2.
    destruct (find_sfield_name s _ _ E1) as [_ Hn1]. destruct (find_sfield_name s _ _ E2) as [_ Hn2].
    destruct (layout s Hs) as [h [_ [_ [_ [_ [Hd _]]]]]].
    destruct (Hd f2 f1 Hf2 Hf1) as [->|Hdj]; [congruence|]. apply extract_insert_other. exact Hdj.
  Qed.
  Lemma ref_set_commute n1 v1 n2 v2 b : name_ok s n1 = true -> name_ok s n2 = true -> n1 <> n2 ->
    ref_set s n1 v1 (ref_set s n2 v2 b) = ref_set s n2 v2 (ref_set s n1 v1 b).
  Proof.
    intros H1 H2 Hne. destruct (name_ok_field n1 H1) as [f1 [? [? [? [? [? [? [E1 [Hf1 _]]]]]]]]].
    destruct (name_ok_field n2 H2) as [f2 [? [? [? [? [? [? [E2 [Hf2 _]]]]]]]]].
    unfold ref_set. rewrite E1, E2.
    destruct (find_sfield_name s _ _ E1) as [_ Hn1]. destruct (find_sfield_name s _ _ E2) as [_ Hn2].
    destruct (layout s Hs) as [h [_ [_ [_ [_ [Hd _]]]]]].
    destruct (Hd f2 f1 Hf2 Hf1) as [->|Hdj]; [congruence|]. apply insert_commute. exact Hdj.
  Qed.
  (* a header field write leaves every byte behind the header alone, and every bit outside the field *)
  Lemma ref_set_far name v b j : name_ok s name = true -> normal b -> sp_hdr_len s <= j ->
    nthN (ref_set s name v b) j = nthN b j.
  Proof.
    intros Hok Hn Hj. destruct (name_ok_field name Hok) as [f [? [? [? [? [? [? [Ef [Hf _]]]]]]]]].
    unfold ref_set. rewrite Ef. pose proof (field_inside s f Hs Hf).
    (* byte j lies behind the field *)
    destruct (N.lt_ge_cases j (blen b)) as [Hjb|Hjb].
    - apply N.bits_inj. intros k. destruct (N.lt_ge_cases k 8) as [Hk|Hk].
      + pose proof (bit_at_spec_insert b (sf_first f) (sf_width f) v (8 * j + (7 - k))) as Hbit.
        unfold bit_at at 1 in Hbit. unfold byte_at in Hbit.
        replace ((8 * j + (7 - k)) / 8) with j in Hbit by lia. replace (7 - (8 * j + (7 - k)) mod 8) with k in Hbit by lia.
        rewrite N.mod_small in Hbit by (apply normal_nthN; apply normal_spec_insert). rewrite Hbit.
        replace (j <? blen b) with true by (symmetry; apply N.ltb_lt; exact Hjb).
        replace ((sf_first f <=? 8 * j + (7 - k)) && (8 * j + (7 - k) <? sf_first f + sf_width f)) with false
          by (symmetry; apply andb_false_iff; right; apply N.ltb_ge; lia).
        unfold bit_at, byte_at. replace ((8 * j + (7 - k)) / 8) with j by lia. replace (7 - (8 * j + (7 - k)) mod 8) with k by lia.
        rewrite N.mod_small by (apply normal_nthN; exact Hn). reflexivity.
      + rewrite !Host.small_testbit_high; try exact Hk; [reflexivity|apply normal_nthN; exact Hn|apply normal_nthN; apply normal_spec_insert].
    - unfold nthN. rewrite !nth_overflow; [reflexivity|unfold blen in Hjb; lia|rewrite length_spec_insert; unfold blen in Hjb; lia].
  Qed.
  (* a header field is not affected by an update behind the header *)
  Lemma ref_get_upd_far name b a xs : name_ok s name = true -> sp_hdr_len s <= a -> a + N.of_nat (List.length xs) <= blen b ->
    ref_get s name (upd b a xs) = ref_get s name b.
  Proof.
    intros Hok Ha Hl. destruct (name_ok_field name Hok) as [f [? [? [? [? [? [? [Ef [Hf _]]]]]]]]].
    unfold ref_get. rewrite Ef. apply spec_extract_ext. intros i Hi.
    unfold bit_at. rewrite byte_at_upd by exact Hl. pose proof (field_inside s f Hs Hf).
    replace ((a <=? i / 8) && (i / 8 <? a + N.of_nat (List.length xs))) with false; [reflexivity|].
    symmetry. apply andb_false_iff. left. apply N.leb_gt. apply N.div_lt_upper_bound; lia.
  Qed.

  Definition ref_covers (name:string) (i:N) : bool :=
    match find_sfield (sp_fields s) name with Some f => covers f i | None => false end.
  Lemma bit_ref_set_outside name v b i : ref_covers name i = false -> bit_at (ref_set s name v b) i = bit_at b i.
  Proof.
    unfold ref_covers, ref_set. destruct (find_sfield (sp_fields s) name) as [f|]; [|reflexivity]. intros Hc.
    rewrite bit_at_spec_insert. unfold covers in Hc. rewrite Hc.
    destruct (N.ltb_spec (i / 8) (blen b)) as [H|H]; [reflexivity|]. symmetry. apply bit_at_oob. exact H.
  Qed.
End Ops.
