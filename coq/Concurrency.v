(* Re-entrancy (C16): operations that touch only the object they are given commute, and each returns
   what it returns when run alone - for every order in which non-conflicting operations are executed. *)
From Coq Require Import List Arith Bool Lia Permutation.
Import ListNotations.

Section Conc.
  Variable obj : Type.            (* content of one object (a PDU buffer, a result object) *)
  Variable res : Type.

  (* a library call: it is given object [tgt]; a writer replaces its content, a reader only looks *)
  Inductive op :=
  | Wr (tgt:nat) (f:obj -> obj * res)
  | Rd (tgt:nat) (g:obj -> res).
  Definition target (o:op) : nat := match o with Wr k _ => k | Rd k _ => k end.
  Definition is_write (o:op) : bool := match o with Wr _ _ => true | Rd _ _ => false end.
  (* data race in the sense of the C11 memory model, at object granularity: same object, at least one writer *)
  Definition conflict (a b:op) : Prop := target a = target b /\ (is_write a = true \/ is_write b = true).

  Definition mem := nat -> obj.
  Definition upd (m:mem) (k:nat) (v:obj) : mem := fun j => if Nat.eqb j k then v else m j.
  Definition step (m:mem) (o:op) : mem * res :=
    match o with
    | Wr k f => let (v, r) := f (m k) in (upd m k v, r)
    | Rd k g => (m, g (m k))
    end.
  (* what an operation returns / leaves when it runs alone on the initial memory *)
  Definition alone (m0:mem) (o:op) : res := snd (step m0 o).

  Fixpoint run (m:mem) (ops:list op) : mem * list res :=
    match ops with
    | [] => (m, [])
    | o :: r => let (m1, x) := step m o in let (m2, xs) := run m1 r in (m2, x :: xs)
    end.

  Fixpoint pairwise (P:op -> op -> Prop) (l:list op) : Prop :=
    match l with [] => True | a :: r => Forall (P a) r /\ pairwise P r end.
  Definition race_free (l:list op) : Prop := pairwise (fun a b => ~ conflict a b) l.

  Lemma step_other m o j : j <> target o -> fst (step m o) j = m j.
  Proof.
    destruct o as [k f|k g]; cbn [step target]; intros H; [|reflexivity].
    destruct (f (m k)) as [v r]. cbn [fst]. unfold upd. destruct (Nat.eqb_spec j k); [contradiction|reflexivity].
  Qed.
  Lemma step_read_only m o : is_write o = false -> forall j, fst (step m o) j = m j.
  Proof. destruct o; cbn; [discriminate|reflexivity]. Qed.
  Lemma step_result_ext m m' o : m (target o) = m' (target o) -> snd (step m o) = snd (step m' o).
  Proof.
    destruct o as [k f|k g]; cbn [step target]; intros H; rewrite H; [destruct (f (m' k)); reflexivity|reflexivity].
  Qed.

  (* running a race-free list: every operation returns what it returns alone on the initial memory *)
  Lemma run_results : forall ops m0, race_free ops -> snd (run m0 ops) = map (alone m0) ops.
  Proof.
    induction ops as [|o r IH]; intros m0 Hrf; [reflexivity|]. cbn [run map]. destruct Hrf as [Hall Hr].
    destruct (step m0 o) as [m1 x] eqn:Es. destruct (run m1 r) as [m2 xs] eqn:Er. cbn [snd]. f_equal.
    - unfold alone. rewrite Es. reflexivity.
    - specialize (IH m1 Hr). rewrite Er in IH. cbn [snd] in IH. rewrite IH.
      apply map_ext_in. intros p Hp. unfold alone. apply step_result_ext.
      rewrite Forall_forall in Hall. specialize (Hall p Hp).
      (* p does not conflict with o: either different objects, or both only read *)
      destruct (Nat.eq_dec (target p) (target o)) as [He|Hne].
      + assert (Hw : is_write o = false).
        { destruct (is_write o) eqn:E; [|reflexivity]. exfalso. apply Hall. split; [symmetry; exact He|left; exact E]. }
        replace m1 with (fst (step m0 o)) by (rewrite Es; reflexivity). apply step_read_only. exact Hw.
      + replace m1 with (fst (step m0 o)) by (rewrite Es; reflexivity). apply step_other. exact Hne.
  Qed.

  (* the final content of an object: written by at most one operation of a race-free list *)
  Lemma run_memory : forall ops m0 j, race_free ops ->
    fst (run m0 ops) j =
      match find (fun o => is_write o && Nat.eqb (target o) j) ops with
      | Some o => fst (step m0 o) j
      | None => m0 j
      end.
  Proof.
    induction ops as [|o r IH]; intros m0 j Hrf; [reflexivity|]. cbn [run find]. destruct Hrf as [Hall Hr].
    destruct (step m0 o) as [m1 x] eqn:Es. destruct (run m1 r) as [m2 xs] eqn:Er. cbn [fst].
    specialize (IH m1 j Hr). rewrite Er in IH. cbn [fst] in IH. rewrite IH.
    assert (Hm1 : m1 = fst (step m0 o)) by (rewrite Es; reflexivity).
    destruct (is_write o && Nat.eqb (target o) j) eqn:Eo.
    - (* o writes j: no later operation touches j as a writer *)
      apply andb_prop in Eo. destruct Eo as [Hw Ht]. apply Nat.eqb_eq in Ht.
      destruct (find (fun o0 => is_write o0 && Nat.eqb (target o0) j) r) as [p|] eqn:Ef.
      + exfalso. apply find_some in Ef. destruct Ef as [Hp Hpj]. apply andb_prop in Hpj. destruct Hpj as [_ Hpt]. apply Nat.eqb_eq in Hpt.
        rewrite Forall_forall in Hall. apply (Hall p Hp). split; [congruence|left; exact Hw].
      + rewrite Hm1. reflexivity.
    - destruct (find (fun o0 => is_write o0 && Nat.eqb (target o0) j) r) as [p|] eqn:Ef.
      + apply find_some in Ef. destruct Ef as [Hp Hpj]. apply andb_prop in Hpj. destruct Hpj as [Hpw Hpt]. apply Nat.eqb_eq in Hpt.
        (* p writes j; o does not conflict with p, so o does not touch j as far as p's input goes *)
        assert (Hsame : m1 (target p) = m0 (target p)).
        { rewrite Hm1. rewrite Forall_forall in Hall. specialize (Hall p Hp).
          destruct (Nat.eq_dec (target p) (target o)) as [He|Hne]; [|apply step_other; exact Hne].
          exfalso. apply Hall. split; [symmetry; exact He|right; exact Hpw]. }
        destruct p as [k f|k g]; [|discriminate]. cbn [step target] in *. rewrite Hsame.
        destruct (f (m0 k)) as [v r']. cbn [fst]. unfold upd. subst k. rewrite Nat.eqb_refl. reflexivity.
      + rewrite Hm1. destruct (is_write o) eqn:Ew.
        * cbn [andb] in Eo. apply Nat.eqb_neq in Eo. apply step_other. congruence.
        * apply step_read_only. exact Ew.
  Qed.

  Lemma pairwise_perm (P:op -> op -> Prop) (Hsym : forall a b, P a b -> P b a) l l' : Permutation l l' -> pairwise P l -> pairwise P l'.
  Proof.
    induction 1 as [|x l l' Hp IH|x y l|l l' l'' Hp1 IH1 Hp2 IH2]; cbn [pairwise]; intros H.
    - exact I.
    - destruct H as [Ha Hr]. split; [eapply Permutation_Forall; eauto|auto].
    - destruct H as [Hy [Hx Hr]]. inversion Hy as [|? ? Hyx Hyl]; subst. split; [constructor; [apply Hsym; exact Hyx|exact Hx]|split; assumption].
    - auto.
  Qed.
  Lemma conflict_sym a b : ~ conflict a b -> ~ conflict b a.
  Proof. unfold conflict. intros H [He Hw]. apply H. split; [congruence|tauto]. Qed.

  (* Any two executions orders of the same race-free calls end in the same memory, and every call returns the same
     result in both - namely what it returns when run alone. *)
  Theorem order_irrelevant ops ops' m0 : Permutation ops ops' -> race_free ops ->
    (forall j, fst (run m0 ops) j = fst (run m0 ops') j) /\
    snd (run m0 ops) = map (alone m0) ops /\ snd (run m0 ops') = map (alone m0) ops'.
  Proof.
    intros Hp Hrf. assert (Hrf' : race_free ops') by (eapply pairwise_perm; eauto using conflict_sym).
    split; [|split; apply run_results; assumption].
    intros j. rewrite !run_memory by assumption.
    (* the writer of j, if any, is the same operation in both orders *)
    destruct (find (fun o => is_write o && Nat.eqb (target o) j) ops) as [p|] eqn:E1;
      destruct (find (fun o => is_write o && Nat.eqb (target o) j) ops') as [q|] eqn:E2.
    - apply find_some in E1. apply find_some in E2. destruct E1 as [Hp1 Hc1]. destruct E2 as [Hq2 Hc2].
      apply andb_prop in Hc1. apply andb_prop in Hc2. destruct Hc1 as [Hw1 Ht1]. destruct Hc2 as [Hw2 Ht2].
      apply Nat.eqb_eq in Ht1, Ht2.
      assert (Hq1 : In q ops) by (eapply Permutation_in; [apply Permutation_sym; exact Hp|exact Hq2]).
      (* two writers of j in a race-free list are the same element *)
      assert (Heq : p = q).
      { clear -Hrf Hp1 Hq1 Hw1 Hw2 Ht1 Ht2. induction ops as [|a r IH]; [destruct Hp1|]. destruct Hrf as [Hall Hr].
        rewrite Forall_forall in Hall. destruct Hp1 as [->|Hp1]; destruct Hq1 as [->|Hq1]; auto.
        - exfalso. apply (Hall q Hq1). split; [congruence|left; exact Hw1].
        - exfalso. apply (Hall p Hp1). split; [congruence|left; exact Hw2]. }
      subst q. reflexivity.
    - exfalso. apply find_some in E1. destruct E1 as [Hp1 Hc1].
      apply (find_none _ _ E2 p (Permutation_in _ Hp Hp1)) in Hc1 || (rewrite (find_none _ _ E2 p (Permutation_in _ Hp Hp1)) in Hc1; discriminate).
    - exfalso. apply find_some in E2. destruct E2 as [Hq2 Hc2].
      rewrite (find_none _ _ E1 q (Permutation_in _ (Permutation_sym Hp) Hq2)) in Hc2. discriminate.
    - reflexivity.
  Qed.
End Conc.
