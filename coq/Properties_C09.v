(* C09 - VSS finalisation pads to a quadlet and records length and pad correctly. *)
From Coq Require Import List NArith String Bool.
From O1722 Require Import Bits Host FieldModel Spec SpecProofs AccModel Paths VssModel VssSpec C13Proofs C01Proofs FieldOpsProofs C09Proofs.
From O1722.Generated Require Import Tables.
Import ListNotations.
Local Open Scope N_scope.

(* Avtp_Vss_Pad (hand model VssModel.vss_pad; the pointer type the offset is added to is read from the AST on
   every run and must be a byte pointer: C09Proofs.pad_scale_one) equals the reference pad for EVERY message length
   12 <= n < 2^16, every prior content, both byte orders *)
Theorem C09_pad : forall E b n,
  let pad := (4 - n mod 4) mod 4 in
  SpecProofs.normal b -> 12 <= n -> n < 2 ^ 16 -> n + pad <= blen b ->
  vss_pad (ldqE E) (stqE E) b n = Ok (vss_pad_ref b n).
Proof. exact pad_exact. Qed.

(* the reference pad, spelled out: length field = ceil(n/4) quadlets, pad field = bytes added (0..3), exactly the
   bytes [n, n+pad) set to zero, every other header bit and every other byte literally unchanged; n up to 2044 *)
Theorem C09_pad_meaning : forall b n,
  let pad := (4 - n mod 4) mod 4 in
  let r := vss_pad_ref b n in
  SpecProofs.normal b -> 12 <= n -> n + pad <= blen b -> n + pad < 2048 ->
  List.length r = List.length b /\
  ref_get spec_Vss LEN r = (n + 3) / 4 /\
  ref_get spec_Vss PAD r = pad /\
  (forall i, i / 8 < 12 -> ref_covers spec_Vss LEN i = false -> ref_covers spec_Vss PAD i = false -> bit_at r i = bit_at b i) /\
  (forall j, n <= j < n + pad -> nthN r j = 0) /\
  (forall j, 12 <= j -> ~ (n <= j < n + pad) -> nthN r j = nthN b j).
Proof. exact pad_meaning. Qed.

(* the dedicated length accessors carry all 512 values of the 9-bit field *)
Theorem C09_length_accessors : forall E b v, SpecProofs.normal b -> 12 <= blen b -> v < 512 ->
  exists b', fsetd (ldqE E) (stqE E) spec_Vss LEN v b = Ok b' /\ fgetd (ldqE E) (stqE E) spec_Vss LEN b' = Ok v /\
             fgetf (ldqE E) (stqE E) spec_Vss LEN b' = Ok v.
Proof. exact length_accessors. Qed.

Example C09_example :
  vss_pad (ldqE LE) (stqE LE) ([0x84;0;0;0; 0;0;0;0; 0;0;0;0; 0xaa] ++ repeat 0xff 5) 13 =
  Ok ([0x84;0x04;0xc0;0; 0;0;0;0; 0;0;0;0; 0xaa; 0;0;0; 0xff;0xff]).
Proof. vm_compute. reflexivity. Qed.
