(* C01 - field reads return exactly the bits the wire format assigns to the field.
   E ranges over both host byte orders; the accessor records, tables and
   Utils.c widths (cfg) are regenerated from the sources on every run. *)
From Coq Require Import List NArith String Bool.
From O1722 Require Import Bits Host FieldModel Spec SpecProofs AccModel FormatChecks C13Proofs C01Proofs.
From O1722.Generated Require Import Tables.
Import ListNotations.
Local Open Scope N_scope.

(* the generic reader, for EVERY descriptor it accepts (offset <= 31, width <= 64), every start
   quadlet 0..255 and every buffer that contains the quadlets the field spans: the value is
   exactly the field's bits, most significant first *)
Theorem C01_generic : forall E d b,
  desc_valid d = true -> dq d <= 255 -> dextent d <= blen b ->
  get_via (ldqE E) (stqE E) (qw_get cfg) d b = Ok (spec_extract b (dfirst d) (dbits d)).
Proof. exact generic_read. Qed.

(* every named field of every format, through the by-identifier reader and through the dedicated
   getter: the complete value of the standard's bit range (no truncation by the return type) *)
Theorem C01_fields : forall E s f, In s all_specs -> In f (sp_fields s) -> getters_correct E s f.
Proof. exact fields_read. Qed.

(* meaning of the reference value: bit k of the result is wire bit first+width-1-k ... *)
Theorem C01_reference_bits : forall b first w k,
  N.testbit (spec_extract b first w) k = (k <? w) && bit_at b (first + w - 1 - k).
Proof. exact spec_extract_testbit. Qed.
(* ... so the result depends on no other bit of the buffer *)
Theorem C01_independent : forall b b' first w,
  (forall i, first <= i < first + w -> bit_at b i = bit_at b' i) ->
  spec_extract b first w = spec_extract b' first w.
Proof. exact spec_extract_ext. Qed.

(* non-vacuity: the CAN identifier of a concrete header *)
Example C01_example :
  exists g, find_getter (u_getters u_Can) "Avtp_Can_GetCanIdentifier" = Some g /\
    run_getter (ldqE LE) (stqE LE) cfg (u_tables u_Can) g
      (Some [2;4;0;0; 0;0;0;0; 0;0;0;0; 0xf2;0x34;0x56;0x78]) [0] = Ok 0x12345678.
Proof. eexists. split; [reflexivity|]. vm_compute. reflexivity. Qed.
