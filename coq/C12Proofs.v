(* C11 (deprecated entry points) and C12: the legacy API against the current one, over the regenerated records. *)
From Coq Require Import List NArith ZArith Bool Lia Arith String Ascii ZifyN ZifyNat ZifyBool.
From O1722 Require Import Sym Bits Host FieldModel FieldProofs Spec SpecProofs AccModel AccProofs FormatChecks
  LegacyModel LegacySpec LegacyProofs NormalProofs C13Proofs C01Proofs.
From O1722.Generated Require Import Tables.
Import ListNotations.
Local Open Scope N_scope.

Fixpoint legacy_of (lu:list (string * list legacy)) (src:string) : list legacy :=
  match lu with
  | [] => []
  | (s, ls) :: r => if String.eqb s src then ls else legacy_of r src
  end.
Fixpoint macros_of (fm:list (string * list (string * N))) (src:string) : list (string * N) :=
  match fm with
  | [] => []
  | (s, ms) :: r => if String.eqb s src then ms else macros_of r src
  end.

(* the dedicated setter of a field, by enumerator name *)
Definition setter_of (s:sformat) (field:string) : string :=
  match find_sfield (sp_fields s) field with Some f => sf_setter f | None => EmptyString end.

Definition extra_setter (a:lapi) (s:sformat) : string :=
  if str_empty (la_init_field a) then EmptyString else setter_of s (la_init_field a).

(* synthetic initialiser equivalent to a res-chain init wrapper *)
Definition chain_init (name:string) (ops:list initop) : init := mkinit name true ops.

Definition init_check (u:unit_model) (t:table) (ls:list legacy) (a:lapi) (s:sformat) (l:legacy) : bool :=
  (linit_fwd_ok l s (extra_setter a s) && (str_empty (la_init_field a) || negb (str_empty (extra_setter a s))) &&
   is_some (find_init (u_inits u) (sp_init s)) && negb (str_empty (sp_init s))) ||
  match find_legacy ls (la_set a) with
  | Some lset =>
      String.eqb (l_name lset) (la_set a) && str_empty (la_init_field a) &&
      match linit_chain_ops l lset s t, canonical_header s with
      | Some ops, Some h =>
          match init_image cfg u (chain_init (l_name l) ops) (sp_hdr_len s) with
          | Some c => list_eqb c h
          | None => false
          end
      | _, _ => false
      end
  | None => false
  end.

Definition api_ok (a:lapi) : bool :=
  match find_spec all_specs (la_fmt a) with
  | None => false
  | Some s =>
    match fmt_unit all_units s with
    | None => false
    | Some (u, t) =>
      let ls := legacy_of legacy_units (sp_src s) in
      let ms := macros_of field_macros (sp_src s) in
      match find_legacy ls (la_get a) with Some l => lget_ok l s t | None => false end &&
      match find_legacy ls (la_set a) with Some l => is_some (lset_ok l s t) | None => false end &&
      (str_empty (la_init a) || match find_legacy ls (la_init a) with Some l => init_check u t ls a s l | None => false end) &&
      (* every wrapper of the unit is one of the three *)
      forallb (fun l => String.eqb (l_name l) (la_get a) || String.eqb (l_name l) (la_set a) ||
                        (negb (str_empty (la_init a)) && String.eqb (l_name l) (la_init a))) ls &&
      (* legacy field names designate the current enumerators *)
      forallb (fun p => match assoc ms (fst p), assoc (t_enum t) (snd p) with
                        | Some x, Some y => x =? y | _, _ => false end) (la_aliases a) &&
      forallb (fun e => snd e <? 2 ^ 32) (t_enum t) &&
      forallb (fun f => match assoc (t_enum t) (sf_name f), assoc (t_enum t) (sp_sentinel s) with
                        | Some i, Some m => i <? m | _, _ => false end) (sp_fields s) &&
      is_some (find_getter (u_getters u) (sp_get_field s)) && is_some (find_setter (u_setters u) (sp_set_field s))
    end
  end.

Lemma all_api_ok : forallb api_ok legacy_api = true.
Proof. vm_compute. reflexivity. Qed.

(* every unit that has legacy wrappers is described by LegacySpec.legacy_api *)
Lemma legacy_units_known :
  forallb (fun p => existsb (fun a => match find_spec all_specs (la_fmt a) with
                                      | Some s => String.eqb (sp_src s) (fst p) | None => false end) legacy_api)
          legacy_units = true.
Proof. vm_compute. reflexivity. Qed.

Lemma assoc_in (l:list (string * N)) k v : assoc l k = Some v -> In (k, v) l.
Proof.
  induction l as [|[k' v'] r IH]; cbn [assoc]; [discriminate|].
  destruct (String.eqb k' k) eqn:E; intros H.
  - apply String.eqb_eq in E. inversion H; subst. left; reflexivity.
  - right; auto.
Qed.

Section API.
  Variable E : endian.
  Notation LD := (ldqE E). Notation ST := (stqE E).

  (* what C11/C12 say about the three wrappers of one format *)
  Definition get_wrapper_ok (s:sformat) (u:unit_model) (t:table) (ls:list legacy) (name:string) : Prop :=
    exists l g maxv, find_legacy ls name = Some l /\ find_getter (u_getters u) (sp_get_field s) = Some g /\
      assoc (t_enum t) (sp_sentinel s) = Some maxv /\
      (* invalid arguments: -EINVAL, pdu and result location untouched *)
      (forall pdu f res, f < 2 ^ 32 -> is_none pdu || is_none res || (maxv <=? f) = true ->
         run_legacy LD ST cfg u ls l pdu [0; f] res = Ok (LEinval, pdu, res)) /\
      (* valid arguments: 0, pdu untouched, *val = what the current by-identifier reader returns *)
      (forall fld idx b old, In fld (sp_fields s) -> assoc (t_enum t) (sf_name fld) = Some idx ->
         sp_hdr_len s <= blen b ->
         exists v, run_getter LD ST cfg (u_tables u) g (Some b) [0; idx] = Ok v /\
                   run_legacy LD ST cfg u ls l (Some b) [0; idx] (Some old) = Ok (LOk, Some b, Some v)).

  Definition set_wrapper_ok (s:sformat) (u:unit_model) (t:table) (ls:list legacy) (name:string) : Prop :=
    exists l st maxv pw, find_legacy ls name = Some l /\ find_setter (u_setters u) (sp_set_field s) = Some st /\
      assoc (t_enum t) (sp_sentinel s) = Some maxv /\ lset_ok l s t = Some (maxv, pw) /\
      forall pdu f v, f < 2 ^ 32 -> v < 2 ^ N.of_nat pw ->
        run_legacy LD ST cfg u ls l pdu [0; f; v] None =
          if is_none pdu || (maxv <=? f) then Ok (LEinval, pdu, None)
          else match run_setter LD ST cfg (u_tables u) st pdu [0; f; v] with
               | Ok p => Ok (LOk, p, None) | OOB q => OOB q | Unmodelled => Unmodelled end.

  (* init wrappers: null -> -EINVAL; otherwise 0 and the bytes the current initialiser leaves
     (followed, for CVF, by the dedicated setter of format_subtype) *)
  Definition init_wrapper_ok (a:lapi) (s:sformat) (u:unit_model) (ls:list legacy) (name:string) : Prop :=
    exists l, find_legacy ls name = Some l /\
      ((exists i, find_init (u_inits u) (sp_init s) = Some i /\ sp_init s <> EmptyString /\
          str_empty (extra_setter a s) = str_empty (la_init_field a) /\
          (forall x, x < 2 ^ 8 -> run_legacy LD ST cfg u ls l None [0; x] None = Ok (LEinval, None, None)) /\
          forall b x, x < 2 ^ 8 ->
            run_legacy LD ST cfg u ls l (Some b) [0; x] None =
              match run_init LD ST cfg u i (Some b) with
              | Ok p1 =>
                  if str_empty (extra_setter a s) then Ok (LOk, p1, None) else
                  match find_setter (u_setters u) (extra_setter a s) with
                  | Some st => match run_setter LD ST cfg (u_tables u) st p1 [0; x] with
                               | Ok p2 => Ok (LOk, p2, None) | OOB q => OOB q | Unmodelled => Unmodelled end
                  | None => Unmodelled
                  end
              | OOB q => OOB q | Unmodelled => Unmodelled
              end)
       \/
       (exists h, canonical_header s = Some h /\ str_empty (la_init_field a) = true /\
          (forall x, x < 2 ^ 8 -> run_legacy LD ST cfg u ls l None [0; x] None = Ok (LEinval, None, None)) /\
          forall old x, x < 2 ^ 8 -> sp_hdr_len s <= blen old ->
            exists b', run_legacy LD ST cfg u ls l (Some old) [0; x] None = Ok (LOk, Some b', None) /\
                       agrees b' h old (sp_hdr_len s) /\ (SpecProofs.normal old -> SpecProofs.normal b'))).

  Definition api_correct (a:lapi) : Prop :=
    exists s u t, find_spec all_specs (la_fmt a) = Some s /\ fmt_unit all_units s = Some (u, t) /\
      let ls := legacy_of legacy_units (sp_src s) in
      get_wrapper_ok s u t ls (la_get a) /\ set_wrapper_ok s u t ls (la_set a) /\
      (la_init a <> EmptyString -> init_wrapper_ok a s u ls (la_init a)) /\
      (* legacy field names *)
      (forall old new, In (old, new) (la_aliases a) ->
         exists x, In (old, x) (macros_of field_macros (sp_src s)) /\ In (new, x) (t_enum t)) /\
      (* every field's identifier is below the bound the wrappers check *)
      (forall f idx maxv, In f (sp_fields s) -> assoc (t_enum t) (sf_name f) = Some idx ->
         assoc (t_enum t) (sp_sentinel s) = Some maxv -> idx < maxv /\ maxv < 2 ^ 32).

  Lemma find_spec_in' ss n s : find_spec ss n = Some s -> In s ss.
  Proof.
    induction ss as [|x r IH]; cbn; [discriminate|].
    destruct (String.eqb (sp_name x) n); intros H; [inversion H; auto|right; auto].
  Qed.

  Lemma api_all a : In a legacy_api -> api_correct a.
  Proof.
    intros Ha. pose proof all_api_ok as H. rewrite forallb_forall in H. specialize (H a Ha).
    unfold api_ok in H. destruct (find_spec all_specs (la_fmt a)) as [s|] eqn:Es; [|discriminate].
    destruct (fmt_unit all_units s) as [[u t]|] eqn:Eu; [|discriminate].
    cbv zeta in H. set (ls := legacy_of legacy_units (sp_src s)) in *. set (ms := macros_of field_macros (sp_src s)) in *.
    apply andb_true_iff in H. destruct H as [H Hfs]. apply andb_true_iff in H. destruct H as [H Hfg].
    apply andb_true_iff in H. destruct H as [H Hidxlt].
    apply andb_true_iff in H. destruct H as [H H32]. apply andb_true_iff in H. destruct H as [H Hal].
    apply andb_true_iff in H. destruct H as [H _]. apply andb_true_iff in H. destruct H as [H Hinit].
    apply andb_true_iff in H. destruct H as [Hget Hset].
    pose proof (find_spec_in' _ _ _ Es) as Hs.
    destruct (find_getter (u_getters u) (sp_get_field s)) as [g|] eqn:Eg; [|discriminate].
    destruct (find_setter (u_setters u) (sp_set_field s)) as [st|] eqn:Est; [|discriminate].
    exists s, u, t. split; [exact Es|]. split; [exact Eu|]. cbv zeta. fold ls. fold ms.
    assert (Hsmall : forall f idx, In f (sp_fields s) -> assoc (t_enum t) (sf_name f) = Some idx -> idx < 2 ^ 32).
    { intros f idx _ Hi. rewrite forallb_forall in H32. specialize (H32 _ (assoc_in _ _ _ Hi)). apply N.ltb_lt in H32. exact H32. }
    assert (Hreads : forall f, In f (sp_fields s) -> exists idx, assoc (t_enum t) (sf_name f) = Some idx /\
               reads_field LD ST cfg u (sp_get_field s) [0; idx] f (sp_hdr_len s)).
    { intros f Hf. destruct (fields_read E s f Hs Hf) as [u0 [t0 [idx [Hu0 [Hi [Hr _]]]]]].
      rewrite Eu in Hu0. inversion Hu0; subst u0 t0. exists idx. split; assumption. }
    split; [|split; [|split; [|split]]].
    - (* get *)
      destruct (find_legacy ls (la_get a)) as [l|] eqn:El; [|discriminate].
      destruct (lget_sound LD ST (ldqE_wire E) (stqE_wire E) cfg u ls l s t Hget Hreads Hsmall) as [maxv [Hmax [Hrej Hfwd]]].
      exists l, g, maxv. split; [exact El|]. split; [exact Eg|]. split; [exact Hmax|]. split; [exact Hrej|].
      intros fld idx b old Hin Hidx Hb.
      destruct (Hreads fld Hin) as [idx' [Hidx' [g' [Hg' Hrd]]]]. rewrite Hidx in Hidx'. inversion Hidx'; subst idx'.
      rewrite Eg in Hg'. inversion Hg'; subst g'.
      exists (spec_extract b (sf_first fld) (sf_width fld)). split; [apply Hrd; exact Hb|]. apply Hfwd; assumption.
    - (* set *)
      destruct (find_legacy ls (la_set a)) as [l|] eqn:El; [|discriminate].
      destruct (lset_ok l s t) as [[maxv pw]|] eqn:Eok; [|discriminate].
      pose proof (lset_sound LD ST cfg u ls l s t maxv pw Eok) as Hsnd.
      assert (Hmax : assoc (t_enum t) (sp_sentinel s) = Some maxv).
      { unfold lset_ok in Eok. destruct (assoc (t_enum t) (sp_sentinel s)) as [mv|]; [|discriminate].
        destruct (l_steps l) as [|[callee args| | | |] [|? ?]]; try discriminate;
          try (exfalso; destruct args as [|? [|? [|? ?]]]; discriminate).
        destruct args as [|a1 [|a2 [|? ?]]]; try discriminate.
        destruct (a_src a2) as [|i2 pw']; [discriminate|]. destruct i2 as [|[|[|?]]]; try discriminate.
        destruct (String.eqb callee (sp_set_field s) && arg_wide a1 1 32 && arg_wide a2 2 (N.of_nat pw') &&
                  guards_ok 0 mv [0; 2]%nat (l_guards l)); [|discriminate]. inversion Eok; reflexivity. }
      exists l, st, maxv, pw. split; [exact El|]. split; [exact Est|]. split; [exact Hmax|]. split; [exact Eok|].
      intros pdu f v Hf Hv. rewrite (Hsnd pdu f v Hf Hv). rewrite Est. reflexivity.
    - (* init *)
      intros Hne. apply orb_true_iff in Hinit. destruct Hinit as [Hinit|Hinit].
      { unfold str_empty in Hinit. apply String.eqb_eq in Hinit. contradiction. }
      destruct (find_legacy ls (la_init a)) as [l|] eqn:El; [|discriminate].
      exists l. split; [exact El|].
      unfold init_check in Hinit. apply orb_true_iff in Hinit. destruct Hinit as [Hfwd|Hchain].
      + apply andb_true_iff in Hfwd. destruct Hfwd as [Hfwd Hnz]. apply andb_true_iff in Hfwd. destruct Hfwd as [Hfwd Hfi].
        apply andb_true_iff in Hfwd. destruct Hfwd as [Hfwd Hse].
        pose proof (linit_fwd_sound LD ST (ldqE_wire E) (stqE_wire E) cfg u ls l s _ Hfwd) as Hsnd.
        destruct (find_init (u_inits u) (sp_init s)) as [i|] eqn:Ei; [|discriminate].
        left. exists i. split; [reflexivity|]. split.
        { intros Hc. unfold str_empty in Hnz. rewrite Hc in Hnz. discriminate. }
        split.
        { unfold extra_setter in *. destruct (str_empty (la_init_field a)) eqn:Ee; [reflexivity|].
          cbn [orb] in Hse. apply negb_true_iff in Hse. exact Hse. }
        split.
        * intros x Hx. rewrite (Hsnd None x Hx). reflexivity.
        * intros b x Hx. rewrite (Hsnd (Some b) x Hx). reflexivity.
      + destruct (find_legacy ls (la_set a)) as [lset|] eqn:Els; [|discriminate].
        apply andb_true_iff in Hchain. destruct Hchain as [Hname Hchain]. apply andb_true_iff in Hname. destruct Hname as [Hname Hnofield].
        apply String.eqb_eq in Hname.
        destruct (linit_chain_ops l lset s t) as [ops|] eqn:Eops; [|discriminate].
        destruct (canonical_header s) as [h|] eqn:Eh; [|discriminate].
        destruct (init_image cfg u (chain_init (l_name l) ops) (sp_hdr_len s)) as [c|] eqn:Eimg; [|discriminate].
        apply list_eqb_eq in Hchain. subst c.
        assert (Hfind : find_legacy ls (l_name lset) = Some lset) by (rewrite Hname; exact Els).
        pose proof (linit_chain_sound LD ST (ldqE_wire E) (stqE_wire E) cfg u ls l lset s t ops Eops Hfind) as Hch.
        pose proof (init_image_sound LD ST (ldqE_wire E) (stqE_wire E) cfg u _ _ h Eimg) as [_ Himg].
        right. exists h. split; [reflexivity|]. split; [exact Hnofield|]. split; [intros x Hx; apply (Hch x Hx)|]. intros old x Hx Hold.
        destruct (Himg old Hold) as [b' [Hr Hag]]. exists b'. split; [|split; [exact Hag|]].
        * destruct (Hch x Hx) as [_ Hrun].
          rewrite Hrun. unfold run_init, chain_init in Hr. cbn [i_ops] in Hr. rewrite Hr. reflexivity.
        * apply (run_init_normal LD ST (stqE_wire E) cfg _ _ _ _ Hr).
    - (* aliases *)
      intros old new Hin. rewrite forallb_forall in Hal. specialize (Hal _ Hin). cbn [fst snd] in Hal.
      destruct (assoc ms old) as [x|] eqn:E1; [|discriminate]. destruct (assoc (t_enum t) new) as [y|] eqn:E2; [|discriminate].
      apply N.eqb_eq in Hal. subst y. exists x. split; apply assoc_in; assumption.
    - intros f idx maxv Hf Hi Hm. rewrite forallb_forall in Hidxlt. specialize (Hidxlt f Hf). rewrite Hi, Hm in Hidxlt.
      apply N.ltb_lt in Hidxlt. split; [exact Hidxlt|].
      rewrite forallb_forall in H32. specialize (H32 _ (assoc_in _ _ _ Hm)). apply N.ltb_lt in H32. exact H32.
  Qed.
End API.

(* ---------- packed legacy structs overlay the current header types ---------- *)
Fixpoint struct_of (ss:list (string * N * list (string * N))) (tag:string) : option (N * list (string * N)) :=
  match ss with
  | [] => None
  | (t, sz, ms) :: r => if String.eqb t tag then Some (sz, ms) else struct_of r tag
  end.
Definition ends_with (s suf:string) : bool :=
  (String.length suf <=? String.length s)%nat &&
  String.eqb (substring (String.length s - String.length suf) (String.length suf) s) suf.
Definition field_by_suffix (s:sformat) (suffix:string) : option sfield :=
  find (fun f => ends_with (sf_name f) ("_FIELD_" ++ suffix)) (sp_fields s).
Fixpoint sizes_sum (tags:list string) : option N :=
  match tags with
  | [] => Some 0
  | t :: r => match struct_of legacy_structs t, sizes_sum r with
              | Some (sz, _), Some x => Some (sz + x) | _, _ => None end
  end.
Definition layout_ok (l:lstruct) : bool :=
  match sizes_sum (ls_tags l), sizes_sum (removelast (ls_tags l)), struct_of legacy_structs (last (ls_tags l) EmptyString),
        struct_of legacy_structs (hd EmptyString (ls_tags l)) with
  | Some total, Some before, Some (_, lastms), Some (_, firstms) =>
      (* payload member right behind the header *)
      match assoc lastms (ls_payload l) with Some off => before + off =? total | None => false end &&
      forallb (fun fmt =>
        match find_spec all_specs fmt with
        | Some s =>
            (sp_hdr_len s =? total) &&
            match find_type header_types (sp_type s) (sp_src s) with
            | Some ty => (ty_sizeof ty =? total) && opt_is (ty_payload_off ty) total
            | None => false
            end &&
            forallb (fun m => match assoc firstms (fst m), field_by_suffix s (snd m) with
                              | Some off, Some f => 8 * off =? sf_first f
                              | _, _ => false end) (ls_members l)
        | None => false
        end) (ls_fmts l)
  | _, _, _, _ => false
  end.
Lemma all_layouts_ok : forallb layout_ok legacy_layouts = true.
Proof. vm_compute. reflexivity. Qed.
(* every packed legacy struct of the sources is covered by LegacySpec.legacy_layouts *)
Lemma legacy_structs_known :
  forallb (fun st => existsb (fun l => existsb (String.eqb (fst (fst st))) (ls_tags l)) legacy_layouts) legacy_structs = true.
Proof. vm_compute. reflexivity. Qed.
