(* C11 - invalid arguments are rejected without side effects. *)
From Coq Require Import List NArith String Bool.
From O1722 Require Import Bits Host FieldModel Spec AccModel LegacyModel LegacySpec C13Proofs C01Proofs C11Proofs C12Proofs.
From O1722.Generated Require Import Tables.
Import ListNotations.
Local Open Scope N_scope.

(* a null PDU: EVERY getter of every unit returns 0, every setter and initialiser leaves the (null) pdu
   alone, for every value of the other parameters; the model has no other memory, so nothing is written *)
Theorem C11_null_reads : forall E u g params, In u all_units -> In g (u_getters u) ->
  run_getter (ldqE E) (stqE E) cfg (u_tables u) g None params = Ok 0.
Proof. exact null_reads. Qed.
Theorem C11_null_writes : forall E u s params, In u all_units -> In s (u_setters u) ->
  run_setter (ldqE E) (stqE E) cfg (u_tables u) s None params = Ok None.
Proof. exact null_writes. Qed.
Theorem C11_null_inits : forall E u i, In u all_units -> In i (u_inits u) ->
  run_init (ldqE E) (stqE E) cfg u i None = Ok None.
Proof. exact null_inits. Qed.

(* a field identifier outside the enumeration - EVERY 32-bit value f with MAX <= f, not only MAX itself and
   in particular 256 + k - makes the by-identifier reader return 0 and the writer leave the pdu as it is,
   whatever the pdu (null or not) and the value *)
Theorem C11_unknown_field : forall E s, In s all_specs -> rejects_unknown E s.
Proof. exact unknown_fields. Qed.

(* deprecated entry points: -EINVAL exactly for a null pdu, a null result pointer or field >= MAX, with pdu
   and result location untouched; 0 otherwise (the [get_wrapper_ok]/[set_wrapper_ok]/[init_wrapper_ok]
   parts of C12Proofs.api_correct) *)
Theorem C11_legacy : forall E a, In a legacy_api -> api_correct E a.
Proof. exact api_all. Qed.

(* non-vacuity: identifier 256 on a CAN header whose first field is non-zero *)
Example C11_example :
  exists g, find_getter (u_getters u_Can) "Avtp_Can_GetField" = Some g /\
    run_getter (ldqE LE) (stqE LE) cfg (u_tables u_Can) g (Some [0xff;0xff;0xff;0xff; 0;0;0;0; 0;0;0;0; 0;0;0;0]) [0; 256] = Ok 0 /\
    run_getter (ldqE LE) (stqE LE) cfg (u_tables u_Can) g (Some [0xff;0xff;0xff;0xff; 0;0;0;0; 0;0;0;0; 0;0;0;0]) [0; 0] = Ok 0x7f.
Proof. eexists. split; [reflexivity|]. vm_compute. split; reflexivity. Qed.
Example C11_example_legacy :
  exists l, find_legacy (legacy_of legacy_units "src/avtp/Crf.c") "avtp_crf_pdu_get" = Some l /\
    run_legacy (ldqE LE) (stqE LE) cfg u_Crf (legacy_of legacy_units "src/avtp/Crf.c") l
      (Some (repeat 0xff 20)) [0; 14] (Some 77) = Ok (LEinval, Some (repeat 0xff 20), Some 77) /\
    run_legacy (ldqE LE) (stqE LE) cfg u_Crf (legacy_of legacy_units "src/avtp/Crf.c") l
      (Some (repeat 0xff 20)) [0; 13] (Some 77) = Ok (LOk, Some (repeat 0xff 20), Some 0xffff).
Proof. eexists. split; [reflexivity|]. vm_compute. split; reflexivity. Qed.
