(* C18: the receive paths of the example listeners never leave their bounds, end, and stay alive. *)
From Coq Require Import List NArith ZArith Bool Lia Arith String.
From O1722 Require Import Sym Bits Host FieldModel FieldProofs Spec SpecProofs AccModel FormatChecks Paths CanModel VssModel
  C13Proofs C01Proofs C05Proofs FieldOpsProofs ExCan ExListeners.
From O1722.Generated Require Import Tables.
Import ListNotations.
Local Open Scope string_scope.
Local Open Scope list_scope.
Local Open Scope N_scope.

Definition survives (s:lstat) : Prop := s = XHandled \/ s = XDropped.

Lemma blen_sub b off : blen (sub b off) = blen b - off.
Proof. unfold blen, sub. rewrite skipn_length. lia. Qed.

Lemma recv_len cap old d : N.of_nat (List.length old) = cap ->
  blen (fst (recv_into cap old d)) = cap /\ snd (recv_into cap old d) <= cap /\
  snd (recv_into cap old d) <= N.of_nat (List.length d).
Proof.
  intros Hc. unfold recv_into. cbn [fst snd]. unfold blen. rewrite app_length, skipn_length, firstn_length. lia.
Qed.

Section Safe.
  Variable E : endian.
  Notation LD := (ldqE E). Notation ST := (stqE E).

  Lemma get_ok s name pdu off : In s all_specs -> name_ok s name = true -> off + sp_hdr_len s <= blen pdu ->
    get LD ST s name pdu off = Ok (ref_get s name (sub pdu off)).
  Proof.
    intros Hs Hn Hb. unfold get. apply (fgetd_exact E s Hs name _ Hn). rewrite blen_sub. lia.
  Qed.
  Lemma getf_ok s name pdu off : In s all_specs -> name_ok s name = true -> off + sp_hdr_len s <= blen pdu ->
    getf LD ST s name pdu off = Ok (ref_get s name (sub pdu off)).
  Proof.
    intros Hs Hn Hb. unfold getf. apply (fgetf_exact E s Hs name _ Hn). rewrite blen_sub. lia.
  Qed.

  Lemma cpl_ok b : 16 <= blen b -> exists v, can_payload_length LD ST cf_full b = Ok v.
  Proof.
    intros Hb. unfold can_payload_length, getf_ded. cbn [cf_len cf_pad cf_full cf_spec].
    rewrite (fgetd_exact E spec_Can) by (first [exact Hb|reflexivity|vm_compute; tauto]). cbn [Paths.bind].
    rewrite (fgetd_exact E spec_Can) by (first [exact Hb|reflexivity|vm_compute; tauto]). cbn [Paths.bind].
    eexists. reflexivity.
  Qed.

  Ltac can_get :=
    match goal with
    | |- context [get LD ST ?s ?n ?pdu ?off] =>
        rewrite (get_ok s n pdu off) by (first [reflexivity | vm_compute; tauto | cbn [sp_hdr_len spec_Can spec_AcfCommon]; lia]); cbn [lbind]
    end.

  Lemma lloop_safe fd pdu proc msg_length : blen pdu = 1500 -> proc + msg_length <= 1500 ->
    forall fuel mpb fr acc, mpb <= msg_length -> msg_length + 16 <= mpb + 16 * N.of_nat fuel ->
    survives (fst (lloop LD ST E fuel pdu fd proc msg_length mpb fr acc)).
  Proof.
    intros Hlen Hfit. induction fuel as [|k IH]; intros mpb fr acc Hle Hfuel; [lia|].
    cbn [lloop]. destruct (mpb <? msg_length) eqn:E1; cbn [negb]; [|left; reflexivity].
    apply N.ltb_lt in E1. destruct (msg_length - mpb <? 16) eqn:E2; [right; reflexivity|]. apply N.ltb_ge in E2.
    can_get. destruct (negb (_ =? 1)); [right; reflexivity|].
    can_get. can_get.
    destruct (cpl_ok (sub pdu (proc + mpb))) as [cpl Hc]; [rewrite blen_sub; lia|]. rewrite Hc. cbn [lbind].
    set (ql := ref_get spec_Can "AVTP_CAN_FIELD_ACF_MSG_LENGTH" (sub pdu (proc + mpb))).
    set (acf := (ql * 4) mod 2 ^ 16).
    set (maxp := if fd then 64 else 8).
    destruct ((acf <? 16) || (msg_length - mpb <? acf) || (acf - 16 <? cpl) || (maxp <? cpl)) eqn:E3; [right; reflexivity|].
    apply orb_false_iff in E3. destruct E3 as [E3 E3d]. apply orb_false_iff in E3. destruct E3 as [E3 E3c].
    apply orb_false_iff in E3. destruct E3 as [E3a E3b].
    apply N.ltb_ge in E3a, E3b, E3c, E3d.
    can_get. destruct ((_ =? 0) && (0x7FF <? _)); [right; reflexivity|].
    can_get.
    assert (Hcopy : (cpl <=? maxp) && (proc + mpb + 16 + cpl <=? blen pdu) = true).
    { apply andb_true_iff. split; apply N.leb_le; [exact E3d|rewrite Hlen; lia]. }
    destruct fd.
    - can_get. can_get. can_get. rewrite Hcopy. apply IH; lia.
    - rewrite Hcopy. apply IH; lia.
  Qed.

  Lemma pdu_len (cap:nat) (d stale:list N) : List.length stale = cap ->
    List.length (firstn cap d ++ skipn (List.length (firstn cap d)) stale) = cap.
  Proof. intros H. rewrite app_length, skipn_length, firstn_length. lia. Qed.

  Theorem can_listener_safe udp fd d stale : List.length stale = 1500%nat ->
    survives (fst (can_listener LD ST E udp fd d stale)).
  Proof.
    intros Hst. unfold can_listener. change (N.to_nat MAX_PDU_SIZE) with 1500%nat.
    set (d' := firstn 1500 d). set (pdu := d' ++ skipn (List.length d') stale).
    assert (Hlen : blen pdu = 1500) by (unfold blen, pdu, d'; rewrite (pdu_len 1500 d stale Hst); reflexivity).
    assert (Hres : N.of_nat (List.length d') <= 1500) by (unfold d'; rewrite firstn_length; lia).
    set (res := N.of_nat (List.length d')) in *.
    set (proc0 := if udp then 4 else 0).
    assert (Hp0 : proc0 <= 4) by (unfold proc0; destruct udp; lia).
    destruct (res <? proc0 + 12) eqn:E0; [right; reflexivity|]. apply N.ltb_ge in E0.
    assert (Hudp : exists x, (if udp then get LD ST spec_Udp "AVTP_UDP_FIELD_ENCAPSULATION_SEQ_NO" pdu 0 else Ok 0) = Ok x).
    { destruct udp; [|eexists; reflexivity]. rewrite get_ok; [eexists; reflexivity|vm_compute; tauto|reflexivity|rewrite Hlen; cbn; lia]. }
    destruct Hudp as [x Hx]. rewrite Hx. cbn [lbind].
    rewrite get_ok by (first [reflexivity|vm_compute; tauto|rewrite Hlen; cbn [sp_hdr_len spec_CommonHeader]; lia]). cbn [lbind].
    destruct (negb _); [right; reflexivity|].
    destruct (_ =? 5).
    - destruct (res <? proc0 + 24) eqn:E1; [right; reflexivity|]. apply N.ltb_ge in E1.
      rewrite get_ok by (first [reflexivity|vm_compute; tauto|rewrite Hlen; cbn [sp_hdr_len spec_Tscf]; lia]). cbn [lbind].
      destruct (res - (proc0 + 24) <? _) eqn:E2; [right; reflexivity|]. apply N.ltb_ge in E2.
      apply lloop_safe; [exact Hlen|lia|lia|]. replace (N.of_nat 2048) with 2048 by reflexivity. lia.
    - rewrite get_ok by (first [reflexivity|vm_compute; tauto|rewrite Hlen; cbn [sp_hdr_len spec_Ntscf]; lia]). cbn [lbind].
      destruct (res - (proc0 + 12) <? _) eqn:E2; [right; reflexivity|]. apply N.ltb_ge in E2.
      apply lloop_safe; [exact Hlen|lia|lia|]. replace (N.of_nat 2048) with 2048 by reflexivity. lia.
  Qed.
End Safe.
