(* C18: the receive paths of the example listeners never leave their bounds, end, and stay alive. *)
From Coq Require Import List NArith ZArith Bool Lia Arith String ZifyBool ZifyN.
Ltac Zify.zify_post_hook ::= Z.div_mod_to_equations.
From O1722 Require Import Sym Bits Host FieldModel FieldProofs Spec SpecProofs AccModel FormatChecks Paths CanModel VssModel
  C13Proofs C01Proofs C05Proofs FieldOpsProofs ExCan ExListeners.
From O1722.Generated Require Import Tables.
Import ListNotations.
Local Open Scope string_scope.
Local Open Scope list_scope.
Local Open Scope N_scope.

(* side conditions on the generated tables are decided by the virtual machine, so that Qed re-checks them the same way
   (plain conversion on these terms can take tens of minutes when the generated tables change shape) *)
Ltac nok := lazymatch goal with |- name_ok _ _ = true => vm_compute; reflexivity end.
(* membership of a format in all_specs: proved once per format (normalising all 23 reference layouts costs ~10 s each time) *)
Ltac in_specs := unfold all_specs; repeat (first [left; reflexivity | right]).
Lemma in_CommonHeader : In spec_CommonHeader all_specs. Proof. in_specs. Qed.
Lemma in_Udp : In spec_Udp all_specs. Proof. in_specs. Qed.
Lemma in_AcfCommon : In spec_AcfCommon all_specs. Proof. in_specs. Qed.
Lemma in_Can : In spec_Can all_specs. Proof. in_specs. Qed.
Lemma in_Tscf : In spec_Tscf all_specs. Proof. in_specs. Qed.
Lemma in_Ntscf : In spec_Ntscf all_specs. Proof. in_specs. Qed.
Lemma in_Gpc : In spec_Gpc all_specs. Proof. in_specs. Qed.
Lemma in_Vss : In spec_Vss all_specs. Proof. in_specs. Qed.
Lemma in_Pcm : In spec_Pcm all_specs. Proof. in_specs. Qed.
Lemma in_Cvf : In spec_Cvf all_specs. Proof. in_specs. Qed.
Lemma in_Crf : In spec_Crf all_specs. Proof. in_specs. Qed.
Ltac inspec := lazymatch goal with |- In _ all_specs =>
  first [exact in_Can | exact in_AcfCommon | exact in_CommonHeader | exact in_Udp | exact in_Tscf | exact in_Ntscf | exact in_Gpc | exact in_Vss
        | exact in_Pcm | exact in_Cvf | exact in_Crf] end.
Ltac eqrefl := lazymatch goal with |- _ = _ => reflexivity | |- _ <> _ => discriminate end.

Definition survives (s:lstat) : Prop := s = XHandled \/ s = XDropped.

Lemma blen_sub b off : blen (sub b off) = blen b - off.
Proof. unfold blen, sub. rewrite skipn_length. lia. Qed.

Lemma recv_len cap old d : N.of_nat (List.length old) = cap ->
  blen (fst (recv_into cap old d)) = cap /\ snd (recv_into cap old d) <= cap /\
  snd (recv_into cap old d) <= N.of_nat (List.length d).
Proof.
  intros Hc. unfold recv_into. cbn [fst snd]. unfold blen. rewrite app_length, skipn_length, firstn_length. lia.
Qed.

Lemma runs_safe {S:Type} (step:S -> list N -> lstat * S) (Inv:S -> Prop) :
  (forall st d, Inv st -> survives (fst (step st d)) /\ Inv (snd (step st d))) ->
  forall ds st, Inv st -> Forall survives (fst (runs step st ds)) /\ Inv (snd (runs step st ds)).
Proof.
  intros Hstep. induction ds as [|d r IH]; intros st Hinv; cbn [runs]; [split; [constructor|exact Hinv]|].
  destruct (Hstep st d Hinv) as [Hs Hi]. destruct (step st d) as [s st']. cbn [fst snd] in Hs, Hi.
  specialize (IH st' Hi). destruct (runs step st' r) as [ss stf]. cbn [fst snd] in *. destruct IH as [H1 H2].
  split; [constructor; assumption|exact H2].
Qed.

Section Safe.
  Variable E : endian.
  Notation LD := (ldqE E). Notation ST := (stqE E).

  Lemma get_ok s name pdu off : In s all_specs -> name_ok s name = true -> off + sp_hdr_len s <= blen pdu ->
    get LD ST s name pdu off = Ok (ref_get s name (sub pdu off)).
  Proof.
    intros Hs Hn Hb. unfold get. apply (fgetd_exact E s Hs name _ Hn). rewrite blen_sub. lia.
  Qed.
  Lemma getf_ok s name pdu off : In s all_specs -> name_ok s name = true -> off + sp_hdr_len s <= blen pdu ->
    getf LD ST s name pdu off = Ok (ref_get s name (sub pdu off)).
  Proof.
    intros Hs Hn Hb. unfold getf. apply (fgetf_exact E s Hs name _ Hn). rewrite blen_sub. lia.
  Qed.

  Lemma cpl_ok b : 16 <= blen b -> exists v, can_payload_length LD ST cf_full b = Ok v.
  Proof.
    intros Hb. unfold can_payload_length, getf_ded. cbn [cf_len cf_pad cf_full cf_spec].
    rewrite (fgetd_exact E spec_Can) by (first [exact Hb | nok | inspec]). cbn [Paths.bind].
    rewrite (fgetd_exact E spec_Can) by (first [exact Hb | nok | inspec]). cbn [Paths.bind].
    eexists. reflexivity.
  Qed.

  Ltac can_get :=
    match goal with
    | |- context [get LD ST ?s ?n ?pdu ?off] =>
        rewrite (get_ok s n pdu off) by (first [nok | inspec | cbn [sp_hdr_len spec_Can spec_AcfCommon]; lia]); cbn [lbind]
    end.

  Lemma lloop_safe fd pdu proc msg_length : blen pdu = 1500 -> proc + msg_length <= 1500 ->
    forall fuel mpb fr acc, mpb <= msg_length -> msg_length + 16 <= mpb + 16 * N.of_nat fuel ->
    survives (fst (lloop LD ST E fuel pdu fd proc msg_length mpb fr acc)).
  Proof.
    intros Hlen Hfit. induction fuel as [|k IH]; intros mpb fr acc Hle Hfuel; [lia|].
    cbn [lloop]. destruct (mpb <? msg_length) eqn:E1; cbn [negb]; [|left; reflexivity].
    apply N.ltb_lt in E1. destruct (msg_length - mpb <? 16) eqn:E2; [right; reflexivity|]. apply N.ltb_ge in E2.
    can_get. destruct (negb (_ =? 1)); [right; reflexivity|].
    can_get. can_get.
    destruct (cpl_ok (sub pdu (proc + mpb))) as [cpl Hc]; [rewrite blen_sub; lia|]. rewrite Hc. cbn [lbind].
    set (ql := ref_get spec_Can "AVTP_CAN_FIELD_ACF_MSG_LENGTH" (sub pdu (proc + mpb))).
    set (acf := (ql * 4) mod 2 ^ 16).
    set (maxp := if fd then 64 else 8).
    destruct ((acf <? 16) || (msg_length - mpb <? acf) || (acf - 16 <? cpl) || (maxp <? cpl)) eqn:E3; [right; reflexivity|].
    apply orb_false_iff in E3. destruct E3 as [E3 E3d]. apply orb_false_iff in E3. destruct E3 as [E3 E3c].
    apply orb_false_iff in E3. destruct E3 as [E3a E3b].
    apply N.ltb_ge in E3a, E3b, E3c, E3d.
    can_get. destruct ((_ =? 0) && (0x7FF <? _)); [right; reflexivity|].
    can_get.
    assert (Hcopy : (cpl <=? maxp) && (proc + mpb + 16 + cpl <=? blen pdu) = true).
    { apply andb_true_iff. split; apply N.leb_le; [exact E3d|rewrite Hlen; lia]. }
    destruct fd.
    - can_get. can_get. can_get. rewrite Hcopy. apply IH; lia.
    - rewrite Hcopy. apply IH; lia.
  Qed.

  Lemma pdu_len (cap:nat) (d stale:list N) : List.length stale = cap ->
    List.length (firstn cap d ++ skipn (List.length (firstn cap d)) stale) = cap.
  Proof. intros H. rewrite app_length, skipn_length, firstn_length. lia. Qed.

  Theorem can_listener_safe udp fd d stale : List.length stale = 1500%nat ->
    survives (fst (can_listener LD ST E udp fd d stale)).
  Proof.
    intros Hst. unfold can_listener. change (N.to_nat MAX_PDU_SIZE) with 1500%nat.
    set (d' := firstn 1500 d). set (pdu := d' ++ skipn (List.length d') stale).
    assert (Hlen : blen pdu = 1500) by (unfold blen, pdu, d'; rewrite (pdu_len 1500 d stale Hst); reflexivity).
    assert (Hres : N.of_nat (List.length d') <= 1500) by (unfold d'; rewrite firstn_length; lia).
    set (res := N.of_nat (List.length d')) in *.
    set (proc0 := if udp then 4 else 0).
    assert (Hp0 : proc0 <= 4) by (unfold proc0; destruct udp; lia).
    destruct (res <? proc0 + 12) eqn:E0; [right; reflexivity|]. apply N.ltb_ge in E0.
    assert (Hudp : exists x, (if udp then get LD ST spec_Udp "AVTP_UDP_FIELD_ENCAPSULATION_SEQ_NO" pdu 0 else Ok 0) = Ok x).
    { destruct udp; [|eexists; reflexivity]. rewrite get_ok; [eexists; reflexivity|inspec|nok|rewrite Hlen; cbn; lia]. }
    destruct Hudp as [x Hx]. rewrite Hx. cbn [lbind].
    rewrite get_ok by (first [nok | inspec | rewrite Hlen; cbn [sp_hdr_len spec_CommonHeader]; lia]). cbn [lbind].
    destruct (negb _); [right; reflexivity|].
    destruct (_ =? 5).
    - destruct (res <? proc0 + 24) eqn:E1; [right; reflexivity|]. apply N.ltb_ge in E1.
      rewrite get_ok by (first [nok | inspec | rewrite Hlen; cbn [sp_hdr_len spec_Tscf]; lia]). cbn [lbind].
      destruct (res - (proc0 + 24) <? _) eqn:E2; [right; reflexivity|]. apply N.ltb_ge in E2.
      apply lloop_safe; [exact Hlen|lia|lia|]. replace (N.of_nat 2048) with 2048 by reflexivity. lia.
    - rewrite get_ok by (first [nok | inspec | rewrite Hlen; cbn [sp_hdr_len spec_Ntscf]; lia]). cbn [lbind].
      destruct (res - (proc0 + 12) <? _) eqn:E2; [right; reflexivity|]. apply N.ltb_ge in E2.
      apply lloop_safe; [exact Hlen|lia|lia|]. replace (N.of_nat 2048) with 2048 by reflexivity. lia.
  Qed.

  (* ---------- hello-world and ACF-VSS: common prefix ---------- *)
  Lemma cf_prefix_ok {R} udp pdu (fail:lstat -> R) (k:N -> R) : blen pdu = 1500 ->
    exists proc, (proc = 12 \/ proc = 16 \/ proc = 24 \/ proc = 28) /\ cf_prefix LD ST udp pdu fail k = k proc.
  Proof.
    intros Hlen. unfold cf_prefix.
    assert (Hudp : exists x, (if udp then get LD ST spec_Udp "AVTP_UDP_FIELD_ENCAPSULATION_SEQ_NO" pdu 0 else Ok 0) = Ok x).
    { destruct udp; [|eexists; reflexivity]. rewrite get_ok; [eexists; reflexivity|inspec|nok|rewrite Hlen; cbn; lia]. }
    destruct Hudp as [x Hx]. rewrite Hx. cbn [xbind].
    assert (Hp0 : (if udp then 4 else 0) <= 4) by (destruct udp; lia).
    rewrite get_ok by (first [nok | inspec | rewrite Hlen; cbn [sp_hdr_len spec_CommonHeader]; lia]). cbn [xbind].
    destruct (_ =? 5).
    - rewrite get_ok by (first [nok | inspec | rewrite Hlen; cbn [sp_hdr_len spec_Tscf]; lia]). cbn [xbind].
      eexists. split; [|reflexivity]. destruct udp; lia.
    - rewrite get_ok by (first [nok | inspec | rewrite Hlen; cbn [sp_hdr_len spec_Ntscf]; lia]). cbn [xbind].
      eexists. split; [|reflexivity]. destruct udp; lia.
  Qed.

  Theorem hello_safe udp old d : List.length old = 1500%nat ->
    survives (fst (fst (hello_recv LD ST udp old d))) /\ List.length (snd (hello_recv LD ST udp old d)) = 1500%nat.
  Proof.
    intros Hold. unfold hello_recv.
    destruct (recv_len MAX_PDU_SIZE old d) as [Hlen [Hres _]]; [rewrite Hold; reflexivity|].
    destruct (recv_into MAX_PDU_SIZE old d) as [pdu res] eqn:Er. cbn [fst snd] in Hlen, Hres. change MAX_PDU_SIZE with 1500 in *.
    assert (HL : List.length pdu = 1500%nat) by (unfold blen in Hlen; lia).
    match goal with |- context [cf_prefix LD ST udp pdu ?f ?k] => destruct (cf_prefix_ok udp pdu f k Hlen) as [proc [Hproc Hk]]; rewrite Hk end.
    destruct (res <? proc + 8) eqn:E1; [split; [right; reflexivity|exact HL]|]. apply N.ltb_ge in E1.
    rewrite get_ok by (first [nok | inspec | rewrite Hlen; cbn [sp_hdr_len spec_AcfCommon]; lia]). cbn [xbind].
    destruct (negb _); [split; [right; reflexivity|exact HL]|].
    rewrite get_ok by (first [nok | inspec | rewrite Hlen; cbn [sp_hdr_len spec_Gpc]; lia]). cbn [xbind].
    rewrite get_ok by (first [nok | inspec | rewrite Hlen; cbn [sp_hdr_len spec_Gpc]; lia]). cbn [xbind].
    match goal with |- context [if ?c then _ else _] => destruct c eqn:E2 end; [|split; [left; reflexivity|exact HL]].
    apply andb_true_iff in E2. destruct E2 as [_ E2]. apply N.leb_le in E2.
    match goal with |- context [if ?c then _ else _] => replace c with true by (symmetry; apply N.leb_le; lia) end.
    split; [left; reflexivity|exact HL].
  Qed.

  (* ---------- ACF-VSS ---------- *)
  Lemma addr_mode_ok m : 12 <= blen m -> addr_mode LD ST m = Ok (ref_get spec_Vss "AVTP_VSS_FIELD_ADDR_MODE" m).
  Proof. intros H. unfold addr_mode. apply (fgetd_exact E spec_Vss); [inspec|nok|exact H]. Qed.
  Lemma datatype_ok m : 12 <= blen m -> datatype LD ST m = Ok (ref_get spec_Vss "AVTP_VSS_FIELD_VSS_DATATYPE" m).
  Proof. intros H. unfold datatype. apply (fgetd_exact E spec_Vss); [inspec|nok|exact H]. Qed.
  Lemma ld_ok w m a : a + N.of_nat (wbytes w) <= blen m -> ld (ldwE E) w m a = Ok (ldwE E w m a).
  Proof. intros H. unfold ld. replace (a + N.of_nat (wbytes w) <=? blen m) with true by (symmetry; apply N.leb_le; exact H). reflexivity. Qed.
  Lemma ld16_lt m a : ldwE E W16 m a < 2 ^ 16.
  Proof. rewrite ldwE_wire. pose proof (be_of_lt (slice m a (wbytes W16))) as H. rewrite length_slice in H. exact H. Qed.

  Definition okres {A} (r:lstat * A * buf) : Prop := survives (fst (fst r)) /\ List.length (snd r) = 1500%nat.
  Lemma okres_dropped {A} (x:A) pdu : List.length pdu = 1500%nat -> okres (XDropped, x, pdu).
  Proof. intros H. split; [right; reflexivity|exact H]. Qed.
  Lemma okres_handled {A} (x:A) pdu : List.length pdu = 1500%nat -> okres (XHandled, x, pdu).
  Proof. intros H. split; [left; reflexivity|exact H]. Qed.

  Theorem vss_safe udp old d : List.length old = 1500%nat -> okres (vss_recv (ldwE E) LD ST udp old d).
  Proof.
    intros Hold. unfold vss_recv.
    destruct (recv_len MAX_PDU_SIZE old d) as [Hlen [Hres _]]; [rewrite Hold; reflexivity|].
    destruct (recv_into MAX_PDU_SIZE old d) as [pdu res] eqn:Er. cbn [fst snd] in Hlen, Hres. change MAX_PDU_SIZE with 1500 in *.
    assert (HL : List.length pdu = 1500%nat) by (unfold blen in Hlen; lia).
    match goal with |- context [cf_prefix LD ST udp pdu ?f ?k] => destruct (cf_prefix_ok udp pdu f k Hlen) as [proc [Hproc Hk]]; rewrite Hk end.
    destruct (res <? proc + 14) eqn:E1; [apply okres_dropped; exact HL|]. apply N.ltb_ge in E1.
    rewrite get_ok by (first [nok | inspec | rewrite Hlen; cbn [sp_hdr_len spec_AcfCommon]; lia]). cbn [xbind].
    destruct (negb _); [apply okres_dropped; exact HL|].
    set (m := sub pdu proc).
    assert (Hm : blen m = 1500 - proc) by (unfold m; rewrite blen_sub, Hlen; reflexivity).
    rewrite addr_mode_ok by lia. cbn [xbind].
    set (mode := ref_get spec_Vss "AVTP_VSS_FIELD_ADDR_MODE" m).
    unfold vss_calc_path_len at 1. rewrite addr_mode_ok by lia. fold mode. cbn [Paths.bind].
    destruct (mode =? 1) eqn:M1.
    - (* static id *)
      cbn [xbind]. destruct (res <? proc + (12 + 4)) eqn:E2; [apply okres_dropped; exact HL|]. apply N.ltb_ge in E2.
      replace (mode =? 0) with false by (apply N.eqb_eq in M1; rewrite M1; reflexivity). cbn [andb].
      unfold vss_get_path. rewrite addr_mode_ok by lia. fold mode. cbn [Paths.bind]. rewrite M1.
      rewrite ld_ok by (cbn [wbytes]; unfold VHDR; lia). cbn [Paths.bind xbind].
      rewrite datatype_ok by lia. cbn [xbind].
      match goal with |- context [if ?c then _ else _] => destruct c eqn:E3 end; [|apply okres_handled; exact HL].
      apply andb_true_iff in E3. destruct E3 as [E3 E4]. apply N.eqb_eq in E3. apply N.leb_le in E4.
      unfold vss_get_data, vss_calc_path_len. rewrite addr_mode_ok by lia. fold mode. cbn [Paths.bind]. rewrite M1. cbn [Paths.bind].
      rewrite datatype_ok by lia. cbn [Paths.bind]. rewrite E3.
      match goal with |- context [vss_kind 9] => replace (vss_kind 9) with (KS (WW W32)) by reflexivity end.
      rewrite ld_ok by (cbn [wbytes]; unfold VHDR; lia). cbn [Paths.bind xbind].
      apply okres_handled; exact HL.
    - destruct (mode =? 0) eqn:M0.
      + (* interop *)
        rewrite ld_ok by (cbn [wbytes]; unfold VHDR; lia). cbn [Paths.bind xbind].
        set (l := ldwE E W16 m VHDR). pose proof (ld16_lt m VHDR) as Hl. fold l in Hl.
        destruct (res <? proc + (12 + (l + 2) mod 2 ^ 16)) eqn:E2; [apply okres_dropped; exact HL|]. apply N.ltb_ge in E2.
        cbn [andb]. destruct (12 + (l + 2) mod 2 ^ 16 <? 14) eqn:E5; [apply okres_dropped; exact HL|]. apply N.ltb_ge in E5.
        assert (Hnw : (l + 2) mod 2 ^ 16 = l + 2).
        { destruct (N.lt_ge_cases (l + 2) (2 ^ 16)) as [H|H]; [apply N.mod_small; exact H|].
          exfalso. assert ((l + 2) mod 2 ^ 16 = l + 2 - 2 ^ 16); [|lia].
          symmetry. apply (N.mod_unique _ _ 1); lia. }
        rewrite Hnw in *.
        unfold vss_get_path. rewrite addr_mode_ok by lia. fold mode. cbn [Paths.bind]. rewrite M1, M0.
        rewrite ld_ok by (cbn [wbytes]; unfold VHDR; lia). cbn [Paths.bind]. fold l.
        unfold cpy_out. replace ((VHDR + 2 + l <=? blen m) && (l <=? 1500)) with true
          by (symmetry; apply andb_true_iff; split; apply N.leb_le; unfold VHDR; lia).
        cbn [Paths.bind xbind].
        rewrite datatype_ok by lia. cbn [xbind].
        match goal with |- context [if ?c then _ else _] => destruct c eqn:E3 end; [|apply okres_handled; exact HL].
        apply andb_true_iff in E3. destruct E3 as [E3 E4]. apply N.eqb_eq in E3. apply N.leb_le in E4.
        unfold vss_get_data, vss_calc_path_len. rewrite addr_mode_ok by lia. fold mode. cbn [Paths.bind]. rewrite M1, M0.
        rewrite ld_ok by (cbn [wbytes]; unfold VHDR; lia). cbn [Paths.bind]. fold l. rewrite Hnw.
        rewrite datatype_ok by lia. cbn [Paths.bind]. rewrite E3.
        match goal with |- context [vss_kind 9] => replace (vss_kind 9) with (KS (WW W32)) by reflexivity end.
        rewrite ld_ok by (cbn [wbytes]; unfold VHDR; lia). cbn [Paths.bind xbind].
        apply okres_handled; exact HL.
      + (* reserved modes *)
        cbn [xbind]. destruct (res <? proc + (12 + 0)) eqn:E2; [apply okres_dropped; exact HL|]. apply N.ltb_ge in E2.
        cbn [andb]. unfold vss_get_path. rewrite addr_mode_ok by lia. fold mode. cbn [Paths.bind]. rewrite M1, M0. cbn [xbind].
        rewrite datatype_ok by lia. cbn [xbind].
        match goal with |- context [if ?c then _ else _] => destruct c eqn:E3 end; [|apply okres_handled; exact HL].
        apply andb_true_iff in E3. destruct E3 as [E3 E4]. apply N.eqb_eq in E3. apply N.leb_le in E4.
        unfold vss_get_data, vss_calc_path_len. rewrite addr_mode_ok by lia. fold mode. cbn [Paths.bind]. rewrite M1, M0. cbn [Paths.bind].
        rewrite datatype_ok by lia. cbn [Paths.bind]. rewrite E3.
        match goal with |- context [vss_kind 9] => replace (vss_kind 9) with (KS (WW W32)) by reflexivity end.
        rewrite ld_ok by (cbn [wbytes]; unfold VHDR; lia). cbn [Paths.bind xbind].
        apply okres_handled; exact HL.
  Qed.

  (* ---------- validation chains ---------- *)
  Definition rd_total (rd:sformat -> string -> outcome N) (cs:list vcheck) : Prop :=
    Forall (fun c => match c with Expect s n _ => exists v, rd s n = Ok v | Seq s n => exists v, rd s n = Ok v end) cs.
  Lemma validate_total rd cs : rd_total rd cs -> forall seq, exists r, validate rd cs seq = Ok r.
  Proof.
    induction 1 as [|c cs Hc _ IH]; intros seq; cbn [validate]; [eexists; reflexivity|].
    destruct c as [s n v|s n]; destruct Hc as [x Hx]; rewrite Hx; cbn [Paths.bind].
    - destruct (x =? v); [apply IH|eexists; reflexivity].
    - apply IH.
  Qed.
  Ltac rd_tot L :=
    repeat constructor; eexists;
    first [apply getf_ok | apply get_ok]; first [inspec | nok | (rewrite L; cbn; lia)].

  (* ---------- AAF ---------- *)
  Theorem aaf_safe st d : survives (fst (aaf_recv LD ST st d)).
  Proof.
    unfold aaf_recv.
    destruct (recv_len 28 (repeat 0 28%nat) d) as [Hlen _]; [reflexivity|].
    destruct (recv_into 28 (repeat 0 28%nat) d) as [pdu n]. cbn [fst snd] in Hlen.
    destruct (negb (n =? 28)); [right; reflexivity|].
    destruct (validate_total (fun s nm => getf LD ST s nm pdu 0) aaf_checks) with (seq := q_seq st) as [r Hr]; [unfold aaf_checks; rd_tot Hlen|].
    rewrite Hr. cbn [xbind]. destruct (negb (fst r)); [right; reflexivity|].
    rewrite getf_ok by (first [inspec | nok | (rewrite Hlen; cbn; lia)]). cbn [xbind]. left. reflexivity.
  Qed.

  (* ---------- CVF ---------- *)
  Theorem cvf_safe st d : survives (fst (cvf_recv LD ST st d)).
  Proof.
    unfold cvf_recv.
    destruct (recv_len CVF_PDU (repeat 1 (N.to_nat CVF_PDU)) d) as [Hlen [Hn _]]; [rewrite repeat_length; reflexivity|].
    destruct (recv_into CVF_PDU (repeat 1 (N.to_nat CVF_PDU)) d) as [pdu n]. cbn [fst snd] in Hlen, Hn. change CVF_PDU with 1428 in *.
    destruct (n <? 28) eqn:E0; [right; reflexivity|]. apply N.ltb_ge in E0.
    destruct (validate_total (fun s nm => get LD ST s nm pdu 0) cvf_checks) with (seq := q_seq st) as [r Hr]; [unfold cvf_checks; rd_tot Hlen|].
    rewrite Hr. cbn [xbind]. destruct (negb (fst r)); [right; reflexivity|].
    rewrite get_ok by (first [inspec | nok | (rewrite Hlen; cbn; lia)]). cbn [xbind].
    rewrite get_ok by (first [inspec | nok | (rewrite Hlen; cbn; lia)]). cbn [xbind].
    match goal with |- context [if ?c then _ else _] => destruct c eqn:E1 end; [right; reflexivity|].
    apply orb_false_iff in E1. destruct E1 as [E1 E2]. apply N.ltb_ge in E1, E2.
    match goal with |- context [if ?c then _ else _] => replace c with true end; [left; reflexivity|].
    symmetry. apply andb_true_iff. split; apply N.leb_le; [lia|rewrite Hlen; lia].
  Qed.
End Safe.

(* ---------- CRF: the media clock search ends, whatever the queue holds ---------- *)
Definition lt64 (t:N) : Prop := t < 2 ^ 64.
Definition dist (start t:N) : N := (t + 2 ^ 64 - start) mod 2 ^ 64.
Lemma dist_step start t : t < 2 ^ 64 -> start < 2 ^ 64 -> dist start t < 2 ^ 32 ->
  dist start ((t + 125000) mod 2 ^ 64) = dist start t + 125000.
Proof. unfold dist. intros. lia. Qed.
Lemma mod64_lt x : x mod 2 ^ 64 < 2 ^ 64.
Proof. apply N.mod_lt. discriminate. Qed.

Lemma lookup_empty avtp start : start < 2 ^ 64 -> forall fuel t lk, t < 2 ^ 64 ->
  2 ^ 32 <= dist start t + 125000 * N.of_nat fuel ->
  exists t' lk', lookup_loop fuel avtp start t [] lk = Some (t', [], lk') /\ t' < 2 ^ 64.
Proof.
  intros Hs. induction fuel as [|f IH]; intros t lk Ht Hf; cbn [lookup_loop]; change M64 with (2 ^ 64); fold (dist start t).
  - replace (dist start t <? 2 ^ 32) with false by (symmetry; apply N.ltb_ge; lia). rewrite andb_false_r. eexists _, _. split; [reflexivity|exact Ht].
  - destruct (negb (t mod 2 ^ 32 =? avtp) && (dist start t <? 2 ^ 32)) eqn:C; [|eexists _, _; split; [reflexivity|exact Ht]].
    apply andb_true_iff in C. destruct C as [_ C]. apply N.ltb_lt in C.
    cbn [get_next]. change M64 with (2 ^ 64). unfold MCLK_PERIOD.
    apply IH; [apply mod64_lt|]. rewrite dist_step by assumption. lia.
Qed.

Lemma lookup_term avtp start : start < 2 ^ 64 -> forall q fuel t lk, t < 2 ^ 64 -> Forall lt64 q ->
  N.of_nat (List.length q) + 34360 <= N.of_nat fuel ->
  exists t' q' lk', lookup_loop fuel avtp start t q lk = Some (t', q', lk') /\ t' < 2 ^ 64 /\ Forall lt64 q'.
Proof.
  intros Hs. induction q as [|x q IH]; intros fuel t lk Ht Hq Hf.
  - destruct (lookup_empty avtp start Hs fuel t lk Ht) as [t' [lk' [H1 H2]]].
    + cbn [List.length] in Hf. lia.
    + exists t', [], lk'. repeat split; [exact H1|exact H2|constructor].
  - destruct fuel as [|f]; [cbn [List.length] in Hf; lia|]. cbn [lookup_loop].
    match goal with |- context [if ?c then _ else _] => destruct c end.
    + cbn [get_next]. inversion Hq as [|? ? Hx Hq']; subst. apply IH; [exact Hx|exact Hq'|cbn [List.length] in Hf; lia].
    + exists t, (x :: q), lk. repeat split; [exact Ht|exact Hq].
Qed.

Section SafeCrf.
  Variable E : endian.
  Notation LD := (ldqE E). Notation ST := (stqE E).

  Definition cinv (c:cstate) : Prop := Forall lt64 (c_queue c) /\ c_prev c < 2 ^ 64.

  Lemma recover_inv k : forall idx ts mtt prev q, Forall lt64 q -> Forall lt64 (recover k idx ts mtt prev q).
  Proof.
    induction k as [|k IH]; intros idx ts mtt prev q Hq; cbn [recover]; [exact Hq|].
    apply IH. match goal with |- context [if ?c then _ else _] => destruct c end; [exact Hq|].
    apply Forall_app. split; [exact Hq|]. constructor; [|constructor]. unfold lt64. change M64 with (2 ^ 64). apply mod64_lt.
  Qed.

  Ltac rd_tot68 L :=
    repeat constructor; eexists;
    first [apply getf_ok | apply get_ok]; first [inspec | nok | (rewrite L; cbn; lia)].

  Lemma handle_crf_ok talker mtt pdu st : blen pdu = 68 -> cinv st ->
    exists st', handle_crf LD ST talker mtt pdu st = Ok st' /\ cinv st'.
  Proof.
    intros Hlen [Hq Hp]. unfold handle_crf.
    destruct (validate_total (fun s nm => getf LD ST s nm pdu 0) crf_checks) with (seq := c_crfseq st) as [r Hr]; [unfold crf_checks; rd_tot68 Hlen|].
    rewrite Hr. cbn [Paths.bind]. destruct (negb (fst r)); eexists; (split; [reflexivity|]); split; cbn [c_queue c_prev]; try assumption.
    apply recover_inv. exact Hq.
  Qed.

  Definition okc (r:lstat * list pevent * cstate) : Prop := survives (fst (fst r)) /\ cinv (snd r).

  Lemma handle_aaf_ok pdu st : blen pdu = 68 -> cinv st -> okc (handle_aaf LD ST pdu st).
  Proof.
    intros Hlen [Hq Hp]. unfold handle_aaf.
    destruct (validate_total (fun s nm => getf LD ST s nm pdu 0) crfaaf_checks) with (seq := c_aafseq st) as [r Hr]; [unfold crfaaf_checks; rd_tot68 Hlen|].
    rewrite Hr. cbn [xbind]. destruct (negb (fst r)); [split; [left; reflexivity|split; assumption]|].
    rewrite getf_ok by (first [inspec | nok | (rewrite Hlen; cbn; lia)]). cbn [xbind].
    set (avtp := ref_get spec_Pcm "AVTP_PCM_FIELD_AVTP_TIMESTAMP" (sub pdu 0)).
    (* the first get_next_mclk_timestamp *)
    assert (Hg : exists t0 q0 lk0, get_next (c_queue st) (c_prev st) (c_lookup st) = (t0, q0, lk0) /\ t0 < 2 ^ 64 /\ Forall lt64 q0 /\
                 (List.length q0 <= List.length (c_queue st))%nat).
    { unfold get_next. destruct (c_queue st) as [|x q] eqn:Eq.
      - eexists _, _, _. split; [reflexivity|]. change M64 with (2 ^ 64). split; [apply mod64_lt|split; [constructor|cbn; lia]].
      - inversion Hq; subst. eexists _, _, _. split; [reflexivity|]. split; [assumption|split; [assumption|cbn; lia]]. }
    destruct Hg as [t0 [q0 [lk0 [Hg [Ht0 [Hq0 Hl0]]]]]]. rewrite Hg.
    destruct (c_lookup st).
    - destruct (lookup_term avtp t0 Ht0 q0 (List.length (c_queue st) + N.to_nat 40000) t0 lk0 Ht0 Hq0) as [t' [q' [lk' [Hl [Ht' Hq']]]]].
      { rewrite Nnat.Nat2N.inj_add, Nnat.N2Nat.id. lia. }
      rewrite Hl. split; [left; reflexivity|]. split; cbn [snd c_queue c_prev]; assumption.
    - split; [left; reflexivity|]. split; cbn [snd c_queue c_prev]; assumption.
  Qed.

  Theorem crf_safe talker mtt st d : cinv st -> okc (crf_recv LD ST talker mtt st d).
  Proof.
    intros Hinv. unfold crf_recv.
    destruct (recv_len 68 (repeat 0 68%nat) d) as [Hlen _]; [reflexivity|].
    destruct (recv_into 68 (repeat 0 68%nat) d) as [pdu n]. cbn [fst snd] in Hlen.
    destruct talker.
    - destruct (negb (n =? 68)); [split; [left; reflexivity|exact Hinv]|].
      destruct (handle_crf_ok true mtt pdu st Hlen Hinv) as [st1 [H1 Hi1]]. rewrite H1. cbn [xbind].
      destruct (c_first st1); [|split; [left; reflexivity|exact Hi1]].
      destruct Hi1 as [Hq1 Hp1]. destruct (c_queue st1) as [|x q] eqn:Eq; (split; [left; reflexivity|]); split; cbn [snd c_queue c_prev]; try assumption.
      + rewrite Eq. constructor.
      + inversion Hq1; assumption.
    - destruct (negb (n =? 48) && negb (n =? 68)); [split; [left; reflexivity|exact Hinv]|].
      rewrite getf_ok by (first [inspec | nok | (rewrite Hlen; cbn; lia)]). cbn [xbind].
      destruct (_ =? 4).
      + destruct (handle_crf_ok false mtt pdu st Hlen Hinv) as [st1 [H1 Hi1]]. rewrite H1. cbn [xbind]. split; [left; reflexivity|exact Hi1].
      + destruct (_ =? 2); [apply handle_aaf_ok; assumption|split; [left; reflexivity|exact Hinv]].
  Qed.

End SafeCrf.
