(* Overlapping header views (C17): which (format, field) pairs designate the
   same wire bits.  HAND-MAINTAINED, from IEEE 1722-2016: the AVTPDU common
   header (4.4.3) is the first 12 bits of every stream format; the ACF common
   header (9.4.1) is the first quadlet of every ACF message, including the
   repository's VSS formats; the AVTP stream header (4.4.4) is shared by TSCF,
   AAF, AAF-PCM, CVF and RVF; AAF-PCM is a refinement of AAF. *)
From Coq Require Import List NArith Bool String.
From O1722 Require Import Bits Spec.
Import ListNotations.
Local Open Scope string_scope.

Definition view := (string * string)%type.       (* format name, field enumerator *)

Definition fld (prefix suffix:string) : string := prefix ++ "_FIELD_" ++ suffix.
Definition stream_fmts : list (string * string) :=
  [("Crf", "AVTP_CRF"); ("Rvf", "AVTP_RVF"); ("Aaf", "AVTP_AAF"); ("Pcm", "AVTP_PCM");
   ("Ntscf", "AVTP_NTSCF"); ("Tscf", "AVTP_TSCF"); ("Cvf", "AVTP_CVF")].
Definition acf_fmts : list (string * string) :=
  [("AcfCommon", "AVTP_ACF"); ("Can", "AVTP_CAN"); ("CanBrief", "AVTP_CAN_BRIEF"); ("FlexRay", "AVTP_FLEXRAY");
   ("Gpc", "AVTP_GPC"); ("Lin", "AVTP_LIN"); ("Most", "AVTP_MOST"); ("Sensor", "AVTP_SENSOR");
   ("SensorBrief", "AVTP_SENSOR_BRIEF"); ("Vss", "AVTP_VSS"); ("VssBrief", "AVTP_VSS_BRIEF")].
Definition hdr_fmts : list (string * string) :=
  [("Tscf", "AVTP_TSCF"); ("Aaf", "AVTP_AAF"); ("Pcm", "AVTP_PCM"); ("Cvf", "AVTP_CVF"); ("Rvf", "AVTP_RVF")].

Definition grp (fmts:list (string * string)) (suffix:string) : list view :=
  map (fun p => (fst p, fld (snd p) suffix)) fmts.

Definition view_groups : list (list view) :=
  [ ("CommonHeader", "AVTP_COMMON_HEADER_FIELD_SUBTYPE") :: grp stream_fmts "SUBTYPE";
    ("CommonHeader", "AVTP_COMMON_HEADER_FIELD_H") :: grp stream_fmts "SV";
    ("CommonHeader", "AVTP_COMMON_HEADER_FIELD_VERSION") :: grp stream_fmts "VERSION";
    grp acf_fmts "ACF_MSG_TYPE";
    grp acf_fmts "ACF_MSG_LENGTH" ] ++
  map (grp hdr_fmts) ["MR"; "TV"; "SEQUENCE_NUM"; "TU"; "STREAM_ID"; "AVTP_TIMESTAMP"; "STREAM_DATA_LENGTH"] ++
  (* the remaining stream-header fields CRF / NTSCF share with the others *)
  [ [("Crf", "AVTP_CRF_FIELD_MR"); ("Tscf", "AVTP_TSCF_FIELD_MR")];
    [("Crf", "AVTP_CRF_FIELD_SEQUENCE_NUM"); ("Tscf", "AVTP_TSCF_FIELD_SEQUENCE_NUM")];
    [("Crf", "AVTP_CRF_FIELD_STREAM_ID"); ("Ntscf", "AVTP_NTSCF_FIELD_STREAM_ID"); ("Tscf", "AVTP_TSCF_FIELD_STREAM_ID")] ] ++
  (* AAF versus AAF-PCM *)
  map (grp [("Aaf", "AVTP_AAF"); ("Pcm", "AVTP_PCM")]) ["FORMAT"; "SP"; "EVT"].


Definition view_field (ss:list sformat) (v:view) : option (sformat * sfield) :=
  match find_spec ss (fst v) with
  | Some s => match find_sfield (sp_fields s) (snd v) with Some f => Some (s, f) | None => None end
  | None => None
  end.
