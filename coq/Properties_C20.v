(* C20 - public headers can be combined freely without changing meaning.  PARTIAL: see the known pair below. *)
From Coq Require Import List String Bool.
From O1722 Require Import HeaderModel HeaderProofs.
From O1722.Generated Require Import Headers.
Import ListNotations.
Local Open Scope string_scope.

(* known finding (known_findings.json, property C20): aaf/Pcm.h defines the legacy macros AVTP_AAF_FIELD_* whose names are
   the enumerators of aaf/Aaf.h.  The full statement - all_pairs_ok all_headers (fun _ _ => false) = true - does not hold
   while that pair exists; what is proved is the statement for every selection that does not contain both. *)
Definition known_pair (a b:hunit) : bool :=
  (String.eqb (h_name a) "avtp/aaf/Aaf.h" && String.eqb (h_name b) "avtp/aaf/Pcm.h") ||
  (String.eqb (h_name a) "avtp/aaf/Pcm.h" && String.eqb (h_name b) "avtp/aaf/Aaf.h").
Definition C20_full_statement : Prop := all_pairs_ok all_headers (fun _ _ => false) = true.

(* over the header units regenerated from include/avtp/**/*.h on every run: every ordered pair of different headers - except
   the known one - is non-interfering (no macro / ordinary identifier / tag introduced by both; neither mentions a macro of
   the other without including it), and every header puts its #includes before its first definition *)
Theorem C20_pairs_partial : all_pairs_ok all_headers known_pair = true.
Proof. vm_compute. reflexivity. Qed.
Theorem C20_includes_first : forallb (fun u => negb (h_inc_late u)) all_headers = true.
Proof. vm_compute. reflexivity. Qed.
(* no header leaves compiler or preprocessor state behind that would change the meaning of headers included after it
   (structure packing that is not restored, push_macro/pop_macro, #undef of a name it did not define): the unit
   model above knows names and tokens, not layout, so this regenerated fact is what excludes layout interference *)
Theorem C20_no_state_leak : forallb (fun u => negb (h_state_leak u)) all_headers = true.
Proof. vm_compute. reflexivity. Qed.

(* ... which suffices for EVERY subset of the headers in EVERY order (any list of distinct headers closed under #include
   that does not contain the known pair): no name or tag is introduced twice, and every identifier a header mentions is
   bound - to a macro body or to nothing - exactly as when the header is included alone *)
Theorem C20_subsets_partial : forall l,
  (forall a, In a l -> In a all_headers) -> (forall a b, In a l -> In b l -> known_pair a b = false) ->
  distinct_names l -> closed all_headers l ->
  (forall a b n, In a l -> In b l -> h_name a <> h_name b ->
     (In n (introduces a) -> In n (introduces b) -> False) /\ (In n (h_tags a) -> In n (h_tags b) -> False)) /\
  (forall u t alone, In u l -> In t (uses u) ->
     (forall v, In v alone <-> In v l /\ In (h_name v) (closure_of all_headers u)) -> binding l t = binding alone t).
Proof.
  intros l Hsub Hex Hd Hc.
  pose proof (pairs_suffice all_headers known_pair l C20_pairs_partial Hsub Hex) as Hp. split.
  - intros a b n Ha Hb Hn. destruct (clash_free all_headers l a b n Hp Ha Hb Hn) as [H1 [H2 _]]. split; assumption.
  - intros u t alone Hu Ht Halone. apply (meaning_stable all_headers l u t Hd Hc Hp Hu Ht alone Halone).
Qed.

(* the refuted part, as data: the interfering pair and a name it breaks *)
Example C20_known_pair_refuted :
  non_interfering all_headers h_aaf_Aaf h_aaf_Pcm = false /\
  In "AVTP_AAF_FIELD_SV" (macro_names h_aaf_Pcm) /\ In "AVTP_AAF_FIELD_SV" (h_ordinary h_aaf_Aaf).
Proof. vm_compute. repeat split; auto 30. Qed.
