(* C07 - VSS messages are encoded exactly as the ACF-VSS description prescribes. *)
From Coq Require Import List NArith Bool.
From O1722 Require Import Bits Host FieldModel Spec SpecProofs VssModel VssSpec C13Proofs C07Proofs.
From O1722.Generated Require Import Tables.
Import ListNotations.
Local Open Scope N_scope.

(* the datatype / address-mode codes the hand-written model dispatches on are those of the regenerated enums *)
Theorem C07_datatype_codes :
  forallb (fun p => match FormatChecks.assoc enum_values (fst p) with Some v => N.eqb v (snd p) | None => false end) datatype_names = true.
Proof. exact datatype_codes_ok. Qed.

(* For either address mode, every datatype shape (scalars of 1/2/4/8 bytes incl. float/double bit patterns, strings and
   byte arrays, arrays of 2/4/8-byte elements of ANY number of elements whose byte length fits 16 bits, packed string
   arrays), every path / static id, every prior buffer content and both host byte orders: writing the path and then the
   value leaves  header ++ enc_path ++ enc_data ++ old tail  - the reference encoding of VssSpec.v (16-bit big-endian
   byte-length prefixes, big-endian elements in order), nothing else modified. *)
Theorem C07_encode : forall E b p d,
  SpecProofs.normal b -> path_ok p -> hdr_mode b = path_mode p -> data_ok (hdr_datatype b) d ->
  12 + N.of_nat (length (enc_path p)) + N.of_nat (length (enc_data d)) <= blen b ->
  exists b1, vss_set_path (stwE E) (ldqE E) (stqE E) b (to_vpath p) = Ok b1 /\
    vss_set_data (ldwE E) (stwE E) (ldqE E) (stqE E) b1 (to_vdata d) =
      Ok (firstn 12 b ++ enc_path p ++ enc_data d ++ skipn (12 + length (enc_path p) + length (enc_data d)) b).
Proof. exact encode_exact. Qed.

(* the two steps on their own *)
Theorem C07_path : forall E b p, path_ok p -> hdr_mode b = path_mode p -> 12 + N.of_nat (length (enc_path p)) <= blen b ->
  vss_set_path (stwE E) (ldqE E) (stqE E) b (to_vpath p) = Ok (upd b 12 (enc_path p)).
Proof. exact set_path_exact. Qed.
Theorem C07_data : forall E b d pl, SpecProofs.normal b -> vss_calc_path_len (ldwE E) (ldqE E) (stqE E) b = Ok pl ->
  data_ok (hdr_datatype b) d -> 12 + pl + N.of_nat (length (enc_data d)) <= blen b ->
  vss_set_data (ldwE E) (stwE E) (ldqE E) (stqE E) b (to_vdata d) = Ok (upd b (12 + pl) (enc_data d)).
Proof. exact set_data_exact. Qed.

(* reserved address modes and reserved datatype codes write nothing *)
Theorem C07_reserved_mode : forall E b p, 12 <= blen b -> hdr_mode b <> 0 -> hdr_mode b <> 1 ->
  vss_set_path (stwE E) (ldqE E) (stqE E) b p = Ok b.
Proof. exact reserved_mode. Qed.
Theorem C07_reserved_datatype : forall E b d pl, 12 <= blen b -> vss_calc_path_len (ldwE E) (ldqE E) (stqE E) b = Ok pl ->
  vss_kind (hdr_datatype b) = KN -> vss_set_data (ldwE E) (stwE E) (ldqE E) (stqE E) b d = Ok b.
Proof. exact reserved_datatype. Qed.

Example C07_example :
  let b := [0x84;0;0x00;0x84; 0;0;0;0; 0;0;0;0] ++ repeat 0xee 20 in
  exists b1, vss_set_path (stwE LE) (ldqE LE) (stqE LE) b (PInterop 2 [0x41;0x42]) = Ok b1 /\
    vss_set_data (ldwE LE) (stwE LE) (ldqE LE) (stqE LE) b1 (DElems 8 [0x01020304; 0xdeadbeef]) =
      Ok ([0x84;0;0x00;0x84; 0;0;0;0; 0;0;0;0] ++ [0;2;0x41;0x42] ++ [0;8; 1;2;3;4; 0xde;0xad;0xbe;0xef] ++ repeat 0xee 6).
Proof. eexists. split; vm_compute; reflexivity. Qed.
