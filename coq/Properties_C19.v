(* C19 - the example CAN tunnel is transparent. *)
From Coq Require Import List NArith String Bool.
From O1722 Require Import Bits Host FieldModel Spec SpecProofs Paths ExCan C13Proofs C19Proofs.
Import ListNotations.
Local Open Scope N_scope.

(* Frames as read() delivers them: can_id (identifier and EFF/RTR/ERR bits), len, flags (FD), the 8 / 64 data bytes.
   frame_ok: len <= 8 (classic) or <= 64 (FD), the data array has its size, bytes are bytes.
   sff_ok: a frame without EFF has an 11-bit identifier.
   The packet is built in pdu[1500] of the talker (ANY previous content), received into pdu[1500] of the listener
   (ANY stale content); any sequence numbers, any timestamps; both host byte orders. *)

(* Talker then listener, for UDP/raw x TSCF/NTSCF x classic/FD and ANY number of frames that fit the 1500-byte packet:
   the talker sends exactly header + messages bytes, its control header announces exactly the bytes of the ACF
   messages that follow, and the listener handles the packet and writes one frame per frame sent - frames_out: each
   with identifier/flags id_out, length, FD flags flags_out and the payload copied over the data of the previous frame. *)
Theorem C19_tunnel : forall E (udp tscf fd:bool) seq udpseq frs pdu stale,
  SpecProofs.normal pdu -> blen pdu = 1500 -> List.length stale = 1500%nat ->
  Forall (frame_ok fd) (map fst frs) -> Forall sff_ok (map fst frs) ->
  (if udp then 4 else 0) + cf_hl tscf + total_len (map fst frs) <= 1500 ->
  exists sent pdu', talker_packet (ldqE E) (stqE E) udp tscf fd seq udpseq frs pdu = Ok (sent, pdu') /\
    N.of_nat (List.length sent) = (if udp then 4 else 0) + cf_hl tscf + total_len (map fst frs) /\
    (forall rest, ref_get (cfS tscf) (cf_len_name tscf) (sub (sent ++ rest) (if udp then 4 else 0)) = total_len (map fst frs)) /\
    can_listener (ldqE E) (stqE E) E udp fd sent stale = (XHandled, frames_out E fd frame0 (map fst frs)).
Proof. exact tunnel. Qed.

(* ... and each frame written carries the identifier, the EFF and RTR bits, the length, the BRS and ESI bits and the
   data of the frame that was sent (bit 29, the error-frame marker, is not tunnelled; in FD mode FDF is set: the
   talker marks every message of an FD tunnel as FD): *)
Theorem C19_identifier_and_flags : forall fr n, N.testbit (id_out fr) n =
  if n <? 29 then N.testbit (cf_canid fr) n else if n =? 31 then N.testbit (cf_canid fr) 31 else if n =? 30 then N.testbit (cf_canid fr) 30 else false.
Proof. exact id_out_bits. Qed.
Theorem C19_fd_flags : forall fr n, N.testbit (flags_out fr) n =
  if n =? 0 then N.testbit (cf_fflags fr) 0 else if n =? 1 then N.testbit (cf_fflags fr) 1 else (n =? 2).
Proof. exact flags_out_bits. Qed.
Theorem C19_length_and_data : forall fd fs fr, frame_ok fd fr -> List.length (fs_data fs) = 64%nat -> SpecProofs.normal (fs_data fs) ->
  fs_id (next_frame fd fs fr) = id_out fr /\ fs_len (next_frame fd fs fr) = cf_flen fr /\
  fs_flags (next_frame fd fs fr) = (if fd then flags_out fr else fs_flags fs) /\
  firstn (N.to_nat (cf_flen fr)) (fs_data (next_frame fd fs fr)) = firstn (N.to_nat (cf_flen fr)) (cf_fdata fr) /\
  List.length (fs_data (next_frame fd fs fr)) = 64%nat.
Proof. intros fd fs fr H1 H2 H3. repeat split; try reflexivity; apply (next_frame_data fd fs fr H1 H2 H3). Qed.
(* the length of one message: header, payload, padding to the quadlet *)
Theorem C19_message_length : forall fr, msg_len fr = 16 + cf_flen fr + (4 - cf_flen fr mod 4) mod 4.
Proof. reflexivity. Qed.

(* non-vacuity / regression: two classic frames, one extended with a small identifier and RTR, through talker and listener *)
Example C19_example :
  let frs := [(mkcf 0x123 3 0 [0x61;0x62;0x63;0;0;0;0;0], 1000); (mkcf 0xC0000012 0 0 [0;0;0;0;0;0;0;0], 2000)] in
  match talker_packet (ldqE LE) (stqE LE) false false false 0 0 frs (repeat 0xfe 1500) with
  | Ok (sent, _) => can_listener (ldqE LE) (stqE LE) LE false false sent (repeat 0xfe 1500) =
      (XHandled, [[0x23;1;0;0; 3;0;0;0; 0x61;0x62;0x63;0;0;0;0;0]; [0x12;0;0;0xC0; 0;0;0;0; 0x61;0x62;0x63;0;0;0;0;0]])
  | _ => False
  end.
Proof. vm_compute. reflexivity. Qed.
Example C19_example_hypotheses :
  Forall (frame_ok false) [mkcf 0x123 3 0 [0x61;0x62;0x63;0;0;0;0;0]; mkcf 0xC0000012 0 0 [0;0;0;0;0;0;0;0]] /\
  Forall sff_ok [mkcf 0x123 3 0 [0x61;0x62;0x63;0;0;0;0;0]; mkcf 0xC0000012 0 0 [0;0;0;0;0;0;0;0]].
Proof.
  split; repeat constructor; cbn; try discriminate; try (intros H; vm_compute in H; discriminate); vm_compute; discriminate.
Qed.

Print Assumptions C19_tunnel.
Print Assumptions C19_identifier_and_flags.
Print Assumptions C19_fd_flags.
Print Assumptions C19_length_and_data.
