(* C19 - the example CAN tunnel is transparent. *)
From Coq Require Import List NArith String Bool.
From O1722 Require Import Bits Host FieldModel Spec ExCan C13Proofs.
Import ListNotations.
Local Open Scope N_scope.

(* non-vacuity / regression: two classic frames, one extended with a small identifier and RTR, through talker and listener *)
Example C19_example :
  let frs := [(mkcf 0x123 3 0 [0x61;0x62;0x63;0;0;0;0;0], 1000); (mkcf 0xC0000012 0 0 [0;0;0;0;0;0;0;0], 2000)] in
  match talker_packet (ldqE LE) (stqE LE) false false false 0 0 frs (repeat 0xfe 1500) with
  | Ok (sent, _) => can_listener (ldqE LE) (stqE LE) LE false false sent (repeat 0xfe 1500) =
      (XHandled, [[0x23;1;0;0; 3;0;0;0; 0x61;0x62;0x63;0;0;0;0;0]; [0x12;0;0;0xC0; 0;0;0;0; 0x61;0x62;0x63;0;0;0;0;0]])
  | _ => False
  end.
Proof. vm_compute. reflexivity. Qed.
