(* C03 - header operations touch only the declared header, whose size is the standard's. *)
From Coq Require Import List NArith String Bool.
From O1722 Require Import Bits Host FieldModel Spec SpecProofs AccModel AccProofs FormatChecks C13Proofs C01Proofs.
From O1722.Generated Require Import Tables.
Import ListNotations.
Local Open Scope N_scope.

(* published header length macro = sizeof(header type) = offsetof(payload) = wire header size,
   a whole number of quadlets (values measured by compiled probes on every run) *)
Theorem C03_sizes : forall s, In s all_specs ->
  exists t, find_type header_types (sp_type s) (sp_src s) = Some t /\
    ty_sizeof t = sp_hdr_len s /\ ty_payload_off t = Some (sp_hdr_len s) /\
    ty_len_value t = Some (sp_hdr_len s) /\ sp_hdr_len s mod 4 = 0.
Proof. exact sizes. Qed.

(* a buffer of exactly the header length is sufficient for every reader, writer ... *)
Theorem C03_exact_buffer_reads : forall E s f, In s all_specs -> In f (sp_fields s) -> getters_correct E s f.
Proof. exact fields_read. Qed.
Theorem C03_exact_buffer_writes : forall E s f, In s all_specs -> In f (sp_fields s) -> setters_correct E s f.
Proof. exact fields_written. Qed.
(* ... and initialiser (the outcome is Ok, never OOB, whenever hdr_len <= buffer length; nothing at
   or after byte hdr_len changes) *)
Theorem C03_exact_buffer_inits : forall E s, In s all_specs -> init_correct E s.
Proof. exact inits. Qed.

(* what an access outside the buffer looks like in the model: non-vacuity of the OOB outcome *)
Example C03_oob_example :
  get_via (ldqE LE) (stqE LE) (qw_get cfg) (mkdesc 1 0 8) [1;2;3;4] = OOB 1 /\
  get_via (ldqE LE) (stqE LE) (qw_get cfg) (mkdesc 0 24 8) [1;2;3;4] = Ok 4.
Proof. vm_compute. split; reflexivity. Qed.
