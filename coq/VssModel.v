(* Hand-written model of src/avtp/acf/custom/Vss.c, statement by statement:
     Avtp_Vss_Pad, Avtp_Vss_CalcVssPathLength, Avtp_Vss_SetVssPath / GetVssPath,
     Avtp_Vss_SetVssData / GetVssData, Avtp_Vss_SerializeStringArray,
     Avtp_Vss_GetVSSDataStringArrayLength, Avtp_Vss_DeserializeStringArray.
   Header fields go through the generated accessor records (Paths.fsetf / fgetd); 16/32/64-bit
   accesses into the message are typed host accesses behind Avtp_BeToCpuN / Avtp_CpuToBeN
   ([ldw] / [stw], instantiated per host byte order in Host.v).  Three facts are read from the
   AST on every run (Generated/Tables.v): the pointer type the pad offset is added to, the
   return type of the string counter, whether the unpack loop advances its index.
   Values are bit patterns: floats/doubles are the 32/64-bit patterns of their objects, signed
   integers their two's complement patterns. *)
From Coq Require Import List NArith Bool String.
From O1722 Require Import Bits Host FieldModel Spec AccModel FormatChecks Paths.
From O1722.Generated Require Import Tables.
Import ListNotations.
Local Open Scope N_scope.

Definition VHDR : N := 12.      (* AVTP_VSS_FIXED_HEADER_LEN *)

(* datatype codes of Vss.h (checked against the regenerated enumeration in the proofs) *)
Inductive vkind := KS (w:hwidth_opt) | KB | KE (w:hwidth) | KN
with hwidth_opt := W8 | WW (w:hwidth).
Definition vss_kind (dt:N) : vkind :=
  match dt with
  | 0 | 1 | 8 => KS W8
  | 2 | 3 => KS (WW W16)
  | 4 | 5 | 9 => KS (WW W32)
  | 6 | 7 | 10 => KS (WW W64)
  | 11 => KB                              (* string *)
  | 0x80 | 0x81 | 0x88 | 0x8B => KB      (* uint8[], int8[], bool[], string[] (raw) *)
  | 0x82 | 0x83 => KE W16
  | 0x84 | 0x85 | 0x89 => KE W32
  | 0x86 | 0x87 | 0x8A => KE W64
  | _ => KN
  end.
Definition datatype_names : list (string * N) :=
  [("VSS_UINT8", 0); ("VSS_INT8", 1); ("VSS_UINT16", 2); ("VSS_INT16", 3); ("VSS_UINT32", 4); ("VSS_INT32", 5);
   ("VSS_UINT64", 6); ("VSS_INT64", 7); ("VSS_BOOL", 8); ("VSS_FLOAT", 9); ("VSS_DOUBLE", 10); ("VSS_STRING", 11);
   ("VSS_UINT8_ARRAY", 0x80); ("VSS_INT8_ARRAY", 0x81); ("VSS_UINT16_ARRAY", 0x82); ("VSS_INT16_ARRAY", 0x83);
   ("VSS_UINT32_ARRAY", 0x84); ("VSS_INT32_ARRAY", 0x85); ("VSS_UINT64_ARRAY", 0x86); ("VSS_INT64_ARRAY", 0x87);
   ("VSS_BOOL_ARRAY", 0x88); ("VSS_FLOAT_ARRAY", 0x89); ("VSS_DOUBLE_ARRAY", 0x8A); ("VSS_STRING_ARRAY", 0x8B);
   ("VSS_INTEROP_MODE", 0); ("VSS_STATIC_ID_MODE", 1)]%string.

(* caller objects *)
Inductive vpath := PStatic (id:N) | PInterop (len:N) (bytes:list N).
Inductive vdata :=
| DScalar (v:N)                      (* the union member, as a bit pattern *)
| DBytes (len:N) (bytes:list N)      (* data_length and the bytes at data *)
| DElems (len:N) (elems:list N).     (* data_length (bytes) and the elements at data *)
(* what a decoder call reports / writes into the caller's objects *)
Inductive gpath := GStatic (id:N) | GInterop (len:N) (written:list N) | GPathNone.
Inductive gdata :=
| GScalar (v:N)
| GBytes (len:N) (written:option (list N))      (* None: destination pointer was NULL, nothing written *)
| GElems (len:N) (written:option (list N))
| GDataNone.

Section Vss.
  Variable ldw : hwidth -> buf -> N -> N.
  Variable stw : hwidth -> buf -> N -> N -> buf.
  Variable ldq : buf -> N -> N.
  Variable stq : buf -> N -> N -> buf.
  Notation VS := spec_Vss.

  Definition ld (w:hwidth) (b:buf) (a:N) : outcome N :=
    if a + N.of_nat (wbytes w) <=? blen b then Ok (ldw w b a) else OOB (a / 4).
  Definition st (w:hwidth) (b:buf) (a v:N) : outcome buf :=
    if a + N.of_nat (wbytes w) <=? blen b then Ok (stw w b a v) else OOB (a / 4).
  (* memcpy(b + a, src, n): src must hold n bytes *)
  Definition cpy_in (b:buf) (a:N) (src:list N) (n:N) : outcome buf :=
    if (n <=? N.of_nat (List.length src)) && (a + n <=? blen b)
    then Ok (upd b a (map (fun x => x mod 256) (firstn (N.to_nat n) src))) else OOB (a / 4).
  (* memcpy(dst, b + a, n) into a destination of [cap] bytes *)
  Definition cpy_out (b:buf) (a n cap:N) : outcome (list N) :=
    if (a + n <=? blen b) && (n <=? cap) then Ok (slice_fast b a (N.to_nat n)) else OOB (a / 4).

  (* ---------- Avtp_Vss_Pad ---------- *)
  Definition vss_pad (b:buf) (vss_length:N) : outcome buf :=
    let n := vss_length mod 2 ^ 16 in
    let padSize := ((4 - n mod 4) mod 4) mod 2 ^ 8 in
    let at_ := vss_pad_scale * n in            (* vss_pdu + vss_length: scaled by sizeof of the pointee *)
    bind (if negb (n mod 4 =? 0)
          then (if (negb (vss_pad_scale =? 0)) && (at_ + padSize <=? blen b)
                then Ok (upd b at_ (repeat 0 (N.to_nat padSize)))
                else if vss_pad_scale =? 0 then Unmodelled else OOB (at_ / 4))
          else Ok b) (fun b1 =>
      bind (fsetf ldq stq VS "AVTP_VSS_FIELD_ACF_MSG_LENGTH" ((n + padSize) / 4) b1) (fun b2 =>
        fsetf ldq stq VS "AVTP_VSS_FIELD_PAD" padSize b2)).

  (* ---------- path ---------- *)
  Definition addr_mode (b:buf) : outcome N := fgetd ldq stq VS "AVTP_VSS_FIELD_ADDR_MODE" b.
  Definition datatype (b:buf) : outcome N := fgetd ldq stq VS "AVTP_VSS_FIELD_VSS_DATATYPE" b.

  Definition vss_calc_path_len (b:buf) : outcome N :=
    bind (addr_mode b) (fun m =>
      if m =? 1 then Ok 4
      else if m =? 0 then bind (ld W16 b VHDR) (fun l => Ok ((l + 2) mod 2 ^ 16))
      else Ok 0).

  Definition vss_set_path (b:buf) (p:vpath) : outcome buf :=
    bind (addr_mode b) (fun m =>
      if m =? 1 then match p with PStatic id => st W32 b VHDR id | PInterop _ _ => Unmodelled end
      else if m =? 0 then
        match p with
        | PInterop len bytes => bind (st W16 b VHDR len) (fun b1 => cpy_in b1 (VHDR + 2) bytes (len mod 2 ^ 16))
        | PStatic _ => Unmodelled
        end
      else Ok b).

  Definition vss_get_path (b:buf) (cap:N) : outcome gpath :=
    bind (addr_mode b) (fun m =>
      if m =? 1 then bind (ld W32 b VHDR) (fun id => Ok (GStatic id))
      else if m =? 0 then bind (ld W16 b VHDR) (fun l => bind (cpy_out b (VHDR + 2) l cap) (fun w => Ok (GInterop l w)))
      else Ok GPathNone).

  (* ---------- data ---------- *)
  (* for (i = 0; i < data_length / size; i++) *((T* )(ptr + 2) + i) = CpuToBe(data[i]); *)
  Fixpoint store_elems (w:hwidth) (fuel:nat) (b:buf) (a:N) (i n:N) (elems:list N) : outcome buf :=
    if i <? n then
      match fuel with
      | O => Unmodelled
      | S f =>
        match nth_error elems (N.to_nat i) with
        | Some v => bind (st w b (a + i * N.of_nat (wbytes w)) v) (fun b' => store_elems w f b' a (i + 1) n elems)
        | None => OOB 0        (* the source array is shorter than data_length says *)
        end
      end
    else Ok b.
  Fixpoint load_elems (w:hwidth) (fuel:nat) (b:buf) (a:N) (i n cap:N) (acc:list N) : outcome (list N) :=
    if i <? n then
      match fuel with
      | O => Unmodelled
      | S f =>
        if (i + 1) * N.of_nat (wbytes w) <=? cap then
          bind (ld w b (a + i * N.of_nat (wbytes w))) (fun v => load_elems w f b a (i + 1) n cap (acc ++ [v]))
        else OOB 0           (* the destination array is shorter than the reported length *)
      end
    else Ok acc.

  Definition vss_set_data (b:buf) (d:vdata) : outcome buf :=
    bind (vss_calc_path_len b) (fun pl =>
      let a := VHDR + pl in
      bind (datatype b) (fun dt =>
        match vss_kind dt, d with
        | KS W8, DScalar v => cpy_in b a [v] 1
        | KS (WW w), DScalar v => st w b a v
        | KB, DBytes len bytes => bind (st W16 b a len) (fun b1 => cpy_in b1 (a + 2) bytes (len mod 2 ^ 16))
        | KE w, DElems len elems =>
            let l := len mod 2 ^ 16 in
            bind (st W16 b a len) (fun b1 => store_elems w (S (N.to_nat l)) b1 (a + 2) 0 (l / N.of_nat (wbytes w)) elems)
        | KN, _ => Ok b
        | _, _ => Unmodelled      (* the caller's union member does not match the datatype in the header *)
        end)).

  (* dst: None = the data pointer of the result object is NULL; Some cap = it points to cap bytes *)
  Definition vss_get_data (b:buf) (dst:option N) : outcome gdata :=
    bind (vss_calc_path_len b) (fun pl =>
      let a := VHDR + pl in
      bind (datatype b) (fun dt =>
        match vss_kind dt with
        | KS W8 => if a + 1 <=? blen b then Ok (GScalar (byte_at b a)) else OOB (a / 4)
        | KS (WW w) => bind (ld w b a) (fun v => Ok (GScalar v))
        | KB => bind (ld W16 b a) (fun l =>
                  match dst with
                  | None => Ok (GBytes l None)
                  | Some cap => bind (cpy_out b (a + 2) l cap) (fun w => Ok (GBytes l (Some w)))
                  end)
        | KE w => bind (ld W16 b a) (fun l =>
                  match dst with
                  | None => Ok (GElems l None)
                  | Some cap => bind (load_elems w (S (N.to_nat l)) b (a + 2) 0 (l / N.of_nat (wbytes w)) cap [])
                                     (fun es => Ok (GElems l (Some es)))
                  end)
        | KN => Ok GDataNone
        end)).

  (* ---------- string arrays (objects outside the PDU) ---------- *)
  (* Avtp_Vss_SerializeStringArray: strings = (data_length, bytes at data); cap = bytes available at array->data.
     Returns the recorded data_length (uint16_t running total) and the bytes written. *)
  Fixpoint pack_loop (strs:list (N * list N)) (out:buf) (pos total:N) : outcome (N * buf) :=
    match strs with
    | [] => Ok (total, out)
    | (len, bytes) :: r =>
        let l := len mod 2 ^ 16 in
        bind (st W16 out pos l) (fun o1 =>
          bind (cpy_in o1 (pos + 2) bytes l) (fun o2 =>
            pack_loop r o2 (pos + l + 2) ((total + l + 2) mod 2 ^ 16)))
    end.
  (* [out]: the memory at array->data before the call (its length is the capacity) *)
  Definition strs_pack (strs:list (N * list N)) (num:N) (out:buf) : outcome (N * buf) :=
    let n := num mod 2 ^ 16 in
    if n <=? N.of_nat (List.length strs) then pack_loop (firstn (N.to_nat n) strs) out 0 0 else OOB 0.

  (* Avtp_Vss_GetVSSDataStringArrayLength: data = the memory at array->data *)
  Fixpoint count_loop (fuel:nat) (data:buf) (total ptr idx:N) : outcome N :=
    if ptr <? total then
      match fuel with
      | O => Unmodelled         (* the 16-bit cursor wrapped: the loop need not terminate *)
      | S f => bind (ld W16 data ptr) (fun l => count_loop f data total ((ptr + 2 + l) mod 2 ^ 16) ((idx + 1) mod 2 ^ 16))
      end
    else Ok idx.
  Definition strs_count (data_length:N) (data:buf) : outcome N :=
    let total := data_length mod 2 ^ 16 in
    bind (count_loop (S (N.to_nat total)) data total 0 0) (fun idx => Ok (idx mod 2 ^ N.of_nat strarray_count_ret_bits)).

  (* Avtp_Vss_DeserializeStringArray: dsts = per string object, None: data == NULL, Some cap: data points to cap bytes.
     Returns, per processed string, the data_length stored and the bytes written (if any). *)
  Fixpoint unpack_loop (data:buf) (total:N) (dsts:list (option N)) (pos idx:N) (acc:list (N * option (list N)))
    : outcome (list (N * option (list N))) :=
    match dsts with
    | [] => Ok acc
    | d :: r =>
        if total <=? idx then Ok acc else
        bind (ld W16 data pos) (fun l =>
          bind (match d with
                | None => Ok None
                | Some cap => bind (cpy_out data (pos + 2) l cap) (fun w => Ok (Some w))
                end) (fun w =>
            unpack_loop data total r (pos + 2 + l)
                        (if deser_idx_advances then (idx + 2 + l) mod 2 ^ 16 else idx) (acc ++ [(l, w)])))
    end.
  Definition strs_unpack (data_length:N) (data:buf) (dsts:list (option N)) (num:N) : outcome (list (N * option (list N))) :=
    let n := num mod 2 ^ 16 in
    (* strings[i] is dereferenced for i < num_strings only up to the break *)
    unpack_loop data (data_length mod 2 ^ 16) (firstn (N.to_nat n) dsts) 0 0 [].
End Vss.
