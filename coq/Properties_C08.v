(* C08 - placeholder until C08Proofs.v is in *)
From Coq Require Import List NArith.
From O1722 Require Import VssModel.
From O1722.Generated Require Import Tables.
Theorem C08_datatype_codes : forallb (fun p => match FormatChecks.assoc enum_values (fst p) with Some v => N.eqb v (snd p) | None => false end) datatype_names = true.
Proof. vm_compute. reflexivity. Qed.
