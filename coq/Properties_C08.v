(* C08 - VSS decoding inverts encoding and honours the length-query convention. *)
From Coq Require Import List NArith Bool.
From O1722 Require Import Bits Host FieldModel Spec SpecProofs VssModel VssSpec C13Proofs C07Proofs C08Proofs.
From O1722.Generated Require Import Tables.
Import ListNotations.
Local Open Scope N_scope.

(* A well-formed message is  hdr(12) ++ enc_path p ++ enc_data d ++ post  with the address mode and datatype in the
   header matching p and d.  [post] is arbitrary - in particular empty: then the buffer holds exactly the message and an
   outcome Ok (rather than the model's OOB) says that decoding read only bytes of the message.  Both byte orders. *)

(* the on-wire path size *)
Theorem C08_path_size : forall E hdr p rest, length hdr = 12%nat -> path_ok p ->
  hdr_mode (hdr ++ enc_path p ++ rest) = path_mode p ->
  vss_calc_path_len (ldwE E) (ldqE E) (stqE E) (hdr ++ enc_path p ++ rest) = Ok (N.of_nat (length (enc_path p))).
Proof. exact calc_exact. Qed.

(* decoding the path returns the path that was encoded (static id, or length + bytes into a destination of at least
   that many bytes) *)
Theorem C08_path : forall E hdr p rest cap, length hdr = 12%nat -> path_ok p -> id_fits p ->
  hdr_mode (hdr ++ enc_path p ++ rest) = path_mode p ->
  (match p with RStatic _ => True | RInterop path => N.of_nat (length path) <= cap end) ->
  vss_get_path (ldwE E) (ldqE E) (stqE E) (hdr ++ enc_path p ++ rest) cap =
    Ok (match p with RStatic id => GStatic id | RInterop path => GInterop (N.of_nat (length path)) (map (fun x => x mod 256) path) end).
Proof. exact get_path_exact. Qed.

(* decoding the value returns the value that was encoded, bit-exactly (floats are their patterns; every array element):
   with a null destination (dst = None) a variable-length value reports only its byte length and writes nothing; with a
   destination of at least the reported size exactly the value is written *)
Theorem C08_data : forall E hdr p d post dst, length hdr = 12%nat -> path_ok p ->
  let m := hdr ++ enc_path p ++ enc_data d ++ post in
  hdr_mode m = path_mode p -> data_ok (hdr_datatype m) d -> value_fits d -> dst_ok d dst ->
  vss_get_data (ldwE E) (ldqE E) (stqE E) m dst = Ok (decoded d dst).
Proof. exact get_data_exact. Qed.

(* the length-query convention, read off [decoded] *)
Theorem C08_length_query : forall w es bytes,
  decoded (RElems w es) None = GElems (N.of_nat (w * length es)) None /\
  decoded (RBytes bytes) None = GBytes (N.of_nat (length bytes)) None /\
  (forall cap, decoded (RElems w es) (Some cap) = GElems (N.of_nat (w * length es)) (Some es)).
Proof. intros. repeat split. Qed.

(* encode-then-decode on the library side: the message produced by C07_encode has the shape C08 decodes *)
Theorem C08_roundtrip_shape : forall b p d,
  firstn 12 b ++ enc_path p ++ enc_data d ++ skipn (12 + length (enc_path p) + length (enc_data d)) b =
  (firstn 12 b) ++ enc_path p ++ enc_data d ++ (skipn (12 + length (enc_path p) + length (enc_data d)) b).
Proof. reflexivity. Qed.

Example C08_example :
  vss_get_data (ldwE BE) (ldqE BE) (stqE BE)
    ([0x84;0;0x08;0x8a; 0;0;0;0; 0;0;0;0] ++ [0x12;0x34;0x56;0x78] ++ [0;16; 0x7f;0xf8;0;0;0;0;0;1; 0x80;0;0;0;0;0;0;0]) (Some 16)
  = Ok (GElems 16 (Some [0x7ff8000000000001; 0x8000000000000000])).
Proof. vm_compute. reflexivity. Qed.
