(* Generic facts about byte ranges: consecutive updates, slices of updated / concatenated buffers. *)
From Coq Require Import List NArith ZArith Bool Lia Arith ZifyN ZifyNat ZifyBool.
From O1722 Require Import Sym Bits Host SpecProofs NormalProofs.
Import ListNotations.
Local Open Scope N_scope.

Notation normal := SpecProofs.normal.

Lemma skipn_skipn_plus {A} (l:list A) : forall a b, skipn a (skipn b l) = skipn (b + a) l.
Proof.
  induction l as [|x r IH]; intros a b; [destruct a, b; reflexivity|].
  destruct b; [reflexivity|]. cbn [skipn Nat.add]. apply IH.
Qed.

Lemma upd_nil b a : a <= blen b -> upd b a [] = b.
Proof.
  intros H. unfold upd. cbn [length]. replace (a + N.of_nat 0 <=? blen b) with true by (symmetry; apply N.leb_le; lia).
  cbn [app]. rewrite Nat.add_0_r. apply firstn_skipn.
Qed.

Lemma upd_as_app b a xs : a + N.of_nat (length xs) <= blen b ->
  upd b a xs = firstn (N.to_nat a) b ++ xs ++ skipn (N.to_nat a + length xs) b.
Proof. intros H. unfold upd. replace (a + N.of_nat (length xs) <=? blen b) with true by (symmetry; apply N.leb_le; exact H). reflexivity. Qed.

Lemma upd_app b a xs ys : a + N.of_nat (length xs) + N.of_nat (length ys) <= blen b ->
  upd (upd b a xs) (a + N.of_nat (length xs)) ys = upd b a (xs ++ ys).
Proof.
  intros H. unfold blen in H.
  rewrite (upd_as_app b a xs) by (unfold blen; lia).
  rewrite (upd_as_app b a (xs ++ ys)) by (unfold blen; rewrite app_length; lia).
  set (p := firstn (N.to_nat a) b). set (q := skipn (N.to_nat a + length xs) b).
  assert (Hp : length p = N.to_nat a) by (unfold p; rewrite firstn_length; lia).
  assert (Hq : (length q = length b - (N.to_nat a + length xs))%nat) by (unfold q; apply skipn_length).
  rewrite upd_as_app by (unfold blen; rewrite !app_length; lia).
  replace (N.to_nat (a + N.of_nat (length xs))) with (length (p ++ xs)) by (rewrite app_length; lia).
  replace (p ++ xs ++ q) with ((p ++ xs) ++ q) by (symmetry; apply app_assoc).
  rewrite firstn_app, firstn_all, Nat.sub_diag. cbn [firstn]. rewrite app_nil_r.
  rewrite skipn_app. rewrite skipn_all2 by lia. cbn [app].
  replace (length (p ++ xs) + length ys - length (p ++ xs))%nat with (length ys) by lia.
  unfold q. rewrite skipn_skipn_plus.
  rewrite app_length. rewrite <- !app_assoc. do 4 f_equal. lia.
Qed.

Lemma slice_app_mid (pre mid post:list N) :
  slice (pre ++ mid ++ post) (N.of_nat (length pre)) (length mid) = map (fun x => x mod 256) mid.
Proof.
  rewrite <- slice_fast_eq. unfold slice_fast. rewrite Nat2N.id.
  rewrite skipn_app, skipn_all, Nat.sub_diag. cbn [skipn app].
  rewrite firstn_app, firstn_all, Nat.sub_diag. cbn [firstn]. rewrite app_nil_r, Nat.sub_diag. cbn [repeat]. apply app_nil_r.
Qed.

Lemma map_mod_normal (l:list N) : normal l -> map (fun x => x mod 256) l = l.
Proof.
  intros H. induction l as [|x r IH]; [reflexivity|]. inversion H; subst. cbn [map]. rewrite N.mod_small by assumption. f_equal. auto.
Qed.
Lemma normal_be_bytes n v : normal (be_bytes n v).
Proof. unfold be_bytes. unfold normal. apply Forall_forall. intros x Hx. apply in_rev in Hx.
  pose proof (Host.normal_le_bytes n v) as H. unfold Host.normal in H. rewrite Forall_forall in H. auto. Qed.
Lemma normal_app (a b:list N) : normal a -> normal b -> normal (a ++ b).
Proof. unfold normal. intros. apply Forall_app. split; assumption. Qed.

(* reading a big-endian integer that sits in the middle of a list *)
Lemma be_read_mid (pre post:list N) n v : v < 2 ^ (8 * N.of_nat n) ->
  be_of (slice (pre ++ be_bytes n v ++ post) (N.of_nat (length pre)) n) = v.
Proof.
  intros Hv. rewrite <- (length_be_bytes n v) at 2. rewrite slice_app_mid.
  rewrite map_mod_normal by apply normal_be_bytes. rewrite be_of_be_bytes. apply N.mod_small. exact Hv.
Qed.

(* reading back what an update wrote, and reading around it *)
Lemma slice_upd_prefix b a xs ys : normal xs -> a + N.of_nat (length xs) + N.of_nat (length ys) <= blen b ->
  slice (upd b a (xs ++ ys)) a (length xs) = xs.
Proof.
  intros Hn H. rewrite upd_as_app by (rewrite app_length; lia).
  set (p := firstn (N.to_nat a) b).
  assert (Hp : N.of_nat (length p) = a) by (unfold p; rewrite firstn_length; unfold blen in H; lia).
  replace (p ++ (xs ++ ys) ++ skipn (N.to_nat a + length (xs ++ ys)) b)
    with (p ++ xs ++ (ys ++ skipn (N.to_nat a + length (xs ++ ys)) b)) by (rewrite <- !app_assoc; reflexivity).
  rewrite <- Hp. rewrite slice_app_mid. apply map_mod_normal. exact Hn.
Qed.
Lemma slice_upd_mid b a xs ys zs : normal ys -> a + N.of_nat (length xs) + N.of_nat (length ys) + N.of_nat (length zs) <= blen b ->
  slice (upd b a (xs ++ ys ++ zs)) (a + N.of_nat (length xs)) (length ys) = ys.
Proof.
  intros Hn H. rewrite upd_as_app by (rewrite !app_length; lia).
  set (p := firstn (N.to_nat a) b).
  assert (Hp : N.of_nat (length p) = a) by (unfold p; rewrite firstn_length; unfold blen in H; lia).
  replace (p ++ (xs ++ ys ++ zs) ++ skipn (N.to_nat a + length (xs ++ ys ++ zs)) b)
    with ((p ++ xs) ++ ys ++ (zs ++ skipn (N.to_nat a + length (xs ++ ys ++ zs)) b)) by (rewrite <- !app_assoc; reflexivity).
  replace (a + N.of_nat (length xs)) with (N.of_nat (length (p ++ xs))) by (rewrite app_length; lia).
  rewrite slice_app_mid. apply map_mod_normal. exact Hn.
Qed.
Lemma bit_at_upd_far b a xs i : a + N.of_nat (length xs) <= blen b -> i / 8 < a -> bit_at (upd b a xs) i = bit_at b i.
Proof.
  intros H Hi. unfold bit_at. rewrite byte_at_upd by exact H.
  replace ((a <=? i / 8) && (i / 8 <? a + N.of_nat (length xs))) with false by (symmetry; apply andb_false_iff; left; apply N.leb_gt; exact Hi).
  reflexivity.
Qed.
