(* The field model computes the reference semantics of Spec.v. *)
From Coq Require Import List NArith ZArith Bool Lia Arith ZifyN ZifyNat ZifyBool.
From O1722 Require Import Sym Bits FieldModel FieldProofs Spec.
From O1722 Require Host.
Import ListNotations.
Local Open Scope N_scope.
Ltac Zify.zify_post_hook ::= Z.div_mod_to_equations.

Lemma bits_value_testbit n f j :
  N.testbit (bits_value n f) j = if j <? N.of_nat n then f (N.of_nat n - 1 - j) else false.
Proof.
  revert j; induction n as [|n IH]; intros j.
  - cbn [bits_value]. rewrite N.bits_0. destruct (j <? N.of_nat 0) eqn:E; [apply N.ltb_lt in E; lia|reflexivity].
  - cbn [bits_value]. destruct (N.eq_dec j 0) as [->|Hj].
    + rewrite N.testbit_0_r. replace (0 <? N.of_nat (S n)) with true by (symmetry; apply N.ltb_lt; lia).
      f_equal. lia.
    + replace j with (N.succ (N.pred j)) at 1 by lia. rewrite N.testbit_succ_r. rewrite IH.
      destruct (N.ltb_spec (N.pred j) (N.of_nat n)); destruct (N.ltb_spec j (N.of_nat (S n))); try lia; try reflexivity.
      f_equal. lia.
Qed.

Lemma bits_value_lt n f : bits_value n f < 2 ^ N.of_nat n.
Proof.
  induction n as [|n IH]; cbn [bits_value]; [cbn; lia|].
  replace (N.of_nat (S n)) with (N.succ (N.of_nat n)) by lia. rewrite N.pow_succ_r'.
  destruct (f (N.of_nat n)); cbn [N.b2n]; lia.
Qed.

Lemma spec_extract_testbit b first w k :
  N.testbit (spec_extract b first w) k = (k <? w) && bit_at b (first + w - 1 - k).
Proof.
  unfold spec_extract. rewrite bits_value_testbit. rewrite N2Nat.id.
  destruct (N.ltb_spec k w); cbn [andb]; [|reflexivity]. f_equal. lia.
Qed.

(* the value read depends on the field's bits only *)
Lemma spec_extract_ext b b' first w :
  (forall i, first <= i < first + w -> bit_at b i = bit_at b' i) ->
  spec_extract b first w = spec_extract b' first w.
Proof.
  intros H. apply N.bits_inj. intros k. rewrite !spec_extract_testbit.
  destruct (N.ltb_spec k w); cbn [andb]; [|reflexivity]. apply H. lia.
Qed.

Lemma length_spec_insert b first w v : length (spec_insert b first w v) = length b.
Proof. unfold spec_insert. now rewrite map_length, seq_length. Qed.

Lemma nthN_spec_insert b first w v j : j < blen b ->
  nthN (spec_insert b first w v) j =
    bits_value 8 (fun t => let i := 8 * j + t in
       if (first <=? i) && (i <? first + w) then N.testbit v (first + w - 1 - i) else bit_at b i).
Proof.
  intros Hj. unfold nthN, spec_insert, blen in *.
  rewrite Sym.nth_map_seq by lia. rewrite N2Nat.id. reflexivity.
Qed.

Lemma bit_at_oob b i : blen b <= i / 8 -> bit_at b i = false.
Proof.
  intros H. unfold bit_at, byte_at, nthN. rewrite nth_overflow by (unfold blen in H; lia).
  rewrite N.mod_0_l by lia. apply N.bits_0.
Qed.

Lemma bit_at_spec_insert b first w v i :
  bit_at (spec_insert b first w v) i =
    if i / 8 <? blen b
    then (if (first <=? i) && (i <? first + w) then N.testbit v (first + w - 1 - i) else bit_at b i)
    else false.
Proof.
  destruct (N.ltb_spec (i / 8) (blen b)) as [Hi|Hi].
  - unfold bit_at at 1. unfold byte_at. rewrite nthN_spec_insert by exact Hi.
    change 256 with (2^8). rewrite N.mod_pow2_bits_low by lia.
    rewrite bits_value_testbit. change (N.of_nat 8) with 8.
    replace (7 - i mod 8 <? 8) with true by (symmetry; apply N.ltb_lt; lia).
    cbv zeta. replace (8 * (i / 8) + (8 - 1 - (7 - i mod 8))) with i by lia. reflexivity.
  - apply bit_at_oob. unfold blen. rewrite length_spec_insert. exact Hi.
Qed.

(* two normal buffers of equal length with equal bits are equal *)
Definition normal (b:buf) : Prop := Forall (fun x => x < 256) b.

Lemma normal_nthN b j : normal b -> nthN b j < 256.
Proof.
  intros H. unfold nthN. destruct (Nat.lt_ge_cases (N.to_nat j) (length b)).
  - unfold normal in H. rewrite Forall_forall in H. apply H. apply nth_In. assumption.
  - rewrite nth_overflow by assumption. lia.
Qed.

Lemma normal_bits_ext a b : normal a -> normal b -> length a = length b ->
  (forall i, bit_at a i = bit_at b i) -> a = b.
Proof.
  intros Ha Hb Hl H. apply buf_ext; [exact Hl|]. intros j Hj.
  apply N.bits_inj. intros k.
  destruct (N.lt_ge_cases k 8) as [Hk|Hk].
  - specialize (H (8 * j + (7 - k))). unfold bit_at, byte_at in H.
    replace ((8 * j + (7 - k)) / 8) with j in H by lia.
    replace (7 - (8 * j + (7 - k)) mod 8) with k in H by lia.
    rewrite !N.mod_small in H by (apply normal_nthN; assumption). exact H.
  - pose proof (normal_nthN a j Ha). pose proof (normal_nthN b j Hb).
    rewrite !(Host.small_testbit_high) by assumption. reflexivity.
Qed.

Lemma normal_spec_insert b first w v : normal (spec_insert b first w v).
Proof.
  unfold normal, spec_insert. apply Forall_forall. intros x Hx. apply in_map_iff in Hx.
  destruct Hx as [j [<- _]]. apply (bits_value_lt 8).
Qed.

Lemma In_firstn {A} (x:A) n l : In x (firstn n l) -> In x l.
Proof. intros H. rewrite <- (firstn_skipn n l). apply in_or_app. left. exact H. Qed.
Lemma In_skipn {A} (x:A) n l : In x (skipn n l) -> In x l.
Proof. intros H. rewrite <- (firstn_skipn n l). apply in_or_app. right. exact H. Qed.

(* ---------- the field model against the reference ---------- *)
Section Ref.
  Variable ldq : buf -> N -> N.
  Variable stq : buf -> N -> N -> buf.
  Variable qw : N.
  Hypothesis Hld : forall b q, ldq b q = ldq_be b q.
  Hypothesis Hst : forall b q v, stq b q v = stq_be b q v.

  Definition dfirst (d:desc) : N := 32 * dq d + doff d.
  (* bytes a descriptor needs: up to the end of its last quadlet *)
  Definition dextent (d:desc) : N := 4 * (dq d + nquad d).

  Lemma first_oob_none b (d:desc) :
    dextent d <= blen b -> first_oob b (map (fun k => dq d + k) (qoffs d)) = None.
  Proof.
    intros H. unfold first_oob.
    destruct (find _ _) as [q|] eqn:E; [|reflexivity]. exfalso.
    apply find_some in E. destruct E as [Hin Hq].
    apply in_map_iff in Hin. destruct Hin as [k [<- Hk]]. apply in_qoffs in Hk.
    apply negb_true_iff in Hq. apply N.leb_gt in Hq. unfold dextent in H. lia.
  Qed.

  Theorem get_via_spec d b :
    desc_valid d = true -> dq d + 4 <= 2 ^ qw -> dextent d <= blen b ->
    get_via ldq stq qw d b = Ok (spec_extract b (dfirst d) (dbits d)).
  Proof.
    intros Hv Hw Hin. unfold get_via.
    destruct (get_desc_spec ldq stq qw Hld d b Hv Hw) as [v [Hg Hbits]].
    rewrite Hg. rewrite first_oob_none by exact Hin. f_equal.
    apply N.bits_inj. intros k. rewrite Hbits, spec_extract_testbit. unfold dfirst. reflexivity.
  Qed.

  Theorem set_via_spec d b v :
    desc_valid d = true -> dq d + 4 <= 2 ^ qw -> dextent d <= blen b ->
    exists b', set_via ldq stq qw d b v = Ok b' /\
      length b' = length b /\
      (forall j, ~ (dq d <= j / 4 < dq d + nquad d) -> nthN b' j = nthN b j) /\
      (forall i, bit_at b' i = bit_at (spec_insert b (dfirst d) (dbits d) v) i).
  Proof.
    intros Hv Hw Hin. unfold set_via.
    destruct (set_desc_spec ldq stq qw Hld Hst d b v Hv Hw Hin) as [b' [Hs [Hl [Hfr Hbits]]]].
    rewrite Hs. rewrite first_oob_none by exact Hin. exists b'.
    split; [reflexivity|]. split; [exact Hl|]. split; [exact Hfr|].
    intros i. rewrite Hbits, bit_at_spec_insert. cbv zeta. unfold dfirst.
    destruct (N.ltb_spec (i / 8) (blen b)) as [Hi|Hi]; [reflexivity|].
    rewrite (bit_at_oob b i Hi).
    destruct ((32 * dq d + doff d <=? i) && (i <? 32 * dq d + doff d + dbits d)) eqn:E; [|reflexivity].
    exfalso. apply andb_true_iff in E. destruct E as [E1 E2]. apply N.leb_le in E1. apply N.ltb_lt in E2.
    unfold dextent, nquad in Hin. destruct (dbits d =? 0) eqn:Ez; [apply N.eqb_eq in Ez|apply N.eqb_neq in Ez]; lia.
  Qed.

  (* the writer keeps a normal buffer normal *)
  Lemma normal_stq_be b q v : normal b -> normal (stq_be b q v).
  Proof.
    intros Hn. unfold stq_be, upd. rewrite length_be_bytes.
    destruct (4 * q + N.of_nat 4 <=? blen b); [|exact Hn].
    unfold normal in *. apply Forall_app. split; [apply Forall_forall; intros x Hx; apply In_firstn in Hx; rewrite Forall_forall in Hn; auto|].
    apply Forall_app. split.
    - unfold be_bytes. apply Forall_forall. intros x Hx. apply in_rev in Hx.
      pose proof (Host.normal_le_bytes 4 v) as Hle. unfold Host.normal in Hle. rewrite Forall_forall in Hle. auto.
    - apply Forall_forall. intros x Hx. rewrite Forall_forall in Hn. apply Hn.
      eapply In_skipn; eauto.
  Qed.
End Ref.
