(* C06: the ACF-CAN builders emit a well-formed, exactly padded message. *)
From Coq Require Import List NArith ZArith Bool Lia Arith String ZifyN ZifyNat ZifyBool Permutation.
From O1722 Require Import Sym Bits Host FieldModel FieldProofs Spec SpecProofs RecordTheory AccModel AccProofs FormatChecks
  NormalProofs ByteLemmas Paths CanModel C13Proofs C01Proofs C17Proofs C12Proofs C05Proofs FieldOpsProofs.
From O1722.Generated Require Import Tables.
Import ListNotations.
Local Open Scope N_scope.
Ltac Zify.zify_post_hook ::= Z.div_mod_to_equations.

Notation normal := SpecProofs.normal.

(* ---------- byte-level lemmas about upd and spec_insert ---------- *)
Lemma blen_upd' b a bs : blen (upd b a bs) = blen b.
Proof. apply blen_upd. Qed.

Lemma bit_at_upd b a bs i : a + N.of_nat (List.length bs) <= blen b ->
  bit_at (upd b a bs) i =
    if (a <=? i / 8) && (i / 8 <? a + N.of_nat (List.length bs))
    then N.testbit (nthN bs (i / 8 - a) mod 256) (7 - i mod 8) else bit_at b i.
Proof.
  intros H. unfold bit_at. rewrite byte_at_upd by exact H.
  destruct ((a <=? i / 8) && (i / 8 <? a + N.of_nat (List.length bs))); reflexivity.
Qed.

(* a field inside the first 8a bits and an update at byte a or later do not interfere *)
Lemma nthN_spec_insert_far b first w v j : normal b -> first + w <= 8 * j ->
  nthN (spec_insert b first w v) j = nthN b j.
Proof.
  intros Hn Hj. destruct (N.lt_ge_cases j (blen b)) as [Hjb|Hjb].
  - apply N.bits_inj. intros k. destruct (N.lt_ge_cases k 8) as [Hk|Hk].
    + pose proof (bit_at_spec_insert b first w v (8 * j + (7 - k))) as H.
      unfold bit_at at 1 in H. unfold byte_at in H.
      replace ((8 * j + (7 - k)) / 8) with j in H by lia. replace (7 - (8 * j + (7 - k)) mod 8) with k in H by lia.
      rewrite N.mod_small in H by (apply normal_nthN; apply normal_spec_insert). rewrite H.
      replace (j <? blen b) with true by (symmetry; apply N.ltb_lt; exact Hjb).
      replace ((first <=? 8 * j + (7 - k)) && (8 * j + (7 - k) <? first + w)) with false
        by (symmetry; apply andb_false_iff; right; apply N.ltb_ge; lia).
      unfold bit_at, byte_at. replace ((8 * j + (7 - k)) / 8) with j by lia. replace (7 - (8 * j + (7 - k)) mod 8) with k by lia.
      rewrite N.mod_small by (apply normal_nthN; exact Hn). reflexivity.
    + rewrite !Host.small_testbit_high; try exact Hk; [reflexivity|apply normal_nthN; exact Hn|apply normal_nthN; apply normal_spec_insert].
  - unfold nthN. rewrite !nth_overflow; [reflexivity|unfold blen in Hjb; lia|rewrite length_spec_insert; unfold blen in Hjb; lia].
Qed.

Lemma insert_upd_commute b a bs first w v : normal b -> normal bs -> first + w <= 8 * a ->
  a + N.of_nat (List.length bs) <= blen b ->
  spec_insert (upd b a bs) first w v = upd (spec_insert b first w v) a bs.
Proof.
  intros Hn Hbs Hf Ha.
  assert (Ha' : a + N.of_nat (List.length bs) <= blen (spec_insert b first w v)) by (unfold blen; rewrite length_spec_insert; exact Ha).
  apply normal_bits_ext; [apply normal_spec_insert|apply normal_upd; [apply normal_spec_insert|exact Hbs]| |].
  - rewrite length_spec_insert, !length_upd, length_spec_insert. reflexivity.
  - intros i. rewrite bit_at_spec_insert, blen_upd. rewrite (bit_at_upd _ _ _ _ Ha'). rewrite (bit_at_upd _ _ _ _ Ha).
    rewrite bit_at_spec_insert.
    destruct (N.leb_spec a (i / 8)) as [H1|H1]; destruct (N.ltb_spec (i / 8) (a + N.of_nat (List.length bs))) as [H2|H2]; cbn [andb].
    + replace (i / 8 <? blen b) with true by (symmetry; apply N.ltb_lt; lia).
      replace ((first <=? i) && (i <? first + w)) with false by (symmetry; apply andb_false_iff; right; apply N.ltb_ge; lia).
      reflexivity.
    + reflexivity.
    + reflexivity.
    + reflexivity.
Qed.

Lemma normal_map_mod (l:list N) : normal (map (fun x => x mod 256) l).
Proof. unfold normal. apply Forall_forall. intros x Hx. apply in_map_iff in Hx. destruct Hx as [y [<- _]]. apply N.mod_lt. lia. Qed.

(* ---------- the format records used by the builders resolve ---------- *)
Definition canfmt_ok (c:canfmt) : bool :=
  forallb (name_ok (cf_spec c)) [cf_eff c; cf_id c; cf_fdf c; cf_len c; cf_pad c] &&
  match find_sfield (sp_fields (cf_spec c)) (cf_pad c) with Some f => sf_width f =? 2 | None => false end &&
  (sp_hdr_len (cf_spec c) <=? 32) &&
  (* the five enumerators are different fields *)
  (let ns := [cf_eff c; cf_id c; cf_fdf c; cf_len c; cf_pad c] in
   forallb (fun i => forallb (fun j => Nat.eqb i j || negb (String.eqb (nth i ns EmptyString) (nth j ns EmptyString))) (seq 0 5)) (seq 0 5)) &&
  existsb (fun s => String.eqb (sp_name s) (sp_name (cf_spec c))) all_specs.
Lemma canfmts_ok : canfmt_ok cf_full && canfmt_ok cf_brief = true.
Proof. vm_compute. reflexivity. Qed.
Lemma cf_full_in : In spec_Can all_specs. Proof. cbn. tauto. Qed.
Lemma cf_brief_in : In spec_CanBrief all_specs. Proof. cbn. tauto. Qed.

Section Build.
  Variable E : endian.
  Notation LD := (ldqE E). Notation ST := (stqE E).
  Variable c : canfmt.
  Hypothesis Hs : In (cf_spec c) all_specs.
  Hypothesis Hok : canfmt_ok c = true.
  Notation s := (cf_spec c).
  Notation hdr := (sp_hdr_len (cf_spec c)).

  Lemma five_ok name : In name [cf_eff c; cf_id c; cf_fdf c; cf_len c; cf_pad c] -> name_ok s name = true.
  Proof.
    intros Hin. unfold canfmt_ok in Hok. apply andb_true_iff in Hok. destruct Hok as [H _].
    apply andb_true_iff in H. destruct H as [H _].
    apply andb_true_iff in H. destruct H as [H _]. apply andb_true_iff in H. destruct H as [H _].
    rewrite forallb_forall in H. exact (H name Hin).
  Qed.
  Lemma name_field name : In name [cf_eff c; cf_id c; cf_fdf c; cf_len c; cf_pad c] ->
    exists f u st pf r, find_sfield (sp_fields s) name = Some f /\ In f (sp_fields s) /\ writers_of s f = (u, st, pf) :: r.
  Proof.
    intros Hin. destruct (name_ok_field s name (five_ok name Hin)) as [f [[[u st] pf] [w2 [wr [? [? [? [Ef [Hf [Ew _]]]]]]]]]].
    exists f, u, st, pf, (w2 :: wr). auto.
  Qed.

  (* a field write of the model is the reference write *)
  Lemma setf_exact name v b : In name [cf_eff c; cf_id c; cf_fdf c; cf_len c; cf_pad c] ->
    normal b -> hdr <= blen b ->
    setf LD ST c name v b = Ok (ref_set s name v b).
  Proof. intros Hin Hn Hb. unfold setf. apply (fsetf_exact E s Hs); [apply five_ok; exact Hin|exact Hn|exact Hb]. Qed.
  Lemma normal_ref_set name v b : normal b -> normal (ref_set s name v b).
  Proof. apply FieldOpsProofs.normal_ref_set. Qed.
  Lemma blen_ref_set name v b : blen (ref_set s name v b) = blen b.
  Proof. apply FieldOpsProofs.blen_ref_set. Qed.

  Lemma hdr_small : hdr <= 32.
  Proof.
    unfold canfmt_ok in Hok. apply andb_true_iff in Hok. destruct Hok as [H _]. apply andb_true_iff in H. destruct H as [H _].
    apply andb_true_iff in H. destruct H as [_ H].
    apply N.leb_le in H. exact H.
  Qed.
  (* the pad field has two bits: writing 4 is writing 0 *)
  Lemma pad_four_is_zero b : ref_set s (cf_pad c) 4 b = ref_set s (cf_pad c) 0 b.
  Proof.
    unfold canfmt_ok in Hok. apply andb_true_iff in Hok. destruct Hok as [H _]. apply andb_true_iff in H. destruct H as [H _].
    apply andb_true_iff in H. destruct H as [H _].
    apply andb_true_iff in H. destruct H as [_ H]. unfold ref_set.
    destruct (find_sfield (sp_fields s) (cf_pad c)) as [f|]; [|reflexivity]. apply N.eqb_eq in H. rewrite H.
    apply spec_insert_low. intros k Hk. assert (k = 0 \/ k = 1) as [->| ->] by lia; reflexivity.
  Qed.

  Lemma setf_at name v b b0 : In name [cf_eff c; cf_id c; cf_fdf c; cf_len c; cf_pad c] ->
    normal b -> blen b = blen b0 -> hdr <= blen b0 -> setf LD ST c name v b = Ok (ref_set s name v b).
  Proof. intros Hin Hn Hl Hb. apply setf_exact; [exact Hin|exact Hn|rewrite Hl; exact Hb]. Qed.

  (* ===== the builder equals the reference, for every payload the 16-bit length parameter can describe ===== *)
  Theorem create_exact b id payload variant :
    let len := N.of_nat (List.length payload) in
    let pad := (4 - len mod 4) mod 4 in
    normal b -> id < 2 ^ 32 -> variant < 2 ^ 8 -> len < 2 ^ 16 -> hdr + len + pad <= blen b ->
    can_create LD ST c b id payload len variant = Ok (can_ref c b id payload variant).
  Proof.
    intros len pad Hn Hid Hvar Hlen Hb. pose proof hdr_small as Hh.
    assert (Hhb : hdr <= blen b) by lia.
    unfold can_create, can_ref. fold len. fold pad.
    rewrite (N.mod_small id) by exact Hid. rewrite (N.mod_small variant) by exact Hvar.
    unfold can_set_payload. rewrite (N.mod_small len) by exact Hlen.
    replace ((len <=? N.of_nat (List.length payload)) && (hdr + len <=? blen b)) with true
      by (symmetry; apply andb_true_iff; split; apply N.leb_le; unfold len in *; lia).
    unfold len at 1. rewrite Nat2N.id, firstn_all. cbn [bind].
    set (b1 := upd b hdr (map (fun x => x mod 256) payload)).
    assert (Hn1 : normal b1) by (apply normal_upd; [exact Hn|apply normal_map_mod]).
    assert (Hb1 : blen b1 = blen b) by apply blen_upd.
    rewrite (setf_at (cf_eff c) _ b1 b) by (cbn; tauto || assumption). cbn [bind].
    rewrite (setf_at (cf_id c) _ _ b) by (first [cbn; tauto | apply normal_ref_set; exact Hn1 | rewrite blen_ref_set; exact Hb1 | exact Hhb]). cbn [bind].
    rewrite (setf_at (cf_fdf c) _ _ b) by (first [cbn; tauto | repeat apply normal_ref_set; exact Hn1 | rewrite !blen_ref_set; exact Hb1 | exact Hhb]). cbn [bind].
    set (b2 := ref_set s (cf_fdf c) variant (ref_set s (cf_id c) id (ref_set s (cf_eff c) (if 0x7ff <? id then 1 else 0) b1))).
    assert (Hn2 : normal b2) by (unfold b2; repeat apply normal_ref_set; exact Hn1).
    assert (Hb2 : blen b2 = blen b) by (unfold b2; rewrite !blen_ref_set; exact Hb1).
    unfold can_finalize. rewrite (N.mod_small len) by exact Hlen.
    assert (Hps : (4 - len mod 4) mod 2 ^ 8 = 4 - len mod 4) by (apply N.mod_small; change (2 ^ 8) with 256; lia).
    rewrite Hps. change (2 ^ 16) with 65536 in Hlen.
    rewrite (N.mod_small (hdr + len)) by (change (2 ^ 32) with 4294967296; lia).
    destruct (N.eqb_spec (len mod 4) 0) as [Hz|Hnz]; cbn [negb].
    - (* aligned: no fill; the pad field receives 4, truncated to 0 by its two bits *)
      assert (Hpad0 : pad = 0) by (unfold pad; rewrite Hz; reflexivity).
      cbn [bind fst snd]. rewrite Hpad0, N.add_0_r. cbn [N.to_nat repeat]. rewrite upd_nil by (rewrite Hb2; lia).
      rewrite (setf_at (cf_len c) _ b2 b) by (first [cbn; tauto | assumption]). cbn [bind].
      rewrite (setf_at (cf_pad c) _ _ b) by (first [cbn; tauto | apply normal_ref_set; exact Hn2 | rewrite blen_ref_set; exact Hb2 | exact Hhb]). cbn [bind].
      rewrite Hz, N.sub_0_r. rewrite pad_four_is_zero. reflexivity.
    - assert (Hpad : pad = 4 - len mod 4) by (unfold pad; apply N.mod_small; lia).
      replace (hdr + len + (4 - len mod 4) <=? blen b2) with true by (symmetry; apply N.leb_le; rewrite Hb2; lia).
      cbn [bind fst snd]. rewrite <- Hpad.
      set (b3 := upd b2 (hdr + len) (repeat 0 (N.to_nat pad))).
      assert (Hn3 : normal b3) by (apply normal_upd; [exact Hn2|apply normal_repeat; lia]).
      assert (Hb3 : blen b3 = blen b) by (unfold b3; rewrite blen_upd; exact Hb2).
      rewrite (N.mod_small (hdr + len + pad)) by (change (2 ^ 32) with 4294967296; lia).
      rewrite (setf_at (cf_len c) _ b3 b) by (first [cbn; tauto | assumption]). cbn [bind].
      rewrite (setf_at (cf_pad c) _ _ b) by (first [cbn; tauto | apply normal_ref_set; exact Hn3 | rewrite blen_ref_set; exact Hb3 | exact Hhb]). cbn [bind].
      reflexivity.
  Qed.

  Lemma ref_set_upd name v b a bs : In name [cf_eff c; cf_id c; cf_fdf c; cf_len c; cf_pad c] ->
    normal b -> normal bs -> hdr <= a -> a + N.of_nat (List.length bs) <= blen b ->
    ref_set s name v (upd b a bs) = upd (ref_set s name v b) a bs.
  Proof.
    intros Hin Hn Hbs Ha Hl. destruct (name_field name Hin) as [f [u [st [pf [r [Ef [Hf _]]]]]]].
    unfold ref_set. rewrite Ef. apply insert_upd_commute; try assumption.
    pose proof (field_inside s f Hs Hf). lia.
  Qed.

  (* the header part of a built message: five field writes on the old header *)
  Definition can_hdr (b:buf) (id variant len pad:N) : buf :=
    ref_set s (cf_pad c) pad (ref_set s (cf_len c) ((hdr + len + pad) / 4)
      (ref_set s (cf_fdf c) variant (ref_set s (cf_id c) id (ref_set s (cf_eff c) (if 0x7ff <? id then 1 else 0) b)))).

  (* shape of the reference: the old buffer with the five fields written, the payload behind the header,
     zeros up to the quadlet boundary - and nothing else *)
  Theorem can_ref_shape b id payload variant :
    let len := N.of_nat (List.length payload) in
    let pad := (4 - len mod 4) mod 4 in
    normal b -> hdr + len + pad <= blen b ->
    can_ref c b id payload variant =
      (upd (upd (can_hdr b id variant len pad) hdr (map (fun x => x mod 256) payload)) (hdr + len) (repeat 0 (N.to_nat pad)),
       hdr + len + pad).
  Proof.
    intros len pad Hn Hb. unfold can_ref, can_hdr. fold len. fold pad. f_equal.
    set (pl := map (fun x => x mod 256) payload).
    assert (Hpl : N.of_nat (List.length pl) = len) by (unfold pl, len; rewrite map_length; reflexivity).
    assert (Hnpl : normal pl) by apply normal_map_mod.
    set (z := repeat 0 (N.to_nat pad)).
    assert (Hz : N.of_nat (List.length z) = pad) by (unfold z; rewrite repeat_length; lia).
    assert (Hnz : normal z) by (apply normal_repeat; lia).
    (* move the three early field writes below the payload copy *)
    rewrite (ref_set_upd (cf_eff c) _ b hdr pl) by (first [cbn; tauto | assumption | lia]).
    rewrite (ref_set_upd (cf_id c)) by (first [cbn; tauto | apply normal_ref_set; assumption | assumption | rewrite ?blen_ref_set; lia]).
    rewrite (ref_set_upd (cf_fdf c)) by (first [cbn; tauto | repeat apply normal_ref_set; assumption | assumption | rewrite ?blen_ref_set; lia]).
    set (h3 := ref_set s (cf_fdf c) variant (ref_set s (cf_id c) id (ref_set s (cf_eff c) (if 0x7ff <? id then 1 else 0) b))).
    assert (Hn3 : normal h3) by (unfold h3; repeat apply normal_ref_set; exact Hn).
    assert (Hb3 : blen h3 = blen b) by (unfold h3; rewrite !blen_ref_set; reflexivity).
    (* and the two late ones below both copies *)
    rewrite (ref_set_upd (cf_len c) _ (upd h3 hdr pl) (hdr + len) z)
      by (first [cbn; tauto | apply normal_upd; assumption | assumption | rewrite ?blen_upd, ?Hb3; lia]).
    rewrite (ref_set_upd (cf_pad c) _ _ (hdr + len) z)
      by (first [cbn; tauto | apply normal_ref_set; apply normal_upd; assumption | assumption | rewrite ?blen_ref_set, ?blen_upd, ?Hb3; lia]).
    rewrite (ref_set_upd (cf_len c) _ h3 hdr pl) by (first [cbn; tauto | assumption | rewrite ?Hb3; lia]).
    rewrite (ref_set_upd (cf_pad c) _ _ hdr pl)
      by (first [cbn; tauto | apply normal_ref_set; assumption | assumption | rewrite ?blen_ref_set, ?Hb3; lia]).
    reflexivity.
  Qed.

  (* ---------- what the five writes mean ---------- *)
  Definition fieldval (name:string) (b:buf) : N :=
    match find_sfield (sp_fields s) name with Some f => spec_extract b (sf_first f) (sf_width f) | None => 0 end.
  Definition fwidth (name:string) : N :=
    match find_sfield (sp_fields s) name with Some f => sf_width f | None => 0 end.
  Definition fcovers (name:string) (i:N) : bool :=
    match find_sfield (sp_fields s) name with Some f => covers f i | None => false end.

  Lemma names_distinct i j : (i < 5)%nat -> (j < 5)%nat -> i <> j ->
    nth i [cf_eff c; cf_id c; cf_fdf c; cf_len c; cf_pad c] EmptyString <> nth j [cf_eff c; cf_id c; cf_fdf c; cf_len c; cf_pad c] EmptyString.
  Proof.
    intros Hi Hj Hne. unfold canfmt_ok in Hok. apply andb_true_iff in Hok. destruct Hok as [H _]. apply andb_true_iff in H. destruct H as [_ H].
    cbv zeta in H. rewrite forallb_forall in H. specialize (H i). rewrite forallb_forall in H.
    specialize (H ltac:(apply in_seq; lia) j ltac:(apply in_seq; lia)).
    apply orb_true_iff in H. destruct H as [H|H]; [apply Nat.eqb_eq in H; contradiction|].
    apply negb_true_iff in H. apply String.eqb_neq in H. exact H.
  Qed.

  Lemma fieldval_same name v b : In name [cf_eff c; cf_id c; cf_fdf c; cf_len c; cf_pad c] -> hdr <= blen b ->
    fieldval name (ref_set s name v b) = v mod 2 ^ fwidth name.
  Proof.
    intros Hin Hb. destruct (name_field name Hin) as [f [u [st [pf [r [Ef [Hf _]]]]]]].
    unfold fieldval, ref_set, fwidth. rewrite Ef. apply extract_insert_same. pose proof (field_inside s f Hs Hf). lia.
  Qed.
  Lemma fieldval_other n1 n2 v b : In n1 [cf_eff c; cf_id c; cf_fdf c; cf_len c; cf_pad c] ->
    In n2 [cf_eff c; cf_id c; cf_fdf c; cf_len c; cf_pad c] -> n1 <> n2 ->
    fieldval n1 (ref_set s n2 v b) = fieldval n1 b.
  Proof.
    intros H1 H2 Hne. destruct (name_field n1 H1) as [f1 [? [? [? [? [E1 [Hf1 _]]]]]]].
    destruct (name_field n2 H2) as [f2 [? [? [? [? [E2 [Hf2 _]]]]]]].
    unfold fieldval, ref_set. rewrite E1, E2.
    destruct (find_sfield_name s _ _ E1) as [_ Hn1]. destruct (find_sfield_name s _ _ E2) as [_ Hn2].
    destruct (layout s Hs) as [h [_ [_ [_ [_ [Hd _]]]]]].
    destruct (Hd f2 f1 Hf2 Hf1) as [->|Hdj]; [congruence|]. apply extract_insert_other. exact Hdj.
  Qed.
  Lemma bit_ref_set_outside name v b i : fcovers name i = false -> bit_at (ref_set s name v b) i = bit_at b i.
  Proof.
    unfold fcovers, ref_set. destruct (find_sfield (sp_fields s) name) as [f|]; [|reflexivity]. intros Hc.
    rewrite bit_at_spec_insert. unfold covers in Hc. rewrite Hc.
    destruct (N.ltb_spec (i / 8) (blen b)) as [H|H]; [reflexivity|]. symmetry. apply bit_at_oob. exact H.
  Qed.

  Theorem can_hdr_meaning b id variant len pad : hdr <= blen b ->
    let h := can_hdr b id variant len pad in
    blen h = blen b /\
    fieldval (cf_eff c) h = (if 0x7ff <? id then 1 else 0) mod 2 ^ fwidth (cf_eff c) /\
    fieldval (cf_id c) h = id mod 2 ^ fwidth (cf_id c) /\
    fieldval (cf_fdf c) h = variant mod 2 ^ fwidth (cf_fdf c) /\
    fieldval (cf_len c) h = ((hdr + len + pad) / 4) mod 2 ^ fwidth (cf_len c) /\
    fieldval (cf_pad c) h = pad mod 2 ^ fwidth (cf_pad c) /\
    (* every bit outside the five fields is the old one: type, mtv, rtr, brs, esi, bus id, timestamp, reserved,
       and everything behind the header *)
    (forall i, fcovers (cf_eff c) i = false -> fcovers (cf_id c) i = false -> fcovers (cf_fdf c) i = false ->
               fcovers (cf_len c) i = false -> fcovers (cf_pad c) i = false -> bit_at h i = bit_at b i).
  Proof.
    intros Hb h. unfold h, can_hdr.
    pose proof (names_distinct 0 1 ltac:(lia) ltac:(lia) ltac:(lia)) as D01. pose proof (names_distinct 0 2 ltac:(lia) ltac:(lia) ltac:(lia)) as D02.
    pose proof (names_distinct 0 3 ltac:(lia) ltac:(lia) ltac:(lia)) as D03. pose proof (names_distinct 0 4 ltac:(lia) ltac:(lia) ltac:(lia)) as D04.
    pose proof (names_distinct 1 2 ltac:(lia) ltac:(lia) ltac:(lia)) as D12. pose proof (names_distinct 1 3 ltac:(lia) ltac:(lia) ltac:(lia)) as D13.
    pose proof (names_distinct 1 4 ltac:(lia) ltac:(lia) ltac:(lia)) as D14. pose proof (names_distinct 2 3 ltac:(lia) ltac:(lia) ltac:(lia)) as D23.
    pose proof (names_distinct 2 4 ltac:(lia) ltac:(lia) ltac:(lia)) as D24. pose proof (names_distinct 3 4 ltac:(lia) ltac:(lia) ltac:(lia)) as D34.
    cbn [nth] in *.
    assert (I0 : In (cf_eff c) [cf_eff c; cf_id c; cf_fdf c; cf_len c; cf_pad c]) by (cbn; tauto).
    assert (I1 : In (cf_id c) [cf_eff c; cf_id c; cf_fdf c; cf_len c; cf_pad c]) by (cbn; tauto).
    assert (I2 : In (cf_fdf c) [cf_eff c; cf_id c; cf_fdf c; cf_len c; cf_pad c]) by (cbn; tauto).
    assert (I3 : In (cf_len c) [cf_eff c; cf_id c; cf_fdf c; cf_len c; cf_pad c]) by (cbn; tauto).
    assert (I4 : In (cf_pad c) [cf_eff c; cf_id c; cf_fdf c; cf_len c; cf_pad c]) by (cbn; tauto).
    split; [rewrite !blen_ref_set; reflexivity|].
    split. { rewrite !fieldval_other by (assumption || congruence). apply fieldval_same; assumption. }
    split. { rewrite !fieldval_other by (assumption || congruence). apply fieldval_same; [assumption|rewrite !blen_ref_set; exact Hb]. }
    split. { rewrite !fieldval_other by (assumption || congruence). apply fieldval_same; [assumption|rewrite !blen_ref_set; exact Hb]. }
    split. { rewrite !fieldval_other by (assumption || congruence). apply fieldval_same; [assumption|rewrite !blen_ref_set; exact Hb]. }
    split. { apply fieldval_same; [assumption|rewrite !blen_ref_set; exact Hb]. }
    intros i H0 H1 H2 H3 H4. rewrite !bit_ref_set_outside by assumption. reflexivity.
  Qed.

  (* bytes of the complete message *)
  Theorem can_ref_bytes b id payload variant :
    let len := N.of_nat (List.length payload) in
    let pad := (4 - len mod 4) mod 4 in
    normal b -> hdr + len + pad <= blen b ->
    let m := fst (can_ref c b id payload variant) in
    snd (can_ref c b id payload variant) = hdr + len + pad /\
    List.length m = List.length b /\
    (forall i, i / 8 < hdr -> bit_at m i = bit_at (can_hdr b id variant len pad) i) /\
    (forall j, hdr <= j < hdr + len -> nthN m j = nth (N.to_nat (j - hdr)) payload 0 mod 256) /\
    (forall j, hdr + len <= j < hdr + len + pad -> nthN m j = 0) /\
    (forall j, hdr + len + pad <= j -> nthN m j = nthN b j).
  Proof.
    intros len pad Hn Hb m. unfold m. rewrite (can_ref_shape b id payload variant Hn Hb). fold len. fold pad. cbn [fst snd].
    set (h := can_hdr b id variant len pad).
    assert (Hbh : blen h = blen b) by (unfold h, can_hdr; rewrite !blen_ref_set; reflexivity).
    assert (Hnh : normal h) by (unfold h, can_hdr; repeat apply normal_ref_set; exact Hn).
    set (pl := map (fun x => x mod 256) payload).
    assert (Hpl : N.of_nat (List.length pl) = len) by (unfold pl, len; rewrite map_length; reflexivity).
    set (z := repeat 0 (N.to_nat pad)).
    assert (Hz : N.of_nat (List.length z) = pad) by (unfold z; rewrite repeat_length; lia).
    assert (H1 : hdr + N.of_nat (List.length pl) <= blen h) by (rewrite Hpl, Hbh; lia).
    assert (H2 : hdr + len + N.of_nat (List.length z) <= blen (upd h hdr pl)) by (rewrite Hz, blen_upd, Hbh; lia).
    split; [reflexivity|]. split; [rewrite !length_upd; unfold blen in Hbh; lia|].
    split; [|split; [|split]].
    - intros i Hi. rewrite (bit_at_upd _ _ _ _ H2).
      replace ((hdr + len <=? i / 8) && (i / 8 <? hdr + len + N.of_nat (List.length z))) with false
        by (symmetry; apply andb_false_iff; left; apply N.leb_gt; lia).
      rewrite (bit_at_upd _ _ _ _ H1).
      replace ((hdr <=? i / 8) && (i / 8 <? hdr + N.of_nat (List.length pl))) with false
        by (symmetry; apply andb_false_iff; left; apply N.leb_gt; lia).
      reflexivity.
    - intros j Hj. rewrite (nthN_upd _ _ _ _ H2).
      replace ((hdr + len <=? j) && (j <? hdr + len + N.of_nat (List.length z))) with false
        by (symmetry; apply andb_false_iff; left; apply N.leb_gt; lia).
      rewrite (nthN_upd _ _ _ _ H1).
      replace ((hdr <=? j) && (j <? hdr + N.of_nat (List.length pl))) with true
        by (symmetry; apply andb_true_iff; split; [apply N.leb_le|apply N.ltb_lt]; lia).
      unfold nthN, pl. rewrite nth_indep with (d' := 0 mod 256) by (rewrite map_length; unfold len in *; lia).
      apply (map_nth (fun x => x mod 256)).
    - intros j Hj. rewrite (nthN_upd _ _ _ _ H2).
      replace ((hdr + len <=? j) && (j <? hdr + len + N.of_nat (List.length z))) with true
        by (symmetry; apply andb_true_iff; split; [apply N.leb_le|apply N.ltb_lt]; lia).
      unfold nthN, z. apply nth_repeat.
    - intros j Hj. rewrite (nthN_upd _ _ _ _ H2).
      replace ((hdr + len <=? j) && (j <? hdr + len + N.of_nat (List.length z))) with false
        by (symmetry; apply andb_false_iff; right; apply N.ltb_ge; lia).
      rewrite (nthN_upd _ _ _ _ H1).
      replace ((hdr <=? j) && (j <? hdr + N.of_nat (List.length pl))) with false
        by (symmetry; apply andb_false_iff; right; apply N.ltb_ge; lia).
      (* behind the message the five field writes changed nothing *)
      unfold h, can_hdr.
      assert (Hfar : forall name v x, In name [cf_eff c; cf_id c; cf_fdf c; cf_len c; cf_pad c] -> normal x ->
                nthN (ref_set s name v x) j = nthN x j).
      { intros name v x Hin Hx. destruct (name_field name Hin) as [f [? [? [? [? [Ef [Hf _]]]]]]]. unfold ref_set. rewrite Ef.
        apply nthN_spec_insert_far; [exact Hx|]. pose proof (field_inside s f Hs Hf). lia. }
      rewrite !Hfar by (first [cbn; tauto | repeat apply normal_ref_set; exact Hn]). reflexivity.
  Qed.

  (* ---------- the separate steps compose to the same message ---------- *)
  Lemma setd_exact name v b : In name [cf_eff c; cf_id c; cf_fdf c; cf_len c; cf_pad c] ->
    normal b -> hdr <= blen b -> setd LD ST c name v b = Ok (ref_set s name v b).
  Proof. intros Hin Hn Hb. unfold setd. apply (fsetd_exact E s Hs); [apply five_ok; exact Hin|exact Hn|exact Hb]. Qed.

  Definition ref_sets (l:list (string * N)) (b:buf) : buf := fold_left (fun x p => ref_set s (fst p) (snd p) x) l b.
  Definition five := [cf_eff c; cf_id c; cf_fdf c; cf_len c; cf_pad c].

  Lemma ref_set_commute n1 v1 n2 v2 b : In n1 five -> In n2 five -> n1 <> n2 ->
    ref_set s n1 v1 (ref_set s n2 v2 b) = ref_set s n2 v2 (ref_set s n1 v1 b).
  Proof.
    intros H1 H2 Hne. destruct (name_field n1 H1) as [f1 [? [? [? [? [E1 [Hf1 _]]]]]]].
    destruct (name_field n2 H2) as [f2 [? [? [? [? [E2 [Hf2 _]]]]]]].
    unfold ref_set. rewrite E1, E2.
    destruct (find_sfield_name s _ _ E1) as [_ Hn1]. destruct (find_sfield_name s _ _ E2) as [_ Hn2].
    destruct (layout s Hs) as [h [_ [_ [_ [_ [Hd _]]]]]].
    destruct (Hd f2 f1 Hf2 Hf1) as [->|Hdj]; [congruence|]. apply insert_commute. exact Hdj.
  Qed.

  Lemma ref_sets_perm l l' : Permutation l l' -> (forall p, In p l -> In (fst p) five) -> NoDup (map fst l) ->
    forall b, ref_sets l b = ref_sets l' b.
  Proof.
    induction 1 as [|x l l' Hp IH|x y l|l l' l'' Hp1 IH1 Hp2 IH2]; intros Hin Hnd b.
    - reflexivity.
    - cbn [ref_sets fold_left]. apply IH; [intros p Hp'; apply Hin; right; exact Hp'|inversion Hnd; assumption].
    - cbn [ref_sets fold_left]. f_equal. apply ref_set_commute; [apply Hin; right; left; reflexivity|apply Hin; left; reflexivity|].
      cbn [map] in Hnd. inversion Hnd as [|? ? Hni _]; subst. intros Heq. apply Hni. left. exact Heq.
    - rewrite IH1 by assumption. apply IH2.
      + intros p Hp'. apply Hin. eapply Permutation_in; [apply Permutation_sym; exact Hp1|exact Hp'].
      + eapply Permutation_NoDup; [apply Permutation_map; exact Hp1|exact Hnd].
  Qed.

  Lemma normal_ref_sets l b : normal b -> normal (ref_sets l b).
  Proof. revert b; induction l as [|p r IH]; intros b Hn; cbn [ref_sets fold_left]; [exact Hn|]. apply IH. apply normal_ref_set. exact Hn. Qed.
  Lemma blen_ref_sets l b : blen (ref_sets l b) = blen b.
  Proof. revert b; induction l as [|p r IH]; intros b; cbn [ref_sets fold_left]; [reflexivity|]. rewrite IH. apply blen_ref_set. Qed.

  Lemma setds_exact l : (forall p, In p l -> In (fst p) five) -> forall b, normal b -> hdr <= blen b ->
    setds LD ST c l b = Ok (ref_sets l b).
  Proof.
    induction l as [|[n v] r IH]; intros Hin b Hn Hb; cbn [setds ref_sets fold_left]; [reflexivity|].
    rewrite setd_exact by (first [apply (Hin (n, v)); left; reflexivity | assumption]). cbn [bind fst snd].
    apply IH; [intros p Hp; apply Hin; right; exact Hp|apply normal_ref_set; exact Hn|rewrite blen_ref_set; exact Hb].
  Qed.

  (* copy, then the three dedicated setters in ANY order, then finalise = the one-call builder *)
  Theorem compose_exact b id payload variant l :
    let len := N.of_nat (List.length payload) in
    let pad := (4 - len mod 4) mod 4 in
    Permutation l [(cf_eff c, if 0x7ff <? id then 1 else 0); (cf_id c, id); (cf_fdf c, variant)] ->
    normal b -> id < 2 ^ 32 -> variant < 2 ^ 8 -> len < 2 ^ 16 -> hdr + len + pad <= blen b ->
    can_compose LD ST c b l payload len = can_create LD ST c b id payload len variant.
  Proof.
    intros len pad Hperm Hn Hid Hvar Hlen Hb. pose proof hdr_small as Hh.
    unfold can_compose, can_create. rewrite (N.mod_small id) by exact Hid. rewrite (N.mod_small variant) by exact Hvar.
    unfold can_set_payload. rewrite (N.mod_small len) by exact Hlen.
    replace ((len <=? N.of_nat (List.length payload)) && (hdr + len <=? blen b)) with true
      by (symmetry; apply andb_true_iff; split; apply N.leb_le; unfold len in *; lia).
    cbn [bind]. set (b1 := upd b hdr (map (fun x => x mod 256) (firstn (N.to_nat len) payload))).
    assert (Hn1 : normal b1) by (apply normal_upd; [exact Hn|apply normal_map_mod]).
    assert (Hb1 : blen b1 = blen b) by apply blen_upd.
    set (canon := [(cf_eff c, if 0x7ff <? id then 1 else 0); (cf_id c, id); (cf_fdf c, variant)]) in *.
    assert (Hin_c : forall p, In p canon -> In (fst p) five) by (intros p [<-|[<-|[<-|[]]]]; cbn; tauto).
    assert (Hin_l : forall p, In p l -> In (fst p) five) by (intros p Hp; apply Hin_c; eapply Permutation_in; eauto).
    assert (Hnd : NoDup (map fst l)).
    { eapply Permutation_NoDup; [apply Permutation_map; apply Permutation_sym; exact Hperm|]. cbn [map canon fst].
      pose proof (names_distinct 0 1 ltac:(lia) ltac:(lia) ltac:(lia)). pose proof (names_distinct 0 2 ltac:(lia) ltac:(lia) ltac:(lia)).
      pose proof (names_distinct 1 2 ltac:(lia) ltac:(lia) ltac:(lia)). cbn [nth] in *.
      repeat constructor; cbn [In]; intuition congruence. }
    rewrite (setds_exact l Hin_l b1 Hn1) by (rewrite Hb1; lia). cbn [bind].
    rewrite (ref_sets_perm l canon Hperm Hin_l Hnd b1). unfold canon. cbn [ref_sets fold_left fst snd].
    rewrite (setf_at (cf_eff c) _ b1 b) by (first [cbn; tauto | assumption | lia]). cbn [bind].
    rewrite (setf_at (cf_id c) _ _ b) by (first [cbn; tauto | apply normal_ref_set; exact Hn1 | rewrite blen_ref_set; exact Hb1 | lia]). cbn [bind].
    rewrite (setf_at (cf_fdf c) _ _ b) by (first [cbn; tauto | repeat apply normal_ref_set; exact Hn1 | rewrite !blen_ref_set; exact Hb1 | lia]). cbn [bind].
    reflexivity.
  Qed.
End Build.

(* ---------- the two instances ---------- *)
Lemma cf_full_ok : canfmt_ok cf_full = true.
Proof. pose proof canfmts_ok as H. apply andb_true_iff in H. tauto. Qed.
Lemma cf_brief_ok : canfmt_ok cf_brief = true.
Proof. pose proof canfmts_ok as H. apply andb_true_iff in H. tauto. Qed.

(* widths of the five fields, as Spec.v has them *)
Lemma can_widths :
  fwidth cf_full (cf_eff cf_full) = 1 /\ fwidth cf_full (cf_id cf_full) = 29 /\ fwidth cf_full (cf_fdf cf_full) = 1 /\
  fwidth cf_full (cf_len cf_full) = 9 /\ fwidth cf_full (cf_pad cf_full) = 2 /\
  fwidth cf_brief (cf_eff cf_brief) = 1 /\ fwidth cf_brief (cf_id cf_brief) = 29 /\ fwidth cf_brief (cf_fdf cf_brief) = 1 /\
  fwidth cf_brief (cf_len cf_brief) = 9 /\ fwidth cf_brief (cf_pad cf_brief) = 2 /\
  sp_hdr_len spec_Can = 16 /\ sp_hdr_len spec_CanBrief = 8.
Proof. vm_compute. repeat split. Qed.

(* the 8-bit arithmetic of Avtp_Can_GetCanPayloadLength, checked on its whole finite domain *)
Definition rb_check (len:N) : bool :=
  let pad := (4 - len mod 4) mod 4 in
  (((16 + len + pad) / 4 mod 2 ^ 9 * 4) mod 2 ^ 8 + 2 ^ 32 - 16 - pad mod 2 ^ 2 mod 2 ^ 8) mod 2 ^ 8 =? len.
Lemma rb_all : forallb (fun l => rb_check (N.of_nat l)) (seq 0 256) = true.
Proof. vm_compute. reflexivity. Qed.
Lemma rb_check_ok len : len < 256 -> rb_check len = true.
Proof.
  intros Hl. pose proof rb_all as H. rewrite forallb_forall in H. specialize (H (N.to_nat len) ltac:(apply in_seq; lia)).
  rewrite N2Nat.id in H. exact H.
Qed.

Section Readback.
  Variable E : endian.
  Notation LD := (ldqE E). Notation ST := (stqE E).

  Lemma getf_ded_exact name b : In name (five cf_full) -> 16 <= blen b ->
    getf_ded LD ST cf_full name b = Ok (fieldval cf_full name b).
  Proof.
    intros Hin Hb. unfold getf_ded.
    exact (fgetd_exact E (cf_spec cf_full) cf_full_in name b (five_ok cf_full cf_full_ok name Hin) Hb).
  Qed.

  (* reading the payload length back from a built message returns the original length: for 0..64, and in
     fact for every length below 256 (the accessor computes in 8 bits) *)
  Theorem readback b id payload variant :
    let len := N.of_nat (List.length payload) in
    let pad := (4 - len mod 4) mod 4 in
    normal b -> len < 256 -> 16 + len + pad <= blen b ->
    can_payload_length LD ST cf_full (fst (can_ref cf_full b id payload variant)) = Ok len.
  Proof.
    intros len pad Hn Hlen Hb.
    pose proof (can_ref_bytes cf_full cf_full_in cf_full_ok b id payload variant Hn) as Hbytes. cbv zeta in Hbytes.
    fold len in Hbytes. fold pad in Hbytes. change (sp_hdr_len (cf_spec cf_full)) with 16 in Hbytes.
    destruct (Hbytes Hb) as [_ [HL [Hhdr _]]].
    set (m := fst (can_ref cf_full b id payload variant)) in *.
    assert (Hbm : 16 <= blen m) by (unfold blen in *; rewrite HL; lia).
    assert (Hfv : forall name, In name (five cf_full) ->
              fieldval cf_full name m = fieldval cf_full name (can_hdr cf_full b id variant len pad)).
    { intros name Hin. destruct (name_field cf_full cf_full_ok name Hin) as [f [? [? [? [? [Ef [Hf _]]]]]]].
      unfold fieldval. rewrite Ef. apply spec_extract_ext. intros i Hi. apply Hhdr.
      pose proof (field_inside _ f cf_full_in Hf). change (sp_hdr_len spec_Can) with 16 in *. apply N.div_lt_upper_bound; lia. }
    assert (Hb16 : sp_hdr_len (cf_spec cf_full) <= blen b) by (change (sp_hdr_len (cf_spec cf_full)) with 16; lia).
    destruct (can_hdr_meaning cf_full cf_full_in cf_full_ok b id variant len pad Hb16) as [_ [_ [_ [_ [HLv [HPv _]]]]]].
    destruct can_widths as [_ [_ [_ [W4 [W5 _]]]]].
    assert (IL : In (cf_len cf_full) (five cf_full)) by (unfold five; right; right; right; left; reflexivity).
    assert (IP : In (cf_pad cf_full) (five cf_full)) by (unfold five; right; right; right; right; left; reflexivity).
    unfold can_payload_length.
    rewrite (getf_ded_exact (cf_len cf_full) m IL Hbm). cbn [bind].
    rewrite (getf_ded_exact (cf_pad cf_full) m IP Hbm). cbn [bind].
    rewrite (Hfv (cf_len cf_full) IL). rewrite (Hfv (cf_pad cf_full) IP).
    rewrite HLv, HPv, W4, W5. change (sp_hdr_len (cf_spec cf_full)) with 16.
    f_equal. pose proof (rb_check_ok len Hlen) as Hc. unfold rb_check in Hc. cbv zeta in Hc. fold pad in Hc.
    apply N.eqb_eq in Hc. exact Hc.
  Qed.
End Readback.
