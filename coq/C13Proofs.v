(* C13/C14 ground facts about the generated helper sets. *)
From Coq Require Import List NArith Bool Lia.
From O1722 Require Import Bits CExpr Host.
From O1722.Generated Require Import Byteorder.
Local Open Scope N_scope.

Definition helpers_of (E:endian) : hset := match E with LE => helpers_LE | BE => helpers_BE end.

Lemma helpers_LE_ok : set_ok LE helpers_LE = true.
Proof. vm_compute. reflexivity. Qed.
Lemma helpers_BE_ok : set_ok BE helpers_BE = true.
Proof. vm_compute. reflexivity. Qed.
Lemma helpers_ok E : set_ok E (helpers_of E) = true.
Proof. destruct E; [exact helpers_LE_ok | exact helpers_BE_ok]. Qed.

Definition fits (w:hwidth) (x:N) : Prop := x < 2 ^ N.of_nat (wbits w).

Lemma swap_reverses E w x : fits w x ->
  run (helpers_of E) KBswap w x = be_of (le_bytes (wbytes w) x).
Proof. apply (bswap_reverses E _ (helpers_ok E)). Qed.
Lemma swap_involution E w x : fits w x ->
  run (helpers_of E) KBswap w (run (helpers_of E) KBswap w x) = x.
Proof. apply (bswap_involution E _ (helpers_ok E)). Qed.
Lemma image_be E w x : fits w x ->
  host_bytes E (wbytes w) (run (helpers_of E) KCpuToBe w x) = be_bytes (wbytes w) x.
Proof. apply (cpu_to_be_image E _ (helpers_ok E)). Qed.
Lemma image_le E w x : fits w x ->
  host_bytes E (wbytes w) (run (helpers_of E) KCpuToLe w x) = le_bytes (wbytes w) x.
Proof. apply (cpu_to_le_image E _ (helpers_ok E)). Qed.
Lemma value_be E w bs : length bs = wbytes w -> normal bs ->
  run (helpers_of E) KBeToCpu w (host_of E bs) = be_of bs.
Proof. apply (be_to_cpu_value E _ (helpers_ok E)). Qed.
Lemma value_le E w bs : length bs = wbytes w -> normal bs ->
  run (helpers_of E) KLeToCpu w (host_of E bs) = le_of bs.
Proof. apply (le_to_cpu_value E _ (helpers_ok E)). Qed.
Lemma roundtrip_be E w x : fits w x ->
  run (helpers_of E) KBeToCpu w (run (helpers_of E) KCpuToBe w x) = x.
Proof. apply (be_roundtrip E _ (helpers_ok E)). Qed.
Lemma roundtrip_le E w x : fits w x ->
  run (helpers_of E) KLeToCpu w (run (helpers_of E) KCpuToLe w x) = x.
Proof. apply (le_roundtrip E _ (helpers_ok E)). Qed.

(* mirror images: what one set does for big-endian data the other does for little-endian data *)
Lemma mirror w x : fits w x ->
  run helpers_LE KCpuToBe w x = run helpers_BE KCpuToLe w x /\
  run helpers_LE KBeToCpu w x = run helpers_BE KLeToCpu w x /\
  run helpers_LE KCpuToLe w x = run helpers_BE KCpuToBe w x /\
  run helpers_LE KLeToCpu w x = run helpers_BE KBeToCpu w x /\
  run helpers_LE KBswap w x = run helpers_BE KBswap w x /\
  run helpers_LE KCpuToLe w x = x /\
  run helpers_LE KCpuToBe w x = run helpers_LE KBswap w x.
Proof.
  intros Hx.
  destruct (ok_w LE helpers_LE helpers_LE_ok w) as [HsL [HL1 [HL2 [HL3 HL4]]]].
  destruct (ok_w BE helpers_BE helpers_BE_ok w) as [HsB [HB1 [HB2 [HB3 HB4]]]].
  refine (conj _ (conj _ (conj _ (conj _ (conj _ (conj _ _)))))).
  - rewrite (run_swap _ _ _ _ HL3 Hx), (run_swap _ _ _ _ HB1 Hx). reflexivity.
  - rewrite (run_swap _ _ _ _ HL4 Hx), (run_swap _ _ _ _ HB2 Hx). reflexivity.
  - rewrite (run_id _ _ _ _ HL1 Hx), (run_id _ _ _ _ HB3 Hx). reflexivity.
  - rewrite (run_id _ _ _ _ HL2 Hx), (run_id _ _ _ _ HB4 Hx). reflexivity.
  - rewrite (run_swap _ _ _ _ HsL Hx), (run_swap _ _ _ _ HsB Hx). reflexivity.
  - apply (run_id _ _ _ _ HL1 Hx).
  - rewrite (run_swap _ _ _ _ HL3 Hx), (run_swap _ _ _ _ HsL Hx). reflexivity.
Qed.

(* the quadlet accessors of the field model carry wire order on either host *)
Definition ldqE (E:endian) := Host.ldq E (helpers_of E).
Definition stqE (E:endian) := Host.stq E (helpers_of E).
Lemma ldqE_wire E b q : ldqE E b q = ldq_be b q.
Proof. apply (ldq_wire E _ (helpers_ok E)). Qed.
Lemma stqE_wire E b q v : stqE E b q v = stq_be b q v.
Proof. apply (stq_wire E _ (helpers_ok E)). Qed.

(* typed 16/32/64-bit accesses carry wire order on either host *)
Definition ldwE (E:endian) := Host.ldw E (helpers_of E).
Definition stwE (E:endian) := Host.stw E (helpers_of E).
Lemma ldwE_wire E w b a : ldwE E w b a = be_of (slice b a (wbytes w)).
Proof. apply (ldw_wire E _ (helpers_ok E)). Qed.
Lemma stwE_wire E w b a v : stwE E w b a v = upd b a (be_bytes (wbytes w) v).
Proof. apply (stw_wire E _ (helpers_ok E)). Qed.
