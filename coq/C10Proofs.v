(* C10: VSS string-array packing round-trips and stays inside its buffers. *)
From Coq Require Import List NArith ZArith Bool Lia Arith ZifyN ZifyNat ZifyBool.
From O1722 Require Import Sym Bits Host FieldModel Spec SpecProofs AccModel NormalProofs ByteLemmas Paths VssModel VssSpec C13Proofs.
From O1722.Generated Require Import Tables.
Import ListNotations.
Local Open Scope N_scope.

Notation normal := SpecProofs.normal.

(* facts about the regenerated code *)
Lemma idx_advances : deser_idx_advances = true.
Proof. reflexivity. Qed.
Lemma count_ret_wide : (16 <= strarray_count_ret_bits)%nat.
Proof. cbn. auto with arith. Qed.

(* the caller's string objects for a list of byte strings *)
Definition objs (ss:list (list N)) : list (N * list N) := map (fun s => (N.of_nat (length s), s)) ss.
Definition total (ss:list (list N)) : N := N.of_nat (length (enc_strings ss)).
Definition short (ss:list (list N)) : Prop := Forall (fun s => N.of_nat (length s) < 2 ^ 16) ss.

Lemma enc_strings_cons s r :
  enc_strings (s :: r) = be16 (N.of_nat (length s)) ++ map (fun x => x mod 256) s ++ enc_strings r.
Proof. unfold enc_strings. cbn [map List.concat]. rewrite <- app_assoc. reflexivity. Qed.
Lemma total_cons s r : total (s :: r) = 2 + N.of_nat (length s) + total r.
Proof. unfold total. rewrite enc_strings_cons, !app_length, map_length. unfold be16. rewrite length_be_bytes. lia. Qed.
Lemma total_ge ss : 2 * N.of_nat (length ss) <= total ss.
Proof. induction ss as [|s r IH]; [cbn; lia|]. rewrite total_cons. cbn [length]. lia. Qed.
Lemma normal_enc_strings ss : normal (enc_strings ss).
Proof.
  induction ss as [|s r IH]; [constructor|]. rewrite enc_strings_cons.
  apply normal_app; [apply normal_be_bytes|]. apply normal_app; [|exact IH].
  unfold normal. apply Forall_forall. intros x Hx. apply in_map_iff in Hx. destruct Hx as [y [<- _]]. apply N.mod_lt. lia.
Qed.

Section Strs.
  Variable E : endian.
  Notation LDW := (ldwE E). Notation STW := (stwE E).

  (* ---------- packing ---------- *)
  Lemma pack_loop_exact : forall ss out pos tot, short ss -> tot < 2 ^ 16 -> pos + total ss <= blen out ->
    pack_loop STW (objs ss) out pos tot = Ok ((tot + total ss) mod 2 ^ 16, upd out pos (enc_strings ss)).
  Proof.
    induction ss as [|s r IH]; intros out pos tot Hsh Htot Hfit; cbn [objs map pack_loop].
    - unfold total. cbn [enc_strings List.concat map length]. rewrite N.add_0_r, N.mod_small by exact Htot.
      rewrite upd_nil by (unfold total in Hfit; cbn in Hfit; lia). reflexivity.
    - inversion Hsh as [|? ? Hs Hr]; subst. rewrite total_cons in Hfit.
      set (l := N.of_nat (length s)) in *. rewrite (N.mod_small l) by exact Hs.
      unfold st. change (N.of_nat (wbytes W16)) with 2.
      replace (pos + 2 <=? blen out) with true by (symmetry; apply N.leb_le; lia).
      cbn [bind]. rewrite stwE_wire. change (wbytes W16) with 2%nat.
      set (o1 := upd out pos (be_bytes 2 l)).
      assert (Hb1 : blen o1 = blen out) by apply blen_upd.
      unfold cpy_in. replace ((l <=? N.of_nat (length s)) && (pos + 2 + l <=? blen o1)) with true
        by (symmetry; apply andb_true_iff; split; apply N.leb_le; [unfold l; lia|rewrite Hb1; lia]).
      cbn [bind]. unfold l at 1. rewrite Nat2N.id, firstn_all.
      set (o2 := upd o1 (pos + 2) (map (fun x => x mod 256) s)).
      assert (Hb2 : blen o2 = blen out) by (unfold o2; rewrite blen_upd; exact Hb1).
      fold (objs r). rewrite IH; [|exact Hr|apply N.mod_lt; lia|rewrite Hb2; lia].
      f_equal. f_equal.
      + rewrite total_cons. fold l. rewrite N.add_mod_idemp_l by lia. f_equal. lia.
      + rewrite enc_strings_cons. fold l. unfold o2, o1, be16.
        assert (H2 : pos + 2 = pos + N.of_nat (length (be_bytes 2 l))) by (rewrite length_be_bytes; lia).
        rewrite H2. rewrite upd_app by (rewrite length_be_bytes, map_length; fold l; lia).
        replace (pos + l + 2) with (pos + N.of_nat (length (be_bytes 2 l ++ map (fun x => x mod 256) s)))
          by (rewrite app_length, length_be_bytes, map_length; fold l; lia).
        rewrite upd_app by (rewrite app_length, length_be_bytes, map_length; fold l; fold (total r); lia).
        rewrite <- app_assoc. reflexivity.
  Qed.

  (* packing any list of strings whose total fits 16 bits into a destination [out] that is large enough: the
     recorded length is the total, the destination receives exactly the reference encoding at its start and is
     otherwise untouched *)
  Theorem pack_exact ss out : short ss -> total ss < 2 ^ 16 -> total ss <= blen out ->
    strs_pack STW (objs ss) (N.of_nat (length ss)) out = Ok (total ss, upd out 0 (enc_strings ss)).
  Proof.
    intros Hsh Htot Hfit. unfold strs_pack.
    assert (Hn : N.of_nat (length ss) < 2 ^ 16) by (pose proof (total_ge ss); lia).
    rewrite (N.mod_small _ _ Hn). unfold objs at 1. rewrite map_length.
    replace (N.of_nat (length ss) <=? N.of_nat (length ss)) with true by (symmetry; apply N.leb_le; lia).
    rewrite Nat2N.id. rewrite <- (map_length (fun s => (N.of_nat (length s), s)) ss) at 1. fold (objs ss). rewrite firstn_all.
    rewrite pack_loop_exact by (first [assumption | change (2 ^ 16) with 65536; lia | lia]).
    rewrite N.add_0_l, N.mod_small by exact Htot. reflexivity.
  Qed.

  (* ---------- counting ---------- *)
  Lemma count_loop_exact : forall ss fuel pre post idx, short ss ->
    N.of_nat (length pre) + total ss < 2 ^ 16 -> (length ss < fuel)%nat -> idx + N.of_nat (length ss) < 2 ^ 16 ->
    count_loop LDW fuel (pre ++ enc_strings ss ++ post) (N.of_nat (length pre) + total ss) (N.of_nat (length pre)) idx
      = Ok (idx + N.of_nat (length ss)).
  Proof.
    induction ss as [|s r IH]; intros fuel pre post idx Hsh Htot Hfuel Hidx.
    - unfold total. cbn [enc_strings List.concat map length]. rewrite N.add_0_r.
      destruct fuel; cbn [count_loop]; rewrite N.ltb_irrefl; rewrite N.add_0_r; reflexivity.
    - inversion Hsh as [|? ? Hs Hr]; subst. rewrite total_cons in *. cbn [length] in *.
      set (l := N.of_nat (length s)) in *.
      destruct fuel as [|f]; [lia|]. cbn [count_loop].
      replace (N.of_nat (length pre) <? N.of_nat (length pre) + (2 + l + total r)) with true by (symmetry; apply N.ltb_lt; lia).
      unfold ld. change (N.of_nat (wbytes W16)) with 2.
      replace (N.of_nat (length pre) + 2 <=? blen (pre ++ enc_strings (s :: r) ++ post)) with true.
      2:{ symmetry. apply N.leb_le. unfold blen. rewrite !app_length, enc_strings_cons, !app_length. unfold be16. rewrite length_be_bytes. lia. }
      cbn [bind]. rewrite ldwE_wire. change (wbytes W16) with 2%nat.
      rewrite enc_strings_cons. fold l. unfold be16. rewrite <- !app_assoc.
      rewrite be_read_mid by (change (8 * N.of_nat 2) with 16; exact Hs).
      rewrite (N.mod_small (N.of_nat (length pre) + 2 + l)) by lia.
      rewrite (N.mod_small (idx + 1)) by lia.
      (* next string: the prefix grows by this one *)
      set (pre' := pre ++ be_bytes 2 l ++ map (fun x => x mod 256) s).
      assert (Hpre' : N.of_nat (length pre') = N.of_nat (length pre) + 2 + l)
        by (unfold pre'; rewrite !app_length, length_be_bytes, map_length; fold l; lia).
      replace (pre ++ be_bytes 2 l ++ map (fun x => x mod 256) s ++ enc_strings r ++ post) with (pre' ++ enc_strings r ++ post)
        by (unfold pre'; rewrite <- !app_assoc; reflexivity).
      replace (N.of_nat (length pre) + (2 + l + total r)) with (N.of_nat (length pre') + total r) by lia.
      rewrite <- Hpre'. rewrite IH by (first [assumption | lia]). f_equal. lia.
  Qed.

  (* counting a packed array - stored in a block that holds exactly the packed bytes, or more - returns the
     number of strings, for every number of strings (so also more than 255) *)
  Theorem count_exact ss post : short ss -> total ss < 2 ^ 16 ->
    strs_count LDW (total ss) (enc_strings ss ++ post) = Ok (N.of_nat (length ss)).
  Proof.
    intros Hsh Htot. unfold strs_count. rewrite (N.mod_small (total ss)) by exact Htot.
    pose proof (total_ge ss) as Hge.
    pose proof (count_loop_exact ss (S (N.to_nat (total ss))) [] post 0 Hsh) as H. cbn [length app] in H.
    change (N.of_nat 0) with 0 in H. rewrite !N.add_0_l in H. rewrite H by (first [assumption | lia]). cbn [bind]. f_equal.
    apply N.mod_small. apply N.lt_le_trans with (2 ^ 16); [lia|].
    apply N.pow_le_mono_r; [lia|]. pose proof count_ret_wide. lia.
  Qed.

  (* ---------- unpacking ---------- *)
  Fixpoint expected (dsts:list (option N)) (ss:list (list N)) : list (N * option (list N)) :=
    match dsts, ss with
    | d :: dr, s :: sr =>
        (N.of_nat (length s), match d with None => None | Some _ => Some (map (fun x => x mod 256) s) end) :: expected dr sr
    | _, _ => []
    end.
  Fixpoint caps_ok (dsts:list (option N)) (ss:list (list N)) : Prop :=
    match dsts, ss with
    | d :: dr, s :: sr => match d with None => True | Some cap => N.of_nat (length s) <= cap end /\ caps_ok dr sr
    | _, _ => True
    end.

  Lemma unpack_loop_exact : forall ss dsts pre post acc, short ss -> caps_ok dsts ss ->
    N.of_nat (length pre) + total ss < 2 ^ 16 ->
    unpack_loop LDW (pre ++ enc_strings ss ++ post) (N.of_nat (length pre) + total ss) dsts
                (N.of_nat (length pre)) (N.of_nat (length pre)) acc
      = Ok (acc ++ expected dsts ss).
  Proof.
    induction ss as [|s r IH]; intros dsts pre post acc Hsh Hcaps Htot.
    - (* nothing left: asking for more strings reads nothing *)
      destruct dsts as [|d dr]; cbn [unpack_loop expected]; [rewrite app_nil_r; reflexivity|].
      unfold total. cbn [enc_strings List.concat map length]. rewrite N.add_0_r, N.leb_refl, app_nil_r. reflexivity.
    - destruct dsts as [|d dr]; cbn [unpack_loop expected]; [rewrite app_nil_r; reflexivity|].
      inversion Hsh as [|? ? Hs Hr]; subst. rewrite total_cons in *. cbn [caps_ok] in Hcaps. destruct Hcaps as [Hcap Hcaps].
      set (l := N.of_nat (length s)) in *.
      replace (N.of_nat (length pre) + (2 + l + total r) <=? N.of_nat (length pre)) with false by (symmetry; apply N.leb_gt; lia).
      set (data := pre ++ enc_strings (s :: r) ++ post).
      assert (Hdata : data = pre ++ be_bytes 2 l ++ map (fun x => x mod 256) s ++ enc_strings r ++ post)
        by (unfold data; rewrite enc_strings_cons; fold l; unfold be16; rewrite <- !app_assoc; reflexivity).
      assert (Hblen : blen data = N.of_nat (length pre) + 2 + l + total r + N.of_nat (length post)).
      { rewrite Hdata. unfold blen, total. rewrite !app_length, length_be_bytes, map_length. fold l. lia. }
      unfold ld. change (N.of_nat (wbytes W16)) with 2.
      replace (N.of_nat (length pre) + 2 <=? blen data) with true by (symmetry; apply N.leb_le; lia).
      cbn [bind]. rewrite ldwE_wire. change (wbytes W16) with 2%nat.
      assert (Hlen : be_of (slice data (N.of_nat (length pre)) 2) = l)
        by (rewrite Hdata; apply be_read_mid; change (8 * N.of_nat 2) with 16; exact Hs).
      rewrite !Hlen.
      (* the copy into the destination, if there is one *)
      set (pre2 := pre ++ be_bytes 2 l).
      assert (Hpre2 : N.of_nat (length pre2) = N.of_nat (length pre) + 2) by (unfold pre2; rewrite app_length, length_be_bytes; lia).
      assert (Hcopy : forall cap, l <= cap ->
                cpy_out data (N.of_nat (length pre) + 2) l cap = Ok (map (fun x => x mod 256) s)).
      { intros cap Hc. unfold cpy_out.
        replace ((N.of_nat (length pre) + 2 + l <=? blen data) && (l <=? cap)) with true
          by (symmetry; apply andb_true_iff; split; apply N.leb_le; lia).
        rewrite slice_fast_eq. f_equal. rewrite Hdata.
        replace (pre ++ be_bytes 2 l ++ map (fun x => x mod 256) s ++ enc_strings r ++ post)
          with (pre2 ++ map (fun x => x mod 256) s ++ (enc_strings r ++ post)) by (unfold pre2; rewrite <- !app_assoc; reflexivity).
        rewrite <- Hpre2. unfold l. rewrite Nat2N.id. rewrite <- (map_length (fun x => x mod 256) s) at 1.
        rewrite slice_app_mid. rewrite map_map. apply map_ext. intros x. apply N.mod_mod. lia. }
      rewrite idx_advances.
      rewrite (N.mod_small (N.of_nat (length pre) + 2 + l)) by lia.
      set (pre' := pre ++ be_bytes 2 l ++ map (fun x => x mod 256) s).
      assert (Hpre' : N.of_nat (length pre') = N.of_nat (length pre) + 2 + l)
        by (unfold pre'; rewrite !app_length, length_be_bytes, map_length; fold l; lia).
      assert (Hd' : data = pre' ++ enc_strings r ++ post) by (rewrite Hdata; unfold pre'; rewrite <- !app_assoc; reflexivity).
      destruct d as [cap|].
      + rewrite (Hcopy cap Hcap). cbn [bind].
        replace (N.of_nat (length pre) + (2 + l + total r)) with (N.of_nat (length pre') + total r) by lia.
        rewrite <- Hpre'. rewrite Hd'. rewrite IH by (first [assumption | lia]). rewrite <- app_assoc. reflexivity.
      + cbn [bind].
        replace (N.of_nat (length pre) + (2 + l + total r)) with (N.of_nat (length pre') + total r) by lia.
        rewrite <- Hpre'. rewrite Hd'. rewrite IH by (first [assumption | lia]). rewrite <- app_assoc. reflexivity.
  Qed.

  (* unpacking a packed array held in a block of EXACTLY its recorded length (post = []) or more, into any number of
     string objects - fewer than, as many as, or more than were packed: the first min(requested, packed) objects
     receive their length (and their bytes, when they have a destination large enough), the others are not touched,
     and the model never leaves the array (the result is Ok, not OOB) *)
  Theorem unpack_exact ss dsts post : short ss -> total ss < 2 ^ 16 -> caps_ok dsts ss -> N.of_nat (length dsts) < 2 ^ 16 ->
    strs_unpack LDW (total ss) (enc_strings ss ++ post) dsts (N.of_nat (length dsts)) = Ok (expected dsts ss).
  Proof.
    intros Hsh Htot Hcaps Hn. unfold strs_unpack. rewrite (N.mod_small (N.of_nat (length dsts))) by exact Hn.
    rewrite Nat2N.id, firstn_all. rewrite (N.mod_small (total ss)) by exact Htot.
    pose proof (unpack_loop_exact ss dsts [] post [] Hsh Hcaps) as H. cbn [length app] in H. change (N.of_nat 0) with 0 in H. rewrite !N.add_0_l in H.
    apply H. exact Htot.
  Qed.
End Strs.
