(* Universal theorems about the field reader and writer.

   GetSpec / SetSpec: for every descriptor accepted by IsFieldDescriptorValid
   (offset 0..31, width 0..64), every start quadlet whose index arithmetic does
   not wrap, every buffer content and every value, the reader returns exactly
   the field's wire bits and the writer replaces exactly them.

   Method: the loops are run once per shape (32 x 65 = 2080 shapes, the whole
   accepted domain) on symbolic words by vm_compute; the soundness of the
   symbolic operations (Sym.v) and a relation lemma (induction on the loop
   fuel) transfer the result to every concrete content. *)
From Coq Require Import List NArith ZArith Bool Lia Arith ZifyN ZifyNat ZifyBool.
From O1722 Require Import Sym Bits FieldModel.
Import ListNotations.
Local Open Scope N_scope.
Ltac Zify.zify_post_hook ::= Z.div_mod_to_equations.

(* ---------- the two sweeps ---------- *)
Lemma sweep_get : forallb (fun p => check_get (fst p) (snd p)) shapes = true.
Proof. vm_compute. reflexivity. Qed.
Lemma sweep_set : forallb (fun p => check_set (fst p) (snd p)) shapes = true.
Proof. vm_compute. reflexivity. Qed.

Lemma in_shapes o w : o <= 31 -> w <= 64 -> In (o,w) shapes.
Proof.
  intros. unfold shapes. apply in_flat_map. exists (N.to_nat o). split.
  - apply in_seq. lia.
  - apply in_map_iff. exists (N.to_nat w). split; [f_equal; lia | apply in_seq; lia].
Qed.
Lemma check_get_ok o w : o <= 31 -> w <= 64 -> check_get o w = true.
Proof.
  intros Ho Hw. pose proof sweep_get as H. rewrite forallb_forall in H.
  exact (H (o,w) (in_shapes o w Ho Hw)).
Qed.
Lemma check_set_ok o w : o <= 31 -> w <= 64 -> check_set o w = true.
Proof.
  intros Ho Hw. pose proof sweep_set as H. rewrite forallb_forall in H.
  exact (H (o,w) (in_shapes o w Ho Hw)).
Qed.

Lemma list_eqb_eq a b : list_eqb a b = true -> a = b.
Proof.
  unfold list_eqb. revert b; induction a as [|x a IH]; intros [|y b] H; cbn in H; try discriminate; auto.
  apply andb_true_iff in H. destruct H as [H1 H2]. apply andb_true_iff in H2. destruct H2 as [H2 H3].
  apply N.eqb_eq in H2. subst. f_equal. apply IH. rewrite H1. exact H3.
Qed.

(* ---------- N-indexed variants of the soundness lemmas ---------- *)
Lemma repr_shlN env width a x k :
  repr env a x -> repr env (w_shl width a (N.to_nat k)) (N.shiftl x k mod 2^(N.of_nat width)).
Proof. intros H. rewrite <- (N2Nat.id k) at 2. apply repr_shl; exact H. Qed.
Lemma repr_shrN env width a x k :
  repr env a x -> repr env (w_shr width a (N.to_nat k)) (N.shiftr x k mod 2^(N.of_nat width)).
Proof. intros H. rewrite <- (N2Nat.id k) at 2. apply repr_shr; exact H. Qed.

(* the symbolic loops never look at the start quadlet *)
Lemma get_loop_sym_dq d fuel : forall m k pr res tr,
  get_loop opsS fuel d m k pr res tr = get_loop opsS fuel (mkdesc 0 (doff d) (dbits d)) m k pr res tr.
Proof.
  induction fuel as [|f IH]; intros; cbn [get_loop]; [reflexivity|].
  unfold chunk_mask, chunk_shift, chunk_bits. cbn [doff dbits]. rewrite IH. reflexivity.
Qed.
Lemma set_loop_sym_dq d fuel : forall v m k pr tr,
  set_loop opsS fuel d v m k pr tr = set_loop opsS fuel (mkdesc 0 (doff d) (dbits d)) v m k pr tr.
Proof.
  induction fuel as [|f IH]; intros; cbn [set_loop]; [reflexivity|].
  unfold chunk_mask, chunk_shift, chunk_bits. cbn [doff dbits]. rewrite IH. reflexivity.
Qed.

Lemma nquad_le3 d : desc_valid d = true -> nquad d <= 3.
Proof.
  unfold desc_valid, nquad. intros H. apply andb_true_iff in H. destruct H as [H1 H2].
  apply N.leb_le in H1, H2. destruct (dbits d =? 0); lia.
Qed.
Lemma in_qoffs d k : In k (qoffs d) <-> k < nquad d.
Proof.
  unfold qoffs. rewrite in_map_iff. split.
  - intros [x [E Hx]]. apply in_seq in Hx. lia.
  - intros H. exists (N.to_nat k). split; [lia|]. apply in_seq. lia.
Qed.

(* ====================================================================== *)
Section GetSec.
  Variable ldq : buf -> N -> N.
  Variable stq : buf -> N -> N -> buf.
  Variable qw : N.
  Hypothesis Hld : forall b q, ldq b q = ldq_be b q.
  Variable d : desc.
  Variable b : buf.

  Definition envG (id:N) : bool :=
    let x := id / 2 in N.testbit (ldq b (qid qw d (x / 32))) (x mod 32).

  Lemma symq_repr k : repr envG (symq k) (ldq b (qid qw d k)).
  Proof.
    unfold symq. apply repr_varsf.
    - rewrite Hld. apply ldq_be_lt.
    - intros i Hi. unfold envG, memvar.
      replace (2 * (32 * k + N.of_nat i) / 2) with (32 * k + N.of_nat i) by lia.
      replace ((32 * k + N.of_nat i) / 32) with k by lia.
      replace ((32 * k + N.of_nat i) mod 32) with (N.of_nat i) by lia.
      reflexivity.
  Qed.

  Lemma get_loop_rel fuel : forall k pr rs rn tr,
    repr envG rs rn ->
    match get_loop opsS fuel d [] k pr rs tr, get_loop (opsN ldq stq qw d) fuel d b k pr rn tr with
    | Some (s, t1), Some (n, t2) => repr envG s n /\ t1 = t2
    | None, None => True
    | _, _ => False
    end.
  Proof.
    induction fuel as [|f IH]; intros k pr rs rn tr HR; cbn [get_loop].
    - destruct (pr <? dbits d); [exact I| split; [exact HR|reflexivity]].
    - destruct (pr <? dbits d); [| split; [exact HR|reflexivity]].
      apply IH. cbn [opsS opsN o_and o_or o_shl o_shr o_resize o_const o_ld o_st mget].
      apply repr_or; [exact HR|].
      apply repr_shlN. apply repr_resize. apply repr_shrN.
      apply repr_and; [apply symq_repr | apply repr_const].
  Qed.

  Hypothesis Hvalid : desc_valid d = true.
  Hypothesis Hnowrap : dq d + 4 <= 2 ^ qw.

  Lemma qid_small k : k < 4 -> qid qw d k = dq d + k.
  Proof. intros. unfold qid. apply N.mod_small. lia. Qed.

  Theorem get_desc_spec :
    exists v, get_desc ldq stq qw d b = Some (v, map (fun k => dq d + k) (qoffs d)) /\
      forall i, N.testbit v i = (i <? dbits d) && bit_at b (32 * dq d + doff d + dbits d - 1 - i).
  Proof.
    pose proof Hvalid as Hv. unfold desc_valid in Hv. apply andb_true_iff in Hv.
    destruct Hv as [Ho Hw]. apply N.leb_le in Ho, Hw.
    pose proof (check_get_ok (doff d) (dbits d) Ho Hw) as Hc. unfold check_get in Hc.
    rewrite <- get_loop_sym_dq in Hc.
    pose proof (get_loop_rel 4 0 0 (zeros 64) 0 [] (repr_zeros envG 64)) as Hrel.
    unfold get_desc. rewrite Hvalid. unfold fuel0.
    destruct (get_loop opsS 4 d [] 0 0 (zeros 64) []) as [[s t1]|]; [|discriminate].
    destruct (get_loop (opsN ldq stq qw d) 4 d b 0 0 0 []) as [[n t2]|]; [|contradiction].
    destruct Hrel as [Hrepr Ht]. subst t2.
    apply andb_true_iff in Hc. destruct Hc as [Hwq Htr].
    apply list_eqb_eq in Htr. subst t1.
    exists n. split.
    - f_equal. f_equal. unfold qoffs at 1. cbn [nquad doff dbits].
      change (map N.of_nat (seq 0 (N.to_nat (if dbits d =? 0 then 0 else (doff d + dbits d + 31) / 32)))) with (qoffs d).
      apply map_ext_in. intros k Hk. apply in_qoffs in Hk. pose proof (nquad_le3 d Hvalid).
      apply qid_small. lia.
    - intros i. rewrite <- (N2Nat.id i).
      rewrite (repr_exact envG s _ n Hrepr Hwq (N.to_nat i)).
      unfold exp_get. cbn [doff dbits].
      destruct (Nat.lt_ge_cases (N.to_nat i) 64) as [Hi|Hi].
      + rewrite nth_map_seq by exact Hi. rewrite N2Nat.id.
        destruct (N.ltb_spec i (dbits d)) as [Hiw|Hiw]; cbn [andb bitval]; [|reflexivity].
        unfold envG, memvar.
        set (j := doff d + dbits d - 1 - i).
        replace (2 * (32 * (j / 32) + (31 - j mod 32)) / 2) with (32 * (j / 32) + (31 - j mod 32)) by lia.
        replace ((32 * (j / 32) + (31 - j mod 32)) / 32) with (j / 32) by lia.
        replace ((32 * (j / 32) + (31 - j mod 32)) mod 32) with (31 - j mod 32) by lia.
        rewrite Hld, ldq_be_bit. rewrite qid_small by lia.
        replace (31 - j mod 32 <? 32) with true by (symmetry; apply N.ltb_lt; lia).
        cbn [andb]. f_equal. lia.
      + rewrite nth_overflow by (rewrite map_length, seq_length; exact Hi).
        cbn [bitval]. rewrite N2Nat.id.
        destruct (N.ltb_spec i (dbits d)); [lia|reflexivity].
  Qed.
End GetSec.

(* ====================================================================== *)
Lemma ldq_stq_same b q v : 4 * q + 4 <= blen b -> ldq_be (stq_be b q v) q = v mod 2 ^ 32.
Proof.
  intros Hin. apply N.bits_inj. intros k. rewrite ldq_be_bit.
  destruct (N.ltb_spec k 32) as [Hk|Hk]; cbn [andb].
  - rewrite bit_at_stq_be by exact Hin.
    replace ((32 * q + 31 - k) / 32 =? q) with true by (symmetry; apply N.eqb_eq; lia).
    rewrite N.mod_pow2_bits_low by lia. f_equal. lia.
  - rewrite N.mod_pow2_bits_high by lia. reflexivity.
Qed.
Lemma stq_be_oob b q v : ~ (4 * q + 4 <= blen b) -> stq_be b q v = b.
Proof.
  intros H. unfold stq_be, upd. rewrite length_be_bytes. change (N.of_nat 4) with 4.
  destruct (N.leb_spec (4 * q + 4) (blen b)); [lia|reflexivity].
Qed.
Lemma nthN_stq_be_frame b q v j : j / 4 <> q -> nthN (stq_be b q v) j = nthN b j.
Proof.
  intros Hj. destruct (N.le_gt_cases (4 * q + 4) (blen b)) as [Hin|Hout].
  - apply nthN_stq_be_other; assumption.
  - rewrite stq_be_oob by lia. reflexivity.
Qed.
Lemma ldq_stq_other b q q' v : q' <> q -> ldq_be (stq_be b q v) q' = ldq_be b q'.
Proof.
  intros Hq. unfold ldq_be. f_equal. unfold slice. apply map_ext_in. intros i Hi. apply in_seq in Hi.
  unfold byte_at. rewrite nthN_stq_be_frame; [reflexivity|]. lia.
Qed.
Lemma bit_at_ldq b i : bit_at b i = N.testbit (ldq_be b (i / 32)) (31 - i mod 32).
Proof.
  rewrite ldq_be_bit. replace (31 - i mod 32 <? 32) with true by (symmetry; apply N.ltb_lt; lia).
  cbn [andb]. f_equal. lia.
Qed.

Lemma mget_notin (m:smem) k dflt : (forall p, In p m -> fst p <> k) -> mget m k dflt = dflt.
Proof.
  induction m as [|[k' v] m IH]; intros H; cbn [mget]; [reflexivity|].
  destruct (N.eqb_spec k' k) as [E|E]; [exfalso; apply (H (k',v)); [left; reflexivity|exact E]|].
  apply IH. intros p Hp. apply H. right. exact Hp.
Qed.

Section SetSec.
  Variable ldq : buf -> N -> N.
  Variable stq : buf -> N -> N -> buf.
  Variable qw : N.
  Hypothesis Hld : forall b q, ldq b q = ldq_be b q.
  Hypothesis Hst : forall b q v, stq b q v = stq_be b q v.
  Variable d : desc.
  Variable b0 : buf.
  Variable v : N.
  Hypothesis Hvalid : desc_valid d = true.
  Hypothesis Hnowrap : dq d + 4 <= 2 ^ qw.

  Definition envS (id:N) : bool :=
    if N.even id
    then let x := id / 2 in N.testbit (ldq b0 (qid qw d (x / 32))) (x mod 32)
    else N.testbit (v mod 2^64) (id / 2).

  Lemma envS_mem k bb : bb < 32 -> envS (memvar k bb) = N.testbit (ldq b0 (qid qw d k)) bb.
  Proof.
    intros Hb. unfold envS, memvar.
    replace (N.even (2 * (32 * k + bb))) with true by (symmetry; rewrite N.even_spec; exists (32*k+bb); lia).
    replace (2 * (32 * k + bb) / 2) with (32 * k + bb) by lia.
    replace ((32 * k + bb) / 32) with k by lia.
    replace ((32 * k + bb) mod 32) with bb by lia. reflexivity.
  Qed.
  Lemma envS_val i : envS (valvar i) = N.testbit (v mod 2^64) i.
  Proof.
    unfold envS, valvar.
    replace (N.even (2 * i + 1)) with false.
    2:{ symmetry. apply Bool.not_true_is_false. rewrite N.even_spec. intros [x Hx]. lia. }
    f_equal. lia.
  Qed.

  Lemma symq_reprS k : repr envS (symq k) (ldq b0 (qid qw d k)).
  Proof.
    unfold symq. apply repr_varsf.
    - rewrite Hld. apply ldq_be_lt.
    - intros i Hi. apply envS_mem. lia.
  Qed.
  Lemma symv_repr : repr envS symv (v mod 2^64).
  Proof.
    unfold symv. apply repr_varsf.
    - apply N.mod_lt. lia.
    - intros i Hi. apply envS_val.
  Qed.

  Lemma qid_smallS k : k < 4 -> qid qw d k = dq d + k.
  Proof. intros. unfold qid. apply N.mod_small. lia. Qed.

  (* symbolic memory vs buffer: related on every in-bounds quadlet of the window *)
  Definition Rm (ms:smem) (mc:buf) : Prop :=
    length mc = length b0 /\
    forall k, k < 4 -> 4 * qid qw d k + 4 <= blen mc ->
      repr envS (mget ms k (symq k)) (ldq mc (qid qw d k)).

  Lemma Rm_init : Rm [] b0.
  Proof. split; [reflexivity|]. intros k _ _. cbn [mget]. apply symq_reprS. Qed.

  Lemma set_loop_rel fuel : forall k pr ms mc tr,
    N.of_nat fuel + k <= 4 -> Rm ms mc ->
    match set_loop opsS fuel d symv ms k pr tr,
          set_loop (opsN ldq stq qw d) fuel d (v mod 2^64) mc k pr tr with
    | Some (ms', t1), Some (mc', t2) => Rm ms' mc' /\ t1 = t2
    | None, None => True
    | _, _ => False
    end.
  Proof.
    induction fuel as [|f IH]; intros k pr ms mc tr Hk HR; cbn [set_loop].
    - destruct (pr <? dbits d); [exact I| split; [exact HR|reflexivity]].
    - destruct (pr <? dbits d); [| split; [exact HR|reflexivity]].
      replace ((k + 1) mod 256) with (k + 1) by (symmetry; apply N.mod_small; lia).
      apply IH; [lia|].
      cbn [opsS opsN o_and o_or o_shl o_shr o_resize o_const o_ld o_st].
      destruct HR as [HL HR]. split.
      + rewrite Hst, length_stq_be. exact HL.
      + intros k' Hk' Hin. rewrite Hst in Hin. unfold blen in Hin. rewrite length_stq_be in Hin.
        fold (blen mc) in Hin. cbn [mget].
        destruct (N.eqb_spec k k') as [E|E].
        * subst k'. rewrite Hst, Hld, ldq_stq_same by exact Hin.
          rewrite N.mod_mod by lia.
          apply (repr_resize envS 32).
          apply repr_or.
          -- apply repr_and; [apply HR; [lia|exact Hin] | apply repr_const].
          -- apply repr_and; [|apply repr_const].
             apply repr_shlN. apply (repr_resize envS 32). apply repr_shrN. apply symv_repr.
        * rewrite Hst, Hld, ldq_stq_other.
          2:{ rewrite !qid_smallS by lia. lia. }
          rewrite <- Hld. apply HR; assumption.
  Qed.

  (* frame: bytes of quadlets that are not stored to stay literally the same *)
  Lemma set_loop_frame fuel : forall k pr mc tr mc' tr',
    set_loop (opsN ldq stq qw d) fuel d (v mod 2^64) mc k pr tr = Some (mc', tr') ->
    exists added, tr' = tr ++ added /\
      forall j, (forall k', In k' added -> j / 4 <> qid qw d k') -> nthN mc' j = nthN mc j.
  Proof.
    induction fuel as [|f IH]; intros k pr mc tr mc' tr'; cbn [set_loop].
    - destruct (pr <? dbits d); [discriminate|]. intros H. inversion H. subst.
      exists []. split; [now rewrite app_nil_r|]. reflexivity.
    - destruct (pr <? dbits d).
      + intros H. apply IH in H. destruct H as [added [Ht Hf]].
        exists (k :: added). split; [rewrite Ht, <- app_assoc; reflexivity|].
        intros j Hj. rewrite Hf by (intros k' Hk'; apply Hj; right; exact Hk').
        cbn [opsN o_st]. rewrite Hst. apply nthN_stq_be_frame. apply Hj. left. reflexivity.
      + intros H. inversion H. subst. exists []. split; [now rewrite app_nil_r|]. reflexivity.
  Qed.

  Theorem set_desc_spec :
    4 * (dq d + nquad d) <= blen b0 ->
    exists b', set_desc ldq stq qw d b0 v = Some (b', map (fun k => dq d + k) (qoffs d)) /\
      length b' = length b0 /\
      (forall j, ~ (dq d <= j / 4 < dq d + nquad d) -> nthN b' j = nthN b0 j) /\
      (forall i, bit_at b' i =
         let s := 32 * dq d + doff d in
         if (s <=? i) && (i <? s + dbits d) then N.testbit v (s + dbits d - 1 - i) else bit_at b0 i).
  Proof.
    intros Hin.
    pose proof Hvalid as Hv. unfold desc_valid in Hv. apply andb_true_iff in Hv.
    destruct Hv as [Ho Hw]. apply N.leb_le in Ho, Hw.
    pose proof (nquad_le3 d Hvalid) as Hn3.
    pose proof (check_set_ok (doff d) (dbits d) Ho Hw) as Hc. unfold check_set in Hc.
    rewrite <- set_loop_sym_dq in Hc.
    pose proof (set_loop_rel 4 0 0 [] b0 [] ltac:(lia) Rm_init) as Hrel.
    unfold set_desc. rewrite Hvalid. unfold fuel0.
    destruct (set_loop opsS 4 d symv [] 0 0 []) as [[ms t1]|]; [|discriminate].
    destruct (set_loop (opsN ldq stq qw d) 4 d (v mod 2^64) b0 0 0 []) as [[b' t2]|] eqn:Hrun; [|contradiction].
    destruct Hrel as [[HL HR] Ht]. subst t2.
    apply andb_true_iff in Hc. destruct Hc as [Htr Hwq].
    apply list_eqb_eq in Htr. subst t1.
    assert (Hqo : qoffs (mkdesc 0 (doff d) (dbits d)) = qoffs d) by reflexivity.
    rewrite Hqo in *.
    apply set_loop_frame in Hrun. destruct Hrun as [added [Hadd Hframe]]. cbn [app] in Hadd. subst added.
    assert (Hmap : map (qid qw d) (qoffs d) = map (fun k => dq d + k) (qoffs d)).
    { apply map_ext_in. intros k Hk. apply in_qoffs in Hk. apply qid_smallS. lia. }
    assert (Hfr : forall j, ~ (dq d <= j / 4 < dq d + nquad d) -> nthN b' j = nthN b0 j).
    { intros j Hj. apply Hframe. intros k' Hk'. apply in_qoffs in Hk'. rewrite qid_smallS by lia. lia. }
    exists b'. split; [rewrite Hmap; reflexivity|]. split; [exact HL|]. split; [exact Hfr|].
    intros i. cbv zeta.
    destruct (N.le_gt_cases (dq d) (i / 32)) as [Hlo|Hlo];
      [destruct (N.lt_ge_cases (i / 32) (dq d + nquad d)) as [Hhi|Hhi]|].
    - (* a stored quadlet *)
      set (k := i / 32 - dq d). assert (Hk : k < nquad d) by lia.
      assert (Hq : qid qw d k = i / 32) by (rewrite qid_smallS by lia; lia).
      assert (Hinb : 4 * qid qw d k + 4 <= blen b').
      { unfold blen. rewrite HL. fold (blen b0). rewrite Hq. lia. }
      rewrite bit_at_ldq. rewrite <- Hq. rewrite <- Hld.
      rewrite forallb_forall in Hwq. specialize (Hwq k (proj2 (in_qoffs d k) Hk)).
      specialize (HR k ltac:(lia) Hinb).
      set (bb := 31 - i mod 32).
      rewrite <- (N2Nat.id bb).
      rewrite (repr_exact envS _ _ _ HR Hwq (N.to_nat bb)).
      unfold exp_set. cbn [doff dbits].
      rewrite nth_map_seq by lia. rewrite N2Nat.id.
      replace (32 * k + 31 - bb) with (i - 32 * dq d) by lia.
      destruct (N.leb_spec (doff d) (i - 32 * dq d)) as [H1|H1];
        destruct (N.ltb_spec (i - 32 * dq d) (doff d + dbits d)) as [H2|H2];
        destruct (N.leb_spec (32 * dq d + doff d) i) as [H3|H3];
        destruct (N.ltb_spec i (32 * dq d + doff d + dbits d)) as [H4|H4];
        cbn [andb bitval]; try lia.
      + rewrite envS_val. rewrite N.mod_pow2_bits_low by lia. f_equal. lia.
      + rewrite envS_mem by lia. rewrite Hld, Hq. rewrite bit_at_ldq. reflexivity.
      + rewrite envS_mem by lia. rewrite Hld, Hq. rewrite bit_at_ldq. reflexivity.
    - (* above the window *)
      replace ((32 * dq d + doff d <=? i) && (i <? 32 * dq d + doff d + dbits d)) with false.
      2:{ symmetry. unfold nquad in *.
          destruct (N.leb_spec (32 * dq d + doff d) i); destruct (N.ltb_spec i (32 * dq d + doff d + dbits d));
            cbn [andb]; try reflexivity.
          destruct (dbits d =? 0) eqn:E; [apply N.eqb_eq in E|apply N.eqb_neq in E]; lia. }
      unfold bit_at, byte_at. rewrite Hfr; [reflexivity|]. lia.
    - replace ((32 * dq d + doff d <=? i) && (i <? 32 * dq d + doff d + dbits d)) with false.
      2:{ symmetry. apply andb_false_iff. left. apply N.leb_gt. lia. }
      unfold bit_at, byte_at. rewrite Hfr; [reflexivity|]. lia.
  Qed.
End SetSec.
