(* C17 - overlapping header views agree. *)
From Coq Require Import List NArith String Bool.
From O1722 Require Import Bits Host FieldModel Spec AccModel C13Proofs C01Proofs Views C17Proofs.
From O1722.Generated Require Import Tables.
Import ListNotations.
Local Open Scope N_scope.

(* for every group of Views.view_groups (common header over all stream formats, ACF common header over
   all ACF messages incl. VSS / VSS-brief, stream header over TSCF/AAF/PCM/CVF/RVF, AAF vs AAF-PCM) and any
   two members: every access path of either view (by-identifier accessor, dedicated accessor; records
   regenerated from the sources) returns the same value on every buffer, writes leave the same bits,
   and a value written through one view is read back through the other.  Both host byte orders. *)
Theorem C17_views : forall E g v1 v2, In g view_groups -> In v1 g -> In v2 g -> views_agree E v1 v2.
Proof. exact group_members_agree. Qed.

(* the groups are not empty and name existing fields *)
Example C17_groups : List.length view_groups = 18%nat /\
  In ("Vss", "AVTP_VSS_FIELD_ACF_MSG_LENGTH")%string (nth 4 view_groups []) /\
  In ("AcfCommon", "AVTP_ACF_FIELD_ACF_MSG_LENGTH")%string (nth 4 view_groups []).
Proof. vm_compute. intuition. Qed.

Example C17_example :
  exists g, find_getter (u_getters u_AcfCommon) "Avtp_AcfCommon_GetAcfMsgLength" = Some g /\
    run_getter (ldqE LE) (stqE LE) cfg (u_tables u_AcfCommon) g (Some [0x85; 0x23; 0; 0]) [0] = Ok 0x123.
Proof. eexists. split; [reflexivity|]. vm_compute. reflexivity. Qed.
