(* A small language of C integer expressions over one unsigned parameter,
   enough for include/avtp/Byteorder.h.  The translator emits one term per
   helper and per branch of the host-endianness switch, with the C type width
   of every node as clang reports it (integer promotions included).

   [eval] is the concrete C semantics on unsigned values (None = outside the
   fragment: shift count >= width).  [analyse] runs the same term on symbolic
   words; [analyse_sound] relates the two for every input. *)
From Coq Require Import List NArith Bool Lia Arith.
From O1722 Require Import Sym.
Import ListNotations.
Local Open Scope N_scope.

Inductive binop := BAnd | BOr | BXor.
Inductive cexpr :=
| EVar                                   (* the parameter *)
| EConst (w:nat) (n:N)                   (* literal of a w-bit unsigned type *)
| EBin (op:binop) (w:nat) (a b:cexpr)    (* bitwise operator in a w-bit type *)
| EShl (w:nat) (a:cexpr) (k:N)           (* a << k in a w-bit type, k a literal *)
| EShr (w:nat) (a:cexpr) (k:N)           (* a >> k (logical), w-bit type *)
| ECast (w:nat) (a:cexpr)                (* conversion to a w-bit unsigned type *)
| ELet (a body:cexpr)                    (* call: bind the parameter to a, evaluate the callee's body *)
| EUnsupported.                          (* something the translator does not understand *)

Definition trunc (w:nat) (x:N) : N := x mod 2^(N.of_nat w).

Fixpoint eval (x:N) (e:cexpr) : option N :=
  match e with
  | EVar => Some x
  | EConst w n => Some (trunc w n)
  | EBin op w a b =>
      match eval x a, eval x b with
      | Some va, Some vb =>
          Some (trunc w (match op with BAnd => N.land va vb | BOr => N.lor va vb | BXor => N.lxor va vb end))
      | _, _ => None
      end
  | EShl w a k =>
      if k <? N.of_nat w then
        match eval x a with Some va => Some (trunc w (N.shiftl (trunc w va) k)) | None => None end
      else None
  | EShr w a k =>
      if k <? N.of_nat w then
        match eval x a with Some va => Some (trunc w (N.shiftr (trunc w va) k)) | None => None end
      else None
  | ECast w a => match eval x a with Some va => Some (trunc w va) | None => None end
  | ELet a body => match eval x a with Some va => eval va body | None => None end
  | EUnsupported => None
  end.

Fixpoint analyse (x:word) (e:cexpr) : option word :=
  match e with
  | EVar => Some x
  | EConst w n => Some (w_const w n)
  | EBin op w a b =>
      match analyse x a, analyse x b with
      | Some sa, Some sb =>
          Some (w_resize w (match op with BAnd => w_and sa sb | BOr => w_or sa sb | BXor => w_xor sa sb end))
      | _, _ => None
      end
  | EShl w a k =>
      if k <? N.of_nat w then
        match analyse x a with Some sa => Some (w_shl w (w_resize w sa) (N.to_nat k)) | None => None end
      else None
  | EShr w a k =>
      if k <? N.of_nat w then
        match analyse x a with Some sa => Some (w_shr w (w_resize w sa) (N.to_nat k)) | None => None end
      else None
  | ECast w a => match analyse x a with Some sa => Some (w_resize w sa) | None => None end
  | ELet a body => match analyse x a with Some sa => analyse sa body | None => None end
  | EUnsupported => None
  end.

Lemma analyse_sound env e : forall x s n r,
  repr env x n -> analyse x e = Some s -> eval n e = Some r -> repr env s r.
Proof.
  induction e as [|w c|op w a IHa b IHb|w a IHa k|w a IHa k|w a IHa|a IHa body IHb|];
    intros x s n r Hx Ha He; cbn [analyse eval] in *.
  - inversion Ha; inversion He; subst; exact Hx.
  - inversion Ha; inversion He; subst. apply repr_const.
  - destruct (analyse x a) as [sa|] eqn:Ea; [|discriminate].
    destruct (analyse x b) as [sb|] eqn:Eb; [|discriminate].
    destruct (eval n a) as [va|] eqn:Va; [|discriminate].
    destruct (eval n b) as [vb|] eqn:Vb; [|discriminate].
    inversion Ha; inversion He; subst. unfold trunc. apply repr_resize.
    specialize (IHa _ _ _ _ Hx Ea Va). specialize (IHb _ _ _ _ Hx Eb Vb).
    destruct op; [apply repr_and|apply repr_or|apply repr_xor]; assumption.
  - destruct (k <? N.of_nat w); [|discriminate].
    destruct (analyse x a) as [sa|] eqn:Ea; [|discriminate].
    destruct (eval n a) as [va|] eqn:Va; [|discriminate].
    inversion Ha; inversion He; subst. unfold trunc.
    rewrite <- (N2Nat.id k) at 2. apply repr_shl. apply repr_resize. eauto.
  - destruct (k <? N.of_nat w); [|discriminate].
    destruct (analyse x a) as [sa|] eqn:Ea; [|discriminate].
    destruct (eval n a) as [va|] eqn:Va; [|discriminate].
    inversion Ha; inversion He; subst. unfold trunc.
    rewrite <- (N2Nat.id k) at 2. apply repr_shr. apply repr_resize. eauto.
  - destruct (analyse x a) as [sa|] eqn:Ea; [|discriminate].
    destruct (eval n a) as [va|] eqn:Va; [|discriminate].
    inversion Ha; inversion He; subst. unfold trunc. apply repr_resize. eauto.
  - destruct (analyse x a) as [sa|] eqn:Ea; [|discriminate].
    destruct (eval n a) as [va|] eqn:Va; [|discriminate].
    eauto.
  - discriminate.
Qed.

(* if the analysis succeeds, evaluation succeeds (same control structure) *)
Lemma analyse_eval_some e : forall x s n, analyse x e = Some s -> exists r, eval n e = Some r.
Proof.
  induction e as [|w c|op w a IHa b IHb|w a IHa k|w a IHa k|w a IHa|a IHa body IHb|];
    intros x s n Ha; cbn [analyse eval] in *.
  - eauto.
  - eauto.
  - destruct (analyse x a) as [sa|] eqn:Ea; [|discriminate].
    destruct (analyse x b) as [sb|] eqn:Eb; [|discriminate].
    destruct (IHa _ _ n Ea) as [ra ->]. destruct (IHb _ _ n Eb) as [rb ->]. eauto.
  - destruct (k <? N.of_nat w); [|discriminate].
    destruct (analyse x a) as [sa|] eqn:Ea; [|discriminate].
    destruct (IHa _ _ n Ea) as [ra ->]. eauto.
  - destruct (k <? N.of_nat w); [|discriminate].
    destruct (analyse x a) as [sa|] eqn:Ea; [|discriminate].
    destruct (IHa _ _ n Ea) as [ra ->]. eauto.
  - destruct (analyse x a) as [sa|] eqn:Ea; [|discriminate].
    destruct (IHa _ _ n Ea) as [ra ->]. eauto.
  - destruct (analyse x a) as [sa|] eqn:Ea; [|discriminate].
    destruct (IHa _ _ n Ea) as [ra ->]. eauto.
  - discriminate.
Qed.

(* ---------- classification of a w-bit helper ---------- *)
Definition inw (w:nat) : word := w_vars w 0.
(* identity: bit i of the result is input bit i *)
Definition id_word (w:nat) : word := w_vars w 0.
(* byte reversal: bit i of the result is input bit 8*(n-1-i/8) + i mod 8, n = w/8 *)
Definition swap_word (w:nat) : word :=
  map (fun i => let i := N.of_nat i in
                SV (8 * (N.of_nat w / 8 - 1 - i / 8) + i mod 8)) (seq 0 w).

Definition is_id (w:nat) (e:cexpr) : bool :=
  match analyse (inw w) e with Some s => weqb s (id_word w) | None => false end.
Definition is_swap (w:nat) (e:cexpr) : bool :=
  match analyse (inw w) e with Some s => weqb s (swap_word w) | None => false end.

Definition env_of (x:N) : N -> bool := fun i => N.testbit x i.

Lemma inw_repr w x : x < 2^(N.of_nat w) -> repr (env_of x) (inw w) x.
Proof. intros H. apply repr_vars; [exact H|]. intros i Hi. unfold env_of. f_equal. Qed.

Lemma is_id_spec w e : is_id w e = true -> forall x, x < 2^(N.of_nat w) -> eval x e = Some x.
Proof.
  unfold is_id. intros H x Hx. destruct (analyse (inw w) e) as [s|] eqn:Ea; [|discriminate].
  destruct (analyse_eval_some e _ _ x Ea) as [r Hr]. rewrite Hr. f_equal.
  pose proof (analyse_sound (env_of x) e _ _ _ _ (inw_repr w x Hx) Ea Hr) as Hrep.
  apply N.bits_inj. intros k. rewrite <- (N2Nat.id k).
  rewrite (repr_exact _ _ _ _ Hrep H). unfold id_word, w_vars.
  destruct (Nat.lt_ge_cases (N.to_nat k) w) as [Hk|Hk].
  - rewrite nth_map_seq by exact Hk. cbn [bitval]. unfold env_of. reflexivity.
  - rewrite nth_overflow by (rewrite map_length, seq_length; exact Hk). cbn [bitval].
    symmetry. destruct (N.eq_dec x 0) as [->|Hz]; [apply N.bits_0|].
    apply N.bits_above_log2. apply N.log2_lt_pow2 in Hx; lia.
Qed.

(* the result of a byte swap, bit by bit *)
Lemma is_swap_bits w e : is_swap w e = true -> forall x, x < 2^(N.of_nat w) ->
  exists r, eval x e = Some r /\
    forall k, N.testbit r k =
      if k <? N.of_nat w then N.testbit x (8 * (N.of_nat w / 8 - 1 - k / 8) + k mod 8) else false.
Proof.
  unfold is_swap. intros H x Hx. destruct (analyse (inw w) e) as [s|] eqn:Ea; [|discriminate].
  destruct (analyse_eval_some e _ _ x Ea) as [r Hr]. exists r. split; [exact Hr|].
  pose proof (analyse_sound (env_of x) e _ _ _ _ (inw_repr w x Hx) Ea Hr) as Hrep.
  intros k. rewrite <- (N2Nat.id k) at 1.
  rewrite (repr_exact _ _ _ _ Hrep H). unfold swap_word.
  destruct (Nat.lt_ge_cases (N.to_nat k) w) as [Hk|Hk].
  - rewrite nth_map_seq by exact Hk. cbn [bitval]. unfold env_of. rewrite N2Nat.id.
    destruct (N.ltb_spec k (N.of_nat w)); [reflexivity|lia].
  - rewrite nth_overflow by (rewrite map_length, seq_length; exact Hk). cbn [bitval].
    destruct (N.ltb_spec k (N.of_nat w)); [lia|reflexivity].
Qed.
