(* C04 - initialisers yield the canonical header for the format, whatever the buffer held. *)
From Coq Require Import List NArith String Bool.
From O1722 Require Import Bits Host FieldModel Spec SpecProofs AccModel AccProofs FormatChecks C13Proofs C01Proofs.
From O1722.Generated Require Import Tables.
Import ListNotations.
Local Open Scope N_scope.

(* for every format with an initialiser and EVERY prior buffer of at least hdr_len bytes: the result
   has the same length, its header bits are those of the canonical header (zeros + the constants the
   format mandates, Spec.canonical_header), and every byte behind the header is literally the old one.
   [agrees b' h old hdr] says exactly that; it does not mention the old header, so the result is
   independent of it.  A null pdu is left alone. *)
Theorem C04_init : forall E s, In s all_specs -> init_correct E s.
Proof. exact inits. Qed.

(* initialising twice equals initialising once: the second run meets the same characterisation *)
Theorem C04_idempotent : forall E s, In s all_specs -> sp_init s <> EmptyString ->
  exists u i h, find_init (u_inits u) (sp_init s) = Some i /\ canonical_header s = Some h /\
   forall old b1, sp_hdr_len s <= blen old ->
    run_init (ldqE E) (stqE E) cfg u i (Some old) = Ok (Some b1) ->
    exists b2, run_init (ldqE E) (stqE E) cfg u i (Some b1) = Ok (Some b2) /\
      agrees b2 h old (sp_hdr_len s) /\ agrees b1 h old (sp_hdr_len s).
Proof.
  intros E s Hs Hne. destruct (inits E s Hs Hne) as [u [t [i [h [Hu [Hi [Hh [Hn Ho]]]]]]]].
  exists u, i, h. split; [exact Hi|]. split; [exact Hh|]. intros old b1 Hold Hr1.
  destruct (Ho old Hold) as [b1' [Hr1' Hag1]]. rewrite Hr1 in Hr1'. inversion Hr1'; subst b1'.
  assert (Hb1 : sp_hdr_len s <= blen b1).
  { destruct Hag1 as [HL _]. unfold blen in *. rewrite HL. exact Hold. }
  destruct (Ho b1 Hb1) as [b2 [Hr2 [HL2 [Hb2 Ht2]]]]. exists b2. split; [exact Hr2|]. split; [|exact Hag1].
  destruct Hag1 as [HL1 [Hbits1 Ht1]].
  split; [rewrite HL2; exact HL1|]. split; [exact Hb2|].
  intros j Hj. rewrite (Ht2 j Hj). apply Ht1. exact Hj.
Qed.

(* the canonical images, as data (what Spec.v says each initialiser must produce) *)
Example C04_images :
  canonical_header spec_Can = Some [2;0;0;0; 0;0;0;0; 0;0;0;0; 0;0;0;0] /\
  canonical_header spec_Cvf = Some [3;0x80;0;0; 0;0;0;0; 0;0;0;0; 0;0;0;0; 2;0;0;0; 0;0;0;0] /\
  canonical_header spec_VssBrief = Some [0x86;0;0;0] /\
  canonical_header spec_Ntscf = Some [0x82;0x80;0;0; 0;0;0;0; 0;0;0;0].
Proof. vm_compute. repeat split. Qed.
