(* C07: VSS messages are encoded exactly as the ACF-VSS description prescribes. *)
From Coq Require Import List NArith ZArith Bool Lia Arith ZifyN ZifyNat ZifyBool.
From O1722 Require Import Sym Bits Host FieldModel Spec SpecProofs AccModel NormalProofs ByteLemmas Paths VssModel VssSpec
  C13Proofs C01Proofs FieldOpsProofs C09Proofs C10Proofs.
From O1722.Generated Require Import Tables.
Import ListNotations.
Local Open Scope N_scope.

Notation normal := SpecProofs.normal.
Notation VS := spec_Vss.

(* the datatype / address-mode codes of the hand-written model are those of the regenerated enumerations *)
Lemma datatype_codes_ok :
  forallb (fun p => match FormatChecks.assoc enum_values (fst p) with Some v => N.eqb v (snd p) | None => false end) datatype_names = true.
Proof. vm_compute. reflexivity. Qed.

(* the caller's objects for reference values *)
Definition to_vpath (p:rpath) : vpath :=
  match p with RStatic id => PStatic id | RInterop path => PInterop (N.of_nat (length path)) path end.
Definition to_vdata (d:rdata) : vdata :=
  match d with
  | RScalar _ v => DScalar v
  | RBytes bytes => DBytes (N.of_nat (length bytes)) bytes
  | RElems w elems => DElems (N.of_nat (w * length elems)) elems
  | RStrings strs => DBytes (N.of_nat (length (enc_strings strs))) (enc_strings strs)   (* packed separately: C10 *)
  end.
(* the value has the shape the datatype in the header calls for, and its byte length fits the 16-bit prefix *)
Definition data_ok (dt:N) (d:rdata) : Prop :=
  match d, vss_kind dt with
  | RScalar 1 _, KS W8 => True
  | RScalar w _, KS (WW hw) => w = wbytes hw
  | RBytes bytes, KB => N.of_nat (length bytes) < 2 ^ 16
  | RElems w elems, KE hw => w = wbytes hw /\ N.of_nat (w * length elems) < 2 ^ 16
  | RStrings strs, KB => dt = 0x8B /\ N.of_nat (length (enc_strings strs)) < 2 ^ 16
  | _, _ => False
  end.
Definition path_ok (p:rpath) : Prop :=
  match p with RStatic _ => True | RInterop path => N.of_nat (length path) + 2 < 2 ^ 16 end.

Lemma length_enc_path p : length (enc_path p) = match p with RStatic _ => 4%nat | RInterop path => (2 + length path)%nat end.
Proof. destruct p; cbn [enc_path]; [apply length_be_bytes|]. rewrite app_length, map_length. unfold be16. rewrite length_be_bytes. reflexivity. Qed.
Lemma length_concat_be w (es:list N) : length (List.concat (map (be_bytes w) es)) = (w * length es)%nat.
Proof. induction es as [|e r IH]; cbn [map List.concat length]; [lia|]. rewrite app_length, length_be_bytes, IH. lia. Qed.

Section Enc.
  Variable E : endian.
  Notation LD := (ldqE E). Notation ST := (stqE E). Notation LDW := (ldwE E). Notation STW := (stwE E).

  Lemma mode_exact b : 12 <= blen b -> addr_mode LD ST b = Ok (hdr_mode b).
  Proof. intros Hb. destruct vss_names_ok as [_ [_ [Hm _]]]. unfold addr_mode, hdr_mode. apply (fgetd_exact E VS vss_in); assumption. Qed.
  Lemma dtype_exact b : 12 <= blen b -> datatype LD ST b = Ok (hdr_datatype b).
  Proof. intros Hb. destruct vss_names_ok as [_ [_ [_ Hd]]]. unfold datatype, hdr_datatype. apply (fgetd_exact E VS vss_in); assumption. Qed.
  Lemma hdr_mode_upd b a xs : 12 <= a -> a + N.of_nat (length xs) <= blen b -> hdr_mode (upd b a xs) = hdr_mode b.
  Proof. intros. destruct vss_names_ok as [_ [_ [Hm _]]]. unfold hdr_mode. apply (ref_get_upd_far VS vss_in); assumption. Qed.
  Lemma hdr_dtype_upd b a xs : 12 <= a -> a + N.of_nat (length xs) <= blen b -> hdr_datatype (upd b a xs) = hdr_datatype b.
  Proof. intros. destruct vss_names_ok as [_ [_ [_ Hd]]]. unfold hdr_datatype. apply (ref_get_upd_far VS vss_in); assumption. Qed.

  Lemma st_exact w b a v : a + N.of_nat (wbytes w) <= blen b -> st STW w b a v = Ok (upd b a (be_bytes (wbytes w) v)).
  Proof. intros H. unfold st. replace (a + N.of_nat (wbytes w) <=? blen b) with true by (symmetry; apply N.leb_le; exact H). rewrite stwE_wire. reflexivity. Qed.
  Lemma cpy_in_exact b a src : a + N.of_nat (length src) <= blen b ->
    cpy_in b a src (N.of_nat (length src)) = Ok (upd b a (map (fun x => x mod 256) src)).
  Proof.
    intros H. unfold cpy_in. replace ((N.of_nat (length src) <=? N.of_nat (length src)) && (a + N.of_nat (length src) <=? blen b)) with true
      by (symmetry; apply andb_true_iff; split; apply N.leb_le; lia).
    rewrite Nat2N.id, firstn_all. reflexivity.
  Qed.

  (* ---------- path ---------- *)
  Theorem set_path_exact b p : path_ok p -> hdr_mode b = path_mode p -> 12 + N.of_nat (length (enc_path p)) <= blen b ->
    vss_set_path STW LD ST b (to_vpath p) = Ok (upd b 12 (enc_path p)).
  Proof.
    intros Hp Hm Hb. unfold vss_set_path. rewrite mode_exact by lia. cbn [bind]. rewrite Hm.
    rewrite length_enc_path in Hb. destruct p as [id|path]; cbn [path_mode to_vpath enc_path N.eqb] in *.
    - unfold VHDR. apply (st_exact W32). cbn [wbytes]. lia.
    - unfold VHDR. cbn [path_ok] in Hp.
      rewrite (st_exact W16) by (cbn [wbytes]; lia). cbn [bind wbytes].
      rewrite N.mod_small by lia.
      rewrite cpy_in_exact by (rewrite blen_upd; lia).
      replace (12 + 2) with (12 + N.of_nat (length (be_bytes 2 (N.of_nat (length path))))) by (rewrite length_be_bytes; lia).
      rewrite upd_app by (rewrite length_be_bytes, map_length; lia). reflexivity.
  Qed.

  (* the on-wire path size read back from a buffer in which the path has just been written *)
  Lemma calc_after_path b p rest : path_ok p -> hdr_mode b = path_mode p ->
    12 + N.of_nat (length (enc_path p)) + N.of_nat (length rest) <= blen b ->
    vss_calc_path_len LDW LD ST (upd b 12 (enc_path p ++ rest)) = Ok (N.of_nat (length (enc_path p))).
  Proof.
    intros Hp Hm Hb. unfold vss_calc_path_len.
    assert (Hl : 12 + N.of_nat (length (enc_path p ++ rest)) <= blen b) by (rewrite app_length; lia).
    rewrite mode_exact by (rewrite blen_upd; lia). cbn [bind]. rewrite hdr_mode_upd by (first [lia | exact Hl]). rewrite Hm.
    rewrite length_enc_path in *. destruct p as [id|path]; cbn [path_mode N.eqb enc_path] in *; [reflexivity|].
    unfold ld, VHDR. cbn [wbytes]. replace (12 + N.of_nat 2 <=? blen (upd b 12 ((be16 (N.of_nat (length path)) ++ map (fun x => x mod 256) path) ++ rest))) with true
      by (symmetry; apply N.leb_le; rewrite blen_upd; lia).
    cbn [bind]. rewrite ldwE_wire. cbn [wbytes]. unfold be16. rewrite <- app_assoc.
    rewrite <- (length_be_bytes 2 (N.of_nat (length path))) at 2.
    rewrite slice_upd_prefix by (first [apply normal_be_bytes | rewrite length_be_bytes, app_length, map_length; lia]).
    rewrite be_of_be_bytes. cbn [path_ok] in Hp. change (8 * N.of_nat 2) with 16.
    rewrite (N.mod_small (N.of_nat (length path))) by lia. rewrite N.mod_small by lia. f_equal. lia.
  Qed.

  (* ---------- element arrays ---------- *)
  Lemma store_elems_exact w : forall rest done b a fuel, (length rest <= fuel)%nat ->
    a + N.of_nat (wbytes w * (length done + length rest)) <= blen b ->
    store_elems STW w fuel b a (N.of_nat (length done)) (N.of_nat (length done + length rest)) (done ++ rest) =
      Ok (upd b (a + N.of_nat (wbytes w * length done)) (List.concat (map (be_bytes (wbytes w)) rest))).
  Proof.
    induction rest as [|v r IH]; intros done b a fuel Hf Hb.
    - cbn [length]. rewrite Nat.add_0_r. destruct fuel; cbn [store_elems]; rewrite N.ltb_irrefl; cbn [map List.concat];
        rewrite upd_nil by lia; reflexivity.
    - destruct fuel as [|f]; [cbn in Hf; lia|]. cbn [store_elems length] in *.
      replace (N.of_nat (length done) <? N.of_nat (length done + S (length r))) with true by (symmetry; apply N.ltb_lt; lia).
      rewrite Nat2N.id. rewrite nth_error_app2 by lia. rewrite Nat.sub_diag. cbn [nth_error].
      rewrite st_exact by lia. cbn [bind].
      replace (N.of_nat (length done) + 1) with (N.of_nat (length (done ++ [v]))) by (rewrite app_length; cbn [length]; lia).
      replace (N.of_nat (length done + S (length r))) with (N.of_nat (length (done ++ [v]) + length r)) by (rewrite app_length; cbn [length]; lia).
      replace (done ++ v :: r) with ((done ++ [v]) ++ r) by (rewrite <- app_assoc; reflexivity).
      rewrite IH by (first [lia | rewrite blen_upd, app_length; cbn [length]; lia]).
      cbn [map List.concat]. f_equal.
      replace (a + N.of_nat (length done) * N.of_nat (wbytes w)) with (a + N.of_nat (wbytes w * length done)) by lia.
      replace (a + N.of_nat (wbytes w * length (done ++ [v])))
        with (a + N.of_nat (wbytes w * length done) + N.of_nat (length (be_bytes (wbytes w) v)))
        by (rewrite app_length, length_be_bytes; cbn [length]; lia).
      apply upd_app. rewrite length_be_bytes, length_concat_be. lia.
  Qed.

  (* ---------- data ---------- *)
  Theorem set_data_exact b d pl : normal b -> vss_calc_path_len LDW LD ST b = Ok pl -> data_ok (hdr_datatype b) d ->
    12 + pl + N.of_nat (length (enc_data d)) <= blen b ->
    vss_set_data LDW STW LD ST b (to_vdata d) = Ok (upd b (12 + pl) (enc_data d)).
  Proof.
    intros Hn Hpl Hok Hb. unfold vss_set_data. rewrite Hpl. cbn [bind]. rewrite dtype_exact by lia. cbn [bind]. unfold VHDR.
    set (a := 12 + pl) in *.
    destruct d as [w v|bytes|w elems|strs]; cbn [data_ok to_vdata enc_data] in *.
    - destruct (vss_kind (hdr_datatype b)) as [[|hw]| | |] eqn:Ek; try (destruct w as [|[|?]]; contradiction).
      + destruct w as [|[|?]]; try contradiction. rewrite length_be_bytes in Hb.
        pose proof (cpy_in_exact b a [v]) as Hc. cbn [length map] in Hc. change (N.of_nat 1) with 1 in Hc. rewrite Hc by lia.
        reflexivity.
      + assert (Hw : w = wbytes hw) by (destruct w as [|[|?]]; exact Hok). subst w.
        rewrite length_be_bytes in Hb. apply st_exact. lia.
    - destruct (vss_kind (hdr_datatype b)) as [[|hw]| | |] eqn:Ek; try contradiction.
      rewrite app_length, map_length in Hb. unfold be16 in *. rewrite length_be_bytes in Hb.
      rewrite (st_exact W16) by (cbn [wbytes]; lia). cbn [bind wbytes]. rewrite N.mod_small by exact Hok.
      rewrite cpy_in_exact by (rewrite blen_upd; lia).
      replace (a + 2) with (a + N.of_nat (length (be_bytes 2 (N.of_nat (length bytes))))) by (rewrite length_be_bytes; lia).
      rewrite upd_app by (rewrite length_be_bytes, map_length; lia). reflexivity.
    - destruct (vss_kind (hdr_datatype b)) as [[|hw0]| |hw|] eqn:Ek; try contradiction. destruct Hok as [-> Hlen].
      rewrite app_length, length_concat_be in Hb. unfold be16 in *. rewrite length_be_bytes in Hb.
      rewrite (st_exact W16) by (cbn [wbytes]; lia). cbn [bind].
      rewrite N.mod_small by exact Hlen.
      assert (Hdiv : N.of_nat (wbytes hw * length elems) / N.of_nat (wbytes hw) = N.of_nat (length elems)).
      { replace (N.of_nat (wbytes hw * length elems)) with (N.of_nat (length elems) * N.of_nat (wbytes hw)) by lia.
        apply N.div_mul. destruct hw; cbn; lia. }
      rewrite Hdiv.
      pose proof (store_elems_exact hw elems [] (upd b a (be_bytes (wbytes W16) (N.of_nat (wbytes hw * length elems)))) (a + 2)
                    (S (N.to_nat (N.of_nat (wbytes hw * length elems))))) as Hs.
      cbn [length app Nat.add] in Hs. change (N.of_nat 0) with 0 in Hs. rewrite Nat.mul_0_r in Hs. change (N.of_nat 0) with 0 in Hs.
      rewrite N.add_0_r in Hs. rewrite Hs; [|destruct hw; cbn [wbytes]; lia|rewrite blen_upd; lia].
      cbn [wbytes]. replace (a + 2) with (a + N.of_nat (length (be_bytes 2 (N.of_nat (wbytes hw * length elems))))) by (rewrite length_be_bytes; lia).
      rewrite upd_app by (rewrite length_be_bytes, length_concat_be; lia). reflexivity.
    - destruct (vss_kind (hdr_datatype b)) as [[|hw]| | |] eqn:Ek; try contradiction. destruct Hok as [_ Hlen].
      rewrite app_length in Hb. unfold be16 in *. rewrite length_be_bytes in Hb.
      rewrite (st_exact W16) by (cbn [wbytes]; lia). cbn [bind wbytes]. rewrite N.mod_small by exact Hlen.
      rewrite cpy_in_exact by (rewrite blen_upd; lia).
      rewrite (map_mod_normal (enc_strings strs)) by apply C10Proofs.normal_enc_strings.
      replace (a + 2) with (a + N.of_nat (length (be_bytes 2 (N.of_nat (length (enc_strings strs)))))) by (rewrite length_be_bytes; lia).
      rewrite upd_app by (rewrite length_be_bytes; lia). reflexivity.
  Qed.

  (* path then value: the two regions behind the fixed header hold the reference encodings, byte for byte; header and
     everything behind the value are literally the old bytes *)
  Theorem encode_exact b p d : normal b -> path_ok p -> hdr_mode b = path_mode p -> data_ok (hdr_datatype b) d ->
    12 + N.of_nat (length (enc_path p)) + N.of_nat (length (enc_data d)) <= blen b ->
    exists b1, vss_set_path STW LD ST b (to_vpath p) = Ok b1 /\
      vss_set_data LDW STW LD ST b1 (to_vdata d) =
        Ok (firstn 12 b ++ enc_path p ++ enc_data d ++ skipn (12 + length (enc_path p) + length (enc_data d)) b).
  Proof.
    intros Hn Hp Hm Hd Hb. exists (upd b 12 (enc_path p)). split.
    { apply set_path_exact; [assumption|assumption|lia]. }
    set (b1 := upd b 12 (enc_path p)).
    assert (Hn1 : normal b1).
    { apply normal_upd; [exact Hn|]. destruct p; cbn [enc_path]; [apply normal_be_bytes|].
      apply normal_app; [apply normal_be_bytes|]. unfold normal. apply Forall_forall. intros x Hx. apply in_map_iff in Hx.
      destruct Hx as [y [<- _]]. apply N.mod_lt. lia. }
    assert (Hcalc : vss_calc_path_len LDW LD ST b1 = Ok (N.of_nat (length (enc_path p)))).
    { pose proof (calc_after_path b p [] Hp Hm) as H. rewrite app_nil_r in H. apply H. cbn [length]. lia. }
    rewrite (set_data_exact b1 d _ Hn1 Hcalc).
    - f_equal. unfold b1.
      replace (12 + N.of_nat (length (enc_path p))) with (12 + N.of_nat (length (enc_path p))) by reflexivity.
      rewrite upd_app by lia. rewrite upd_as_app by (rewrite app_length; lia).
      rewrite <- app_assoc. change (N.to_nat 12) with 12%nat. rewrite app_length. do 3 f_equal; lia.
    - unfold b1. rewrite hdr_dtype_upd by lia. exact Hd.
    - unfold b1. rewrite blen_upd. lia.
  Qed.

  (* reserved address modes and reserved datatype codes write nothing *)
  Theorem reserved_mode b p : 12 <= blen b -> hdr_mode b <> 0 -> hdr_mode b <> 1 -> vss_set_path STW LD ST b p = Ok b.
  Proof.
    intros Hb H0 H1. unfold vss_set_path. rewrite mode_exact by exact Hb. cbn [bind].
    destruct (N.eqb_spec (hdr_mode b) 1); [contradiction|]. destruct (N.eqb_spec (hdr_mode b) 0); [contradiction|]. reflexivity.
  Qed.
  Theorem reserved_datatype b d pl : 12 <= blen b -> vss_calc_path_len LDW LD ST b = Ok pl -> vss_kind (hdr_datatype b) = KN ->
    vss_set_data LDW STW LD ST b d = Ok b.
  Proof.
    intros Hb Hpl Hk. unfold vss_set_data. rewrite Hpl. cbn [bind]. rewrite dtype_exact by exact Hb. cbn [bind]. rewrite Hk. reflexivity.
  Qed.
End Enc.
