(* Access paths of a field (definitions only): which generated accessor records read / write
   field f of format s. *)
From Coq Require Import List NArith Bool String.
From O1722 Require Import Bits FieldModel Spec AccModel FormatChecks.
From O1722.Generated Require Import Tables.
Import ListNotations.
Local Open Scope N_scope.

(* every access path the API offers for field f of format s:
   (unit, getter, integer parameters) / (unit, setter, parameters as a function of the value) *)
Definition readers_of (s:sformat) (f:sfield) : list (unit_model * getter * list N) :=
  match fmt_unit all_units s with
  | Some (u, t) =>
      match assoc (t_enum t) (sf_name f) with
      | Some idx =>
          match find_getter (u_getters u) (sp_get_field s) with Some g => [(u, g, [0; idx])] | None => [] end ++
          (if str_empty (sf_getter f) then [] else
           match find_getter (u_getters u) (sf_getter f) with Some g => [(u, g, [0])] | None => [] end)
      | None => []
      end
  | None => []
  end.
Definition writers_of (s:sformat) (f:sfield) : list (unit_model * setter * (N -> list N)) :=
  match fmt_unit all_units s with
  | Some (u, t) =>
      match assoc (t_enum t) (sf_name f) with
      | Some idx =>
          match find_setter (u_setters u) (sp_set_field s) with Some st => [(u, st, fun v => [0; idx; v])] | None => [] end ++
          (if str_empty (sf_setter f) then [] else
           match find_setter (u_setters u) (sf_setter f) with Some st => [(u, st, fun v => [0; v])] | None => [] end)
      | None => []
      end
  | None => []
  end.


(* ---------- field operations of hand-written models: Avtp_<Fmt>_SetField(pdu, FIELD, v) etc. ---------- *)
Section FieldOps.
  Variable ldq : buf -> N -> N.
  Variable stq : buf -> N -> N -> buf.
  Variable s : sformat.

  Definition bind {A B} (o:outcome A) (k:A -> outcome B) : outcome B :=
    match o with Ok a => k a | OOB q => OOB q | Unmodelled => Unmodelled end.

  Definition run_path_set (p:unit_model * setter * (N -> list N)) (v:N) (b:buf) : outcome buf :=
    let '(u, st, pf) := p in
    match run_setter ldq stq cfg (u_tables u) st (Some b) (pf v) with
    | Ok (Some b') => Ok b' | Ok None => Unmodelled | OOB q => OOB q | Unmodelled => Unmodelled end.

  (* by-identifier writer (first access path) / dedicated setter (second) *)
  Definition fsetf (name:string) (v:N) (b:buf) : outcome buf :=
    match find_sfield (sp_fields s) name with
    | Some f => match writers_of s f with p :: _ => run_path_set p v b | [] => Unmodelled end
    | None => Unmodelled
    end.
  Definition fsetd (name:string) (v:N) (b:buf) : outcome buf :=
    match find_sfield (sp_fields s) name with
    | Some f => match writers_of s f with _ :: p :: _ => run_path_set p v b | _ => Unmodelled end
    | None => Unmodelled
    end.
  (* by-identifier reader / dedicated getter *)
  Definition fgetf (name:string) (b:buf) : outcome N :=
    match find_sfield (sp_fields s) name with
    | Some f => match readers_of s f with (u, g, p) :: _ => run_getter ldq stq cfg (u_tables u) g (Some b) p | [] => Unmodelled end
    | None => Unmodelled
    end.
  Definition fgetd (name:string) (b:buf) : outcome N :=
    match find_sfield (sp_fields s) name with
    | Some f => match readers_of s f with _ :: (u, g, p) :: _ => run_getter ldq stq cfg (u_tables u) g (Some b) p | _ => Unmodelled end
    | None => Unmodelled
    end.
End FieldOps.

(* reference counterparts *)
Definition ref_set (s:sformat) (name:string) (v:N) (b:buf) : buf :=
  match find_sfield (sp_fields s) name with
  | Some f => spec_insert b (sf_first f) (sf_width f) v
  | None => b
  end.
Definition ref_get (s:sformat) (name:string) (b:buf) : N :=
  match find_sfield (sp_fields s) name with
  | Some f => spec_extract b (sf_first f) (sf_width f)
  | None => 0
  end.
