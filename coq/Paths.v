(* Access paths of a field (definitions only): which generated accessor records read / write
   field f of format s. *)
From Coq Require Import List NArith Bool String.
From O1722 Require Import Bits FieldModel Spec AccModel FormatChecks.
From O1722.Generated Require Import Tables.
Import ListNotations.
Local Open Scope N_scope.

(* every access path the API offers for field f of format s:
   (unit, getter, integer parameters) / (unit, setter, parameters as a function of the value) *)
Definition readers_of (s:sformat) (f:sfield) : list (unit_model * getter * list N) :=
  match fmt_unit all_units s with
  | Some (u, t) =>
      match assoc (t_enum t) (sf_name f) with
      | Some idx =>
          match find_getter (u_getters u) (sp_get_field s) with Some g => [(u, g, [0; idx])] | None => [] end ++
          (if str_empty (sf_getter f) then [] else
           match find_getter (u_getters u) (sf_getter f) with Some g => [(u, g, [0])] | None => [] end)
      | None => []
      end
  | None => []
  end.
Definition writers_of (s:sformat) (f:sfield) : list (unit_model * setter * (N -> list N)) :=
  match fmt_unit all_units s with
  | Some (u, t) =>
      match assoc (t_enum t) (sf_name f) with
      | Some idx =>
          match find_setter (u_setters u) (sp_set_field s) with Some st => [(u, st, fun v => [0; idx; v])] | None => [] end ++
          (if str_empty (sf_setter f) then [] else
           match find_setter (u_setters u) (sf_setter f) with Some st => [(u, st, fun v => [0; v])] | None => [] end)
      | None => []
      end
  | None => []
  end.

