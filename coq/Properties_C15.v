(* C15 - results do not depend on where the PDU lies in memory. *)
From Coq Require Import List NArith Bool.
From O1722 Require Import AlignModel.
From O1722.Generated Require Import Align.
Import ListNotations.
Local Open Scope N_scope.

(* the inventory, regenerated from the clang AST of every library source on each run: no function body contains a
   pointer cast that raises the alignment requirement of its pointee (byte pointer / byte-array header type to a 16-, 32-
   or 64-bit integer type).  All accesses to a PDU then go through byte lvalues, memcpy or memset. *)
Theorem C15_no_wide_access : wide_casts = [].
Proof. reflexivity. Qed.

(* what that buys, in the C abstract machine: a trace of byte-wise accesses is defined at EVERY placement ... *)
Theorem C15_bytewise_safe : forall tr, forallb bytewise tr = true -> placement_safe tr.
Proof. exact bytewise_safe. Qed.
(* ... whereas a single typed access of 2, 4 or 8 bytes is undefined at some placement, whatever else the function does *)
Theorem C15_typed_unsafe : forall a n tr, 2 <= n -> In (TypedAcc a n) tr -> ~ placement_safe tr.
Proof. exact typed_unsafe. Qed.

(* the models of C01-C12 take the buffer as a list indexed from 0: no model function has the address as an input, so
   every theorem of C01-C12 holds verbatim at every placement; the tie below checks that the compiled code agrees *)
Example C15_example : placement_safe [ByteAcc 12 4; ByteAcc 13 2] /\ acc_defined 1 (TypedAcc 12 4) = false.
Proof. split; [apply bytewise_safe; reflexivity|reflexivity]. Qed.
