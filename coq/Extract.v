(* Extraction of the executable models and reference semantics.
   Directives: ExtrOcamlBasic only (bool, option, list, prod, unit, sumbool ->
   OCaml's; nat, N, positive, string, ascii stay extracted inductives). *)
From Coq Require Import Extraction ExtrOcamlBasic.
From O1722 Require Import Spec Views LegacySpec AccModel Oracle.
From O1722.Generated Require Import Tables.
Extraction Language OCaml.
Extraction "oracle_core.ml" m_getter m_setter m_init m_rawget m_rawset s_get s_set s_init m_helper
  all_specs canonical_header spec_extract spec_insert cfg view_groups m_legacy legacy_api
  m_can_create m_can_finalize m_can_set_payload m_can_payload_length s_can_create.
