(* Extraction of the executable models and reference semantics.
   Directives: ExtrOcamlBasic only (bool, option, list, prod, unit, sumbool ->
   OCaml's; nat, N, positive, string, ascii stay extracted inductives). *)
From Coq Require Import Extraction ExtrOcamlBasic.
From O1722 Require Import Spec Views LegacySpec AccModel VssModel ExCan ExListeners Oracle.
From O1722.Generated Require Import Tables.
Extraction Language OCaml.
Extraction "oracle_core.ml" m_getter m_setter m_init m_rawget m_rawset s_get s_set s_init m_helper
  all_specs canonical_header spec_extract spec_insert cfg view_groups m_legacy legacy_api
  m_can_create m_can_finalize m_can_set_payload m_can_payload_length s_can_create
  m_vss_pad m_vss_calc m_vss_set_path m_vss_get_path m_vss_set_data m_vss_get_data m_strs_pack m_strs_count m_strs_unpack
  m_can_listener m_talker_packet m_hello_recv m_vss_recv m_aaf_recv m_cvf_recv m_crf_recv cstate0
  s_vss_pad s_vss_set_path s_vss_set_data s_vss_calc s_vss_get_path s_vss_get_data s_strs_pack s_strs_unpack vss_kind.
