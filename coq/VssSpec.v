(* Reference encoding of ACF-VSS messages, written from
   examples/acf-vss/protocol_description/acf-vss.md: big-endian integers, IEEE-754 floats as
   their 32/64-bit patterns in big-endian order, 16-bit big-endian byte-length prefixes for
   interoperable paths, strings and arrays, elements in the order given.  HAND-MAINTAINED;
   independent of the library sources. *)
From Coq Require Import List NArith Bool String.
From O1722 Require Import Bits Host Spec Paths VssModel.
Import ListNotations.
Local Open Scope N_scope.

Definition be16 (v:N) : list N := be_bytes 2 v.

(* vss_path *)
Inductive rpath := RStatic (id:N) | RInterop (path:list N).
Definition enc_path (p:rpath) : list N :=
  match p with
  | RStatic id => be_bytes 4 id
  | RInterop path => be16 (N.of_nat (List.length path)) ++ map (fun x => x mod 256) path
  end.
Definition path_mode (p:rpath) : N := match p with RStatic _ => 1 | RInterop _ => 0 end.

(* vss_data: a scalar of w bytes, a byte string (string, uint8[], int8[], boolean[]), an array of w-byte
   elements, or an array of strings *)
Inductive rdata :=
| RScalar (w:nat) (v:N)
| RBytes (bytes:list N)
| RElems (w:nat) (elems:list N)
| RStrings (strs:list (list N)).
Definition enc_strings (strs:list (list N)) : list N :=
  List.concat (map (fun s => be16 (N.of_nat (List.length s)) ++ map (fun x => x mod 256) s) strs).
Definition enc_data (d:rdata) : list N :=
  match d with
  | RScalar w v => be_bytes w v
  | RBytes bytes => be16 (N.of_nat (List.length bytes)) ++ map (fun x => x mod 256) bytes
  | RElems w elems => be16 (N.of_nat (w * List.length elems)) ++ List.concat (map (be_bytes w) elems)
  | RStrings strs => be16 (N.of_nat (List.length (enc_strings strs))) ++ enc_strings strs
  end.
(* width in bytes of a scalar / an array element of each datatype code; 0 = not of that shape *)
Definition scalar_width (dt:N) : nat :=
  match vss_kind dt with KS W8 => 1 | KS (WW w) => wbytes w | _ => 0 end%nat.
Definition elem_width (dt:N) : nat := match vss_kind dt with KE w => wbytes w | _ => 0%nat end.

(* a whole message: fixed header (12 bytes, addr_mode and datatype already in it), path, data *)
Definition vss_message (hdr:buf) (p:rpath) (d:rdata) : buf := firstn 12 hdr ++ enc_path p ++ enc_data d.

(* ---------- reference decoding ---------- *)
Definition hdr_mode (b:buf) : N := ref_get spec_Vss "AVTP_VSS_FIELD_ADDR_MODE" b.
Definition hdr_datatype (b:buf) : N := ref_get spec_Vss "AVTP_VSS_FIELD_VSS_DATATYPE" b.
Definition dec_path_len (b:buf) : N :=
  match hdr_mode b with 1 => 4 | 0 => be_of (slice b 12 2) + 2 | _ => 0 end.
Definition dec_path (b:buf) : option rpath :=
  match hdr_mode b with
  | 1 => Some (RStatic (be_of (slice b 12 4)))
  | 0 => Some (RInterop (slice b 14 (N.to_nat (be_of (slice b 12 2)))))
  | _ => None
  end.
Fixpoint dec_elems (w:nat) (n:nat) (b:buf) (a:N) : list N :=
  match n with O => [] | S k => be_of (slice b a w) :: dec_elems w k b (a + N.of_nat w) end.
Definition dec_data (b:buf) : option rdata :=
  let a := 12 + dec_path_len b in
  let dt := hdr_datatype b in
  match vss_kind dt with
  | KS W8 => Some (RScalar 1 (byte_at b a))
  | KS (WW w) => Some (RScalar (wbytes w) (be_of (slice b a (wbytes w))))
  | KB => Some (RBytes (slice b (a + 2) (N.to_nat (be_of (slice b a 2)))))
  | KE w => let l := be_of (slice b a 2) in
            Some (RElems (wbytes w) (dec_elems (wbytes w) (N.to_nat (l / N.of_nat (wbytes w))) b (a + 2)))
  | KN => None
  end.
(* a packed string array: the strings it holds (fuel = number of bytes) *)
Fixpoint dec_strings (fuel:nat) (data:list N) : list (list N) :=
  match fuel with
  | O => []
  | S f => match data with
           | h :: l :: rest => let n := N.to_nat (be_of [h; l]) in
                               map (fun x => x mod 256) (firstn n rest) :: dec_strings f (skipn n rest)
           | _ => []
           end
  end.

(* ---------- reference pad ---------- *)
Definition vss_pad_ref (b:buf) (n:N) : buf :=
  let pad := (4 - n mod 4) mod 4 in
  ref_set spec_Vss "AVTP_VSS_FIELD_PAD" pad
    (ref_set spec_Vss "AVTP_VSS_FIELD_ACF_MSG_LENGTH" ((n + pad) / 4) (upd b n (repeat 0 (N.to_nat pad)))).
