(* Hand-written models of the receive paths of the other example listeners, statement by statement:
     examples/hello-world/hello-world-listener.c   loop body of main
     examples/acf-vss/acf-vss-listener.c           loop body of main
     examples/aaf/aaf-listener.c                   new_packet, is_valid_packet, schedule_sample
     examples/cvf/cvf-listener.c                   new_packet, is_valid_packet, schedule_nal
     examples/crf/crf-listener.c                   aaf_listener_recv_pdu, aaf_talker_recv_pdu and the media clock queue
   Header reads go through the accessor models generated from the library sources.  The listeners that use the
   deprecated avtp_*_pdu_get wrappers are modelled through the current by-identifier getter of the same field
   (their equality is C12); the correspondence run compares the result with the real wrappers.
   Not modelled: the contents of struct timespec (clock), diagnostics written to stderr. *)
From Coq Require Import List NArith Bool String.
From O1722 Require Import Bits Host FieldModel Spec AccModel FormatChecks Paths CanModel VssModel ExCan.
From O1722.Generated Require Import Tables.
Import ListNotations.
Local Open Scope string_scope.
Local Open Scope list_scope.
Local Open Scope N_scope.

(* the bytes recv() leaves in a buffer of [cap] bytes that held [old] *)
Definition recv_into (cap:N) (old d:list N) : list N * N :=
  let d' := firstn (N.to_nat cap) d in (d' ++ skipn (List.length d') old, N.of_nat (List.length d')).

(* text as printf("%.*s") / ("%s") sees it: up to the first NUL *)
Fixpoint until_nul (l:list N) : list N :=
  match l with [] => [] | x :: r => if x =? 0 then [] else x :: until_nul r end.

Inductive pevent :=
| PGpc (text:list N) (code:N)           (* "%.*s : GPC Code %ld\n" *)
| PVssPathStr (text:list N)             (* "VSS Path: %s, " *)
| PVssPathId (id:N)                     (* "VSS Path: %d, " *)
| PVssFloat (bits:N)                    (* "VSS Value: %f\n" *)
| PAligned (b:bool).                    (* "AAF Stream is [not] aligned with common media clock\n" *)

Section Listeners.
  Variable ldw : hwidth -> buf -> N -> N.
  Variable stw : hwidth -> buf -> N -> N -> buf.
  Variable ldq : buf -> N -> N.
  Variable stq : buf -> N -> N -> buf.

  Notation getd := (get ldq stq).
  Definition getf (s:sformat) (name:string) (pdu:buf) (off:N) : outcome N := fgetf ldq stq s name (sub pdu off).

  Definition xbind {A R} (o:outcome A) (fail:lstat -> R) (k:A -> R) : R :=
    match o with Ok a => k a | OOB q => fail (XOob q) | Unmodelled => fail XUnmodelled end.

  (* the common prefix of the hello-world and VSS listeners: encapsulation, control format header *)
  Definition cf_prefix {R} (udp:bool) (pdu:buf) (fail:lstat -> R) (k:N -> R) : R :=
    let proc0 := if udp then 4 else 0 in
    xbind (if udp then getd spec_Udp "AVTP_UDP_FIELD_ENCAPSULATION_SEQ_NO" pdu 0 else Ok 0) fail (fun _ =>
    xbind (getd spec_CommonHeader "AVTP_COMMON_HEADER_FIELD_SUBTYPE" pdu proc0) fail (fun subtype =>
    if subtype =? 0x05 then
      xbind (getd spec_Tscf "AVTP_TSCF_FIELD_STREAM_DATA_LENGTH" pdu proc0) fail (fun _ => k (proc0 + 24))
    else
      xbind (getd spec_Ntscf "AVTP_NTSCF_FIELD_NTSCF_DATA_LENGTH" pdu proc0) fail (fun _ => k (proc0 + 12)))).

  (* ---------------- hello-world: state = pdu[1500] of main ---------------- *)
  Definition hello_recv (udp:bool) (old:buf) (d:list N) : lstat * list pevent * buf :=
    let '(pdu, res) := recv_into MAX_PDU_SIZE old d in
    let fail st := (st, [], pdu) in
    cf_prefix udp pdu fail (fun proc =>
    if res <? proc + 8 then (XDropped, [], pdu) else
    xbind (getd spec_AcfCommon "AVTP_ACF_FIELD_ACF_MSG_TYPE" pdu proc) fail (fun t =>
    if negb (t =? 5) then (XDropped, [], pdu) else
    xbind (getd spec_Gpc "AVTP_GPC_FIELD_GPC_MSG_ID" pdu proc) fail (fun code =>
    xbind (getd spec_Gpc "AVTP_GPC_FIELD_ACF_MSG_LENGTH" pdu proc) fail (fun ql =>
    let l := ql * 4 in
    if (l <=? 100) && (8 <=? l) && (proc + l <=? res) then
      (* printf("%.*s", l - 8, acf_pdu + 8): reads at most l - 8 bytes, all of them received *)
      if proc + l <=? blen pdu then (XHandled, [PGpc (until_nul (slice pdu (proc + 8) (N.to_nat (l - 8)))) code], pdu)
      else (XOverflow l, [], pdu)
    else (XHandled, [], pdu))))).

  (* ---------------- ACF-VSS: state = pdu[1500] of main ---------------- *)
  Definition vss_recv (udp:bool) (old:buf) (d:list N) : lstat * list pevent * buf :=
    let '(pdu, res) := recv_into MAX_PDU_SIZE old d in
    let fail st := (st, [], pdu) in
    cf_prefix udp pdu fail (fun proc =>
    if res <? proc + 14 then (XDropped, [], pdu) else
    xbind (getd spec_AcfCommon "AVTP_ACF_FIELD_ACF_MSG_TYPE" pdu proc) fail (fun t =>
    if negb (t =? 0x42) then (XDropped, [], pdu) else
    let m := sub pdu proc in
    xbind (addr_mode ldq stq m) fail (fun mode =>
    xbind (vss_calc_path_len ldw ldq stq m) fail (fun pl =>
    let vss_length := 12 + pl in
    if res <? proc + vss_length then (XDropped, [], pdu) else
    if (mode =? 0) && (vss_length <? 14) then (XDropped, [], pdu) else      (* the uint16_t path length wrapped around *)
    (* Avtp_Vss_GetVssPath with path.vss_interop_path.path = path_buf[MAX_PDU_SIZE] *)
    xbind (vss_get_path ldw ldq stq m MAX_PDU_SIZE) fail (fun gp =>
    let ev1 := match gp with
               | GInterop len w => [PVssPathStr (until_nul w)]
               | GStatic id => [PVssPathId id]
               | GPathNone => []
               end in
    xbind (datatype ldq stq m) fail (fun dt =>
    if (dt =? 9) && (proc + vss_length + 4 <=? res) then
      xbind (vss_get_data ldw ldq stq m None) (fun st => (st, ev1, pdu)) (fun gd =>
        match gd with GScalar v => (XHandled, ev1 ++ [PVssFloat v], pdu) | _ => (XUnmodelled, ev1, pdu) end)
    else (XHandled, ev1, pdu))))))).

  (* ---------------- validation chains ---------------- *)
  Inductive vcheck := Expect (s:sformat) (name:string) (v:N) | Seq (s:sformat) (name:string).
  (* returns (accepted, expected sequence number afterwards) *)
  Fixpoint validate (rd:sformat -> string -> outcome N) (cs:list vcheck) (seq:N) : outcome (bool * N) :=
    match cs with
    | [] => Ok (true, seq)
    | Expect s n v :: r => bind (rd s n) (fun x => if x =? v then validate rd r seq else Ok (false, seq))
    | Seq s n :: r => bind (rd s n) (fun x => validate rd r ((x + 1) mod 256))   (* expected_seq = val; expected_seq++ (uint8_t) *)
    end.

  (* ---------------- AAF listener: state = expected_seq, queue of samples ---------------- *)
  Definition AAF_STREAM : N := 0xAABBCCDDEEFF0001.
  Definition aaf_checks : list vcheck :=
    [Expect spec_CommonHeader "AVTP_COMMON_HEADER_FIELD_SUBTYPE" 2; Expect spec_CommonHeader "AVTP_COMMON_HEADER_FIELD_VERSION" 0;
     Expect spec_Pcm "AVTP_PCM_FIELD_TV" 1; Expect spec_Pcm "AVTP_PCM_FIELD_SP" 0; Expect spec_Pcm "AVTP_PCM_FIELD_STREAM_ID" AAF_STREAM;
     Seq spec_Pcm "AVTP_PCM_FIELD_SEQUENCE_NUM"; Expect spec_Pcm "AVTP_PCM_FIELD_FORMAT" 4; Expect spec_Pcm "AVTP_PCM_FIELD_NSR" 5;
     Expect spec_Pcm "AVTP_PCM_FIELD_CHANNELS_PER_FRAME" 2; Expect spec_Pcm "AVTP_PCM_FIELD_BIT_DEPTH" 16;
     Expect spec_Pcm "AVTP_PCM_FIELD_STREAM_DATA_LENGTH" 4].
  Record qstate := mkq { q_seq : N; q_items : list (list N) }.
  Definition aaf_recv (st:qstate) (d:list N) : lstat * qstate :=
    let '(pdu, n) := recv_into 28 (repeat 0 28%nat) d in        (* alloca(PDU_SIZE); memset(pdu, 0, PDU_SIZE) *)
    if negb (n =? 28) then (XDropped, st) else
    xbind (validate (fun s nm => getf s nm pdu 0) aaf_checks (q_seq st)) (fun e => (e, st)) (fun r =>
    if negb (fst r) then (XDropped, mkq (snd r) (q_items st)) else
    xbind (getf spec_Pcm "AVTP_PCM_FIELD_AVTP_TIMESTAMP" pdu 0) (fun e => (e, st)) (fun _ =>
    (XHandled, mkq (snd r) (q_items st ++ [slice pdu 24 4])))).

  (* ---------------- CVF listener ---------------- *)
  Definition cvf_checks : list vcheck :=
    [Expect spec_Cvf "AVTP_CVF_FIELD_SUBTYPE" 3; Expect spec_Cvf "AVTP_CVF_FIELD_VERSION" 0; Expect spec_Cvf "AVTP_CVF_FIELD_TV" 1;
     Expect spec_Cvf "AVTP_CVF_FIELD_STREAM_ID" AAF_STREAM; Seq spec_Cvf "AVTP_CVF_FIELD_SEQUENCE_NUM";
     Expect spec_Cvf "AVTP_CVF_FIELD_FORMAT" 2; Expect spec_Cvf "AVTP_CVF_FIELD_FORMAT_SUBTYPE" 1].
  Definition CVF_PDU : N := 1428.
  Definition cvf_recv (st:qstate) (d:list N) : lstat * qstate :=
    let '(pdu, n) := recv_into CVF_PDU (repeat 1 (N.to_nat CVF_PDU)) d in   (* alloca(MAX_PDU_SIZE); memset(cvf, 1, ...) *)
    if n <? 28 then (XDropped, st) else
    xbind (validate (fun s nm => getd s nm pdu 0) cvf_checks (q_seq st)) (fun e => (e, st)) (fun r =>
    let st1 := mkq (snd r) (q_items st) in
    if negb (fst r) then (XDropped, st1) else
    xbind (getd spec_Cvf "AVTP_CVF_FIELD_AVTP_TIMESTAMP" pdu 0) (fun e => (e, st1)) (fun _ =>
    xbind (getd spec_Cvf "AVTP_CVF_FIELD_STREAM_DATA_LENGTH" pdu 0) (fun e => (e, st1)) (fun sdl =>
    let len := (sdl + 2 ^ 16 - 4) mod 2 ^ 16 in                 (* uint16_t get_h264_data_len *)
    if (sdl <? 4) || (n - 28 <? len) then (XDropped, st1) else
    (* schedule_nal: entry->len = len; memcpy(entry->nal, h264Payload, entry->len) into nal[1400] *)
    if (len <=? 1400) && (28 + len <=? blen pdu) then (XHandled, mkq (snd r) (q_items st ++ [slice pdu 28 (N.to_nat len)]))
    else (XOverflow len, st1)))).

  (* ---------------- CRF listener ---------------- *)
  Definition CRF_STREAM : N := 0xAABBCCDDEEFF0002.
  Definition MCLK_PERIOD : N := 125000.
  Definition crf_checks : list vcheck :=
    [Expect spec_CommonHeader "AVTP_COMMON_HEADER_FIELD_SUBTYPE" 4; Expect spec_CommonHeader "AVTP_COMMON_HEADER_FIELD_VERSION" 0;
     Expect spec_Crf "AVTP_CRF_FIELD_SV" 1; Expect spec_Crf "AVTP_CRF_FIELD_FS" 0; Seq spec_Crf "AVTP_CRF_FIELD_SEQUENCE_NUM";
     Expect spec_Crf "AVTP_CRF_FIELD_TYPE" 1; Expect spec_Crf "AVTP_CRF_FIELD_STREAM_ID" CRF_STREAM; Expect spec_Crf "AVTP_CRF_FIELD_PULL" 0;
     Expect spec_Crf "AVTP_CRF_FIELD_BASE_FREQUENCY" 48000; Expect spec_Crf "AVTP_CRF_FIELD_CRF_DATA_LENGTH" 48].
  Definition crfaaf_checks : list vcheck :=
    [Expect spec_CommonHeader "AVTP_COMMON_HEADER_FIELD_VERSION" 0; Expect spec_Pcm "AVTP_PCM_FIELD_TV" 1; Expect spec_Pcm "AVTP_PCM_FIELD_SP" 0;
     Expect spec_Pcm "AVTP_PCM_FIELD_STREAM_ID" AAF_STREAM; Seq spec_Pcm "AVTP_PCM_FIELD_SEQUENCE_NUM"; Expect spec_Pcm "AVTP_PCM_FIELD_FORMAT" 4;
     Expect spec_Pcm "AVTP_PCM_FIELD_NSR" 5; Expect spec_Pcm "AVTP_PCM_FIELD_CHANNELS_PER_FRAME" 2; Expect spec_Pcm "AVTP_PCM_FIELD_BIT_DEPTH" 16;
     Expect spec_Pcm "AVTP_PCM_FIELD_STREAM_DATA_LENGTH" 24].
  Record cstate := mkc { c_queue : list N; c_prev : N; c_lookup : bool; c_crfseq : N; c_aafseq : N; c_state : bool; c_first : bool }.
  Definition cstate0 : cstate := mkc [] 0 true 0 0 false true.
  Definition M64 : N := 2 ^ 64.

  (* recover_mclk: 160 timestamps from crf_data[0] *)
  Fixpoint recover (k:nat) (idx:N) (ts_crf mtt prev:N) (q:list N) : list N :=
    match k with
    | O => q
    | S k' => let ts := ((ts_crf + idx * MCLK_PERIOD) mod M64 + (mtt mod M64)) mod M64 in
              recover k' (idx + 1) ts_crf mtt prev (if ts <=? prev then q else q ++ [ts])
    end.
  (* handle_crf_pdu *)
  Definition handle_crf (talker:bool) (mtt:N) (pdu:buf) (st:cstate) : outcome cstate :=
    bind (validate (fun s nm => getf s nm pdu 0) crf_checks (c_crfseq st)) (fun r =>
    let st1 := mkc (c_queue st) (c_prev st) (c_lookup st) (snd r) (c_aafseq st) (c_state st) (c_first st) in
    if negb (fst r) then Ok st1 else
    let ts_crf := be_of (slice pdu 20 8) in
    Ok (mkc (recover 160 0 ts_crf (if talker then mtt else 0) (c_prev st) (c_queue st))
            (c_prev st) (c_lookup st) (snd r) (c_aafseq st) (c_state st) (c_first st))).
  (* get_next_mclk_timestamp: (timestamp, queue, need_mclk_lookup) *)
  Definition get_next (q:list N) (prev:N) (lookup:bool) : N * list N * bool :=
    match q with
    | [] => ((prev + MCLK_PERIOD) mod M64, [], true)
    | t :: r => (t, r, lookup)
    end.
  (* mclk_lookup *)
  Fixpoint lookup_loop (fuel:nat) (avtp start t:N) (q:list N) (lk:bool) : option (N * list N * bool) :=
    if negb (t mod 2 ^ 32 =? avtp) && ((t + M64 - start) mod M64 <? 2 ^ 32) then      (* mclk_timestamp - start < 2^32 in uint64_t *)
      match fuel with
      | O => None
      | S f => let '(t', q', lk') := get_next q t lk in lookup_loop f avtp start t' q' lk'
      end
    else Some (t, q, lk).
  Definition s32 (x:N) : N * bool := (* two's complement view of a 32-bit value: (magnitude, negative) *)
    let y := x mod 2 ^ 32 in if y <? 2 ^ 31 then (y, false) else (2 ^ 32 - y, true).
  Definition is_ts_aligned (mclk_ts avtp_ts:N) : bool :=
    let '(m, neg) := s32 (avtp_ts + 2 ^ 32 - mclk_ts mod 2 ^ 32) in m <=? 5208.
  Definition handle_aaf (pdu:buf) (st:cstate) : lstat * list pevent * cstate :=
    xbind (validate (fun s nm => getf s nm pdu 0) crfaaf_checks (c_aafseq st)) (fun e => (e, [], st)) (fun r =>
    let st1 := mkc (c_queue st) (c_prev st) (c_lookup st) (c_crfseq st) (snd r) (c_state st) (c_first st) in
    if negb (fst r) then (XHandled, [], st1) else
    xbind (getf spec_Pcm "AVTP_PCM_FIELD_AVTP_TIMESTAMP" pdu 0) (fun e => (e, [], st1)) (fun avtp =>
    let '(t0, q0, lk0) := get_next (c_queue st) (c_prev st) (c_lookup st) in
    let found :=
      if c_lookup st then
        match lookup_loop (List.length (c_queue st) + N.to_nat 40000) avtp t0 t0 q0 lk0 with
        | Some (t, q, _) => Some (t, q, false)           (* need_mclk_lookup = false after the search *)
        | None => None
        end
      else Some (t0, q0, lk0) in
    match found with
    | None => (XDiverged, [], st1)
    | Some (t, q, lk) =>
        let state := is_ts_aligned t avtp in
        (XHandled, if Bool.eqb (c_state st) state then [] else [PAligned state],
         mkc q t lk (c_crfseq st) (snd r) state (c_first st))
    end)).
  Definition crf_recv (talker:bool) (mtt:N) (st:cstate) (d:list N) : lstat * list pevent * cstate :=
    let '(pdu, n) := recv_into 68 (repeat 0 68%nat) d in
    if talker then
      if negb (n =? 68) then (XHandled, [], st) else
      xbind (handle_crf true mtt pdu st) (fun e => (e, [], st)) (fun st1 =>
      if c_first st1 then
        match c_queue st1 with
        | [] => (XHandled, [], st1)
        | _ :: r => (XHandled, [], mkc r (c_prev st1) (c_lookup st1) (c_crfseq st1) (c_aafseq st1) (c_state st1) false)
        end
      else (XHandled, [], st1))
    else
      if negb (n =? 48) && negb (n =? 68) then (XHandled, [], st) else
      xbind (getf spec_CommonHeader "AVTP_COMMON_HEADER_FIELD_SUBTYPE" pdu 0) (fun e => (e, [], st)) (fun sub =>
      if sub =? 4 then xbind (handle_crf false mtt pdu st) (fun e => (e, [], st)) (fun st1 => (XHandled, [], st1))
      else if sub =? 2 then handle_aaf pdu st
      else (XHandled, [], st)).
End Listeners.

(* a listener processing a sequence of datagrams: the statuses, and the state afterwards *)
Fixpoint runs {S:Type} (step:S -> list N -> lstat * S) (st:S) (ds:list (list N)) : list lstat * S :=
  match ds with
  | [] => ([], st)
  | d :: r => let '(s, st') := step st d in let '(ss, stf) := runs step st' r in (s :: ss, stf)
  end.
Definition drop_events {S EV:Type} (step:S -> list N -> lstat * EV * S) : S -> list N -> lstat * S :=
  fun st d => let r := step st d in (fst (fst r), snd r).
