(* Deprecated entry points: recognisers for the wrapper shapes and what each shape computes. *)
From Coq Require Import List NArith ZArith Bool Lia Arith String ZifyN ZifyNat ZifyBool.
From O1722 Require Import Sym Bits FieldModel FieldProofs Spec SpecProofs AccModel AccProofs FormatChecks LegacyModel LegacySpec.
Import ListNotations.
Local Open Scope N_scope.

(* the 32-bit parameter [idx] reaches its use unchanged *)
Definition arg_wide (a:arg) (idx:nat) (w:N) : bool :=
  match a_src a with
  | AParam i pw => Nat.eqb i idx && (w <=? N.of_nat pw) && casts_keep w (a_casts a) && negb (a_signed a)
  | AConst _ _ => false
  end.
Lemma arg_wide_value a idx w params : arg_wide a idx w = true -> nth idx params 0 < 2 ^ w ->
  arg_value a params = nth idx params 0.
Proof.
  unfold arg_wide, arg_value. destruct (a_src a) as [|i pw]; [discriminate|]. intros H Hv.
  apply andb_true_iff in H. destruct H as [H _]. apply andb_true_iff in H. destruct H as [H Hc].
  apply andb_true_iff in H. destruct H as [Hi Hp]. apply Nat.eqb_eq in Hi. subst i. apply N.leb_le in Hp.
  rewrite N.mod_small.
  - apply (apply_casts_small w); assumption.
  - apply N.lt_le_trans with (2 ^ w); [exact Hv|]. apply N.pow_le_mono_r; lia.
Qed.

(* ---------- guards ---------- *)
(* kind 0: pdu == NULL; 1: result == NULL; 2: field >= bound (field = parameter 1, compared without truncation) *)
Definition guard_kind (outp:nat) (bound:N) (g:lguard) : option nat :=
  match g with
  | GNull i => if Nat.eqb i 0 then Some 0%nat
               else if negb (Nat.eqb outp 0) && Nat.eqb i outp then Some 1%nat else None
  | GRange a ge b cmpw sg =>
      if ge && (b =? bound) && arg_wide a 1 32 && (32 <=? N.of_nat cmpw) && negb sg then Some 2%nat else None
  end.
Definition cond (pdu:option buf) (f:N) (res:option N) (bound:N) (k:nat) : bool :=
  match k with 0%nat => is_none pdu | 1%nat => is_none res | _ => bound <=? f end.

Lemma guard_kind_fires outp bound g k pdu params res :
  guard_kind outp bound g = Some k -> nth 1 params 0 < 2 ^ 32 ->
  guard_fires outp pdu params res g = cond pdu (nth 1 params 0) res bound k /\ guard_std outp g = true.
Proof.
  destruct g as [i|a ge b cmpw sg]; cbn [guard_kind guard_fires guard_std].
  - destruct (Nat.eqb i 0) eqn:E0.
    + intros H _. inversion H; subst. cbn. split; reflexivity.
    + destruct (negb (Nat.eqb outp 0) && Nat.eqb i outp) eqn:E1; [|discriminate].
      intros H _. inversion H; subst. cbn. split; reflexivity.
  - destruct (ge && (b =? bound) && arg_wide a 1 32 && (32 <=? N.of_nat cmpw) && negb sg) eqn:E; [|discriminate].
    intros H Hf. inversion H; subst.
    apply andb_true_iff in E. destruct E as [E Hsg]. apply andb_true_iff in E. destruct E as [E Hcw].
    apply andb_true_iff in E. destruct E as [E Ha]. apply andb_true_iff in E. destruct E as [Hge Hb].
    subst ge. apply N.eqb_eq in Hb. subst b. apply N.leb_le in Hcw.
    rewrite (arg_wide_value a 1 32 params Ha Hf). cbn [cond].
    rewrite N.mod_small by (apply N.lt_le_trans with (2 ^ 32); [exact Hf|apply N.pow_le_mono_r; lia]).
    split; [reflexivity|].
    unfold arg_wide in Ha. destruct (a_src a); [discriminate|].
    apply andb_true_iff in Ha. destruct Ha as [_ Hs]. rewrite Hs, Hsg. reflexivity.
Qed.

Definition has_kind (outp:nat) (bound:N) (k:nat) (g:lguard) : bool :=
  match guard_kind outp bound g with Some k' => Nat.eqb k k' | None => false end.
Definition guards_ok (outp:nat) (bound:N) (want:list nat) (gs:list lguard) : bool :=
  forallb (fun g => existsb (fun k => has_kind outp bound k g) want) gs &&
  forallb (fun k => existsb (has_kind outp bound k) gs) want.

Lemma guards_ok_sound outp bound want gs pdu params res :
  guards_ok outp bound want gs = true -> nth 1 params 0 < 2 ^ 32 ->
  forallb (guard_std outp) gs = true /\
  existsb (guard_fires outp pdu params res) gs = existsb (cond pdu (nth 1 params 0) res bound) want.
Proof.
  unfold guards_ok. intros H Hf. apply andb_true_iff in H. destruct H as [H1 H2].
  rewrite forallb_forall in H1, H2. split.
  - apply forallb_forall. intros g Hg. specialize (H1 g Hg). apply existsb_exists in H1.
    destruct H1 as [k [_ Hk]]. unfold has_kind in Hk. destruct (guard_kind outp bound g) as [k'|] eqn:E; [|discriminate].
    apply (guard_kind_fires _ _ _ _ pdu params res E Hf).
  - apply eq_true_iff_eq. rewrite !existsb_exists. split.
    + intros [g [Hg Hfire]]. specialize (H1 g Hg). apply existsb_exists in H1. destruct H1 as [k [Hk Hhk]].
      unfold has_kind in Hhk. destruct (guard_kind outp bound g) as [k'|] eqn:E; [|discriminate].
      apply Nat.eqb_eq in Hhk. subst k'. exists k. split; [exact Hk|].
      destruct (guard_kind_fires _ _ _ _ pdu params res E Hf) as [Hfg _]. rewrite <- Hfg. exact Hfire.
    + intros [k [Hk Hc]]. specialize (H2 k Hk). apply existsb_exists in H2. destruct H2 as [g [Hg Hhk]].
      unfold has_kind in Hhk. destruct (guard_kind outp bound g) as [k'|] eqn:E; [|discriminate].
      apply Nat.eqb_eq in Hhk. subst k'. exists g. split; [exact Hg|].
      destruct (guard_kind_fires _ _ _ _ pdu params res E Hf) as [Hfg _]. rewrite Hfg. exact Hc.
Qed.

Section Legacy.
  Variable ldq : buf -> N -> N.
  Variable stq : buf -> N -> N -> buf.
  Hypothesis Hld : forall b q, ldq b q = ldq_be b q.
  Hypothesis Hst : forall b q v, stq b q v = stq_be b q v.
  Variable cfg : utilcfg.
  Variable u : unit_model.
  Variable ls : list legacy.

  (* ================= get wrappers ================= *)
  (* if (pdu == NULL || val == NULL || field >= MAX) return -EINVAL; *val = GetField(pdu, field); return 0; *)
  Definition lget_ok (l:legacy) (s:sformat) (t:table) : bool :=
    match assoc (t_enum t) (sp_sentinel s) with None => false | Some maxv =>
    match l_steps l with
    | [LStore r w callee [a] casts false] =>
        Nat.eqb r 2 && String.eqb callee (sp_get_field s) && arg_wide a 1 32 &&
        guards_ok 2 maxv [0; 1; 2]%nat (l_guards l) &&
        forallb (fun f => casts_keep (sf_width f) casts && (sf_width f <=? N.of_nat w) &&
                          match assoc (t_enum t) (sf_name f) with Some idx => idx <? maxv | None => false end) (sp_fields s)
    | _ => false
    end end.

  Definition lget_spec (l:legacy) (s:sformat) (t:table) : Prop :=
    exists maxv, assoc (t_enum t) (sp_sentinel s) = Some maxv /\
    (* rejection: nothing is written, not even the result location *)
    (forall pdu f res, f < 2 ^ 32 -> is_none pdu || is_none res || (maxv <=? f) = true ->
       run_legacy ldq stq cfg u ls l pdu [0; f] res = Ok (LEinval, pdu, res)) /\
    (* valid arguments: success, pdu untouched, result = the complete field value *)
    (forall fld idx b old, In fld (sp_fields s) -> assoc (t_enum t) (sf_name fld) = Some idx ->
       sp_hdr_len s <= blen b ->
       run_legacy ldq stq cfg u ls l (Some b) [0; idx] (Some old) =
         Ok (LOk, Some b, Some (spec_extract b (sf_first fld) (sf_width fld)))).

  Theorem lget_sound l s t :
    lget_ok l s t = true ->
    (forall f, In f (sp_fields s) -> exists idx, assoc (t_enum t) (sf_name f) = Some idx /\
       reads_field ldq stq cfg u (sp_get_field s) [0; idx] f (sp_hdr_len s)) ->
    (forall f idx, In f (sp_fields s) -> assoc (t_enum t) (sf_name f) = Some idx -> idx < 2 ^ 32) ->
    lget_spec l s t.
  Proof.
    unfold lget_ok. intros H Hreads Hsmall.
    destruct (assoc (t_enum t) (sp_sentinel s)) as [maxv|] eqn:Emax; [|discriminate].
    destruct (l_steps l) as [|[| | |r w callee args casts sg|] [|? ?]] eqn:Esteps; try discriminate;
      try (exfalso; destruct args as [|? [|? ?]]; try discriminate; destruct sg; discriminate).
    destruct args as [|a [|? ?]]; try discriminate. destruct sg; [discriminate|].
    apply andb_true_iff in H. destruct H as [H Hfields]. apply andb_true_iff in H. destruct H as [H Hg].
    apply andb_true_iff in H. destruct H as [H Ha]. apply andb_true_iff in H. destruct H as [Hr Hc].
    apply Nat.eqb_eq in Hr. subst r. apply String.eqb_eq in Hc. subst callee.
    assert (Hout : out_param l = 2%nat) by (unfold out_param; rewrite Esteps; reflexivity).
    exists maxv. split; [exact Emax|]. split.
    - intros pdu f res Hf Hcond. unfold run_legacy. rewrite Hout.
      destruct (guards_ok_sound 2 maxv _ _ pdu [0; f] res Hg Hf) as [Hstd Hfire].
      rewrite Hstd, Hfire. cbn [existsb cond nth]. rewrite orb_false_r, orb_assoc. rewrite Hcond. reflexivity.
    - intros fld idx b old Hin Hidx Hb. unfold run_legacy. rewrite Hout.
      assert (Hi32 : idx < 2 ^ 32) by (eapply Hsmall; eauto).
      destruct (guards_ok_sound 2 maxv _ _ (Some b) [0; idx] (Some old) Hg Hi32) as [Hstd Hfire].
      rewrite Hstd, Hfire. cbn [existsb cond nth is_none orb].
      rewrite forallb_forall in Hfields. specialize (Hfields fld Hin). rewrite Hidx in Hfields.
      apply andb_true_iff in Hfields. destruct Hfields as [Hfw Hlt]. apply andb_true_iff in Hfw. destruct Hfw as [Hck Hww].
      apply N.ltb_lt in Hlt. replace (maxv <=? idx) with false by (symmetry; apply N.leb_gt; exact Hlt).
      rewrite Esteps. cbn [run_steps].
      destruct (Hreads fld Hin) as [idx' [Hidx' [g [Hfg Hrd]]]]. rewrite Hidx in Hidx'. inversion Hidx'; subst idx'.
      rewrite Hfg. cbn [map].
      rewrite (arg_wide_value a 1 32 [0; idx] Ha) by exact Hi32. cbn [nth].
      rewrite (Hrd b Hb).
      rewrite (apply_casts_small (sf_width fld) casts Hck) by apply spec_extract_lt.
      rewrite N.mod_small; [reflexivity|]. apply N.leb_le in Hww.
      apply N.lt_le_trans with (2 ^ sf_width fld); [apply spec_extract_lt|apply N.pow_le_mono_r; lia].
  Qed.

  (* ================= set wrappers ================= *)
  (* if (pdu == NULL || field >= MAX) return -EINVAL; SetField(pdu, field, value); return 0; *)
  Definition lset_ok (l:legacy) (s:sformat) (t:table) : option (N * nat) :=
    match assoc (t_enum t) (sp_sentinel s) with None => None | Some maxv =>
    match l_steps l with
    | [LSet callee [a1; a2]] =>
        match a_src a2 with
        | AParam 2 pw =>
            if String.eqb callee (sp_set_field s) && arg_wide a1 1 32 && arg_wide a2 2 (N.of_nat pw) &&
               guards_ok 0 maxv [0; 2]%nat (l_guards l)
            then Some (maxv, pw) else None
        | _ => None
        end
    | _ => None
    end end.

  (* the wrapper is the by-identifier writer behind the argument check, for every value of its value type *)
  Theorem lset_sound l s t maxv pw : lset_ok l s t = Some (maxv, pw) ->
    forall pdu f v, f < 2 ^ 32 -> v < 2 ^ N.of_nat pw ->
      run_legacy ldq stq cfg u ls l pdu [0; f; v] None =
        if is_none pdu || (maxv <=? f) then Ok (LEinval, pdu, None)
        else match find_setter (u_setters u) (sp_set_field s) with
             | Some st => match run_setter ldq stq cfg (u_tables u) st pdu [0; f; v] with
                          | Ok p => Ok (LOk, p, None) | OOB q => OOB q | Unmodelled => Unmodelled end
             | None => Unmodelled
             end.
  Proof.
    unfold lset_ok. intros H pdu f v Hf Hv.
    destruct (assoc (t_enum t) (sp_sentinel s)) as [maxv'|] eqn:Emax; [|discriminate].
    destruct (l_steps l) as [|[callee args| | | |] [|? ?]] eqn:Esteps; try discriminate;
      try (exfalso; destruct args as [|? [|? [|? ?]]]; discriminate).
    destruct args as [|a1 [|a2 [|? ?]]]; try discriminate.
    destruct (a_src a2) as [|i2 pw'] eqn:Ea2; [discriminate|].
    destruct i2 as [|[|[|?]]]; try discriminate.
    destruct (String.eqb callee (sp_set_field s) && arg_wide a1 1 32 && arg_wide a2 2 (N.of_nat pw') &&
              guards_ok 0 maxv' [0; 2]%nat (l_guards l)) eqn:E; [|discriminate].
    inversion H; subst maxv' pw'. clear H.
    apply andb_true_iff in E. destruct E as [E Hg]. apply andb_true_iff in E. destruct E as [E Ha2].
    apply andb_true_iff in E. destruct E as [Hc Ha1]. apply String.eqb_eq in Hc. subst callee.
    assert (Hout : out_param l = 0%nat) by (unfold out_param; rewrite Esteps; reflexivity).
    unfold run_legacy. rewrite Hout.
    destruct (guards_ok_sound 0 maxv _ _ pdu [0; f; v] None Hg Hf) as [Hstd Hfire].
    rewrite Hstd, Hfire. cbn [existsb cond nth]. rewrite orb_false_r.
    destruct (is_none pdu || (maxv <=? f)); [reflexivity|].
    rewrite Esteps. cbn [run_steps]. destruct (find_setter (u_setters u) (sp_set_field s)) as [st|]; [|reflexivity].
    cbn [map]. rewrite (arg_wide_value a1 1 32 [0; f; v] Ha1) by exact Hf.
    rewrite (arg_wide_value a2 2 (N.of_nat pw) [0; f; v] Ha2) by exact Hv. cbn [nth].
    destruct (run_setter ldq stq cfg (u_tables u) st pdu [0; f; v]); reflexivity.
  Qed.

  (* ================= init wrappers ================= *)
  (* shape A: if (pdu == NULL) return -EINVAL; Init(pdu); [SetX(pdu, param1);] return 0; *)
  Definition linit_fwd_ok (l:legacy) (s:sformat) (extra_setter:string) : bool :=
    guards_ok 0 0 [0%nat] (l_guards l) &&
    match l_steps l with
    | [LInit callee] => String.eqb callee (sp_init s) && str_empty extra_setter
    | [LInit callee; LSet st [a]] => String.eqb callee (sp_init s) && String.eqb st extra_setter &&
                                      negb (str_empty extra_setter) && arg_wide a 1 8
    | _ => false
    end.

  Theorem linit_fwd_sound l s extra : linit_fwd_ok l s extra = true ->
    forall pdu x, x < 2 ^ 8 ->
      run_legacy ldq stq cfg u ls l pdu [0; x] None =
        match pdu with
        | None => Ok (LEinval, None, None)
        | Some _ =>
          match find_init (u_inits u) (sp_init s) with
          | None => Unmodelled
          | Some i =>
            match run_init ldq stq cfg u i pdu with
            | Ok p1 =>
                if str_empty extra then Ok (LOk, p1, None) else
                match find_setter (u_setters u) extra with
                | Some st => match run_setter ldq stq cfg (u_tables u) st p1 [0; x] with
                             | Ok p2 => Ok (LOk, p2, None) | OOB q => OOB q | Unmodelled => Unmodelled end
                | None => Unmodelled
                end
            | OOB q => OOB q | Unmodelled => Unmodelled
            end
          end
        end.
  Proof.
    unfold linit_fwd_ok. intros H pdu x Hx. apply andb_true_iff in H. destruct H as [Hg H].
    assert (Hx32 : nth 1 [0; x] 0 < 2 ^ 32) by (cbn [nth]; apply N.lt_le_trans with (2 ^ 8); [exact Hx|apply N.pow_le_mono_r; lia]).
    destruct (l_steps l) as [|[| callee | | |] rest] eqn:Esteps; try discriminate.
    destruct rest as [|[st args| | | |] [|? ?]]; try discriminate;
      try (exfalso; destruct args as [|? [|? ?]]; discriminate).
    - apply andb_true_iff in H. destruct H as [Hc He]. apply String.eqb_eq in Hc. subst callee.
      assert (Hout : out_param l = 0%nat) by (unfold out_param; rewrite Esteps; reflexivity).
      unfold run_legacy. rewrite Hout.
      destruct (guards_ok_sound 0 0 _ _ pdu [0; x] None Hg Hx32) as [Hstd Hfire].
      rewrite Hstd, Hfire. cbn [existsb cond]. rewrite orb_false_r.
      destruct pdu as [b|]; cbn [is_none]; [|reflexivity].
      rewrite Esteps. cbn [run_steps]. destruct (find_init (u_inits u) (sp_init s)) as [i|]; [|reflexivity].
      destruct (run_init ldq stq cfg u i (Some b)); try reflexivity. rewrite He. reflexivity.
    - destruct args as [|a [|? ?]]; try discriminate.
      apply andb_true_iff in H. destruct H as [H Ha]. apply andb_true_iff in H. destruct H as [H Hne].
      apply andb_true_iff in H. destruct H as [Hc Hs]. apply String.eqb_eq in Hc, Hs. subst callee st.
      assert (Hout : out_param l = 0%nat) by (unfold out_param; rewrite Esteps; reflexivity).
      unfold run_legacy. rewrite Hout.
      destruct (guards_ok_sound 0 0 _ _ pdu [0; x] None Hg Hx32) as [Hstd Hfire].
      rewrite Hstd, Hfire. cbn [existsb cond]. rewrite orb_false_r.
      destruct pdu as [b|]; cbn [is_none]; [|reflexivity].
      rewrite Esteps. cbn [run_steps]. destruct (find_init (u_inits u) (sp_init s)) as [i|]; [|reflexivity].
      destruct (run_init ldq stq cfg u i (Some b)) as [p1| |]; try reflexivity.
      apply negb_true_iff in Hne. rewrite Hne.
      destruct (find_setter (u_setters u) extra) as [st|]; [|reflexivity].
      cbn [map]. rewrite (arg_wide_value a 1 8 [0; x] Ha) by (cbn [nth]; exact Hx). cbn [nth].
      destruct (run_setter ldq stq cfg (u_tables u) st p1 [0; x]); reflexivity.
  Qed.

  (* shape B (avtp_aaf_pdu_init): if (!pdu) return -EINVAL; memset(pdu, 0, sizeof); res = legacy_set(pdu, F, C);
     if (res < 0) return res; ... return 0;   -- equivalent to an initialiser built from the by-identifier writer *)
  Fixpoint chain_to_ops (setname byid:string) (maxv:N) (pw:nat) (steps:list lstep) : option (list initop) :=
    match steps with
    | [] => Some []
    | LMemset v n :: r => option_map (cons (IMemset v n)) (chain_to_ops setname byid maxv pw r)
    | LLegacy callee [a1; a2] true :: r =>
        if String.eqb callee setname && (arg_value a1 [0] <? maxv) && (arg_value a1 [0] <? 2 ^ 32) &&
           (arg_value a2 [0] <? 2 ^ N.of_nat pw) &&
           match a_src a1, a_src a2 with AConst _ _, AConst _ _ => true | _, _ => false end
        then option_map (cons (ICall byid [a1; a2])) (chain_to_ops setname byid maxv pw r) else None
    | _ => None
    end.

  Definition lift_init (o:outcome (option buf)) : outcome lres :=
    match o with
    | Ok (Some b') => Ok (LOk, Some b', None)
    | Ok None => Unmodelled
    | OOB q => OOB q
    | Unmodelled => Unmodelled
    end.

  Lemma const_arg_indep a p p' : (match a_src a with AConst _ _ => true | _ => false end) = true ->
    arg_value a p = arg_value a p'.
  Proof. unfold arg_value. destruct (a_src a); [reflexivity|discriminate]. Qed.

  Lemma run_setter_some ts st b params : run_setter ldq stq cfg ts st (Some b) params <> Ok None.
  Proof.
    unfold run_setter, run_gcall_set. destruct (a_signed (s_value st)); [discriminate|].
    destruct (resolve_call _ _ ts (s_call st) params); try discriminate.
    destruct (set_via ldq stq (qw_set cfg) d b (arg_value (s_value st) params)); discriminate.
  Qed.

  Lemma chain_sound lset s t maxv pw fuel :
    lset_ok lset s t = Some (maxv, pw) -> find_legacy ls (l_name lset) = Some lset ->
    forall p steps ops b, chain_to_ops (l_name lset) (sp_set_field s) maxv pw steps = Some ops ->
      run_steps ldq stq cfg u ls (S fuel) steps (Some b) p None = lift_init (run_initops ldq stq cfg u ops b [0]).
  Proof.
    intros Hset Hfind. pose proof (lset_sound lset s t maxv pw Hset) as Hs.
    (* the set wrapper: shape facts *)
    assert (Hshape : exists callee a1 a2, l_steps lset = [LSet callee [a1; a2]] /\
                                          guards_ok 0 maxv [0; 2]%nat (l_guards lset) = true).
    { unfold lset_ok in Hset. destruct (assoc (t_enum t) (sp_sentinel s)) as [mv|]; [|discriminate].
      destruct (l_steps lset) as [|[callee args| | | |] [|? ?]]; try discriminate;
        try (exfalso; destruct args as [|? [|? [|? ?]]]; discriminate).
      destruct args as [|a1 [|a2 [|? ?]]]; try discriminate.
      destruct (a_src a2) as [|i2 pw']; [discriminate|]. destruct i2 as [|[|[|?]]]; try discriminate.
      destruct (String.eqb callee (sp_set_field s) && arg_wide a1 1 32 && arg_wide a2 2 (N.of_nat pw') &&
                guards_ok 0 mv [0; 2]%nat (l_guards lset)) eqn:E; [|discriminate].
      inversion Hset; subst. apply andb_true_iff in E. destruct E as [_ Hg]. eauto. }
    destruct Hshape as [callee [b1 [b2 [Hsteps Hg]]]].
    assert (Hout : out_param lset = 0%nat) by (unfold out_param; rewrite Hsteps; reflexivity).
    intros p. induction steps as [|st r IH]; intros ops b Hops; cbn [chain_to_ops] in Hops.
    - inversion Hops; subst. reflexivity.
    - destruct st as [| |v n| |cal args chk]; try discriminate.
      + destruct (chain_to_ops (l_name lset) (sp_set_field s) maxv pw r) as [ops'|] eqn:Er; [|discriminate].
        inversion Hops; subst ops. cbn [run_steps run_initops run_initop].
        destruct (do_memset b v n) as [[b'|]| |] eqn:Em; cbn [lift_init]; try reflexivity.
        * apply (IH ops' b' eq_refl).
        * unfold do_memset in Em. destruct (n <=? blen b); discriminate.
      + destruct args as [|a1 [|a2 [|? ?]]]; try (cbv iota beta in Hops; discriminate).
        destruct chk; [|cbv iota beta in Hops; discriminate].
        destruct (String.eqb cal (l_name lset) && (arg_value a1 [0] <? maxv) && (arg_value a1 [0] <? 2 ^ 32) &&
                  (arg_value a2 [0] <? 2 ^ N.of_nat pw) &&
                  match a_src a1, a_src a2 with AConst _ _, AConst _ _ => true | _, _ => false end) eqn:E; [|discriminate].
        destruct (chain_to_ops (l_name lset) (sp_set_field s) maxv pw r) as [ops'|] eqn:Er; [|discriminate].
        inversion Hops; subst ops. clear Hops.
        apply andb_true_iff in E. destruct E as [E Hc]. apply andb_true_iff in E. destruct E as [E Hv].
        apply andb_true_iff in E. destruct E as [E H32]. apply andb_true_iff in E. destruct E as [Hn Hlt].
        apply String.eqb_eq in Hn. subst cal. apply N.ltb_lt in Hlt, H32, Hv.
        assert (Hc1 : (match a_src a1 with AConst _ _ => true | _ => false end) = true) by (destruct (a_src a1); [reflexivity|discriminate]).
        assert (Hc2 : (match a_src a2 with AConst _ _ => true | _ => false end) = true)
          by (destruct (a_src a1); [|discriminate]; destruct (a_src a2); [reflexivity|discriminate]).
        cbn [run_steps]. rewrite Hfind. rewrite Hout. cbn [Nat.eqb]. rewrite andb_true_r.
        cbn [map]. rewrite (const_arg_indep a1 p [0] Hc1), (const_arg_indep a2 p [0] Hc2).
        set (f := arg_value a1 [0]) in *. set (v := arg_value a2 [0]) in *.
        (* the wrapper's own run, as characterised by lset_sound *)
        pose proof (Hs (Some b) f v H32 Hv) as Hrun. unfold run_legacy in Hrun. rewrite Hout in Hrun.
        assert (H32' : nth 1 [0; f; v] 0 < 2 ^ 32) by (cbn [nth]; exact H32).
        destruct (guards_ok_sound 0 maxv _ _ (Some b) [0; f; v] None Hg H32') as [Hstd Hfire].
        rewrite Hstd, Hfire in Hrun. rewrite Hstd, Hfire. cbn [existsb cond nth is_none] in Hrun |- *.
        replace (maxv <=? f) with false in Hrun |- * by (symmetry; apply N.leb_gt; exact Hlt).
        cbn [orb] in Hrun |- *.
        (* fuel does not matter for the one-statement wrapper *)
        assert (Hfuel : run_steps ldq stq cfg u ls fuel (l_steps lset) (Some b) [0; f; v] None =
                        run_steps ldq stq cfg u ls 2 (l_steps lset) (Some b) [0; f; v] None).
        { rewrite Hsteps. destruct fuel; reflexivity. }
        rewrite Hfuel, Hrun.
        cbn [run_initops run_initop]. destruct (find_setter (u_setters u) (sp_set_field s)) as [stt|]; [|reflexivity].
        cbn [map]. fold f v.
        destruct (run_setter ldq stq cfg (u_tables u) stt (Some b) [0; f; v]) as [[b'|]| |] eqn:Ers; cbn [lift_init]; try reflexivity.
        * apply (IH ops' b' eq_refl).
        * exfalso. exact (run_setter_some _ _ _ _ Ers).
  Qed.

  Definition linit_chain_ops (l:legacy) (lset:legacy) (s:sformat) (t:table) : option (list initop) :=
    match lset_ok lset s t with
    | Some (maxv, pw) =>
        if guards_ok 0 0 [0%nat] (l_guards l) && Nat.eqb (out_param l) 0
        then chain_to_ops (l_name lset) (sp_set_field s) maxv pw (l_steps l) else None
    | None => None
    end.

  Theorem linit_chain_sound l lset s t ops :
    linit_chain_ops l lset s t = Some ops -> find_legacy ls (l_name lset) = Some lset ->
    forall x, x < 2 ^ 8 ->
    run_legacy ldq stq cfg u ls l None [0; x] None = Ok (LEinval, None, None) /\
    forall b, run_legacy ldq stq cfg u ls l (Some b) [0; x] None = lift_init (run_initops ldq stq cfg u ops b [0]).
  Proof.
    unfold linit_chain_ops. destruct (lset_ok lset s t) as [[maxv pw]|] eqn:Eset; [|discriminate].
    destruct (guards_ok 0 0 [0%nat] (l_guards l) && Nat.eqb (out_param l) 0) eqn:E; [|discriminate].
    apply andb_true_iff in E. destruct E as [Hg Hout]. apply Nat.eqb_eq in Hout.
    intros Hops Hfind x Hx.
    assert (H32 : nth 1 [0; x] 0 < 2 ^ 32) by (cbn [nth]; apply N.lt_le_trans with (2 ^ 8); [exact Hx|apply N.pow_le_mono_r; lia]).
    split.
    - unfold run_legacy. rewrite Hout. destruct (guards_ok_sound 0 0 _ _ None [0; x] None Hg H32) as [Hstd Hfire].
      rewrite Hstd, Hfire. reflexivity.
    - intros b. unfold run_legacy. rewrite Hout.
      destruct (guards_ok_sound 0 0 _ _ (Some b) [0; x] None Hg H32) as [Hstd Hfire].
      rewrite Hstd, Hfire. cbn [existsb cond is_none orb].
      apply (chain_sound lset s t maxv pw 1 Eset Hfind _ _ _ b Hops).
  Qed.
End Legacy.
