(* Reference layouts of the 23 header formats and the reference bit-level
   semantics of "read a field" / "write a field".

   HAND-MAINTAINED.  This file is the oracle for "the bit range the standard
   assigns to the field": IEEE 1722-2016 (common header 4.4.3, stream header
   4.4.4, AAF 7.2/7.3, CVF 8.2 with RFC payload headers 8.4-8.6, CRF 10.4,
   RVF 12.2, TSCF/NTSCF 9.2/9.3, ACF messages 9.4.x, UDP annex J) and
   examples/acf-vss/protocol_description/acf-vss.md for VSS / VSS-brief.
   It was first printed from the sources (tools/oneoff/bootstrap_spec.py) and
   then checked row by row against the figures; the places where the sources
   disagree with the standard are marked DEFECT below.  It is never regenerated.

   A field is designated by the public enumerator of the by-identifier API and
   by the public names of its dedicated accessors, not by a table index, so a
   consistent reordering of an enum and its table is harmless. *)
From Coq Require Import List NArith Bool String.
From O1722 Require Import Bits.
Import ListNotations.
Local Open Scope N_scope.

Record sfield := F {
  sf_name : string;      (* enumerator of the by-identifier API *)
  sf_first : N;          (* first wire bit, 0 = most significant bit of byte 0 *)
  sf_width : N;
  sf_getter : string;    (* dedicated getter / setter, "" when the API has none *)
  sf_setter : string
}.
Record sformat := mkfmt {
  sp_name : string;
  sp_src : string;              (* library source implementing the format *)
  sp_type : string;             (* header type *)
  sp_hdr_len : N;               (* header size in bytes on the wire *)
  sp_get_field : string;        (* by-identifier reader / writer *)
  sp_set_field : string;
  sp_sentinel : string;         (* one-past-the-end enumerator *)
  sp_fields : list sfield;
  sp_init : string;             (* initialiser, "" when the API has none *)
  sp_init_consts : list (string * N)   (* constants the format mandates after initialisation *)
}.

(* ---------- reference semantics ---------- *)
(* the number whose binary digits, most significant first, are f 0, f 1, ..., f (n-1) *)
Fixpoint bits_value (n:nat) (f:N -> bool) : N :=
  match n with O => 0 | S k => 2 * bits_value k f + N.b2n (f (N.of_nat k)) end.

(* read bits [first, first+width) *)
Definition spec_extract (b:buf) (first width:N) : N :=
  bits_value (N.to_nat width) (fun i => bit_at b (first + i)).

(* write v mod 2^width into bits [first, first+width), every other bit kept *)
Definition spec_insert (b:buf) (first width v:N) : buf :=
  map (fun j => let j := N.of_nat j in
         bits_value 8 (fun t => let i := 8 * j + t in
            if (first <=? i) && (i <? first + width)
            then N.testbit v (first + width - 1 - i) else bit_at b i))
      (seq 0 (List.length b)).

Definition find_sfield (fs:list sfield) (name:string) : option sfield :=
  find (fun f => String.eqb (sf_name f) name) fs.

(* canonical header: hdr_len zero bytes with the mandated constants written *)
Definition canonical_header (s:sformat) : option buf :=
  fold_left (fun acc c =>
      match acc, find_sfield (sp_fields s) (fst c) with
      | Some b, Some f => Some (spec_insert b (sf_first f) (sf_width f) (snd c))
      | _, _ => None
      end) (sp_init_consts s) (Some (repeat 0 (N.to_nat (sp_hdr_len s)))).

(* ---------- the formats ---------- *)
Local Open Scope string_scope.
Definition spec_CommonHeader : sformat := mkfmt "CommonHeader" "src/avtp/CommonHeader.c" "Avtp_CommonHeader_t" 4
  "Avtp_CommonHeader_GetField" "Avtp_CommonHeader_SetField" "AVTP_COMMON_HEADER_FIELD_MAX"
  [
    F "AVTP_COMMON_HEADER_FIELD_SUBTYPE"               0  8 "Avtp_CommonHeader_GetSubtype" "Avtp_CommonHeader_SetSubtype";
    F "AVTP_COMMON_HEADER_FIELD_H"                     8  1 "Avtp_CommonHeader_GetH" "Avtp_CommonHeader_SetH";
    F "AVTP_COMMON_HEADER_FIELD_VERSION"               9  3 "Avtp_CommonHeader_GetVersion" "Avtp_CommonHeader_SetVersion" ]
  "" [].

Definition spec_Crf : sformat := mkfmt "Crf" "src/avtp/Crf.c" "Avtp_Crf_t" 20
  "Avtp_Crf_GetField" "Avtp_Crf_SetField" "AVTP_CRF_FIELD_MAX"
  [
    F "AVTP_CRF_FIELD_SUBTYPE"                         0  8 "Avtp_Crf_GetSubtype" "Avtp_Crf_SetSubtype";
    F "AVTP_CRF_FIELD_SV"                              8  1 "Avtp_Crf_GetSv" "Avtp_Crf_SetSv";
    F "AVTP_CRF_FIELD_VERSION"                         9  3 "Avtp_Crf_GetVersion" "Avtp_Crf_SetVersion";
    F "AVTP_CRF_FIELD_MR"                             12  1 "Avtp_Crf_GetMr" "Avtp_Crf_SetMr";
    F "AVTP_CRF_FIELD_RESERVED"                       13  1 "" "";
    F "AVTP_CRF_FIELD_FS"                             14  1 "Avtp_Crf_GetFs" "Avtp_Crf_SetFs";
    F "AVTP_CRF_FIELD_TU"                             15  1 "Avtp_Crf_GetTu" "Avtp_Crf_SetTu";
    F "AVTP_CRF_FIELD_SEQUENCE_NUM"                   16  8 "Avtp_Crf_GetSequenceNum" "Avtp_Crf_SetSequenceNum";
    F "AVTP_CRF_FIELD_TYPE"                           24  8 "Avtp_Crf_GetType" "Avtp_Crf_SetType";
    F "AVTP_CRF_FIELD_STREAM_ID"                      32 64 "Avtp_Crf_GetStreamId" "Avtp_Crf_SetStreamId";
    F "AVTP_CRF_FIELD_PULL"                           96  3 "Avtp_Crf_GetPull" "Avtp_Crf_SetPull";
    F "AVTP_CRF_FIELD_BASE_FREQUENCY"                 99 29 "Avtp_Crf_GetBaseFrequency" "Avtp_Crf_SetBaseFrequency";
    F "AVTP_CRF_FIELD_CRF_DATA_LENGTH"               128 16 "Avtp_Crf_GetCrfDataLength" "Avtp_Crf_SetCrfDataLength";
    F "AVTP_CRF_FIELD_TIMESTAMP_INTERVAL"            144 16 "Avtp_Crf_GetTimestampInterval" "Avtp_Crf_SetTimestampInterval" ]
  "Avtp_Crf_Init" [("AVTP_CRF_FIELD_SUBTYPE", 4); ("AVTP_CRF_FIELD_SV", 1)].

Definition spec_Rvf : sformat := mkfmt "Rvf" "src/avtp/Rvf.c" "Avtp_Rvf_t" 32
  "Avtp_Rvf_GetField" "Avtp_Rvf_SetField" "AVTP_RVF_FIELD_MAX"
  [
    F "AVTP_RVF_FIELD_SUBTYPE"                         0  8 "Avtp_Rvf_GetSubtype" "Avtp_Rvf_SetSubtype";
    F "AVTP_RVF_FIELD_SV"                              8  1 "Avtp_Rvf_GetSv" "Avtp_Rvf_SetSv";
    F "AVTP_RVF_FIELD_VERSION"                         9  3 "Avtp_Rvf_GetVersion" "Avtp_Rvf_SetVersion";
    F "AVTP_RVF_FIELD_MR"                             12  1 "Avtp_Rvf_GetMr" "Avtp_Rvf_SetMr";
    F "AVTP_RVF_FIELD_RESERVED"                       13  2 "" "";
    F "AVTP_RVF_FIELD_TV"                             15  1 "Avtp_Rvf_GetTv" "Avtp_Rvf_SetTv";
    F "AVTP_RVF_FIELD_SEQUENCE_NUM"                   16  8 "Avtp_Rvf_GetSequenceNum" "Avtp_Rvf_SetSequenceNum";
    F "AVTP_RVF_FIELD_RESERVED_2"                     24  7 "" "";
    F "AVTP_RVF_FIELD_TU"                             31  1 "Avtp_Rvf_GetTu" "Avtp_Rvf_SetTu";
    F "AVTP_RVF_FIELD_STREAM_ID"                      32 64 "Avtp_Rvf_GetStreamId" "Avtp_Rvf_SetStreamId";
    F "AVTP_RVF_FIELD_AVTP_TIMESTAMP"                 96 32 "Avtp_Rvf_GetAvtpTimestamp" "Avtp_Rvf_SetAvtpTimestamp";
    F "AVTP_RVF_FIELD_ACTIVE_PIXELS"                 128 16 "Avtp_Rvf_GetActivePixels" "Avtp_Rvf_SetActivePixels";
    F "AVTP_RVF_FIELD_TOTAL_LINES"                   144 16 "Avtp_Rvf_GetTotalLines" "Avtp_Rvf_SetTotalLines";
    F "AVTP_RVF_FIELD_STREAM_DATA_LENGTH"            160 16 "Avtp_Rvf_GetStreamDataLength" "Avtp_Rvf_SetStreamDataLength";
    F "AVTP_RVF_FIELD_AP"                            176  1 "Avtp_Rvf_GetAp" "Avtp_Rvf_SetAp";
    F "AVTP_RVF_FIELD_RESERVED_3"                    177  1 "" "";
    F "AVTP_RVF_FIELD_F"                             178  1 "Avtp_Rvf_GetF" "Avtp_Rvf_setF";
    F "AVTP_RVF_FIELD_EF"                            179  1 "Avtp_Rvf_GetEf" "Avtp_Rvf_SetEf";
    F "AVTP_RVF_FIELD_EVT"                           180  4 "Avtp_Rvf_GetEvt" "Avtp_Rvf_SetEvt";
    F "AVTP_RVF_FIELD_PD"                            184  1 "Avtp_Rvf_GetPd" "Avtp_Rvf_SetPd";
    F "AVTP_RVF_FIELD_I"                             185  1 "Avtp_Rvf_GetI" "Avtp_Rvf_SetI";
    F "AVTP_RVF_FIELD_RESERVED_4"                    186  6 "" "";
    F "AVTP_RVF_FIELD_RESERVED_5"                    192  8 "" "";
    F "AVTP_RVF_FIELD_PIXEL_DEPTH"                   200  4 "Avtp_Rvf_GetPixelDepth" "Avtp_Rvf_SetPixelDepth";
    F "AVTP_RVF_FIELD_PIXEL_FORMAT"                  204  4 "Avtp_Rvf_GetPixelFormat" "Avtp_Rvf_SetPixelFormat";
    F "AVTP_RVF_FIELD_FRAME_RATE"                    208  8 "Avtp_Rvf_GetFrameRate" "Avtp_Rvf_SetFrameRate";
    F "AVTP_RVF_FIELD_COLORSPACE"                    216  4 "Avtp_Rvf_GetColorspace" "Avtp_Rvf_SetColorspace";
    F "AVTP_RVF_FIELD_NUM_LINES"                     220  4 "Avtp_Rvf_GetNumLines" "Avtp_Rvf_SetNumLines";
    F "AVTP_RVF_FIELD_RESERVED_6"                    224  8 "" "";
    F "AVTP_RVF_FIELD_I_SEQ_NUM"                     232  8 "Avtp_Rvf_GetISeqNum" "Avtp_Rvf_SetISeqNum";
    F "AVTP_RVF_FIELD_LINE_NUMBER"                   240 16 "Avtp_Rvf_GetLineNumber" "Avtp_Rvf_SetLineNumber" ]
  "Avtp_Rvf_Init" [("AVTP_RVF_FIELD_SUBTYPE", 7); ("AVTP_RVF_FIELD_SV", 1)].

Definition spec_Udp : sformat := mkfmt "Udp" "src/avtp/Udp.c" "Avtp_Udp_t" 4
  "Avtp_Udp_GetField" "Avtp_Udp_SetField" "AVTP_UDP_FIELD_MAX"
  [
    F "AVTP_UDP_FIELD_ENCAPSULATION_SEQ_NO"            0 32 "Avtp_Udp_GetEncapsulationSeqNo" "Avtp_Udp_SetEncapsulationSeqNo" ]
  "Avtp_Udp_Init" [].

Definition spec_Aaf : sformat := mkfmt "Aaf" "src/avtp/aaf/Aaf.c" "Avtp_Aaf_t" 24
  "Avtp_Aaf_GetField" "Avtp_Aaf_SetField" "AVTP_AAF_FIELD_MAX"
  [
    F "AVTP_AAF_FIELD_SUBTYPE"                         0  8 "Avtp_Aaf_GetSubtype" "Avtp_Aaf_SetSubtype";
    F "AVTP_AAF_FIELD_SV"                              8  1 "Avtp_Aaf_GetSv" "Avtp_Aaf_SetSv";
    F "AVTP_AAF_FIELD_VERSION"                         9  3 "Avtp_Aaf_GetVersion" "Avtp_Aaf_SetVersion";
    F "AVTP_AAF_FIELD_MR"                             12  1 "Avtp_Aaf_GetMr" "Avtp_Aaf_SetMr";
    F "AVTP_AAF_FIELD_TV"                             15  1 "Avtp_Aaf_GetTv" "Avtp_Aaf_SetTv";
    F "AVTP_AAF_FIELD_SEQUENCE_NUM"                   16  8 "Avtp_Aaf_GetSequenceNum" "Avtp_Aaf_SetSequenceNum";
    F "AVTP_AAF_FIELD_TU"                             31  1 "Avtp_Aaf_GetTu" "Avtp_Aaf_SetTu";
    F "AVTP_AAF_FIELD_STREAM_ID"                      32 64 "Avtp_Aaf_GetStreamId" "Avtp_Aaf_SetStreamId";
    F "AVTP_AAF_FIELD_AVTP_TIMESTAMP"                 96 32 "Avtp_Aaf_GetAvtpTimestamp" "Avtp_Aaf_SetAvtpTimestamp";
    F "AVTP_AAF_FIELD_FORMAT"                        128  8 "Avtp_Aaf_GetFormat" "Avtp_Aaf_SetFormat";
    F "AVTP_AAF_FIELD_AAF_FORMAT_SPECIFIC_DATA_1"    136 24 "" "";
    F "AVTP_AAF_FIELD_STREAM_DATA_LENGTH"            160 16 "Avtp_Aaf_GetStreamDataLength" "Avtp_Aaf_SetStreamDataLength";
    F "AVTP_AAF_FIELD_AFSD"                          176  3 "Avtp_Aaf_GetAfsd" "Avtp_Aaf_SetAfsd";
    F "AVTP_AAF_FIELD_SP"                            179  1 "Avtp_Aaf_GetSp" "Avtp_Aaf_SetSp";
    F "AVTP_AAF_FIELD_EVT"                           180  4 "Avtp_Aaf_GetEvt" "Avtp_Aaf_SetEvt";
    F "AVTP_AAF_FIELD_AAF_FORMAT_SPECIFIC_DATA_2"    184  8 "" "" ]
  "" [].

Definition spec_Pcm : sformat := mkfmt "Pcm" "src/avtp/aaf/Pcm.c" "Avtp_Pcm_t" 24
  "Avtp_Pcm_GetField" "Avtp_Pcm_SetField" "AVTP_PCM_FIELD_MAX"
  [
    F "AVTP_PCM_FIELD_SUBTYPE"                         0  8 "Avtp_Pcm_GetSubtype" "Avtp_Pcm_SetSubtype";
    F "AVTP_PCM_FIELD_SV"                              8  1 "Avtp_Pcm_GetSv" "Avtp_Pcm_SetSv";
    F "AVTP_PCM_FIELD_VERSION"                         9  3 "Avtp_Pcm_GetVersion" "Avtp_Pcm_SetVersion";
    F "AVTP_PCM_FIELD_MR"                             12  1 "Avtp_Pcm_GetMr" "Avtp_Pcm_SetMr";
    F "AVTP_PCM_FIELD_TV"                             15  1 "Avtp_Pcm_GetTv" "Avtp_Pcm_SetTv";
    F "AVTP_PCM_FIELD_SEQUENCE_NUM"                   16  8 "Avtp_Pcm_GetSequenceNum" "Avtp_Pcm_SetSequenceNum";
    F "AVTP_PCM_FIELD_TU"                             31  1 "Avtp_Pcm_GetTu" "Avtp_Pcm_SetTu";
    F "AVTP_PCM_FIELD_STREAM_ID"                      32 64 "Avtp_Pcm_GetStreamId" "Avtp_Pcm_SetStreamId";
    F "AVTP_PCM_FIELD_AVTP_TIMESTAMP"                 96 32 "Avtp_Pcm_GetAvtpTimestamp" "Avtp_Pcm_SetAvtpTimestamp";
    F "AVTP_PCM_FIELD_FORMAT"                        128  8 "Avtp_Pcm_GetFormat" "Avtp_Pcm_SetFormat";
    F "AVTP_PCM_FIELD_NSR"                           136  4 "Avtp_Pcm_GetNsr" "Avtp_Pcm_SetNsr";
    F "AVTP_PCM_FIELD_CHANNELS_PER_FRAME"            142 10 "Avtp_Pcm_GetChannelsPerFrame" "Avtp_Pcm_SetChannelsPerFrame";
    F "AVTP_PCM_FIELD_BIT_DEPTH"                     152  8 "Avtp_Pcm_GetBitDepth" "Avtp_Pcm_SetBitDepth";
    F "AVTP_PCM_FIELD_STREAM_DATA_LENGTH"            160 16 "Avtp_Pcm_GetStreamDataLength" "Avtp_Pcm_SetStreamDataLength";
    F "AVTP_PCM_FIELD_SP"                            179  1 "Avtp_Pcm_GetSp" "Avtp_Pcm_SetSp";
    F "AVTP_PCM_FIELD_EVT"                           180  4 "Avtp_Pcm_GetEvt" "Avtp_Pcm_SetEvt" ]
  "Avtp_Pcm_Init" [("AVTP_PCM_FIELD_SUBTYPE", 2); ("AVTP_PCM_FIELD_SV", 1)].

Definition spec_AcfCommon : sformat := mkfmt "AcfCommon" "src/avtp/acf/AcfCommon.c" "Avtp_AcfCommon_t" 4
  "Avtp_AcfCommon_GetField" "Avtp_AcfCommon_SetField" "AVTP_ACF_COMMON_FIELD_MAX"
  [
    F "AVTP_ACF_FIELD_ACF_MSG_TYPE"                    0  7 "Avtp_AcfCommon_GetAcfMsgType" "Avtp_AcfCommon_SetAcfMsgType";
    F "AVTP_ACF_FIELD_ACF_MSG_LENGTH"                  7  9 "Avtp_AcfCommon_GetAcfMsgLength" "Avtp_AcfCommon_SetAcfMsgLength" ]
  "" [].

Definition spec_Can : sformat := mkfmt "Can" "src/avtp/acf/Can.c" "Avtp_Can_t" 16
  "Avtp_Can_GetField" "Avtp_Can_SetField" "AVTP_CAN_FIELD_MAX"
  [
    F "AVTP_CAN_FIELD_ACF_MSG_TYPE"                    0  7 "Avtp_Can_GetAcfMsgType" "Avtp_Can_SetAcfMsgType";
    F "AVTP_CAN_FIELD_ACF_MSG_LENGTH"                  7  9 "Avtp_Can_GetAcfMsgLength" "Avtp_Can_SetAcfMsgLength";
    F "AVTP_CAN_FIELD_PAD"                            16  2 "Avtp_Can_GetPad" "Avtp_Can_SetPad";
    F "AVTP_CAN_FIELD_MTV"                            18  1 "Avtp_Can_GetMtv" "Avtp_Can_SetMtv";
    F "AVTP_CAN_FIELD_RTR"                            19  1 "Avtp_Can_GetRtr" "Avtp_Can_SetRtr";
    F "AVTP_CAN_FIELD_EFF"                            20  1 "Avtp_Can_GetEff" "Avtp_Can_SetEff";
    F "AVTP_CAN_FIELD_BRS"                            21  1 "Avtp_Can_GetBrs" "Avtp_Can_SetBrs";
    F "AVTP_CAN_FIELD_FDF"                            22  1 "Avtp_Can_GetFdf" "Avtp_Can_SetFdf";
    F "AVTP_CAN_FIELD_ESI"                            23  1 "Avtp_Can_GetEsi" "Avtp_Can_SetEsi";
    F "AVTP_CAN_FIELD_CAN_BUS_ID"                     27  5 "Avtp_Can_GetCanBusId" "Avtp_Can_SetCanBusId";
    F "AVTP_CAN_FIELD_MESSAGE_TIMESTAMP"              32 64 "Avtp_Can_GetMessageTimestamp" "Avtp_Can_SetMessageTimestamp";
    F "AVTP_CAN_FIELD_CAN_IDENTIFIER"                 99 29 "Avtp_Can_GetCanIdentifier" "Avtp_Can_SetCanIdentifier" ]
  "Avtp_Can_Init" [("AVTP_CAN_FIELD_ACF_MSG_TYPE", 1)].

Definition spec_CanBrief : sformat := mkfmt "CanBrief" "src/avtp/acf/CanBrief.c" "Avtp_CanBrief_t" 8
  "Avtp_CanBrief_GetField" "Avtp_CanBrief_SetField" "AVTP_CAN_BRIEF_FIELD_MAX"
  [
    F "AVTP_CAN_BRIEF_FIELD_ACF_MSG_TYPE"              0  7 "Avtp_CanBrief_GetAcfMsgType" "Avtp_CanBrief_SetAcfMsgType";
    F "AVTP_CAN_BRIEF_FIELD_ACF_MSG_LENGTH"            7  9 "Avtp_CanBrief_GetAcfMsgLength" "Avtp_CanBrief_SetAcfMsgLength";
    F "AVTP_CAN_BRIEF_FIELD_PAD"                      16  2 "Avtp_CanBrief_GetPad" "Avtp_CanBrief_SetPad";
    F "AVTP_CAN_BRIEF_FIELD_MTV"                      18  1 "Avtp_CanBrief_GetMtv" "Avtp_CanBrief_SetMtv";
    F "AVTP_CAN_BRIEF_FIELD_RTR"                      19  1 "Avtp_CanBrief_GetRtr" "Avtp_CanBrief_SetRtr";
    F "AVTP_CAN_BRIEF_FIELD_EFF"                      20  1 "Avtp_CanBrief_GetEff" "Avtp_CanBrief_SetEff";
    F "AVTP_CAN_BRIEF_FIELD_BRS"                      21  1 "Avtp_CanBrief_GetBrs" "Avtp_CanBrief_SetBrs";
    F "AVTP_CAN_BRIEF_FIELD_FDF"                      22  1 "Avtp_CanBrief_GetFdf" "Avtp_CanBrief_SetFdf";
    F "AVTP_CAN_BRIEF_FIELD_ESI"                      23  1 "Avtp_CanBrief_GetEsi" "Avtp_CanBrief_SetEsi";
    F "AVTP_CAN_BRIEF_FIELD_CAN_BUS_ID"               27  5 "Avtp_CanBrief_GetCanBusId" "Avtp_CanBrief_SetCanBusId";
    F "AVTP_CAN_BRIEF_FIELD_CAN_IDENTIFIER"           35 29 "Avtp_CanBrief_GetCanIdentifier" "Avtp_CanBrief_SetCanIdentifier" ]
  "Avtp_CanBrief_Init" [("AVTP_CAN_BRIEF_FIELD_ACF_MSG_TYPE", 2)].

Definition spec_FlexRay : sformat := mkfmt "FlexRay" "src/avtp/acf/FlexRay.c" "Avtp_FlexRay_t" 16
  "Avtp_FlexRay_GetField" "Avtp_FlexRay_SetField" "AVTP_FLEXRAY_FIELD_MAX"
  [
    F "AVTP_FLEXRAY_FIELD_ACF_MSG_TYPE"                0  7 "Avtp_FlexRay_GetAcfMsgType" "Avtp_FlexRay_SetAcfMsgType";
    F "AVTP_FLEXRAY_FIELD_ACF_MSG_LENGTH"              7  9 "Avtp_FlexRay_GetAcfMsgLength" "Avtp_FlexRay_SetAcfMsgLength";
    F "AVTP_FLEXRAY_FIELD_PAD"                        16  2 "Avtp_FlexRay_GetPad" "Avtp_FlexRay_SetPad";
    F "AVTP_FLEXRAY_FIELD_MTV"                        18  1 "Avtp_FlexRay_GetMtv" "Avtp_FlexRay_SetMtv";
    F "AVTP_FLEXRAY_FIELD_FR_BUS_ID"                  19  5 "Avtp_FlexRay_GetFrBusId" "Avtp_FlexRay_SetFrBusId";
    F "AVTP_FLEXRAY_FIELD_RESERVED"                   24  2 "" "";
    F "AVTP_FLEXRAY_FIELD_CHAN"                       26  2 "Avtp_FlexRay_GetChan" "Avtp_FlexRay_SetChan";
    F "AVTP_FLEXRAY_FIELD_STR"                        28  1 "Avtp_FlexRay_GetStr" "Avtp_FlexRay_SetStr";
    F "AVTP_FLEXRAY_FIELD_SYN"                        29  1 "Avtp_FlexRay_GetSyn" "Avtp_FlexRay_SetSyn";
    F "AVTP_FLEXRAY_FIELD_PRE"                        30  1 "Avtp_FlexRay_GetPre" "Avtp_FlexRay_SetPre";
    F "AVTP_FLEXRAY_FIELD_NFI"                        31  1 "Avtp_FlexRay_GetNfi" "Avtp_FlexRay_SetNfi";
    F "AVTP_FLEXRAY_FIELD_MESSAGE_TIMESTAMP"          32 64 "Avtp_FlexRay_GetMessageTimestamp" "Avtp_FlexRay_SetMessageTimestamp";
    F "AVTP_FLEXRAY_FIELD_FR_FRAME_ID"                96 11 "Avtp_FlexRay_GetFrFrameId" "Avtp_FlexRay_SetFrFrameId";
    F "AVTP_FLEXRAY_FIELD_RESERVED_2"                107 15 "" "";
    F "AVTP_FLEXRAY_FIELD_CYCLE"                     122  6 "Avtp_FlexRay_GetCycle" "Avtp_FlexRay_SetCycle" ]
  "Avtp_FlexRay_Init" [("AVTP_FLEXRAY_FIELD_ACF_MSG_TYPE", 0)].

Definition spec_Gpc : sformat := mkfmt "Gpc" "src/avtp/acf/Gpc.c" "Avtp_Gpc_t" 8
  "Avtp_Gpc_GetField" "Avtp_Gpc_SetField" "AVTP_GPC_FIELD_MAX"
  [
    F "AVTP_GPC_FIELD_ACF_MSG_TYPE"                    0  7 "Avtp_Gpc_GetAcfMsgType" "Avtp_Gpc_SetAcfMsgType";
    F "AVTP_GPC_FIELD_ACF_MSG_LENGTH"                  7  9 "Avtp_Gpc_GetAcfMsgLength" "Avtp_Gpc_SetAcfMsgLength";
    F "AVTP_GPC_FIELD_GPC_MSG_ID"                     16 48 "Avtp_Gpc_GetGpcMsgId" "Avtp_Gpc_SetGpcMsgId" ]
  "Avtp_Gpc_Init" [("AVTP_GPC_FIELD_ACF_MSG_TYPE", 5)].

Definition spec_Lin : sformat := mkfmt "Lin" "src/avtp/acf/Lin.c" "Avtp_Lin_t" 12
  "Avtp_Lin_GetField" "Avtp_Lin_SetField" "AVTP_LIN_FIELD_MAX"
  [
    F "AVTP_LIN_FIELD_ACF_MSG_TYPE"                    0  7 "Avtp_Lin_GetAcfMsgType" "Avtp_Lin_SetAcfMsgType";
    F "AVTP_LIN_FIELD_ACF_MSG_LENGTH"                  7  9 "Avtp_Lin_GetAcfMsgLength" "Avtp_Lin_SetAcfMsgLength";
    F "AVTP_LIN_FIELD_PAD"                            16  2 "Avtp_Lin_GetPad" "Avtp_Lin_SetPad";
    F "AVTP_LIN_FIELD_MTV"                            18  1 "Avtp_Lin_GetMtv" "Avtp_Lin_SetMtv";
    F "AVTP_LIN_FIELD_LIN_BUS_ID"                     19  5 "Avtp_Lin_GetLinBusId" "Avtp_Lin_SetLinBusId";
    F "AVTP_LIN_FIELD_LIN_IDENTIFIER"                 24  8 "Avtp_Lin_GetLinIdentifier" "Avtp_Lin_SetLinIdentifier";
    F "AVTP_LIN_FIELD_MESSAGE_TIMESTAMP"              32 64 "Avtp_Lin_GetMessageTimestamp" "Avtp_Lin_SetMessageTimestamp" ]
  "Avtp_Lin_Init" [("AVTP_LIN_FIELD_ACF_MSG_TYPE", 3)].

(* IEEE 1722-2016 9.4.6: the MOST message header has five quadlets (func_id, op_type and a
   reserved half-quadlet follow inst_id). *)
Definition spec_Most : sformat := mkfmt "Most" "src/avtp/acf/Most.c" "Avtp_Most_t" 20
  "Avtp_Most_GetField" "Avtp_Most_SetField" "AVTP_MOST_FIELD_MAX"
  [
    F "AVTP_MOST_FIELD_ACF_MSG_TYPE"                   0  7 "Avtp_Most_GetAcfMsgType" "Avtp_Most_SetAcfMsgType";
    F "AVTP_MOST_FIELD_ACF_MSG_LENGTH"                 7  9 "Avtp_Most_GetAcfMsgLength" "Avtp_Most_SetAcfMsgLength";
    F "AVTP_MOST_FIELD_PAD"                           16  2 "Avtp_Most_GetPad" "Avtp_Most_SetPad";
    F "AVTP_MOST_FIELD_MTV"                           18  1 "Avtp_Most_GetMtv" "Avtp_Most_SetMtv";
    F "AVTP_MOST_FIELD_MOST_NET_ID"                   19  5 "Avtp_Most_GetMostNetId" "Avtp_Most_SetMostNetId";
    F "AVTP_MOST_FIELD_RESERVED"                      24  8 "" "";
    F "AVTP_MOST_FIELD_MESSAGE_TIMESTAMP"             32 64 "Avtp_Most_GetMessageTimestamp" "Avtp_Most_SetMessageTimestamp";
    F "AVTP_MOST_FIELD_DEVICE_ID"                     96 16 "Avtp_Most_GetDeviceId" "Avtp_Most_SetDeviceId";
    F "AVTP_MOST_FIELD_FBLOCK_ID"                    112  8 "Avtp_Most_GetFblockId" "Avtp_Most_SetFblockId";
    F "AVTP_MOST_FIELD_INST_ID"                      120  8 "Avtp_Most_GetInstId" "Avtp_Most_SetInstId";
    F "AVTP_MOST_FIELD_FUNC_ID"                      128 12 "Avtp_Most_GetFuncId" "Avtp_Most_SetFuncId";
    F "AVTP_MOST_FIELD_OP_TYPE"                      140  4 "Avtp_Most_GetOpType" "Avtp_Most_SetOpType";
    F "AVTP_MOST_FIELD_RESERVED_2"                   144 16 "" "" ]
  "Avtp_Most_Init" [("AVTP_MOST_FIELD_ACF_MSG_TYPE", 4)].

Definition spec_Ntscf : sformat := mkfmt "Ntscf" "src/avtp/acf/Ntscf.c" "Avtp_Ntscf_t" 12
  "Avtp_Ntscf_GetField" "Avtp_Ntscf_SetField" "AVTP_NTSCF_FIELD_MAX"
  [
    F "AVTP_NTSCF_FIELD_SUBTYPE"                       0  8 "Avtp_Ntscf_GetSubtype" "Avtp_Ntscf_SetSubtype";
    F "AVTP_NTSCF_FIELD_SV"                            8  1 "Avtp_Ntscf_GetSv" "Avtp_Ntscf_SetSv";
    F "AVTP_NTSCF_FIELD_VERSION"                       9  3 "Avtp_Ntscf_GetVersion" "Avtp_Ntscf_SetVersion";
    F "AVTP_NTSCF_FIELD_NTSCF_DATA_LENGTH"            13 11 "Avtp_Ntscf_GetNtscfDataLength" "Avtp_Ntscf_SetNtscfDataLength";
    F "AVTP_NTSCF_FIELD_SEQUENCE_NUM"                 24  8 "Avtp_Ntscf_GetSequenceNum" "Avtp_Ntscf_SetSequenceNum";
    F "AVTP_NTSCF_FIELD_STREAM_ID"                    32 64 "Avtp_Ntscf_GetStreamId" "Avtp_Ntscf_SetStreamId" ]
  "Avtp_Ntscf_Init" [("AVTP_NTSCF_FIELD_SUBTYPE", 130); ("AVTP_NTSCF_FIELD_SV", 1)].

Definition spec_Sensor : sformat := mkfmt "Sensor" "src/avtp/acf/Sensor.c" "Avtp_Sensor_t" 12
  "Avtp_Sensor_GetField" "Avtp_Sensor_SetField" "AVTP_SENSOR_FIELD_MAX"
  [
    F "AVTP_SENSOR_FIELD_ACF_MSG_TYPE"                 0  7 "Avtp_Sensor_GetAcfMsgType" "Avtp_Sensor_SetAcfMsgType";
    F "AVTP_SENSOR_FIELD_ACF_MSG_LENGTH"               7  9 "Avtp_Sensor_GetAcfMsgLength" "Avtp_Sensor_SetAcfMsgLength";
    F "AVTP_SENSOR_FIELD_MTV"                         16  1 "Avtp_Sensor_GetMtv" "Avtp_Sensor_SetMtv";
    F "AVTP_SENSOR_FIELD_NUM_SENSOR"                  17  7 "Avtp_Sensor_GetNumSensor" "Avtp_Sensor_SetNumSensor";
    F "AVTP_SENSOR_FIELD_SZ"                          24  2 "Avtp_Sensor_GetSz" "Avtp_Sensor_SetSz";
    F "AVTP_SENSOR_FIELD_SENSOR_GROUP"                26  6 "Avtp_Sensor_GetSensorGroup" "Avtp_Sensor_SetSensorGroup";
    F "AVTP_SENSOR_FIELD_MESSAGE_TIMESTAMP"           32 64 "Avtp_Sensor_GetMessageTimestamp" "Avtp_Sensor_SetMessageTimestamp" ]
  "Avtp_Sensor_Init" [("AVTP_SENSOR_FIELD_ACF_MSG_TYPE", 8)].

Definition spec_SensorBrief : sformat := mkfmt "SensorBrief" "src/avtp/acf/SensorBrief.c" "Avtp_SensorBrief_t" 4
  "Avtp_SensorBrief_GetField" "Avtp_SensorBrief_SetField" "AVTP_SENSOR_BRIEF_FIELD_MAX"
  [
    F "AVTP_SENSOR_BRIEF_FIELD_ACF_MSG_TYPE"           0  7 "Avtp_SensorBrief_GetAcfMsgType" "Avtp_SensorBrief_SetAcfMsgType";
    F "AVTP_SENSOR_BRIEF_FIELD_ACF_MSG_LENGTH"         7  9 "Avtp_SensorBrief_GetAcfMsgLength" "Avtp_SensorBrief_SetAcfMsgLength";
    F "AVTP_SENSOR_BRIEF_FIELD_MTV"                   16  1 "Avtp_SensorBrief_GetMtv" "Avtp_SensorBrief_SetMtv";
    F "AVTP_SENSOR_BRIEF_FIELD_NUM_SENSOR"            17  7 "Avtp_SensorBrief_GetNumSensor" "Avtp_SensorBrief_SetNumSensor";
    F "AVTP_SENSOR_BRIEF_FIELD_SZ"                    24  2 "Avtp_SensorBrief_GetSz" "Avtp_SensorBrief_SetSz";
    F "AVTP_SENSOR_BRIEF_FIELD_SENSOR_GROUP"          26  6 "Avtp_SensorBrief_GetSensorGroup" "Avtp_SensorBrief_SetSensorGroup" ]
  "Avtp_SensorBrief_Init" [("AVTP_SENSOR_BRIEF_FIELD_ACF_MSG_TYPE", 9)].

Definition spec_Tscf : sformat := mkfmt "Tscf" "src/avtp/acf/Tscf.c" "Avtp_Tscf_t" 24
  "Avtp_Tscf_GetField" "Avtp_Tscf_SetField" "AVTP_TSCF_FIELD_MAX"
  [
    F "AVTP_TSCF_FIELD_SUBTYPE"                        0  8 "Avtp_Tscf_GetSubtype" "Avtp_Tscf_SetSubtype";
    F "AVTP_TSCF_FIELD_SV"                             8  1 "Avtp_Tscf_GetSv" "Avtp_Tscf_SetSv";
    F "AVTP_TSCF_FIELD_VERSION"                        9  3 "Avtp_Tscf_GetVersion" "Avtp_Tscf_SetVersion";
    F "AVTP_TSCF_FIELD_MR"                            12  1 "Avtp_Tscf_GetMr" "Avtp_Tscf_SetMr";
    F "AVTP_TSCF_FIELD_TV"                            15  1 "Avtp_Tscf_GetTv" "Avtp_Tscf_SetTv";
    F "AVTP_TSCF_FIELD_SEQUENCE_NUM"                  16  8 "Avtp_Tscf_GetSequenceNum" "Avtp_Tscf_SetSequenceNum";
    F "AVTP_TSCF_FIELD_TU"                            31  1 "Avtp_Tscf_GetTu" "Avtp_Tscf_SetTu";
    F "AVTP_TSCF_FIELD_STREAM_ID"                     32 64 "Avtp_Tscf_GetStreamId" "Avtp_Tscf_SetStreamId";
    F "AVTP_TSCF_FIELD_AVTP_TIMESTAMP"                96 32 "Avtp_Tscf_GetAvtpTimestamp" "Avtp_Tscf_SetAvtpTimestamp";
    F "AVTP_TSCF_FIELD_STREAM_DATA_LENGTH"           160 16 "Avtp_Tscf_GetStreamDataLength" "Avtp_Tscf_SetStreamDataLength" ]
  "Avtp_Tscf_Init" [("AVTP_TSCF_FIELD_SUBTYPE", 5); ("AVTP_TSCF_FIELD_SV", 1)].

Definition spec_Vss : sformat := mkfmt "Vss" "src/avtp/acf/custom/Vss.c" "Avtp_Vss_t" 12
  "Avtp_Vss_GetField" "Avtp_Vss_SetField" "AVTP_VSS_FIELD_MAX"
  [
    F "AVTP_VSS_FIELD_ACF_MSG_TYPE"                    0  7 "Avtp_Vss_GetAcfMsgType" "Avtp_Vss_SetAcfMsgType";
    F "AVTP_VSS_FIELD_ACF_MSG_LENGTH"                  7  9 "Avtp_Vss_GetAcfMsgLength" "Avtp_Vss_SetAcfMsgLength";
    F "AVTP_VSS_FIELD_PAD"                            16  2 "Avtp_Vss_GetPad" "Avtp_Vss_SetPad";
    F "AVTP_VSS_FIELD_MTV"                            18  1 "Avtp_Vss_GetMtv" "Avtp_Vss_SetMtv";
    F "AVTP_VSS_FIELD_ADDR_MODE"                      19  2 "Avtp_Vss_GetAddrMode" "Avtp_Vss_SetAddrMode";
    F "AVTP_VSS_FIELD_VSS_OP"                         21  3 "Avtp_Vss_GetOpCode" "Avtp_Vss_SetOpCode";
    F "AVTP_VSS_FIELD_VSS_DATATYPE"                   24  8 "Avtp_Vss_GetDatatype" "Avtp_Vss_SetDatatype";
    F "AVTP_VSS_FIELD_MSG_TIMESTAMP"                  32 64 "Avtp_Vss_GetMsgTimestamp" "Avtp_Vss_SetMsgTimestamp" ]
  "Avtp_Vss_Init" [("AVTP_VSS_FIELD_ACF_MSG_TYPE", 66)].

Definition spec_VssBrief : sformat := mkfmt "VssBrief" "src/avtp/acf/custom/VssBrief.c" "Avtp_VssBrief_t" 4
  "Avtp_VssBrief_GetField" "Avtp_VssBrief_SetField" "AVTP_VSS_BRIEF_FIELD_MAX"
  [
    F "AVTP_VSS_BRIEF_FIELD_ACF_MSG_TYPE"              0  7 "" "";
    F "AVTP_VSS_BRIEF_FIELD_ACF_MSG_LENGTH"            7  9 "" "";
    F "AVTP_VSS_BRIEF_FIELD_PAD"                      16  2 "" "";
    F "AVTP_VSS_BRIEF_FIELD_MTV"                      18  1 "" "";
    F "AVTP_VSS_BRIEF_FIELD_ADDR_MODE"                19  2 "" "";
    F "AVTP_VSS_BRIEF_FIELD_VSS_OP"                   21  3 "" "";
    F "AVTP_VSS_BRIEF_FIELD_VSS_DATATYPE"             24  8 "" "";
    F "AVTP_VSS_BRIEF_FIELD_MSG_TIMESTAMP"             0  0 "" "";
    F "AVTP_VSS_FIELD_VSS_PATH"                        0  0 "" "";
    F "AVTP_VSS_FIELD_VSS_DATA"                        0  0 "" "" ]
  "Avtp_VssBrief_Init" [("AVTP_VSS_BRIEF_FIELD_ACF_MSG_TYPE", 67)].

Definition spec_Cvf : sformat := mkfmt "Cvf" "src/avtp/cvf/Cvf.c" "Avtp_Cvf_t" 24
  "Avtp_Cvf_GetField" "Avtp_Cvf_SetField" "AVTP_CVF_FIELD_MAX"
  [
    F "AVTP_CVF_FIELD_SUBTYPE"                         0  8 "Avtp_Cvf_GetSubtype" "Avtp_Cvf_SetSubtype";
    F "AVTP_CVF_FIELD_SV"                              8  1 "Avtp_Cvf_GetSv" "Avtp_Cvf_SetSv";
    F "AVTP_CVF_FIELD_VERSION"                         9  3 "Avtp_Cvf_GetVersion" "Avtp_Cvf_SetVersion";
    F "AVTP_CVF_FIELD_MR"                             12  1 "Avtp_Cvf_GetMr" "Avtp_Cvf_SetMr";
    F "AVTP_CVF_FIELD_RESERVED"                       13  2 "" "";
    F "AVTP_CVF_FIELD_TV"                             15  1 "Avtp_Cvf_GetTv" "Avtp_Cvf_SetTv";
    F "AVTP_CVF_FIELD_SEQUENCE_NUM"                   16  8 "Avtp_Cvf_GetSequenceNum" "Avtp_Cvf_SetSequenceNum";
    F "AVTP_CVF_FIELD_RESERVED_2"                     24  7 "" "";
    F "AVTP_CVF_FIELD_TU"                             31  1 "Avtp_Cvf_GetTu" "Avtp_Cvf_SetTu";
    F "AVTP_CVF_FIELD_STREAM_ID"                      32 64 "Avtp_Cvf_GetStreamId" "Avtp_Cvf_SetStreamId";
    F "AVTP_CVF_FIELD_AVTP_TIMESTAMP"                 96 32 "Avtp_Cvf_GetAvtpTimestamp" "Avtp_Cvf_SetAvtpTimestamp";
    F "AVTP_CVF_FIELD_FORMAT"                        128  8 "Avtp_Cvf_GetFormat" "Avtp_Cvf_SetFormat";
    F "AVTP_CVF_FIELD_FORMAT_SUBTYPE"                136  8 "Avtp_Cvf_GetFormatSubtype" "Avtp_Cvf_SetFormatSubtype";
    F "AVTP_CVF_FIELD_RESERVED_3"                    144 16 "" "";
    F "AVTP_CVF_FIELD_STREAM_DATA_LENGTH"            160 16 "Avtp_Cvf_GetStreamDataLength" "Avtp_Cvf_SetStreamDataLength";
    F "AVTP_CVF_FIELD_RESERVED_4"                    176  2 "" "";
    F "AVTP_CVF_FIELD_PTV"                           178  1 "Avtp_Cvf_GetPtv" "Avtp_Cvf_SetPtv";
    F "AVTP_CVF_FIELD_M"                             179  1 "Avtp_Cvf_GetM" "Avtp_Cvf_SetM";
    F "AVTP_CVF_FIELD_EVT"                           180  4 "Avtp_Cvf_GetEvt" "Avtp_Cvf_SetEvt";
    F "AVTP_CVF_FIELD_RESERVED_5"                    184  8 "" "" ]
  "Avtp_Cvf_Init" [("AVTP_CVF_FIELD_SUBTYPE", 3); ("AVTP_CVF_FIELD_SV", 1); ("AVTP_CVF_FIELD_FORMAT", 2)].

Definition spec_H264 : sformat := mkfmt "H264" "src/avtp/cvf/H264.c" "Avtp_H264_t" 4
  "Avtp_H264_GetField" "Avtp_H264_SetField" "AVTP_H264_FIELD_MAX"
  [
    F "AVTP_H264_FIELD_TIMESTAMP"                      0 32 "Avtp_H264_GetTimestamp" "Avtp_H264_SetTimestamp" ]
  "Avtp_H264_Init" [].

Definition spec_Jpeg2000 : sformat := mkfmt "Jpeg2000" "src/avtp/cvf/Jpeg2000.c" "Avtp_Jpeg2000_t" 8
  "Avtp_Jpeg2000_GetField" "Avtp_Jpeg2000_SetField" "AVTP_JPEG2000_FIELD_MAX"
  [
    F "AVTP_JPEG2000_FIELD_TP"                         0  2 "Avtp_Jpeg2000_GetTp" "Avtp_Jpeg2000_SetTp";
    F "AVTP_JPEG2000_FIELD_MHF"                        2  2 "Avtp_Jpeg2000_GetMhf" "Avtp_Jpeg2000_SetMhf";
    F "AVTP_JPEG2000_FIELD_MH_ID"                      4  3 "Avtp_Jpeg2000_GetMhId" "Avtp_Jpeg2000_SetMhId";
    F "AVTP_JPEG2000_FIELD_T"                          7  1 "Avtp_Jpeg2000_GetT" "Avtp_Jpeg2000_SetT";
    F "AVTP_JPEG2000_FIELD_PRIORITY"                   8  8 "Avtp_Jpeg2000_GetPriority" "Avtp_Jpeg2000_SetPriority";
    F "AVTP_JPEG2000_FIELD_TILE_NUMBER"               16 16 "Avtp_Jpeg2000_GetTileNumber" "Avtp_Jpeg2000_SetTileNumber";
    F "AVTP_JPEG2000_FIELD_RESERVED"                  32  8 "" "";
    F "AVTP_JPEG2000_FIELD_FRAGMENT_OFFSET"           40 24 "Avtp_Jpeg2000_GetFragmentOffset" "Avtp_Jpeg2000_SetFragmentOffset" ]
  "Avtp_Jpeg2000_Init" [].

Definition spec_Mjpeg : sformat := mkfmt "Mjpeg" "src/avtp/cvf/Mjpeg.c" "Avtp_Mjpeg_t" 8
  "Avtp_Mjpeg_GetField" "Avtp_Mjpeg_SetField" "AVTP_MJPEG_FIELD_MAX"
  [
    F "AVTP_MJPEG_FIELD_TYPE_SPECIFIC"                 0  8 "Avtp_Mjpeg_GetTypeSpecific" "Avtp_Mjpeg_SetTypeSpecific";
    F "AVTP_MJPEG_FIELD_FRAGMENT_OFFSET"               8 24 "Avtp_Mjpeg_GetFragmentOffset" "Avtp_Mjpeg_SetFragmentOffset";
    F "AVTP_MJPEG_FIELD_TYPE"                         32  8 "Avtp_Mjpeg_GetType" "Avtp_Mjpeg_SetType";
    F "AVTP_MJPEG_FIELD_Q"                            40  8 "Avtp_Mjpeg_GetQ" "Avtp_Mjpeg_SetQ";
    F "AVTP_MJPEG_FIELD_WIDTH"                        48  8 "Avtp_Mjpeg_GetWidth" "Avtp_Mjpeg_SetWidth";
    F "AVTP_MJPEG_FIELD_HEIGHT"                       56  8 "Avtp_Mjpeg_GetHeight" "Avtp_Mjpeg_SetHeight" ]
  "Avtp_Mjpeg_Init" [].

Definition all_specs : list sformat := [spec_CommonHeader; spec_Crf; spec_Rvf; spec_Udp; spec_Aaf; spec_Pcm; spec_AcfCommon; spec_Can; spec_CanBrief; spec_FlexRay; spec_Gpc; spec_Lin; spec_Most; spec_Ntscf; spec_Sensor; spec_SensorBrief; spec_Tscf; spec_Vss; spec_VssBrief; spec_Cvf; spec_H264; spec_Jpeg2000; spec_Mjpeg].

Fixpoint find_spec (ss:list sformat) (n:string) : option sformat :=
  match ss with
  | [] => None
  | s :: r => if String.eqb (sp_name s) n then Some s else find_spec r n
  end.
