(* Model of the shape-recognised library functions: by-identifier and
   dedicated getters/setters, initialisers.  The translator emits one record
   per function (which table, which field, which conversions the C compiler
   inserts); the functions below give those records their meaning in terms of
   the field model.  The records are data, so theorems can quantify over
   "every generated accessor". *)
From Coq Require Import List NArith Bool String.
From O1722 Require Import Bits FieldModel.
Import ListNotations.
Local Open Scope N_scope.

Record table := mktable {
  t_name : string;
  t_declared_len : N;              (* array length in the declaration *)
  t_rows : list desc;              (* rows as compiled *)
  t_enum : list (string * N)       (* enumerators of the indexing enum with their values *)
}.

Inductive argsrc :=
| AConst (name:string) (v:N)       (* constant; name is the enumerator, "" for a literal *)
| AParam (idx:nat) (pw:nat).       (* parameter idx of the enclosing function, pw bits wide *)
Record arg := mkarg {
  a_src : argsrc;
  a_casts : list nat;              (* unsigned integral conversions applied, in order *)
  a_signed : bool                  (* some signed type is involved: outside the model *)
}.

Record gcall := mkgcall {
  c_table : string;
  c_num : arg;
  c_pdu_ok : bool;                 (* the pdu argument is the function's first parameter *)
  c_field : arg
}.
Record getter := mkgetter { g_name : string; g_call : gcall; g_ret : nat; g_ret_signed : bool }.
Record setter := mksetter { s_name : string; s_call : gcall; s_value : arg }.

Inductive initop :=
| IMemset (v:N) (size:N)
| IRawSet (c:gcall) (value:arg)
| ICall (callee:string) (args:list arg).
Record init := mkinit { i_name : string; i_guarded : bool; i_ops : list initop }.

Record unit_model := mkunit {
  u_src : string;
  u_tables : list table;
  u_getters : list getter;
  u_setters : list setter;
  u_inits : list init
}.

(* layout facts measured by compiled probes *)
Record typeinfo := mktype {
  ty_name : string;                (* header type, e.g. Avtp_Can_t *)
  ty_src : string;                 (* library source whose TU was probed *)
  ty_sizeof : N;
  ty_payload_off : option N;       (* offsetof(T, payload) *)
  ty_len_macro : string;           (* macro used as the length of the header member, "" if not found *)
  ty_len_value : option N
}.

Definition apply_casts (v:N) (casts:list nat) : N :=
  fold_left (fun x w => x mod 2^(N.of_nat w)) casts v.
Definition arg_value (a:arg) (params:list N) : N :=
  apply_casts (match a_src a with
               | AConst _ v => v
               | AParam i pw => nth i params 0 mod 2^(N.of_nat pw)
               end) (a_casts a).

Fixpoint find_table (ts:list table) (n:string) : option table :=
  match ts with
  | [] => None
  | t :: r => if String.eqb (t_name t) n then Some t else find_table r n
  end.
Fixpoint find_setter (ss:list setter) (n:string) : option setter :=
  match ss with
  | [] => None
  | s :: r => if String.eqb (s_name s) n then Some s else find_setter r n
  end.
Fixpoint find_getter (gs:list getter) (n:string) : option getter :=
  match gs with
  | [] => None
  | g :: r => if String.eqb (g_name g) n then Some g else find_getter r n
  end.
Fixpoint find_init (is:list init) (n:string) : option init :=
  match is with
  | [] => None
  | i :: r => if String.eqb (i_name i) n then Some i else find_init r n
  end.
Fixpoint find_unit (us:list unit_model) (src:string) : option unit_model :=
  match us with
  | [] => None
  | u :: r => if String.eqb (u_src u) src then Some u else find_unit r src
  end.

(* what the call  Avtp_GetField/SetField(table, num, pdu, field)  designates *)
Inductive resolved :=
| RUnmodelled          (* outside the model (unknown table, signed types, table shorter than num) *)
| RSkip                (* field >= numFields: the call returns 0 / does nothing *)
| RDesc (d:desc).

(* widths of the numFields / field parameters of the generic function *)
Definition resolve_call (nw fw:nat) (ts:list table) (c:gcall) (params:list N) : resolved :=
  match find_table ts (c_table c) with
  | None => RUnmodelled
  | Some t =>
    if c_pdu_ok c && negb (a_signed (c_num c)) && negb (a_signed (c_field c)) then
      let num := arg_value (c_num c) params mod 2^(N.of_nat nw) in
      let fld := arg_value (c_field c) params mod 2^(N.of_nat fw) in
      if fld <? num then
        match nth_error (t_rows t) (N.to_nat fld) with
        | None => RUnmodelled
        | Some d => RDesc d
        end
      else RSkip
    else RUnmodelled
  end.

(* configuration read from src/avtp/Utils.c *)
Record utilcfg := mkcfg {
  qw_get : N; qw_set : N;          (* width of the quadlet-index variable in reader / writer *)
  fw_get : nat; fw_set : nat;      (* width of the 'field' parameter *)
  nw_get : nat; nw_set : nat       (* width of the 'numFields' parameter *)
}.

Section Run.
  Variable ldq : buf -> N -> N.
  Variable stq : buf -> N -> N -> buf.
  Variable cfg : utilcfg.

  (* params: values of the integer parameters, params[0] unused (the pdu) *)
  Definition run_gcall_get (ts:list table) (c:gcall) (pdu:option buf) (params:list N) : outcome N :=
    match resolve_call (nw_get cfg) (fw_get cfg) ts c params with
    | RUnmodelled => Unmodelled
    | RSkip => Ok 0
    | RDesc d => match pdu with None => Ok 0 | Some b => get_via ldq stq (qw_get cfg) d b end
    end.

  Definition run_getter (ts:list table) (g:getter) (pdu:option buf) (params:list N) : outcome N :=
    match run_gcall_get ts (g_call g) pdu params with
    | Ok v => if g_ret_signed g then Unmodelled else Ok (v mod 2^(N.of_nat (g_ret g)))
    | OOB q => OOB q
    | Unmodelled => Unmodelled
    end.

  (* a writer's effect: the new buffer contents; a null pdu stays null *)
  Definition run_gcall_set (ts:list table) (c:gcall) (value:arg) (pdu:option buf) (params:list N)
    : outcome (option buf) :=
    if a_signed value then Unmodelled else
    match resolve_call (nw_set cfg) (fw_set cfg) ts c params with
    | RUnmodelled => Unmodelled
    | RSkip => Ok pdu
    | RDesc d =>
        match pdu with
        | None => Ok None
        | Some b => match set_via ldq stq (qw_set cfg) d b (arg_value value params) with
                    | Ok b' => Ok (Some b') | OOB q => OOB q | Unmodelled => Unmodelled end
        end
    end.

  Definition run_setter (ts:list table) (s:setter) (pdu:option buf) (params:list N) : outcome (option buf) :=
    run_gcall_set ts (s_call s) (s_value s) pdu params.

  (* memset(pdu, v, size) *)
  Definition do_memset (b:buf) (v size:N) : outcome (option buf) :=
    if size <=? blen b then Ok (Some (upd b 0 (repeat (v mod 256) (N.to_nat size))))
    else OOB (blen b / 4).

  Definition run_initop (u:unit_model) (op:initop) (b:buf) (params:list N) : outcome (option buf) :=
    match op with
    | IMemset v size => do_memset b v size
    | IRawSet c value => run_gcall_set (u_tables u) c value (Some b) params
    | ICall callee args =>
        match find_setter (u_setters u) callee with
        | Some s => run_setter (u_tables u) s (Some b) (0 :: map (fun a => arg_value a params) args)
        | None => Unmodelled
        end
    end.

  Fixpoint run_initops (u:unit_model) (ops:list initop) (b:buf) (params:list N) : outcome (option buf) :=
    match ops with
    | [] => Ok (Some b)
    | op :: r =>
        match run_initop u op b params with
        | Ok (Some b') => run_initops u r b' params
        | Ok None => Unmodelled
        | OOB q => OOB q
        | Unmodelled => Unmodelled
        end
    end.

  Definition run_init (u:unit_model) (i:init) (pdu:option buf) : outcome (option buf) :=
    match pdu with
    | None => if i_guarded i then Ok None else Unmodelled
    | Some b => run_initops u (i_ops i) b [0]
    end.
End Run.
