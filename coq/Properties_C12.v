(* C12 - legacy and current APIs are interchangeable. *)
From Coq Require Import List NArith String Bool.
From O1722 Require Import Bits Host FieldModel Spec AccModel LegacyModel LegacySpec C13Proofs C01Proofs C12Proofs.
From O1722.Generated Require Import Tables.
Import ListNotations.
Local Open Scope N_scope.

(* for each of the five formats with a deprecated API (LegacySpec.legacy_api), both byte orders:
   - legacy get: on valid arguments returns 0 and stores exactly what the current by-identifier reader returns
     (complete value), for every buffer; otherwise -EINVAL and nothing is touched;
   - legacy set: behind its argument check it IS the current by-identifier writer, for every value of its value type;
   - legacy init: the current initialiser (CVF: followed by the dedicated setter of format_subtype), or - AAF-PCM -
     a memset + legacy-set chain that yields the canonical header of Spec.v for every prior buffer;
   - every legacy field name has the value of the current enumerator LegacySpec assigns to it. *)
Theorem C12_api : forall E a, In a legacy_api -> api_correct E a.
Proof. exact api_all. Qed.

(* every deprecated wrapper found in the sources is covered by the theorem above *)
Theorem C12_all_wrappers_covered :
  forallb (fun p => existsb (fun a => match find_spec all_specs (la_fmt a) with
                                      | Some s => String.eqb (sp_src s) (fst p) | None => false end) legacy_api)
          legacy_units = true.
Proof. exact legacy_units_known. Qed.

(* packed legacy structs (sizes and member offsets measured by compiled probes on every run): total size =
   size of the current header type = wire header length; trailing member at that offset; stream_id / avtp_time
   members at the byte offsets of the current fields *)
Theorem C12_layout : forallb layout_ok legacy_layouts = true /\
  forallb (fun st => existsb (fun l => existsb (String.eqb (fst (fst st))) (ls_tags l)) legacy_layouts) legacy_structs = true.
Proof. split; [exact all_layouts_ok | exact legacy_structs_known]. Qed.

Example C12_example :
  exists l, find_legacy (legacy_of legacy_units "src/avtp/aaf/Pcm.c") "avtp_aaf_pdu_init" = Some l /\
    run_legacy (ldqE BE) (stqE BE) cfg u_Pcm (legacy_of legacy_units "src/avtp/aaf/Pcm.c") l
      (Some (repeat 0xff 26)) [0] None =
    Ok (LOk, Some ([2; 0x80] ++ repeat 0 22 ++ [0xff; 0xff]), None).
Proof. eexists. split; [reflexivity|]. vm_compute. reflexivity. Qed.
