(* Format-level computable checks over the generated model and the reference
   layouts, with their soundness theorems.  Each [*_ok] function is evaluated
   by vm_compute on the regenerated data in the Properties files; its
   soundness lemma turns the boolean into a statement about every buffer and
   every value. *)
From Coq Require Import List NArith ZArith Bool Lia Arith String ZifyN ZifyNat ZifyBool.
From O1722 Require Import Sym Bits FieldModel FieldProofs Spec SpecProofs AccModel AccProofs.
Import ListNotations.
Local Open Scope N_scope.
Ltac Zify.zify_post_hook ::= Z.div_mod_to_equations.

Fixpoint assoc (l:list (string * N)) (k:string) : option N :=
  match l with
  | [] => None
  | (k', v) :: r => if String.eqb k' k then Some v else assoc r k
  end.
Definition is_some {A} (o:option A) : bool := match o with Some _ => true | None => false end.
Definition str_empty (s:string) : bool := String.eqb s EmptyString.

(* the unit implementing a format, with its single descriptor table *)
Definition fmt_unit (us:list unit_model) (s:sformat) : option (unit_model * table) :=
  match find_unit us (sp_src s) with
  | Some u => match u_tables u with [t] => Some (u, t) | _ => None end
  | None => None
  end.

Section Checks.
  Variable ldq : buf -> N -> N.
  Variable stq : buf -> N -> N -> buf.
  Hypothesis Hld : forall b q, ldq b q = ldq_be b q.
  Hypothesis Hst : forall b q v, stq b q v = stq_be b q v.
  Variable cfg : utilcfg.

  (* ================= C01: reads ================= *)
  Definition field_read_ok (u:unit_model) (t:table) (s:sformat) (f:sfield) : bool :=
    match assoc (t_enum t) (sf_name f) with
    | None => false
    | Some idx =>
      match find_getter (u_getters u) (sp_get_field s) with
      | None => false
      | Some g => getter_reads cfg (u_tables u) g [0; idx] (sf_first f) (sf_width f) (sp_hdr_len s)
      end &&
      (str_empty (sf_getter f) ||
       match find_getter (u_getters u) (sf_getter f) with
       | None => false
       | Some g => getter_reads cfg (u_tables u) g [0] (sf_first f) (sf_width f) (sp_hdr_len s)
       end)
    end.

  (* every enumerator except the sentinel designates a field of the reference layout,
     the sentinel's value is the number of rows and the declared length *)
  Definition enum_ok (t:table) (s:sformat) : bool :=
    forallb (fun e => String.eqb (fst e) (sp_sentinel s) || is_some (find_sfield (sp_fields s) (fst e))) (t_enum t) &&
    match assoc (t_enum t) (sp_sentinel s) with
    | Some n => (n =? N.of_nat (List.length (t_rows t))) && (n =? t_declared_len t)
    | None => false
    end.

  (* every generated getter of the unit is accounted for by the reference *)
  Definition getters_known (u:unit_model) (s:sformat) : bool :=
    forallb (fun g =>
      match a_src (c_field (g_call g)) with
      | AConst _ _ => existsb (fun f => String.eqb (sf_getter f) (g_name g)) (sp_fields s)
      | AParam _ _ => String.eqb (g_name g) (sp_get_field s)
      end) (u_getters u).

  Definition fmt_read_ok (us:list unit_model) (s:sformat) : bool :=
    match fmt_unit us s with
    | None => false
    | Some (u, t) => forallb (field_read_ok u t s) (sp_fields s) && enum_ok t s && getters_known u s
    end.

  Definition reads_field (u:unit_model) (name:string) (params:list N) (f:sfield) (hdr:N) : Prop :=
    exists g, find_getter (u_getters u) name = Some g /\
      forall b, hdr <= blen b ->
        run_getter ldq stq cfg (u_tables u) g (Some b) params = Ok (spec_extract b (sf_first f) (sf_width f)).

  Theorem fmt_read_ok_sound us s : fmt_read_ok us s = true ->
    exists u t, fmt_unit us s = Some (u, t) /\
      forall f, In f (sp_fields s) ->
        exists idx, assoc (t_enum t) (sf_name f) = Some idx /\
          reads_field u (sp_get_field s) [0; idx] f (sp_hdr_len s) /\
          (sf_getter f <> EmptyString -> reads_field u (sf_getter f) [0] f (sp_hdr_len s)).
  Proof.
    unfold fmt_read_ok. destruct (fmt_unit us s) as [[u t]|]; [|discriminate].
    intros H. exists u, t. split; [reflexivity|].
    apply andb_true_iff in H. destruct H as [H _]. apply andb_true_iff in H. destruct H as [H _].
    rewrite forallb_forall in H. intros f Hf. specialize (H f Hf). unfold field_read_ok in H.
    destruct (assoc (t_enum t) (sf_name f)) as [idx|]; [|discriminate].
    exists idx. split; [reflexivity|].
    apply andb_true_iff in H. destruct H as [H1 H2]. split.
    - destruct (find_getter (u_getters u) (sp_get_field s)) as [g|] eqn:Eg; [|discriminate].
      exists g. split; [exact Eg|]. intros b Hb.
      apply (getter_reads_sound ldq stq Hld Hst cfg _ _ _ _ _ _ H1 b Hb).
    - intros Hne. apply orb_true_iff in H2. destruct H2 as [H2|H2].
      + unfold str_empty in H2. apply String.eqb_eq in H2. contradiction.
      + destruct (find_getter (u_getters u) (sf_getter f)) as [g|] eqn:Eg; [|discriminate].
        exists g. split; [exact Eg|]. intros b Hb.
        apply (getter_reads_sound ldq stq Hld Hst cfg _ _ _ _ _ _ H2 b Hb).
  Qed.

  (* ================= C02: writes ================= *)
  Definition field_write_ok (u:unit_model) (t:table) (s:sformat) (f:sfield) : bool :=
    match assoc (t_enum t) (sf_name f) with
    | None => false
    | Some idx =>
      match find_setter (u_setters u) (sp_set_field s) with
      | None => false
      | Some st => setter_writes cfg (u_tables u) st [0; idx; 0] 2 (sf_first f) (sf_width f) (sp_hdr_len s) &&
                   arg_not_param2 (c_num (s_call st)) && arg_not_param2 (c_field (s_call st)) &&
                   (* the by-identifier writer takes the full 64-bit value *)
                   value_passes (s_value st) 2 64
      end &&
      (str_empty (sf_setter f) ||
       match find_setter (u_setters u) (sf_setter f) with
       | None => false
       | Some st => setter_writes cfg (u_tables u) st [0; 0] 1 (sf_first f) (sf_width f) (sp_hdr_len s) &&
                    match a_src (c_num (s_call st)), a_src (c_field (s_call st)) with
                    | AConst _ _, AConst _ _ => true
                    | _, _ => false
                    end
       end)
    end.
  Definition setters_known (u:unit_model) (s:sformat) : bool :=
    forallb (fun st =>
      match a_src (c_field (s_call st)) with
      | AConst _ _ => existsb (fun f => String.eqb (sf_setter f) (s_name st)) (sp_fields s)
      | AParam _ _ => String.eqb (s_name st) (sp_set_field s)
      end) (u_setters u).
  Definition fmt_write_ok (us:list unit_model) (s:sformat) : bool :=
    match fmt_unit us s with
    | None => false
    | Some (u, t) => forallb (field_write_ok u t s) (sp_fields s) && enum_ok t s && setters_known u s
    end.

  (* the named writer, called with [params_of v], replaces exactly field f by v mod 2^width *)
  Definition writes (u:unit_model) (name:string) (params_of:N -> list N) (f:sfield) (hdr:N) : Prop :=
    exists st, find_setter (u_setters u) name = Some st /\
      forall b v, hdr <= blen b ->
        exists b', run_setter ldq stq cfg (u_tables u) st (Some b) (params_of v) = Ok (Some b') /\
                   writes_field b b' (sf_first f) (sf_width f) hdr v.

  Lemma resolve_const_indep nw fw ts c p p' :
    (match a_src (c_num c), a_src (c_field c) with AConst _ _, AConst _ _ => true | _, _ => false end) = true ->
    resolve_call nw fw ts c p = resolve_call nw fw ts c p'.
  Proof.
    unfold resolve_call, arg_value. destruct (a_src (c_num c)); [|discriminate].
    destruct (a_src (c_field c)); [|discriminate]. reflexivity.
  Qed.

  Theorem fmt_write_ok_sound us s : fmt_write_ok us s = true ->
    exists u t, fmt_unit us s = Some (u, t) /\
      forall f, In f (sp_fields s) ->
        exists idx, assoc (t_enum t) (sf_name f) = Some idx /\
          writes u (sp_set_field s) (fun v => [0; idx; v]) f (sp_hdr_len s) /\
          (sf_setter f <> EmptyString -> writes u (sf_setter f) (fun v => [0; v]) f (sp_hdr_len s)).
  Proof.
    unfold fmt_write_ok. destruct (fmt_unit us s) as [[u t]|]; [|discriminate].
    intros H. exists u, t. split; [reflexivity|].
    apply andb_true_iff in H. destruct H as [H _]. apply andb_true_iff in H. destruct H as [H _].
    rewrite forallb_forall in H. intros f Hf. specialize (H f Hf). unfold field_write_ok in H.
    destruct (assoc (t_enum t) (sf_name f)) as [idx|]; [|discriminate].
    exists idx. split; [reflexivity|].
    apply andb_true_iff in H. destruct H as [H1 H2]. split.
    - destruct (find_setter (u_setters u) (sp_set_field s)) as [st|] eqn:Es; [|discriminate].
      exists st. split; [exact Es|]. intros b v Hb.
      apply andb_true_iff in H1. destruct H1 as [H1 H1d]. apply andb_true_iff in H1. destruct H1 as [H1 H1c].
      apply andb_true_iff in H1. destruct H1 as [H1a H1b].
      assert (Hsw : setter_writes cfg (u_tables u) st [0; idx; v] 2 (sf_first f) (sf_width f) (sp_hdr_len s) = true).
      { unfold setter_writes in *. rewrite (resolve_call_indep _ _ _ _ 0 idx v 0 H1b H1c). exact H1a. }
      destruct (setter_writes_sound ldq stq Hld Hst cfg _ _ _ _ _ _ _ Hsw b Hb) as [b' [Hr Hw]].
      exists b'. split; [exact Hr|exact Hw].
    - intros Hne. apply orb_true_iff in H2. destruct H2 as [H2|H2].
      + unfold str_empty in H2. apply String.eqb_eq in H2. contradiction.
      + destruct (find_setter (u_setters u) (sf_setter f)) as [st|] eqn:Es; [|discriminate].
        exists st. split; [exact Es|]. intros b v Hb.
        apply andb_true_iff in H2. destruct H2 as [H2a H2b].
        assert (Hsw : setter_writes cfg (u_tables u) st [0; v] 1 (sf_first f) (sf_width f) (sp_hdr_len s) = true).
        { unfold setter_writes in *. rewrite (resolve_const_indep _ _ _ _ [0; v] [0; 0] H2b). exact H2a. }
        destruct (setter_writes_sound ldq stq Hld Hst cfg _ _ _ _ _ _ _ Hsw b Hb) as [b' [Hr Hw]].
        exists b'. split; [exact Hr|exact Hw].
  Qed.

  (* ================= C03: sizes ================= *)
  Fixpoint find_type (ts:list typeinfo) (name src:string) : option typeinfo :=
    match ts with
    | [] => None
    | t :: r => if String.eqb (ty_name t) name && String.eqb (ty_src t) src then Some t else find_type r name src
    end.
  Definition opt_is (o:option N) (n:N) : bool := match o with Some x => x =? n | None => false end.
  Definition sizes_ok (types:list typeinfo) (s:sformat) : bool :=
    match find_type types (sp_type s) (sp_src s) with
    | Some t => (ty_sizeof t =? sp_hdr_len s) && opt_is (ty_payload_off t) (sp_hdr_len s) &&
                opt_is (ty_len_value t) (sp_hdr_len s) && (sp_hdr_len s mod 4 =? 0)
    | None => false
    end.

  (* ================= C04: initialisers ================= *)
  (* effect of one step after the memset: (first bit, width, value) of the field it writes *)
  Definition op_effect (u:unit_model) (hdr:N) (op:initop) : option (N * N * N) :=
    match op with
    | ICall callee args =>
        match find_setter (u_setters u) callee with
        | Some st =>
            let params := 0 :: map (fun a => arg_value a [0]) args in
            let vidx := List.length args in
            match resolve_call (nw_set cfg) (fw_set cfg) (u_tables u) (s_call st) params with
            | RDesc d =>
                if setter_writes cfg (u_tables u) st params vidx (dfirst d) (dbits d) hdr
                then Some (dfirst d, dbits d, nth vidx params 0) else None
            | _ => None
            end
        | None => None
        end
    | _ => None
    end.
  Fixpoint track (u:unit_model) (hdr:N) (ops:list initop) (c:buf) : option buf :=
    match ops with
    | [] => Some c
    | op :: r => match op_effect u hdr op with
                 | Some (f, w, v) => track u hdr r (spec_insert c f w v)
                 | None => None
                 end
    end.
  Definition init_image (u:unit_model) (i:init) (hdr:N) : option buf :=
    match i_ops i with
    | IMemset v size :: rest =>
        if (v =? 0) && (size =? hdr) && i_guarded i then track u hdr rest (repeat 0 (N.to_nat hdr)) else None
    | _ => None
    end.
  Definition init_ok (us:list unit_model) (s:sformat) : bool :=
    str_empty (sp_init s) ||
    match fmt_unit us s with
    | Some (u, _) =>
        match find_init (u_inits u) (sp_init s) with
        | Some i => match init_image u i (sp_hdr_len s), canonical_header s with
                    | Some c, Some h => list_eqb c h
                    | _, _ => false
                    end
        | None => false
        end
    | None => false
    end.

  (* b agrees with the image c on the header bits and with old on everything after the header *)
  Definition agrees (b c old:buf) (hdr:N) : Prop :=
    List.length b = List.length old /\
    (forall i, i / 8 < hdr -> bit_at b i = bit_at c i) /\
    (forall j, hdr <= j -> nthN b j = nthN old j).

  Lemma op_effect_sound u hdr op f w v : op_effect u hdr op = Some (f, w, v) ->
    forall b, hdr <= blen b ->
      exists b', run_initop ldq stq cfg u op b [0] = Ok (Some b') /\ writes_field b b' f w hdr v.
  Proof.
    unfold op_effect. destruct op as [| |callee args]; try discriminate.
    destruct (find_setter (u_setters u) callee) as [st|] eqn:Es; [|discriminate].
    cbv zeta.
    destruct (resolve_call _ _ _ (s_call st) _) as [| |d] eqn:Er; try discriminate.
    destruct (setter_writes _ _ _ _ _ _ _ _) eqn:Ew; [|discriminate].
    intros H b Hb. inversion H; subst; clear H.
    cbn [run_initop]. rewrite Es.
    apply (setter_writes_sound ldq stq Hld Hst cfg _ _ _ _ _ _ _ Ew b Hb).
  Qed.

  Lemma track_sound u hdr old : forall ops c c' b,
    track u hdr ops c = Some c' -> blen c = hdr -> hdr <= blen old -> agrees b c old hdr ->
    exists b', run_initops ldq stq cfg u ops b [0] = Ok (Some b') /\ agrees b' c' old hdr.
  Proof.
    induction ops as [|op r IH]; intros c c' b Ht Hc Hold Hag; cbn [track run_initops] in *.
    - inversion Ht; subst. exists b. split; [reflexivity|exact Hag].
    - destruct (op_effect u hdr op) as [[[f w] v]|] eqn:Eo; [|discriminate].
      destruct Hag as [HL [Hbits Htail]].
      assert (Hb : hdr <= blen b) by (unfold blen in *; rewrite HL; exact Hold).
      destruct (op_effect_sound u hdr op f w v Eo b Hb) as [b1 [Hr [HL1 [Hb1 Ht1]]]].
      rewrite Hr.
      apply (IH (spec_insert c f w v) c' b1 Ht).
      + unfold blen. rewrite length_spec_insert. exact Hc.
      + exact Hold.
      + split; [rewrite HL1; exact HL|]. split.
        * intros i Hi. rewrite Hb1, !bit_at_spec_insert.
          replace (i / 8 <? blen b) with true by (symmetry; apply N.ltb_lt; lia).
          replace (i / 8 <? blen c) with true by (symmetry; apply N.ltb_lt; lia).
          rewrite (Hbits i Hi). reflexivity.
        * intros j Hj. rewrite (Ht1 j Hj). apply Htail. exact Hj.
  Qed.

  Lemma nthN_repeat0 n j : nthN (repeat 0 n) j = 0.
  Proof. unfold nthN. apply nth_repeat. Qed.

  Theorem init_image_sound u i hdr c : init_image u i hdr = Some c ->
    run_init ldq stq cfg u i None = Ok None /\
    forall old, hdr <= blen old ->
      exists b', run_init ldq stq cfg u i (Some old) = Ok (Some b') /\ agrees b' c old hdr.
  Proof.
    unfold init_image, run_init. destruct (i_ops i) as [|[v size| |] rest]; try discriminate.
    destruct ((v =? 0) && (size =? hdr) && i_guarded i) eqn:E; [|discriminate].
    apply andb_true_iff in E. destruct E as [E Hg]. apply andb_true_iff in E. destruct E as [Ev Es].
    apply N.eqb_eq in Ev, Es. subst v size. rewrite Hg. intros Ht. split; [reflexivity|].
    intros old Hold. cbn [run_initops run_initop]. unfold do_memset.
    replace (hdr <=? blen old) with true by (symmetry; apply N.leb_le; exact Hold).
    rewrite N.mod_0_l by lia.
    apply (track_sound u hdr old rest (repeat 0 (N.to_nat hdr)) c _ Ht).
    - unfold blen. rewrite repeat_length. lia.
    - exact Hold.
    - assert (Hlen : 0 + N.of_nat (List.length (repeat 0 (N.to_nat hdr))) <= blen old) by (rewrite repeat_length; lia).
      split; [apply length_upd|]. split.
      + intros k Hk. unfold bit_at, byte_at. rewrite nthN_upd by exact Hlen.
        rewrite repeat_length.
        replace ((0 <=? k / 8) && (k / 8 <? 0 + N.of_nat (N.to_nat hdr))) with true
          by (symmetry; apply andb_true_iff; split; [apply N.leb_le|apply N.ltb_lt]; lia).
        rewrite !nthN_repeat0. reflexivity.
      + intros j Hj. rewrite nthN_upd by exact Hlen. rewrite repeat_length.
        replace ((0 <=? j) && (j <? 0 + N.of_nat (N.to_nat hdr))) with false; [reflexivity|].
        symmetry. apply andb_false_iff. right. apply N.ltb_ge. lia.
  Qed.
End Checks.
