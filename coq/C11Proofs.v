(* C11: null PDUs and out-of-range field identifiers are rejected without side effects
   (current API).  The deprecated entry points are in C12Proofs.v. *)
From Coq Require Import List NArith ZArith Bool Lia Arith String ZifyN ZifyNat ZifyBool.
From O1722 Require Import Sym Bits Host FieldModel Spec SpecProofs AccModel AccProofs FormatChecks LegacyProofs C13Proofs C01Proofs.
From O1722.Generated Require Import Tables.
Import ListNotations.
Local Open Scope N_scope.

(* a call of the generic reader/writer that resolves for EVERY value of the parameters:
   numFields is a constant, not larger than the table *)
Definition call_total (nw:nat) (ts:list table) (c:gcall) : bool :=
  match find_table ts (c_table c), a_src (c_num c) with
  | Some t, AConst _ _ =>
      c_pdu_ok c && negb (a_signed (c_num c)) && negb (a_signed (c_field c)) &&
      (arg_value (c_num c) [] mod 2 ^ N.of_nat nw <=? N.of_nat (List.length (t_rows t)))
  | _, _ => false
  end.
Lemma call_total_sound nw fw ts c params : call_total nw ts c = true ->
  resolve_call nw fw ts c params <> RUnmodelled.
Proof.
  unfold call_total, resolve_call. destruct (find_table ts (c_table c)) as [t|]; [|discriminate].
  destruct (a_src (c_num c)) as [nm nv|] eqn:En; [|discriminate]. intros H.
  apply andb_true_iff in H. destruct H as [H Hlen]. apply andb_true_iff in H. destruct H as [H Hs2].
  apply andb_true_iff in H. destruct H as [Hp Hs1]. rewrite Hp, Hs1, Hs2. cbn [andb].
  assert (Hnum : arg_value (c_num c) params = arg_value (c_num c) []) by (unfold arg_value; rewrite En; reflexivity).
  rewrite Hnum. apply N.leb_le in Hlen.
  destruct (N.ltb_spec (arg_value (c_field c) params mod 2 ^ N.of_nat fw) (arg_value (c_num c) [] mod 2 ^ N.of_nat nw)) as [Hlt|Hge];
    [|discriminate].
  destruct (nth_error (t_rows t) (N.to_nat (arg_value (c_field c) params mod 2 ^ N.of_nat fw))) eqn:E; [discriminate|].
  apply nth_error_None in E. lia.
Qed.

Section Null.
  Variable E : endian.
  Definition getter_total (u:unit_model) (g:getter) : bool := call_total (nw_get cfg) (u_tables u) (g_call g) && negb (g_ret_signed g).
  Definition setter_total (u:unit_model) (s:setter) : bool := call_total (nw_set cfg) (u_tables u) (s_call s) && negb (a_signed (s_value s)).

  Lemma all_total : forallb (fun u => forallb (getter_total u) (u_getters u) && forallb (setter_total u) (u_setters u) &&
                                      forallb i_guarded (u_inits u)) all_units = true.
  Proof. vm_compute. reflexivity. Qed.

  Lemma null_reads u g params : In u all_units -> In g (u_getters u) ->
    run_getter (ldqE E) (stqE E) cfg (u_tables u) g None params = Ok 0.
  Proof.
    intros Hu Hg. pose proof all_total as H. rewrite forallb_forall in H. specialize (H u Hu).
    apply andb_true_iff in H. destruct H as [H _]. apply andb_true_iff in H. destruct H as [H _].
    rewrite forallb_forall in H. specialize (H g Hg). unfold getter_total in H. apply andb_true_iff in H. destruct H as [Ht Hs].
    apply (getter_null_sound _ _ (ldqE_wire E) (stqE_wire E)). unfold getter_resolves.
    pose proof (call_total_sound _ (fw_get cfg) _ _ params Ht) as Hr.
    destruct (resolve_call (nw_get cfg) (fw_get cfg) (u_tables u) (g_call g) params); [contradiction|exact Hs|exact Hs].
  Qed.
  Lemma null_writes u s params : In u all_units -> In s (u_setters u) ->
    run_setter (ldqE E) (stqE E) cfg (u_tables u) s None params = Ok None.
  Proof.
    intros Hu Hs. pose proof all_total as H. rewrite forallb_forall in H. specialize (H u Hu).
    apply andb_true_iff in H. destruct H as [H _]. apply andb_true_iff in H. destruct H as [_ H].
    rewrite forallb_forall in H. specialize (H s Hs). unfold setter_total in H. apply andb_true_iff in H. destruct H as [Ht Hsg].
    apply setter_null_sound. unfold setter_resolves. rewrite Hsg. cbn [andb].
    pose proof (call_total_sound _ (fw_set cfg) _ _ params Ht) as Hr.
    destruct (resolve_call (nw_set cfg) (fw_set cfg) (u_tables u) (s_call s) params); [contradiction|reflexivity|reflexivity].
  Qed.
  Lemma null_inits u i : In u all_units -> In i (u_inits u) ->
    run_init (ldqE E) (stqE E) cfg u i None = Ok None.
  Proof.
    intros Hu Hi. pose proof all_total as H. rewrite forallb_forall in H. specialize (H u Hu).
    apply andb_true_iff in H. destruct H as [_ H]. rewrite forallb_forall in H. specialize (H i Hi).
    unfold run_init. rewrite H. reflexivity.
  Qed.

  (* ---- identifiers outside the enumeration ---- *)
  (* the by-identifier accessor passes its 32-bit field parameter to the bound check unchanged, and the
     bound is the number of enumerators *)
  Definition byid_guard (nw fw:nat) (u:unit_model) (t:table) (s:sformat) (c:gcall) : bool :=
    call_total nw (u_tables u) c && String.eqb (c_table c) (t_name t) &&
    arg_wide (c_field c) 1 32 && (32 <=? N.of_nat fw) &&
    match assoc (t_enum t) (sp_sentinel s) with
    | Some n => (arg_value (c_num c) [] mod 2 ^ N.of_nat nw =? n) && (n <? 2 ^ 32)
    | None => false
    end.
  Definition fmt_guard_ok (s:sformat) : bool :=
    match fmt_unit all_units s with
    | Some (u, t) =>
        match find_getter (u_getters u) (sp_get_field s), find_setter (u_setters u) (sp_set_field s) with
        | Some g, Some st => byid_guard (nw_get cfg) (fw_get cfg) u t s (g_call g) && negb (g_ret_signed g) &&
                             byid_guard (nw_set cfg) (fw_set cfg) u t s (s_call st) && negb (a_signed (s_value st))
        | _, _ => false
        end
    | None => false
    end.
  Lemma all_guard_ok : forallb fmt_guard_ok all_specs = true.
  Proof. vm_compute. reflexivity. Qed.

  Lemma byid_skip nw fw u t s c n params : byid_guard nw fw u t s c = true ->
    assoc (t_enum t) (sp_sentinel s) = Some n -> n <= nth 1 params 0 < 2 ^ 32 ->
    resolve_call nw fw (u_tables u) c params = RSkip.
  Proof.
    unfold byid_guard. intros H Hn [Hge Hlt]. rewrite Hn in H.
    apply andb_true_iff in H. destruct H as [H Hnum]. apply andb_true_iff in H. destruct H as [H Hfw].
    apply andb_true_iff in H. destruct H as [H Ha]. apply andb_true_iff in H. destruct H as [Ht _].
    apply andb_true_iff in Hnum. destruct Hnum as [Hnum _]. apply N.eqb_eq in Hnum. apply N.leb_le in Hfw.
    pose proof (call_total_sound nw fw _ _ params Ht) as Hr.
    unfold call_total in Ht. unfold resolve_call in *.
    destruct (find_table (u_tables u) (c_table c)) as [t'|]; [|discriminate].
    destruct (a_src (c_num c)) as [nm nv|] eqn:En; [|discriminate].
    apply andb_true_iff in Ht. destruct Ht as [Ht _]. rewrite Ht in *.
    assert (Hnv : arg_value (c_num c) params = arg_value (c_num c) []) by (unfold arg_value; rewrite En; reflexivity).
    rewrite Hnv, Hnum in *. rewrite (arg_wide_value _ 1 32 params Ha Hlt) in *.
    rewrite N.mod_small in * by (apply N.lt_le_trans with (2 ^ 32); [exact Hlt|apply N.pow_le_mono_r; lia]).
    replace (nth 1 params 0 <? n) with false by (symmetry; apply N.ltb_ge; exact Hge). reflexivity.
  Qed.

  Definition rejects_unknown (s:sformat) : Prop :=
    exists u t g st n, fmt_unit all_units s = Some (u, t) /\
      find_getter (u_getters u) (sp_get_field s) = Some g /\ find_setter (u_setters u) (sp_set_field s) = Some st /\
      assoc (t_enum t) (sp_sentinel s) = Some n /\
      forall f, n <= f < 2 ^ 32 -> forall pdu v,
        run_getter (ldqE E) (stqE E) cfg (u_tables u) g pdu [0; f] = Ok 0 /\
        run_setter (ldqE E) (stqE E) cfg (u_tables u) st pdu [0; f; v] = Ok pdu.
  Lemma unknown_fields s : In s all_specs -> rejects_unknown s.
  Proof.
    intros Hs. pose proof all_guard_ok as H. rewrite forallb_forall in H. specialize (H s Hs).
    unfold fmt_guard_ok in H. destruct (fmt_unit all_units s) as [[u t]|] eqn:Eu; [|discriminate].
    destruct (find_getter (u_getters u) (sp_get_field s)) as [g|] eqn:Eg; [|discriminate].
    destruct (find_setter (u_setters u) (sp_set_field s)) as [st|] eqn:Es; [|discriminate].
    apply andb_true_iff in H. destruct H as [H Hvs]. apply andb_true_iff in H. destruct H as [H Hgs].
    apply andb_true_iff in H. destruct H as [Hgg Hrs].
    assert (Hn : exists n, assoc (t_enum t) (sp_sentinel s) = Some n).
    { unfold byid_guard in Hgg. destruct (assoc (t_enum t) (sp_sentinel s)) as [n|]; [eauto|].
      rewrite andb_false_r in Hgg. discriminate. }
    destruct Hn as [n Hn]. exists u, t, g, st, n. repeat (split; [reflexivity || assumption|]).
    intros f Hf pdu v. split.
    - apply (getter_skips_sound _ _ (ldqE_wire E) (stqE_wire E)). unfold getter_skips.
      rewrite (byid_skip _ _ u t s _ n [0; f] Hgg Hn) by (cbn [nth]; exact Hf). exact Hrs.
    - apply setter_skips_sound. unfold setter_skips. rewrite Hvs. cbn [andb].
      rewrite (byid_skip _ _ u t s _ n [0; f; v] Hgs Hn) by (cbn [nth]; exact Hf). reflexivity.
  Qed.
End Null.
