(* C13 - byte-order helpers convert correctly for every value.
   Subject: the 15 helper terms generated from include/avtp/Byteorder.h, once per
   branch of the host-endianness switch.  [fits w x] is x < 2^16 / 2^32 / 2^64. *)
From Coq Require Import List NArith.
From O1722 Require Import Bits CExpr Host C13Proofs.
From O1722.Generated Require Import Byteorder.
Local Open Scope N_scope.

(* the swap primitives reverse the bytes ... *)
Theorem C13_swap_reverses : forall E w x, fits w x ->
  run (helpers_of E) KBswap w x = be_of (le_bytes (wbytes w) x).
Proof. exact swap_reverses. Qed.
(* ... and are involutions *)
Theorem C13_swap_involution : forall E w x, fits w x ->
  run (helpers_of E) KBswap w (run (helpers_of E) KBswap w x) = x.
Proof. exact swap_involution. Qed.
(* host-to-big-endian: the object's memory image is the big-endian byte sequence *)
Theorem C13_image_be : forall E w x, fits w x ->
  host_bytes E (wbytes w) (run (helpers_of E) KCpuToBe w x) = be_bytes (wbytes w) x.
Proof. exact image_be. Qed.
Theorem C13_image_le : forall E w x, fits w x ->
  host_bytes E (wbytes w) (run (helpers_of E) KCpuToLe w x) = le_bytes (wbytes w) x.
Proof. exact image_le. Qed.
(* the to-host helpers read a memory image back and invert the from-host helpers *)
Theorem C13_value_be : forall E w bs, length bs = wbytes w -> normal bs ->
  run (helpers_of E) KBeToCpu w (host_of E bs) = be_of bs.
Proof. exact value_be. Qed.
Theorem C13_value_le : forall E w bs, length bs = wbytes w -> normal bs ->
  run (helpers_of E) KLeToCpu w (host_of E bs) = le_of bs.
Proof. exact value_le. Qed.
Theorem C13_roundtrip_be : forall E w x, fits w x ->
  run (helpers_of E) KBeToCpu w (run (helpers_of E) KCpuToBe w x) = x.
Proof. exact roundtrip_be. Qed.
Theorem C13_roundtrip_le : forall E w x, fits w x ->
  run (helpers_of E) KLeToCpu w (run (helpers_of E) KCpuToLe w x) = x.
Proof. exact roundtrip_le. Qed.
(* the two helper sets are mirror images *)
Theorem C13_mirror : forall w x, fits w x ->
  run helpers_LE KCpuToBe w x = run helpers_BE KCpuToLe w x /\
  run helpers_LE KBeToCpu w x = run helpers_BE KLeToCpu w x /\
  run helpers_LE KCpuToLe w x = run helpers_BE KCpuToBe w x /\
  run helpers_LE KLeToCpu w x = run helpers_BE KBeToCpu w x /\
  run helpers_LE KBswap w x = run helpers_BE KBswap w x /\
  run helpers_LE KCpuToLe w x = x /\
  run helpers_LE KCpuToBe w x = run helpers_LE KBswap w x.
Proof. exact mirror. Qed.

(* non-vacuity: a concrete 64-bit value *)
Example C13_example :
  run helpers_LE KCpuToBe W64 0x1122334455667788 = 0x8877665544332211 /\
  run helpers_BE KCpuToBe W64 0x1122334455667788 = 0x1122334455667788 /\
  host_bytes LE 8 (run helpers_LE KCpuToBe W64 0x1122334455667788) = (0x11 :: 0x22 :: 0x33 :: 0x44 :: 0x55 :: 0x66 :: 0x77 :: 0x88 :: nil).
Proof. vm_compute. repeat split. Qed.

Print Assumptions C13_swap_reverses.
Print Assumptions C13_swap_involution.
Print Assumptions C13_image_be.
Print Assumptions C13_image_le.
Print Assumptions C13_value_be.
Print Assumptions C13_value_le.
Print Assumptions C13_roundtrip_be.
Print Assumptions C13_roundtrip_le.
Print Assumptions C13_mirror.
