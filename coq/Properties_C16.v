(* C16 - library calls are re-entrant: no shared mutable state. *)
From Coq Require Import List NArith Bool String Permutation.
From O1722 Require Import Concurrency.
From O1722.Generated Require Import Align.
Import ListNotations.
Local Open Scope string_scope.

(* regenerated from the clang AST of every library source on each run: *)
(* every object with static storage duration defined in the sources (file scope or function-local static) is
   const-qualified at every level - the field descriptor tables and nothing else *)
Theorem C16_static_storage : forallb (fun o => snd (fst o)) static_objects = true.
Proof. vm_compute. reflexivity. Qed.
(* the only functions called that are not defined in the library sources / public headers are memcpy and memset *)
Theorem C16_external_callees : forallb (fun c => existsb (String.eqb c) ["memcpy"; "memset"]) external_callees = true.
Proof. vm_compute. reflexivity. Qed.

(* Calls that touch only the object they are given (a writer replaces the content of its target, a reader only looks),
   pairwise free of conflicts (two calls conflict when they have the same target and at least one writes - the C11
   notion of a data race, at object granularity): executed in ANY order they end in the same memory, and every call
   returns what it returns when run alone on the initial memory.  Generic in the object and result types; the
   operations of C01-C12 are instances (each model function maps the buffer it is given to a buffer and a result). *)
Theorem C16_order_irrelevant : forall (obj res:Type) (ops ops':list (op obj res)) (m0:mem obj),
  Permutation ops ops' -> race_free obj res ops ->
  (forall j, fst (run obj res m0 ops) j = fst (run obj res m0 ops') j) /\
  snd (run obj res m0 ops) = map (alone obj res m0) ops /\ snd (run obj res m0 ops') = map (alone obj res m0) ops'.
Proof. exact order_irrelevant. Qed.

(* non-vacuity: two writers on distinct objects and two readers sharing a third are race-free *)
Example C16_example :
  race_free nat nat [Wr nat nat 0 (fun x => (x + 1, x)); Wr nat nat 1 (fun x => (x * 2, x)); Rd nat nat 2 (fun x => x); Rd nat nat 2 (fun x => x + 5)].
Proof.
  cbn. unfold conflict. cbn. repeat split; repeat constructor; intros [H1 H2]; try discriminate; destruct H2; discriminate.
Qed.
