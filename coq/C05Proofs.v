(* C05: any history of initialisations and field writes, through any entry point, refines the
   record semantics of RecordTheory.v. *)
From Coq Require Import List NArith ZArith Bool Lia Arith String ZifyN ZifyNat ZifyBool.
From O1722 Require Import Sym Bits Host FieldModel FieldProofs Spec SpecProofs RecordTheory AccModel AccProofs FormatChecks
  LegacyModel LegacySpec LegacyProofs NormalProofs Paths C13Proofs C01Proofs C17Proofs C11Proofs C12Proofs.
From O1722.Generated Require Import Tables.
Import ListNotations.
Local Open Scope N_scope.

Notation normal := SpecProofs.normal.

(* a write characterised by [writes_field] on normal buffers IS the reference insert *)
Lemma writes_exact b b' first w hdr v : writes_field b b' first w hdr v -> normal b' ->
  b' = spec_insert b first w v.
Proof.
  intros [HL [Hbits _]] Hn. apply normal_bits_ext; [exact Hn|apply normal_spec_insert|rewrite length_spec_insert; exact HL|exact Hbits].
Qed.
(* an initialisation characterised by [agrees] on normal buffers IS "canonical header ++ old tail" *)
Lemma agrees_exact b' h old hdr : agrees b' h old hdr -> blen h = hdr -> hdr <= blen old ->
  normal b' -> normal h -> normal old -> b' = h ++ skipn (N.to_nat hdr) old.
Proof.
  intros [HL [Hbits Htail]] Hh Hold Hn' Hnh Hno.
  assert (Hnr : normal (h ++ skipn (N.to_nat hdr) old)).
  { unfold normal in *. apply Forall_app. split; [exact Hnh|]. apply Forall_forall. intros x Hx. apply In_skipn in Hx.
    rewrite Forall_forall in Hno. auto. }
  apply normal_bits_ext; [exact Hn'|exact Hnr| |].
  - rewrite app_length, skipn_length. unfold blen in *. lia.
  - intros i. destruct (N.lt_ge_cases (i / 8) hdr) as [Hi|Hi].
    + rewrite Hbits by exact Hi. unfold bit_at, byte_at, nthN. rewrite app_nth1 by (unfold blen in Hh; lia). reflexivity.
    + unfold bit_at, byte_at. rewrite Htail by exact Hi. unfold nthN.
      rewrite app_nth2 by (unfold blen in Hh; lia). rewrite Sym.nth_skipn.
      replace (N.to_nat hdr + (N.to_nat (i / 8) - List.length h))%nat with (N.to_nat (i / 8)) by (unfold blen in Hh; lia).
      reflexivity.
Qed.

(* ---------- layout facts of every reference format (computation on Spec.v) ---------- *)
Definition sfield_eqb (f g:sfield) : bool :=
  String.eqb (sf_name f) (sf_name g) && (sf_first f =? sf_first g) && (sf_width f =? sf_width g) &&
  String.eqb (sf_getter f) (sf_getter g) && String.eqb (sf_setter f) (sf_setter g).
Lemma sfield_eqb_eq f g : sfield_eqb f g = true -> f = g.
Proof.
  destruct f, g. unfold sfield_eqb. cbn. intros H.
  repeat (apply andb_true_iff in H; destruct H as [H ?]).
  repeat match goal with H : String.eqb _ _ = true |- _ => apply String.eqb_eq in H | H : (_ =? _) = true |- _ => apply N.eqb_eq in H end.
  subst. reflexivity.
Qed.
Definition layout_facts (s:sformat) : bool :=
  forallb (fun f => match find_sfield (sp_fields s) (sf_name f) with Some g => sfield_eqb g f | None => false end) (sp_fields s) &&
  forallb (fun f => forallb (fun g => sfield_eqb f g || disj (sf_first f) (sf_width f) (sf_first g) (sf_width g)) (sp_fields s)) (sp_fields s) &&
  forallb (fun f => sf_first f + sf_width f <=? 8 * sp_hdr_len s) (sp_fields s) &&
  match canonical_header s with
  | Some h => (blen h =? sp_hdr_len s) && forallb (fun x => x <? 256) h
  | None => false
  end.
Lemma all_layout_facts : forallb layout_facts all_specs = true.
Proof. vm_compute. reflexivity. Qed.

Lemma layout s : In s all_specs ->
  exists h, canonical_header s = Some h /\ blen h = sp_hdr_len s /\ normal h /\
    (forall f, In f (sp_fields s) -> find_sfield (sp_fields s) (sf_name f) = Some f) /\
    (forall f g, In f (sp_fields s) -> In g (sp_fields s) -> f = g \/ disj (sf_first f) (sf_width f) (sf_first g) (sf_width g) = true) /\
    (forall f, In f (sp_fields s) -> sf_first f + sf_width f <= 8 * sp_hdr_len s).
Proof.
  intros Hs. pose proof all_layout_facts as H. rewrite forallb_forall in H. specialize (H s Hs). unfold layout_facts in H.
  apply andb_true_iff in H. destruct H as [H Hc]. apply andb_true_iff in H. destruct H as [H Hin].
  apply andb_true_iff in H. destruct H as [Hfind Hdj].
  destruct (canonical_header s) as [h|]; [|discriminate]. apply andb_true_iff in Hc. destruct Hc as [Hlen Hn].
  apply N.eqb_eq in Hlen. exists h. split; [reflexivity|]. split; [exact Hlen|]. split.
  - unfold normal. apply Forall_forall. intros x Hx. rewrite forallb_forall in Hn. specialize (Hn x Hx). apply N.ltb_lt in Hn. exact Hn.
  - rewrite forallb_forall in Hfind, Hdj, Hin. split; [|split].
    + intros f Hf. specialize (Hfind f Hf). destruct (find_sfield (sp_fields s) (sf_name f)) as [g|]; [|discriminate].
      apply sfield_eqb_eq in Hfind. subst. reflexivity.
    + intros f g Hf Hg. specialize (Hdj f Hf). rewrite forallb_forall in Hdj. specialize (Hdj g Hg).
      apply orb_true_iff in Hdj. destruct Hdj as [He|Hd]; [left; apply sfield_eqb_eq; exact He|right; exact Hd].
    + intros f Hf. specialize (Hin f Hf). apply N.leb_le in Hin. exact Hin.
Qed.

(* ---------- concrete operations: every entry point family ---------- *)
Inductive cop :=
| CSet (f:sfield) (path:unit_model * setter * (N -> list N)) (v:N)   (* by-identifier or dedicated writer *)
| CInit                                                               (* current initialiser *)
| CLegacySet (a:lapi) (f:sfield) (v:N)                                (* avtp_*_pdu_set *)
| CLegacyInit (a:lapi) (x:N).                                         (* avtp_*_pdu_init *)

Definition unwrap (o:outcome (option buf)) : option buf := match o with Ok (Some b) => Some b | _ => None end.
Definition unwrap_l (o:outcome lres) : option buf := match o with Ok (LOk, Some b, _) => Some b | _ => None end.

(* value type of the deprecated writer of a format: bits *)
Definition lset_pw (a:lapi) (s:sformat) : option nat :=
  match fmt_unit all_units s with
  | Some (u, t) => match find_legacy (legacy_of legacy_units (sp_src s)) (la_set a) with
                   | Some l => match lset_ok l s t with Some (_, pw) => Some pw | None => None end
                   | None => None
                   end
  | None => None
  end.

Section Steps.
  Variable E : endian.
  Notation LD := (ldqE E). Notation ST := (stqE E).

  (* the model's step; None = the model does not return normally with success *)
  Definition cstep (s:sformat) (b:buf) (o:cop) : option buf :=
    match o with
    | CSet f (u, st, pf) v => unwrap (run_setter LD ST cfg (u_tables u) st (Some b) (pf v))
    | CInit =>
        match fmt_unit all_units s with
        | Some (u, _) => match find_init (u_inits u) (sp_init s) with
                         | Some i => unwrap (run_init LD ST cfg u i (Some b)) | None => None end
        | None => None
        end
    | CLegacySet a f v =>
        match fmt_unit all_units s with
        | Some (u, t) =>
            let ls := legacy_of legacy_units (sp_src s) in
            match find_legacy ls (la_set a), assoc (t_enum t) (sf_name f) with
            | Some l, Some idx => unwrap_l (run_legacy LD ST cfg u ls l (Some b) [0; idx; v] None)
            | _, _ => None
            end
        | None => None
        end
    | CLegacyInit a x =>
        match fmt_unit all_units s with
        | Some (u, t) =>
            let ls := legacy_of legacy_units (sp_src s) in
            match find_legacy ls (la_init a) with
            | Some l => unwrap_l (run_legacy LD ST cfg u ls l (Some b) [0; x] None)
            | None => None
            end
        | None => None
        end
    end.

  (* what each operation means in the record semantics *)
  Definition cabs (o:cop) : list hop :=
    match o with
    | CSet f _ v => [HSet (sf_name f) v]
    | CInit => [HInit]
    | CLegacySet _ f v => [HSet (sf_name f) v]
    | CLegacyInit a x => if str_empty (la_init_field a) then [HInit] else [HInit; HSet (la_init_field a) x]
    end.

  (* well-formed operations: they name access paths that exist for the format, and carry values of the
     legacy value types *)
  Definition cwf (s:sformat) (o:cop) : Prop :=
    match o with
    | CSet f path v => In f (sp_fields s) /\ In path (writers_of s f)
    | CInit => sp_init s <> EmptyString
    | CLegacySet a f v => In a legacy_api /\ find_spec all_specs (la_fmt a) = Some s /\ In f (sp_fields s) /\
                          exists pw, lset_pw a s = Some pw /\ v < 2 ^ N.of_nat pw
    | CLegacyInit a x => In a legacy_api /\ find_spec all_specs (la_fmt a) = Some s /\ la_init a <> EmptyString /\ x < 2 ^ 8
    end.

  Fixpoint crun (s:sformat) (ops:list cop) (b:buf) : option buf :=
    match ops with
    | [] => Some b
    | o :: r => match cstep s b o with Some b' => crun s r b' | None => None end
    end.

  Section OneFormat.
    Variable s : sformat.
    Hypothesis Hs : In s all_specs.
    Variable h : buf.
    Hypothesis Hcanon : canonical_header s = Some h.

    Lemma set_step f u st pf v b : In f (sp_fields s) -> In (u, st, pf) (writers_of s f) ->
      normal b -> sp_hdr_len s <= blen b ->
      unwrap (run_setter LD ST cfg (u_tables u) st (Some b) (pf v)) = Some (spec_insert b (sf_first f) (sf_width f) v).
    Proof.
      intros Hf Hp Hn Hb. destruct (writers_write E s f Hs Hf u st pf Hp b v Hb) as [b' [Hr Hw]].
      rewrite Hr. cbn [unwrap]. f_equal. apply (writes_exact _ _ _ _ _ _ Hw).
      apply (run_setter_normal LD ST (stqE_wire E) cfg _ _ _ _ _ Hr Hn).
    Qed.

    Lemma cstep_refines o b : cwf s o -> normal b -> sp_hdr_len s <= blen b ->
      cstep s b o = Some (hrun s h (cabs o) b).
    Proof.
      destruct (layout s Hs) as [h' [Hc' [Hlen [Hnh [Hfind [Hdj Hin]]]]]]. rewrite Hcanon in Hc'. inversion Hc'; subst h'. clear Hc'.
      intros Hwf Hn Hb. destruct o as [f [[u st] pf] v| |a f v|a x]; cbn [cwf cstep cabs] in *.
      - destruct Hwf as [Hf Hp]. rewrite (set_step f u st pf v b Hf Hp Hn Hb).
        cbn [hrun fold_left hstep]. rewrite (Hfind f Hf). reflexivity.
      - destruct (inits E s Hs Hwf) as [u [t [i [h0 [Hu [Hi [Hh0 [_ Hrun]]]]]]]]. rewrite Hcanon in Hh0. inversion Hh0; subst h0.
        rewrite Hu, Hi. destruct (Hrun b Hb) as [b' [Hr Hag]]. rewrite Hr. cbn [unwrap hrun fold_left hstep]. f_equal.
        apply (agrees_exact _ _ _ _ Hag Hlen Hb); [|exact Hnh|exact Hn].
        apply (run_init_normal LD ST (stqE_wire E) cfg _ _ _ _ Hr Hn).
      - destruct Hwf as [Ha [Hfs [Hf [pw [Hpw Hv]]]]].
        destruct (api_all E a Ha) as [s' [u [t [Hfs' [Hu [_ [Hset [_ [_ Hidx]]]]]]]]]. rewrite Hfs in Hfs'. inversion Hfs'; subst s'.
        rewrite Hu. cbv zeta. destruct Hset as [l [st [maxv [pw' [Hl [Hst [Hmax [Hok Hrun]]]]]]]].
        rewrite Hl.
        destruct (fields_written E s f Hs Hf) as [u0 [t0 [idx [Hu0 [Hix [[st' [Hst' Hw]] _]]]]]]. rewrite Hu in Hu0. inversion Hu0; subst u0 t0.
        rewrite Hst in Hst'. inversion Hst'; subst st'. rewrite Hix.
        assert (Hpw' : pw' = pw).
        { unfold lset_pw in Hpw. rewrite Hu, Hl, Hok in Hpw. inversion Hpw. reflexivity. }
        subst pw'.
        destruct (Hidx f idx maxv Hf Hix Hmax) as [Hlt Hm32].
        assert (Hi32 : idx < 2 ^ 32) by lia.
        rewrite (Hrun (Some b) idx v Hi32 Hv). cbn [is_none orb].
        replace (maxv <=? idx) with false by (symmetry; apply N.leb_gt; exact Hlt).
        destruct (Hw b v Hb) as [b' [Hr Hwf']]. rewrite Hr. cbn [unwrap_l hrun fold_left hstep]. rewrite (Hfind f Hf). f_equal.
        apply (writes_exact _ _ _ _ _ _ Hwf'). apply (run_setter_normal LD ST (stqE_wire E) cfg _ _ _ _ _ Hr Hn).
      - destruct Hwf as [Ha [Hfs [Hne Hx]]].
        destruct (api_all E a Ha) as [s' [u [t [Hfs' [Hu [_ [_ [Hinit _]]]]]]]]. rewrite Hfs in Hfs'. inversion Hfs'; subst s'.
        rewrite Hu. cbv zeta. destruct (Hinit Hne) as [l [Hl Hshape]]. rewrite Hl.
        destruct Hshape as [[i [Hi [Hne' [Hse [_ Hrun]]]]]|[h0 [Hh0 [Hnf [_ Hrun]]]]].
        + rewrite (Hrun b x Hx).
          destruct (inits E s Hs Hne') as [u0 [t0 [i0 [h0 [Hu0 [Hi0 [Hh0 [_ Hr0]]]]]]]]. rewrite Hu in Hu0. inversion Hu0; subst u0 t0.
          rewrite Hi in Hi0. inversion Hi0; subst i0. rewrite Hcanon in Hh0. inversion Hh0; subst h0.
          destruct (Hr0 b Hb) as [b1 [Hr1 Hag]]. rewrite Hr1.
          assert (Hn1 : normal b1) by (apply (run_init_normal LD ST (stqE_wire E) cfg _ _ _ _ Hr1 Hn)).
          assert (Hb1 : b1 = h ++ skipn (N.to_nat (sp_hdr_len s)) b) by (apply (agrees_exact _ _ _ _ Hag Hlen Hb); assumption).
          rewrite Hse. destruct (str_empty (la_init_field a)) eqn:Ee.
          * cbn [unwrap_l hrun fold_left hstep]. rewrite Hb1. reflexivity.
          * unfold extra_setter in *. rewrite Ee in *. unfold setter_of in *.
            destruct (find_sfield (sp_fields s) (la_init_field a)) as [f|] eqn:Ef; [|cbn in Hse; discriminate].
            destruct (find_sfield_name s _ _ Ef) as [Hf Hname].
            destruct (fields_written E s f Hs Hf) as [u1 [t1 [idx [Hu1 [Hix [_ Hded]]]]]]. rewrite Hu in Hu1. inversion Hu1; subst u1 t1.
            assert (Hsn : sf_setter f <> EmptyString) by (intros Hc; rewrite Hc in Hse; cbn in Hse; discriminate).
            destruct (Hded Hsn) as [st [Hst Hw]]. rewrite Hst.
            assert (Hbl1 : sp_hdr_len s <= blen b1).
            { destruct Hag as [HL _]. unfold blen in *. rewrite HL. exact Hb. }
            destruct (Hw b1 x Hbl1) as [b2 [Hr2 Hwf2]]. rewrite Hr2. cbn [unwrap_l hrun fold_left hstep]. rewrite Ef. f_equal.
            rewrite <- Hb1. apply (writes_exact _ _ _ _ _ _ Hwf2). apply (run_setter_normal LD ST (stqE_wire E) cfg _ _ _ _ _ Hr2 Hn1).
        + rewrite Hcanon in Hh0. inversion Hh0; subst h0.
          destruct (Hrun b x Hx Hb) as [b' [Hr [Hag Hnorm]]]. rewrite Hr. cbn [unwrap_l]. rewrite Hnf. cbn [hrun fold_left hstep]. f_equal.
          apply (agrees_exact _ _ _ _ Hag Hlen Hb); [|exact Hnh|exact Hn].
          apply Hnorm; exact Hn.
    Qed.

    Lemma hrun_app o1 o2 b : hrun s h (o1 ++ o2) b = hrun s h o2 (hrun s h o1 b).
    Proof. unfold hrun. apply fold_left_app. Qed.

    (* every finite history, through any mix of entry points, is the record history *)
    Theorem crun_refines ops : forall b, Forall (cwf s) ops -> normal b -> sp_hdr_len s <= blen b ->
      crun s ops b = Some (hrun s h (flat_map cabs ops) b).
    Proof.
      destruct (layout s Hs) as [h' [Hc' [Hlen [Hnh _]]]]. rewrite Hcanon in Hc'. inversion Hc'; subst h'. clear Hc'.
      induction ops as [|o r IH]; intros b Hwf Hn Hb; cbn [crun flat_map]; [reflexivity|].
      inversion Hwf as [|? ? Ho Hr]; subst.
      rewrite (cstep_refines o b Ho Hn Hb). rewrite hrun_app.
      destruct (hrun_inv s h Hlen Hnh (cabs o) b Hb Hn) as [HL Hn'].
      apply IH; [exact Hr|exact Hn'|unfold blen in *; rewrite HL; exact Hb].
    Qed.
  End OneFormat.
End Steps.

(* ---------- several buffers: an operation touches only the buffer it is given ---------- *)
Section Multi.
  Variable E : endian.
  Variable s : sformat.
  (* state: one buffer per index; an operation names its buffer *)
  Definition mstep (st:list buf) (ko:nat * cop) : option (list buf) :=
    match nth_error st (fst ko) with
    | Some b => match cstep E s b (snd ko) with
                | Some b' => Some (firstn (fst ko) st ++ b' :: skipn (S (fst ko)) st)
                | None => None
                end
    | None => None
    end.
  Fixpoint mrun (ops:list (nat * cop)) (st:list buf) : option (list buf) :=
    match ops with
    | [] => Some st
    | ko :: r => match mstep st ko with Some st' => mrun r st' | None => None end
    end.
  Definition only (k:nat) (ops:list (nat * cop)) : list cop :=
    map snd (filter (fun ko => Nat.eqb (fst ko) k) ops).

  Lemma nth_error_firstn_lt {A} (l:list A) : forall n j, (j < n)%nat -> nth_error (firstn n l) j = nth_error l j.
  Proof.
    induction l as [|a r IH]; intros n j Hj; destruct n; try lia; [destruct j; reflexivity|].
    destruct j; cbn; [reflexivity|]. apply IH. lia.
  Qed.
  Lemma nth_error_skipn_plus {A} (l:list A) : forall n j, nth_error (skipn n l) j = nth_error l (n + j).
  Proof.
    induction l as [|a r IH]; intros n j; destruct n; cbn; try reflexivity; [destruct j; reflexivity|apply IH].
  Qed.
  Lemma nth_error_update {A} (l:list A) k x j : (k < List.length l)%nat ->
    nth_error (firstn k l ++ x :: skipn (S k) l) j = if Nat.eqb j k then Some x else nth_error l j.
  Proof.
    intros Hk. destruct (Nat.eqb_spec j k) as [->|Hne].
    - rewrite nth_error_app2 by (rewrite firstn_length; lia). rewrite firstn_length.
      replace (k - Nat.min k (List.length l))%nat with 0%nat by lia. reflexivity.
    - destruct (Nat.lt_ge_cases j k) as [Hlt|Hge].
      + rewrite nth_error_app1 by (rewrite firstn_length; lia). apply nth_error_firstn_lt; exact Hlt.
      + rewrite nth_error_app2 by (rewrite firstn_length; lia). rewrite firstn_length.
        replace (j - Nat.min k (List.length l))%nat with (S (j - S k)) by lia. cbn [nth_error].
        rewrite nth_error_skipn_plus. f_equal. lia.
  Qed.

  (* the final content of buffer k is what its own sub-history produces from its initial content:
     calls made on other buffers in between have no influence *)
  Theorem mrun_local ops : forall st st' k b, mrun ops st = Some st' -> nth_error st k = Some b ->
    exists b', nth_error st' k = Some b' /\ crun E s (only k ops) b = Some b'.
  Proof.
    induction ops as [|[j o] r IH]; intros st st' k b Hrun Hk; cbn [mrun] in Hrun.
    - inversion Hrun; subst. exists b. split; [exact Hk|reflexivity].
    - unfold mstep in Hrun. cbn [fst snd] in Hrun.
      destruct (nth_error st j) as [bj|] eqn:Ej; [|discriminate].
      destruct (cstep E s bj o) as [bj'|] eqn:Es; [|discriminate].
      assert (Hj : (j < List.length st)%nat) by (apply nth_error_Some; rewrite Ej; discriminate).
      unfold only. cbn [filter fst]. destruct (Nat.eqb_spec j k) as [->|Hne].
      + rewrite Hk in Ej. inversion Ej; subst bj. cbn [map snd crun]. rewrite Es.
        apply (IH _ _ k bj' Hrun). rewrite nth_error_update by exact Hj. rewrite Nat.eqb_refl. reflexivity.
      + apply (IH _ _ k b Hrun). rewrite nth_error_update by exact Hj.
        replace (Nat.eqb k j) with false by (symmetry; apply Nat.eqb_neq; congruence). exact Hk.
  Qed.
End Multi.
