(* A PDU as a record of independent fields: the algebra of the reference
   read/write (Spec.spec_extract / spec_insert) on normal buffers, histories
   of initialisations and writes, and the reference encoding of a record.
   Pure theory: nothing here depends on generated data. *)
From Coq Require Import List NArith ZArith Bool Lia Arith String ZifyN ZifyNat ZifyBool.
From O1722 Require Import Sym Bits Spec SpecProofs.
Import ListNotations.
Local Open Scope N_scope.
Ltac Zify.zify_post_hook ::= Z.div_mod_to_equations.

Definition disj (f1 w1 f2 w2:N) : bool := (f1 + w1 <=? f2) || (f2 + w2 <=? f1) || (w1 =? 0) || (w2 =? 0).
Definition covers (f:sfield) (i:N) : bool := (sf_first f <=? i) && (i <? sf_first f + sf_width f).

Lemma disj_spec f1 w1 f2 w2 i : disj f1 w1 f2 w2 = true -> f1 <= i < f1 + w1 -> f2 <= i < f2 + w2 -> False.
Proof.
  unfold disj. intros H. repeat (apply orb_true_iff in H; destruct H as [H|H]);
    [apply N.leb_le in H|apply N.leb_le in H|apply N.eqb_eq in H|apply N.eqb_eq in H]; lia.
Qed.

(* ---------- single operations ---------- *)
Lemma extract_insert_same b first w v : first + w <= 8 * blen b ->
  spec_extract (spec_insert b first w v) first w = v mod 2 ^ w.
Proof.
  intros Hin. apply N.bits_inj. intros k. rewrite spec_extract_testbit.
  destruct (N.ltb_spec k w) as [Hk|Hk]; cbn [andb].
  - rewrite bit_at_spec_insert.
    replace ((first + w - 1 - k) / 8 <? blen b) with true by (symmetry; apply N.ltb_lt; apply N.div_lt_upper_bound; lia).
    replace ((first <=? first + w - 1 - k) && (first + w - 1 - k <? first + w)) with true
      by (symmetry; apply andb_true_iff; split; [apply N.leb_le|apply N.ltb_lt]; lia).
    rewrite N.mod_pow2_bits_low by exact Hk. f_equal. lia.
  - rewrite N.mod_pow2_bits_high by exact Hk. reflexivity.
Qed.

Lemma extract_insert_other b f1 w1 v f2 w2 : disj f1 w1 f2 w2 = true ->
  spec_extract (spec_insert b f1 w1 v) f2 w2 = spec_extract b f2 w2.
Proof.
  intros Hd. apply spec_extract_ext. intros i Hi. rewrite bit_at_spec_insert.
  destruct (N.ltb_spec (i / 8) (blen b)) as [Hb|Hb]; [|symmetry; apply bit_at_oob; exact Hb].
  destruct (N.leb_spec f1 i); destruct (N.ltb_spec i (f1 + w1)); cbn [andb]; try reflexivity.
  exfalso. apply (disj_spec _ _ _ _ i Hd); lia.
Qed.

Lemma insert_commute b f1 w1 v1 f2 w2 v2 : disj f1 w1 f2 w2 = true ->
  spec_insert (spec_insert b f1 w1 v1) f2 w2 v2 = spec_insert (spec_insert b f2 w2 v2) f1 w1 v1.
Proof.
  intros Hd. apply normal_bits_ext; try apply normal_spec_insert; [now rewrite !length_spec_insert|].
  intros i. rewrite !bit_at_spec_insert. unfold blen. rewrite !length_spec_insert. fold (blen b).
  destruct (N.ltb_spec (i / 8) (blen b)); [|reflexivity].
  destruct (N.leb_spec f1 i); destruct (N.ltb_spec i (f1 + w1)); destruct (N.leb_spec f2 i); destruct (N.ltb_spec i (f2 + w2));
    cbn [andb]; try reflexivity.
  exfalso. apply (disj_spec _ _ _ _ i Hd); lia.
Qed.

Lemma insert_idem b f w v : spec_insert (spec_insert b f w v) f w v = spec_insert b f w v.
Proof.
  apply normal_bits_ext; try apply normal_spec_insert; [now rewrite !length_spec_insert|].
  intros i. rewrite !bit_at_spec_insert. unfold blen. rewrite !length_spec_insert. fold (blen b).
  destruct (N.ltb_spec (i / 8) (blen b)); [|reflexivity].
  destruct ((f <=? i) && (i <? f + w)); reflexivity.
Qed.

(* the later of two writes to the same field wins *)
Lemma insert_overwrite b f w v1 v2 : spec_insert (spec_insert b f w v1) f w v2 = spec_insert b f w v2.
Proof.
  apply normal_bits_ext; try apply normal_spec_insert; [now rewrite !length_spec_insert|].
  intros i. rewrite !bit_at_spec_insert. unfold blen. rewrite !length_spec_insert. fold (blen b).
  destruct (N.ltb_spec (i / 8) (blen b)); [|reflexivity].
  destruct ((f <=? i) && (i <? f + w)); reflexivity.
Qed.

(* writing a field's own value back changes nothing *)
Lemma insert_own b f w : SpecProofs.normal b -> spec_insert b f w (spec_extract b f w) = b.
Proof.
  intros Hn. apply normal_bits_ext; [apply normal_spec_insert|exact Hn|apply length_spec_insert|].
  intros i. rewrite bit_at_spec_insert.
  destruct (N.ltb_spec (i / 8) (blen b)) as [Hb|Hb]; [|symmetry; apply bit_at_oob; exact Hb].
  destruct (N.leb_spec f i) as [H1|H1]; destruct (N.ltb_spec i (f + w)) as [H2|H2]; cbn [andb]; try reflexivity.
  rewrite spec_extract_testbit. replace (f + w - 1 - i <? w) with true by (symmetry; apply N.ltb_lt; lia).
  cbn [andb]. f_equal. lia.
Qed.

(* ---------- histories ---------- *)
Inductive hop := HInit | HSet (name:string) (v:N).

Section Hist.
  Variable s : sformat.
  Variable h : buf.                       (* the canonical header of s *)
  Hypothesis Hh : blen h = sp_hdr_len s.
  Hypothesis Hnh : SpecProofs.normal h.
  (* reference facts about the layout (computed for every format in C05Proofs) *)
  Hypothesis Hfind : forall f, In f (sp_fields s) -> find_sfield (sp_fields s) (sf_name f) = Some f.
  Hypothesis Hdisj : forall f g, In f (sp_fields s) -> In g (sp_fields s) -> f = g \/
                                 disj (sf_first f) (sf_width f) (sf_first g) (sf_width g) = true.
  Hypothesis Hinside : forall f, In f (sp_fields s) -> sf_first f + sf_width f <= 8 * sp_hdr_len s.

  Definition hstep (b:buf) (o:hop) : buf :=
    match o with
    | HInit => h ++ skipn (N.to_nat (sp_hdr_len s)) b
    | HSet name v => match find_sfield (sp_fields s) name with
                     | Some f => spec_insert b (sf_first f) (sf_width f) v
                     | None => b
                     end
    end.
  Definition hrun (ops:list hop) (b:buf) : buf := fold_left hstep ops b.

  Lemma length_hstep b o : sp_hdr_len s <= blen b -> List.length (hstep b o) = List.length b.
  Proof.
    intros Hb. destruct o as [|name v]; cbn [hstep].
    - rewrite app_length, skipn_length. unfold blen in *. lia.
    - destruct (find_sfield (sp_fields s) name); [apply length_spec_insert|reflexivity].
  Qed.
  Lemma normal_hstep b o : SpecProofs.normal b -> SpecProofs.normal (hstep b o).
  Proof.
    intros Hn. destruct o as [|name v]; cbn [hstep].
    - unfold SpecProofs.normal in *. apply Forall_app. split; [exact Hnh|].
      apply Forall_forall. intros x Hx. rewrite Forall_forall in Hn. apply Hn. eapply In_skipn; eauto.
    - destruct (find_sfield (sp_fields s) name); [apply normal_spec_insert|exact Hn].
  Qed.
  Lemma hrun_inv ops : forall b, sp_hdr_len s <= blen b -> SpecProofs.normal b ->
    List.length (hrun ops b) = List.length b /\ SpecProofs.normal (hrun ops b).
  Proof.
    induction ops as [|o r IH]; intros b Hb Hn; cbn [hrun fold_left]; [split; [reflexivity|exact Hn]|].
    pose proof (length_hstep b o Hb) as HL.
    destruct (IH (hstep b o)) as [H1 H2]; [unfold blen in *; rewrite HL; exact Hb|apply normal_hstep; exact Hn|].
    fold (hrun r (hstep b o)). split; [rewrite H1; exact HL|exact H2].
  Qed.

  (* bits of an initialised buffer *)
  Lemma bit_at_app_l (a c:buf) i : i / 8 < blen a -> bit_at (a ++ c) i = bit_at a i.
  Proof. intros H. unfold bit_at, byte_at, nthN. rewrite app_nth1 by (unfold blen in H; lia). reflexivity. Qed.
  Lemma bit_at_app_r (a c:buf) i : blen a <= i / 8 -> bit_at (a ++ c) i = bit_at c (i - 8 * blen a).
  Proof.
    intros H. unfold bit_at, byte_at, nthN. rewrite app_nth2 by (unfold blen in H; lia).
    replace (N.to_nat (i / 8) - List.length a)%nat with (N.to_nat ((i - 8 * blen a) / 8)) by (unfold blen in *; lia).
    replace ((i - 8 * blen a) mod 8) with (i mod 8) by lia. reflexivity.
  Qed.

  (* value a field has after one step, given the value it had before *)
  Definition vstep (f:sfield) (cur:N) (o:hop) : N :=
    match o with
    | HInit => spec_extract h (sf_first f) (sf_width f)
    | HSet name v => if String.eqb name (sf_name f) then v mod 2 ^ sf_width f else cur
    end.
  Definition last_val (f:sfield) (ops:list hop) (init:N) : N := fold_left (vstep f) ops init.

  Lemma find_sfield_name name g : find_sfield (sp_fields s) name = Some g -> In g (sp_fields s) /\ sf_name g = name.
  Proof.
    unfold find_sfield. intros H. apply find_some in H. destruct H as [H1 H2]. apply String.eqb_eq in H2. auto.
  Qed.

  Lemma step_field f b o : In f (sp_fields s) -> sp_hdr_len s <= blen b ->
    spec_extract (hstep b o) (sf_first f) (sf_width f) = vstep f (spec_extract b (sf_first f) (sf_width f)) o.
  Proof.
    intros Hf Hb. destruct o as [|name v]; cbn [hstep vstep].
    - apply spec_extract_ext. intros i Hi. apply bit_at_app_l. rewrite Hh.
      pose proof (Hinside f Hf). apply N.div_lt_upper_bound; lia.
    - destruct (String.eqb name (sf_name f)) eqn:En.
      + apply String.eqb_eq in En. subst name. rewrite (Hfind f Hf).
        apply extract_insert_same. pose proof (Hinside f Hf). lia.
      + destruct (find_sfield (sp_fields s) name) as [g|] eqn:Eg; [|reflexivity].
        destruct (find_sfield_name _ _ Eg) as [Hg Hname].
        destruct (Hdisj g f Hg Hf) as [->|Hd]; [rewrite Hname, String.eqb_refl in En; discriminate|].
        apply extract_insert_other. exact Hd.
  Qed.

  (* each field reads as the last value written to it (mod its width), as its initialised content if an
     initialisation came later, or as its initial content *)
  Theorem history_field f ops : In f (sp_fields s) -> forall b, sp_hdr_len s <= blen b ->
    spec_extract (hrun ops b) (sf_first f) (sf_width f) = last_val f ops (spec_extract b (sf_first f) (sf_width f)).
  Proof.
    intros Hf. induction ops as [|o r IH]; intros b Hb; cbn [hrun last_val fold_left]; [reflexivity|].
    fold (hrun r (hstep b o)). fold (last_val f r (vstep f (spec_extract b (sf_first f) (sf_width f)) o)).
    rewrite IH by (unfold blen in *; rewrite length_hstep; assumption).
    rewrite step_field by assumption. reflexivity.
  Qed.

  (* ---------- the reference encoding of a record ---------- *)
  Definition encode (fs:list sfield) (vals:sfield -> N) (base:buf) : buf :=
    fold_left (fun b f => spec_insert b (sf_first f) (sf_width f) (vals f)) fs base.

  Lemma length_encode fs vals base : List.length (encode fs vals base) = List.length base.
  Proof.
    revert base; induction fs as [|f r IH]; intros base; cbn [encode fold_left]; [reflexivity|].
    fold (encode r vals (spec_insert base (sf_first f) (sf_width f) (vals f))). rewrite IH. apply length_spec_insert.
  Qed.
  Lemma normal_encode fs vals base : SpecProofs.normal base -> SpecProofs.normal (encode fs vals base).
  Proof.
    revert base; induction fs as [|f r IH]; intros base Hn; cbn [encode fold_left]; [exact Hn|].
    apply IH. apply normal_spec_insert.
  Qed.

  (* bit i of the encoding: the field that covers it decides, otherwise the base *)
  Lemma bit_at_encode fs vals : forall base i,
    (forall f g, In f fs -> In g fs -> f = g \/ disj (sf_first f) (sf_width f) (sf_first g) (sf_width g) = true) ->
    i / 8 < blen base ->
    bit_at (encode fs vals base) i =
      match find (fun f => covers f i) fs with
      | Some f => N.testbit (vals f) (sf_first f + sf_width f - 1 - i)
      | None => bit_at base i
      end.
  Proof.
    induction fs as [|f r IH]; intros base i Hd Hi; cbn [encode fold_left find]; [reflexivity|].
    fold (encode r vals (spec_insert base (sf_first f) (sf_width f) (vals f))).
    assert (Hd' : forall f0 g, In f0 r -> In g r -> f0 = g \/ disj (sf_first f0) (sf_width f0) (sf_first g) (sf_width g) = true)
      by (intros; apply Hd; right; assumption).
    rewrite IH by (try exact Hd'; unfold blen; rewrite length_spec_insert; exact Hi).
    destruct (covers f i) eqn:Ec.
    - (* no later field covers i *)
      destruct (find (fun f0 => covers f0 i) r) as [g|] eqn:Eg.
      + apply find_some in Eg. destruct Eg as [Hg Hcg].
        unfold covers in Ec, Hcg. apply andb_true_iff in Ec, Hcg. destruct Ec as [E1 E2]. destruct Hcg as [G1 G2].
        apply N.leb_le in E1, G1. apply N.ltb_lt in E2, G2.
        destruct (Hd f g (or_introl eq_refl) (or_intror Hg)) as [->|Hdj]; [reflexivity|].
        exfalso. apply (disj_spec _ _ _ _ i Hdj); lia.
      + rewrite bit_at_spec_insert. replace (i / 8 <? blen base) with true by (symmetry; apply N.ltb_lt; exact Hi).
        unfold covers in Ec. rewrite Ec. reflexivity.
    - destruct (find (fun f0 => covers f0 i) r) as [g|]; [reflexivity|].
      rewrite bit_at_spec_insert. replace (i / 8 <? blen base) with true by (symmetry; apply N.ltb_lt; exact Hi).
      unfold covers in Ec. rewrite Ec. reflexivity.
  Qed.

  Lemma encode_ext fs vals vals' base : (forall f, In f fs -> vals f = vals' f) -> encode fs vals base = encode fs vals' base.
  Proof.
    revert base; induction fs as [|f r IH]; intros base H; cbn [encode fold_left]; [reflexivity|].
    rewrite (H f (or_introl eq_refl)). apply IH. intros g Hg. apply H. right. exact Hg.
  Qed.

  Definition uncovered (i:N) : Prop := forall f, In f (sp_fields s) -> covers f i = false.

  (* a buffer is determined by its field values and its residual (uncovered) bits *)
  Theorem encode_abs b base : SpecProofs.normal b -> SpecProofs.normal base -> List.length base = List.length b ->
    (forall i, uncovered i -> bit_at base i = bit_at b i) ->
    encode (sp_fields s) (fun f => spec_extract b (sf_first f) (sf_width f)) base = b.
  Proof.
    intros Hb Hbase HL Hres. apply normal_bits_ext; [apply normal_encode; exact Hbase|exact Hb|rewrite length_encode; exact HL|].
    intros i. destruct (N.lt_ge_cases (i / 8) (blen base)) as [Hi|Hi].
    - rewrite bit_at_encode by (try exact Hdisj; exact Hi).
      destruct (find (fun f => covers f i) (sp_fields s)) as [f|] eqn:Ef.
      + apply find_some in Ef. destruct Ef as [Hf Hc]. unfold covers in Hc. apply andb_true_iff in Hc.
        destruct Hc as [H1 H2]. apply N.leb_le in H1. apply N.ltb_lt in H2.
        rewrite spec_extract_testbit. replace (sf_first f + sf_width f - 1 - i <? sf_width f) with true by (symmetry; apply N.ltb_lt; lia).
        cbn [andb]. f_equal. lia.
      + apply Hres. intros f Hf. apply (find_none _ _ Ef f Hf).
    - rewrite !bit_at_oob; [reflexivity| unfold blen in *; lia | unfold blen in *; rewrite length_encode; lia].
  Qed.

  Definition is_init (o:hop) : bool := match o with HInit => true | HSet _ _ => false end.

  Lemma bit_at_skipn (b:buf) n i : bit_at (skipn n b) i = bit_at b (i + 8 * N.of_nat n).
  Proof.
    unfold bit_at, byte_at, nthN. rewrite Sym.nth_skipn.
    replace (n + N.to_nat (i / 8))%nat with (N.to_nat ((i + 8 * N.of_nat n) / 8)) by lia.
    replace ((i + 8 * N.of_nat n) mod 8) with (i mod 8) by lia. reflexivity.
  Qed.

  Lemma uncovered_tail i : 8 * sp_hdr_len s <= i -> uncovered i.
  Proof.
    intros Hi f Hf. pose proof (Hinside f Hf). unfold covers. apply andb_false_iff. right. apply N.ltb_ge. lia.
  Qed.

  (* residual bits are changed by initialisations only *)
  Lemma residual_inits ops : forall b1 b2, List.length b1 = List.length b2 -> sp_hdr_len s <= blen b1 ->
    (forall i, uncovered i -> bit_at b1 i = bit_at b2 i) ->
    forall i, uncovered i -> bit_at (hrun (filter is_init ops) b1) i = bit_at (hrun ops b2) i.
  Proof.
    induction ops as [|o r IH]; intros b1 b2 HL Hb Hag i Hi; cbn [filter hrun fold_left]; [apply Hag; exact Hi|].
    destruct o as [|name v]; cbn [is_init].
    - cbn [hrun fold_left]. fold (hrun (filter is_init r) (hstep b1 HInit)). fold (hrun r (hstep b2 HInit)).
      assert (Hb2 : sp_hdr_len s <= blen b2) by (unfold blen in *; rewrite <- HL; exact Hb).
      apply IH; [rewrite !length_hstep by assumption; exact HL | unfold blen in *; rewrite length_hstep by exact Hb; exact Hb | | exact Hi].
      intros j Hj. cbn [hstep]. destruct (N.lt_ge_cases (j / 8) (blen h)) as [Hjh|Hjh].
      + rewrite !bit_at_app_l by exact Hjh. reflexivity.
      + rewrite !bit_at_app_r by exact Hjh. rewrite !bit_at_skipn. rewrite Hh, N2Nat.id.
        apply Hag. apply uncovered_tail. rewrite Hh in Hjh. lia.
    - fold (hrun (filter is_init r) b1). fold (hrun r (hstep b2 (HSet name v))).
      assert (Hb2 : sp_hdr_len s <= blen b2) by (unfold blen in *; rewrite <- HL; exact Hb).
      apply IH; [rewrite length_hstep by exact Hb2; exact HL | exact Hb | | exact Hi].
      intros j Hj. rewrite (Hag j Hj). cbn [hstep].
      destruct (find_sfield (sp_fields s) name) as [g|] eqn:Eg; [|reflexivity].
      destruct (find_sfield_name _ _ Eg) as [Hg _]. rewrite bit_at_spec_insert.
      destruct (N.ltb_spec (j / 8) (blen b2)) as [Hjb|Hjb]; [|apply bit_at_oob; exact Hjb].
      specialize (Hj g Hg). unfold covers in Hj. rewrite Hj. reflexivity.
  Qed.

  (* after ANY history the buffer is the reference encoding of "last value written to each field" over the
     buffer that the initialisations alone would have left (which supplies the bits no field covers) *)
  Theorem history_record ops b : sp_hdr_len s <= blen b -> SpecProofs.normal b ->
    hrun ops b = encode (sp_fields s)
                   (fun f => last_val f ops (spec_extract b (sf_first f) (sf_width f)))
                   (hrun (filter is_init ops) b).
  Proof.
    intros Hb Hn. destruct (hrun_inv ops b Hb Hn) as [HL1 Hn1]. destruct (hrun_inv (filter is_init ops) b Hb Hn) as [HL2 Hn2].
    rewrite (encode_ext _ _ (fun f => spec_extract (hrun ops b) (sf_first f) (sf_width f))).
    - symmetry. apply encode_abs; [exact Hn1|exact Hn2|congruence|].
      apply residual_inits; [reflexivity|exact Hb|reflexivity].
    - intros f Hf. symmetry. apply history_field; assumption.
  Qed.
End Hist.
