(* C17: fields shared by several formats are read and written identically
   through every view. *)
From Coq Require Import List NArith ZArith Bool Lia String.
From O1722 Require Import Bits Host FieldModel Spec SpecProofs AccModel AccProofs FormatChecks C13Proofs C01Proofs Views Paths.
From O1722.Generated Require Import Tables.
Import ListNotations.
Local Open Scope N_scope.

Lemma readers_read E s f : In s all_specs -> In f (sp_fields s) ->
  forall u g p, In (u, g, p) (readers_of s f) ->
  forall b, sp_hdr_len s <= blen b ->
    run_getter (ldqE E) (stqE E) cfg (u_tables u) g (Some b) p = Ok (spec_extract b (sf_first f) (sf_width f)).
Proof.
  intros Hs Hf u g p Hin b Hb.
  destruct (fields_read E s f Hs Hf) as [u0 [t [idx [Hu [Hi [[g1 [Hg1 Hr1]] H2]]]]]].
  unfold readers_of in Hin. rewrite Hu, Hi, Hg1 in Hin.
  apply in_app_or in Hin. destruct Hin as [Hin|Hin].
  - destruct Hin as [Hin|[]]. inversion Hin; subst. apply Hr1. exact Hb.
  - destruct (str_empty (sf_getter f)) eqn:Ee; [destruct Hin|].
    assert (Hne : sf_getter f <> EmptyString).
    { intros Hc. unfold str_empty in Ee. rewrite Hc in Ee. discriminate. }
    destruct (H2 Hne) as [g2 [Hg2 Hr2]]. rewrite Hg2 in Hin.
    destruct Hin as [Hin|[]]. inversion Hin; subst. apply Hr2. exact Hb.
Qed.

Lemma writers_write E s f : In s all_specs -> In f (sp_fields s) ->
  forall u st pf, In (u, st, pf) (writers_of s f) ->
  forall b v, sp_hdr_len s <= blen b ->
    exists b', run_setter (ldqE E) (stqE E) cfg (u_tables u) st (Some b) (pf v) = Ok (Some b') /\
               writes_field b b' (sf_first f) (sf_width f) (sp_hdr_len s) v.
Proof.
  intros Hs Hf u st pf Hin b v Hb.
  destruct (fields_written E s f Hs Hf) as [u0 [t [idx [Hu [Hi [[s1 [Hs1 Hw1]] H2]]]]]].
  unfold writers_of in Hin. rewrite Hu, Hi, Hs1 in Hin.
  apply in_app_or in Hin. destruct Hin as [Hin|Hin].
  - destruct Hin as [Hin|[]]. inversion Hin; subst. apply Hw1. exact Hb.
  - destruct (str_empty (sf_setter f)) eqn:Ee; [destruct Hin|].
    assert (Hne : sf_setter f <> EmptyString).
    { intros Hc. unfold str_empty in Ee. rewrite Hc in Ee. discriminate. }
    destruct (H2 Hne) as [s2 [Hs2 Hw2]]. rewrite Hs2 in Hin.
    destruct Hin as [Hin|[]]. inversion Hin; subst. apply Hw2. exact Hb.
Qed.

(* every reference field lies inside its header (computation on Spec.v) *)
Lemma fields_inside_ok :
  forallb (fun s => forallb (fun f => sf_first f + sf_width f <=? 8 * sp_hdr_len s) (sp_fields s)) all_specs = true.
Proof. vm_compute. reflexivity. Qed.
Lemma field_inside s f : In s all_specs -> In f (sp_fields s) -> sf_first f + sf_width f <= 8 * sp_hdr_len s.
Proof.
  intros Hs Hf. pose proof fields_inside_ok as H. rewrite forallb_forall in H. specialize (H s Hs).
  rewrite forallb_forall in H. specialize (H f Hf). apply N.leb_le in H. exact H.
Qed.

(* ---- the groups: all members of a group occupy the same wire bits (computation on Spec.v),
        and every member has its by-identifier reader and writer ---- *)
Definition same_place (v1 v2:view) : bool :=
  match view_field all_specs v1, view_field all_specs v2 with
  | Some (_, f1), Some (_, f2) => (sf_first f1 =? sf_first f2) && (sf_width f1 =? sf_width f2)
  | _, _ => false
  end.
Definition view_ok (v:view) : bool :=
  match view_field all_specs v with
  | Some (s, f) => negb (Nat.eqb (List.length (readers_of s f)) 0) && negb (Nat.eqb (List.length (writers_of s f)) 0)
  | None => false
  end.
Definition group_ok (g:list view) : bool :=
  forallb view_ok g && forallb (fun v1 => forallb (same_place v1) g) g && (2 <=? List.length g)%nat.
Lemma groups_ok : forallb group_ok view_groups = true.
Proof. vm_compute. reflexivity. Qed.

Lemma find_spec_in ss n s : find_spec ss n = Some s -> In s ss.
Proof.
  induction ss as [|x r IH]; cbn; [discriminate|].
  destruct (String.eqb (sp_name x) n); intros H; [inversion H; auto|right; auto].
Qed.
Lemma view_field_in v s f : view_field all_specs v = Some (s, f) -> In s all_specs /\ In f (sp_fields s).
Proof.
  unfold view_field. destruct (find_spec all_specs (fst v)) as [s0|] eqn:Es; [|discriminate].
  destruct (find_sfield (sp_fields s0) (snd v)) as [f0|] eqn:Ef; [|discriminate].
  intros H; inversion H; subst. split; [eapply find_spec_in; eauto|].
  unfold find_sfield in Ef. apply find_some in Ef. tauto.
Qed.

(* the two views of a pair *)
Definition views_agree (E:endian) (v1 v2:view) : Prop :=
  exists s1 f1 s2 f2,
    view_field all_specs v1 = Some (s1, f1) /\ view_field all_specs v2 = Some (s2, f2) /\
    readers_of s1 f1 <> [] /\ readers_of s2 f2 <> [] /\ writers_of s1 f1 <> [] /\ writers_of s2 f2 <> [] /\
    (* reads: any access path of one view returns what any access path of the other returns *)
    (forall u1 g1 p1 u2 g2 p2, In (u1, g1, p1) (readers_of s1 f1) -> In (u2, g2, p2) (readers_of s2 f2) ->
     forall b, sp_hdr_len s1 <= blen b -> sp_hdr_len s2 <= blen b ->
       exists x, run_getter (ldqE E) (stqE E) cfg (u_tables u1) g1 (Some b) p1 = Ok x /\
                 run_getter (ldqE E) (stqE E) cfg (u_tables u2) g2 (Some b) p2 = Ok x) /\
    (* writes: any two access paths leave the same bits in buffers of the same length *)
    (forall u1 t1 pf1 u2 t2 pf2, In (u1, t1, pf1) (writers_of s1 f1) -> In (u2, t2, pf2) (writers_of s2 f2) ->
     forall b v, sp_hdr_len s1 <= blen b -> sp_hdr_len s2 <= blen b ->
       exists b1 b2,
         run_setter (ldqE E) (stqE E) cfg (u_tables u1) t1 (Some b) (pf1 v) = Ok (Some b1) /\
         run_setter (ldqE E) (stqE E) cfg (u_tables u2) t2 (Some b) (pf2 v) = Ok (Some b2) /\
         List.length b1 = List.length b2 /\ (forall i, bit_at b1 i = bit_at b2 i) /\
         (* and a value written through one view is read back through the other *)
         (forall u g p, In (u, g, p) (readers_of s2 f2) ->
            run_getter (ldqE E) (stqE E) cfg (u_tables u) g (Some b1) p = Ok (v mod 2 ^ sf_width f2))).

Lemma nonempty_len {A} (l:list A) : negb (Nat.eqb (List.length l) 0) = true -> l <> [].
Proof. destruct l; cbn; [discriminate|intros _ H; discriminate]. Qed.

Lemma pair_agrees E v1 v2 : view_ok v1 = true -> view_ok v2 = true -> same_place v1 v2 = true -> views_agree E v1 v2.
Proof.
  unfold view_ok, same_place. intros H1 H2 Hp.
  destruct (view_field all_specs v1) as [[s1 f1]|] eqn:E1; [|discriminate].
  destruct (view_field all_specs v2) as [[s2 f2]|] eqn:E2; [|discriminate].
  apply andb_true_iff in H1, H2, Hp. destruct H1 as [H1r H1w]. destruct H2 as [H2r H2w]. destruct Hp as [Hf Hw].
  apply N.eqb_eq in Hf, Hw.
  destruct (view_field_in _ _ _ E1) as [Hs1 Hf1]. destruct (view_field_in _ _ _ E2) as [Hs2 Hf2].
  exists s1, f1, s2, f2. split; [exact E1|]. split; [exact E2|].
  split; [apply nonempty_len; assumption|]. split; [apply nonempty_len; assumption|].
  split; [apply nonempty_len; assumption|]. split; [apply nonempty_len; assumption|]. split.
  - intros u1 g1 p1 u2 g2 p2 Hi1 Hi2 b Hb1 Hb2. exists (spec_extract b (sf_first f1) (sf_width f1)). split.
    + apply (readers_read E s1 f1 Hs1 Hf1 _ _ _ Hi1 b Hb1).
    + rewrite Hf, Hw. apply (readers_read E s2 f2 Hs2 Hf2 _ _ _ Hi2 b Hb2).
  - intros u1 t1 pf1 u2 t2 pf2 Hi1 Hi2 b v Hb1 Hb2.
    destruct (writers_write E s1 f1 Hs1 Hf1 _ _ _ Hi1 b v Hb1) as [b1 [Hr1 [HL1 [Hbits1 Ht1]]]].
    destruct (writers_write E s2 f2 Hs2 Hf2 _ _ _ Hi2 b v Hb2) as [b2 [Hr2 [HL2 [Hbits2 Ht2]]]].
    exists b1, b2. split; [exact Hr1|]. split; [exact Hr2|]. split; [congruence|]. split.
    + intros i. rewrite Hbits1, Hbits2, Hf, Hw. reflexivity.
    + intros u g p Hi.
      assert (Hb1' : sp_hdr_len s2 <= blen b1) by (unfold blen in *; rewrite HL1; exact Hb2).
      rewrite (readers_read E s2 f2 Hs2 Hf2 _ _ _ Hi b1 Hb1'). f_equal.
      (* the bits of b1 are those of the reference insert *)
      rewrite (spec_extract_ext b1 (spec_insert b (sf_first f1) (sf_width f1) v)) by (intros; apply Hbits1).
      rewrite Hf, Hw. apply extract_insert.
      (* the field lies inside the header of format 2 *)
      pose proof (field_inside s2 f2 Hs2 Hf2) as Hin. lia.
Qed.

Lemma group_members_agree E g v1 v2 : In g view_groups -> In v1 g -> In v2 g -> views_agree E v1 v2.
Proof.
  intros Hg H1 H2. pose proof groups_ok as H. rewrite forallb_forall in H. specialize (H g Hg).
  unfold group_ok in H. apply andb_true_iff in H. destruct H as [H _]. apply andb_true_iff in H. destruct H as [Hv Hp].
  rewrite forallb_forall in Hv, Hp. specialize (Hp v1 H1). rewrite forallb_forall in Hp.
  apply pair_agrees; auto.
Qed.
