(* Model of Avtp_GetField / Avtp_SetField (src/avtp/Utils.c), statement by
   statement, generic in the machine-word type so that the same text runs on
   numbers (the executable model, extracted for the correspondence check) and
   on symbolic words (the proof sweep).

   C integer semantics are explicit: masks and chunks are truncated to 32 bits,
   the accumulated result to 64 bits, and the quadlet index to [qw] bits, the
   width of the C variable that holds it (read from the source by the
   translator).  The model's domain is the set of descriptors accepted by
   IsFieldDescriptorValid (offset <= 31, bits <= 64); outside it the model
   answers None ("not modelled"). *)
From Coq Require Import List NArith Bool.
From O1722 Require Import Sym Bits.
Import ListNotations.
Local Open Scope N_scope.

Record desc := mkdesc { dq:N; doff:N; dbits:N }.
Definition desc_valid (d:desc) : bool := (doff d <=? 31) && (dbits d <=? 64).

Section Loops.
  Variables W M : Type.
  Record Ops := {
    o_and : W -> W -> W;
    o_or : W -> W -> W;
    o_shl : nat -> W -> N -> W;      (* shift left, result truncated to the width *)
    o_shr : nat -> W -> N -> W;      (* logical shift right, result truncated *)
    o_resize : nat -> W -> W;        (* conversion to an unsigned type of the width *)
    o_const : nat -> N -> W;
    o_ld : M -> N -> W;              (* load quadlet number (descriptor quadlet + k), host order after BeToCpu32 *)
    o_st : M -> N -> W -> M          (* CpuToBe32 then store to that quadlet *)
  }.
  Variable ops : Ops.

  Definition chunk_bits (d:desc) (pr:N) : N :=
    if pr =? 0 then N.min (32 - doff d) (dbits d - pr) else N.min 32 (dbits d - pr).
  Definition chunk_shift (d:desc) (pr:N) : N :=
    if pr =? 0 then 32 - chunk_bits d pr - doff d else 32 - chunk_bits d pr.
  (* ((1ULL << quadletBits) - 1ULL) << quadletShift, then converted to uint32_t *)
  Definition chunk_mask (d:desc) (pr:N) : N := N.shiftl (N.ones (chunk_bits d pr)) (chunk_shift d pr).

  (* while (processedBits < bits) { ... }  of Avtp_GetField; k = quadletOffset.
     Returns the result and the list of quadlet offsets loaded, in order. *)
  Fixpoint get_loop (fuel:nat) (d:desc) (m:M) (k pr:N) (res:W) (tr:list N) : option (W * list N) :=
    if pr <? dbits d then
      match fuel with
      | O => None
      | S f =>
        let qbits := chunk_bits d pr in
        let qshift := chunk_shift d pr in
        let mask := o_const ops 32 (chunk_mask d pr) in
        let qho := o_ld ops m k in
        let partial := o_shr ops 32 (o_and ops qho mask) qshift in
        let res' := o_or ops res (o_shl ops 64 (o_resize ops 64 partial) (dbits d - pr - qbits)) in
        get_loop f d m ((k + 1) mod 256) ((pr + qbits) mod 256) res' (tr ++ [k])
      end
    else Some (res, tr).

  (* the loop of Avtp_SetField; returns the memory and the quadlet offsets stored *)
  Fixpoint set_loop (fuel:nat) (d:desc) (value:W) (m:M) (k pr:N) (tr:list N) : option (M * list N) :=
    if pr <? dbits d then
      match fuel with
      | O => None
      | S f =>
        let qbits := chunk_bits d pr in
        let qshift := chunk_shift d pr in
        let partial := o_resize ops 32 (o_shr ops 64 value (dbits d - pr - qbits)) in
        let mask := o_const ops 32 (chunk_mask d pr) in
        let nmask := o_const ops 32 (N.lxor (chunk_mask d pr mod 2^32) (N.ones 32)) in
        let qho := o_ld ops m k in
        (* the assignment back to the uint32_t variable truncates *)
        let new := o_resize ops 32
                     (o_or ops (o_and ops qho nmask) (o_and ops (o_shl ops 32 partial qshift) mask)) in
        set_loop f d value (o_st ops m k new) ((k + 1) mod 256) ((pr + qbits) mod 256) (tr ++ [k])
      end
    else Some (m, tr).
End Loops.
Arguments o_and {W M}. Arguments o_or {W M}. Arguments o_shl {W M}. Arguments o_shr {W M}.
Arguments o_resize {W M}. Arguments o_const {W M}. Arguments o_ld {W M}. Arguments o_st {W M}.
Arguments get_loop {W M}. Arguments set_loop {W M}.

(* quadlet index as the C code computes it: descriptor quadlet + offset,
   converted to the qw-bit type of the variable that holds it *)
Definition qid (qw:N) (d:desc) (k:N) : N := (dq d + k) mod 2^qw.

(* ---------- concrete instance: numbers over a byte buffer ---------- *)
Section Concrete.
  (* ldq b q : *(uint32_t* )(pdu + 4q) passed through BeToCpu32
     stq b q v : store of CpuToBe32(v) to the same place.
     Both depend on the host byte order and the helper set; they are
     parameters here and instantiated in Host.v. *)
  Variable ldq : buf -> N -> N.
  Variable stq : buf -> N -> N -> buf.
  Variable qw : N.

  Definition opsN (d:desc) : Ops N buf := {|
    o_and := N.land; o_or := N.lor;
    o_shl := fun w x k => N.shiftl x k mod 2^(N.of_nat w);
    o_shr := fun w x k => N.shiftr x k mod 2^(N.of_nat w);
    o_resize := fun w x => x mod 2^(N.of_nat w);
    o_const := fun w n => n mod 2^(N.of_nat w);
    o_ld := fun b k => ldq b (qid qw d k);
    o_st := fun b k v => stq b (qid qw d k) v |}.

  Definition fuel0 : nat := 4.

  (* value and quadlet ids read *)
  Definition get_desc (d:desc) (b:buf) : option (N * list N) :=
    if desc_valid d then
      match get_loop (opsN d) fuel0 d b 0 0 0 [] with
      | Some (r, tr) => Some (r, map (qid qw d) tr)
      | None => None
      end
    else None.

  Definition set_desc (d:desc) (b:buf) (v:N) : option (buf * list N) :=
    if desc_valid d then
      match set_loop (opsN d) fuel0 d (v mod 2^64) b 0 0 [] with
      | Some (b', tr) => Some (b', map (qid qw d) tr)
      | None => None
      end
    else None.
End Concrete.

(* ---------- outcome of an operation on a PDU buffer ---------- *)
Inductive outcome (A:Type) :=
| Ok (a:A)              (* returned normally *)
| OOB (q:N)             (* accessed quadlet q, which is not inside the buffer *)
| Unmodelled.           (* outside the model's domain *)
Arguments Ok {A}. Arguments OOB {A}. Arguments Unmodelled {A}.

Definition first_oob (b:buf) (tr:list N) : option N :=
  find (fun q => negb (4 * q + 4 <=? blen b)) tr.

Section Field.
  Variable ldq : buf -> N -> N.
  Variable stq : buf -> N -> N -> buf.
  Variable qw : N.

  (* read / write through one descriptor on a non-null PDU *)
  Definition get_via (d:desc) (b:buf) : outcome N :=
    match get_desc ldq stq qw d b with
    | None => Unmodelled
    | Some (v, tr) => match first_oob b tr with Some q => OOB q | None => Ok v end
    end.
  Definition set_via (d:desc) (b:buf) (v:N) : outcome buf :=
    match set_desc ldq stq qw d b v with
    | None => Unmodelled
    | Some (b', tr) => match first_oob b tr with Some q => OOB q | None => Ok b' end
    end.
End Field.

(* ---------- symbolic instance ---------- *)
Definition smem := list (N * word).
Fixpoint mget (m:smem) (k:N) (dflt:word) : word :=
  match m with [] => dflt | (k',v)::m' => if k' =? k then v else mget m' k dflt end.
(* variable numbering: bit b (LSB = 0) of the quadlet at offset k is 2*(32k+b);
   bit i of the value being written is 2*i+1 *)
Definition memvar (k:N) (b:N) : N := 2 * (32 * k + b).
Definition valvar (i:N) : N := 2 * i + 1.
Definition symq (k:N) : word := w_varsf 32 (fun b => memvar k (N.of_nat b)).
Definition symv : word := w_varsf 64 (fun i => valvar (N.of_nat i)).

Definition opsS : Ops word smem := {|
  o_and := w_and; o_or := w_or;
  o_shl := fun w x k => w_shl w x (N.to_nat k);
  o_shr := fun w x k => w_shr w x (N.to_nat k);
  o_resize := w_resize;
  o_const := w_const;
  o_ld := fun m k => mget m k (symq k);
  o_st := fun m k v => (k, v) :: m |}.

(* number of quadlets a valid descriptor spans *)
Definition nquad (d:desc) : N := if dbits d =? 0 then 0 else (doff d + dbits d + 31) / 32.
Definition qoffs (d:desc) : list N := map N.of_nat (seq 0 (N.to_nat (nquad d))).

(* expected symbolic result of a read: bit i of the value *)
Definition exp_get (d:desc) : word :=
  map (fun i => let i := N.of_nat i in
         if i <? dbits d then
           let j := doff d + dbits d - 1 - i in SV (memvar (j / 32) (31 - j mod 32))
         else S0) (seq 0 64).
(* expected new content of the quadlet at offset k after a write *)
Definition exp_set (d:desc) (k:N) : word :=
  map (fun b => let b := N.of_nat b in
         let j := 32 * k + 31 - b in
         if (doff d <=? j) && (j <? doff d + dbits d)
         then SV (valvar (doff d + dbits d - 1 - j)) else SV (memvar k b)) (seq 0 32).

Definition list_eqb (a b:list N) : bool :=
  Nat.eqb (length a) (length b) && forallb (fun p => fst p =? snd p) (combine a b).

Definition check_get (o w:N) : bool :=
  let d := mkdesc 0 o w in
  match get_loop opsS 4 d [] 0 0 (zeros 64) [] with
  | Some (r, tr) => weqb r (exp_get d) && list_eqb tr (qoffs d)
  | None => false
  end.
Definition check_set (o w:N) : bool :=
  let d := mkdesc 0 o w in
  match set_loop opsS 4 d symv [] 0 0 [] with
  | Some (m, tr) =>
      list_eqb tr (qoffs d) &&
      forallb (fun k => weqb (mget m k (symq k)) (exp_set d k)) (qoffs d)
  | None => false
  end.
Definition shapes : list (N * N) :=
  flat_map (fun o => map (fun w => (N.of_nat o, N.of_nat w)) (seq 0 65)) (seq 0 32).
