(* C08: VSS decoding inverts encoding and honours the length-query convention. *)
From Coq Require Import List NArith ZArith Bool Lia Arith ZifyN ZifyNat ZifyBool.
From O1722 Require Import Sym Bits Host FieldModel Spec SpecProofs AccModel NormalProofs ByteLemmas Paths VssModel VssSpec
  C13Proofs C01Proofs FieldOpsProofs C09Proofs C10Proofs C07Proofs.
From O1722.Generated Require Import Tables.
Import ListNotations.
Local Open Scope N_scope.

Notation normal := SpecProofs.normal.

(* values that the encoding can carry: scalars and elements fit their width *)
Definition value_fits (d:rdata) : Prop :=
  match d with
  | RScalar w v => v < 2 ^ (8 * N.of_nat w)
  | RElems w es => Forall (fun e => e < 2 ^ (8 * N.of_nat w)) es
  | _ => True
  end.
Definition id_fits (p:rpath) : Prop := match p with RStatic id => id < 2 ^ 32 | RInterop _ => True end.

(* what the decoder hands back for a value, given the destination the caller supplied *)
Definition decoded (d:rdata) (dst:option N) : gdata :=
  match d with
  | RScalar _ v => GScalar v
  | RBytes bytes => GBytes (N.of_nat (length bytes)) (match dst with None => None | Some _ => Some (map (fun x => x mod 256) bytes) end)
  | RElems w es => GElems (N.of_nat (w * length es)) (match dst with None => None | Some _ => Some es end)
  | RStrings strs => GBytes (N.of_nat (length (enc_strings strs))) (match dst with None => None | Some _ => Some (enc_strings strs) end)
  end.
Definition dst_ok (d:rdata) (dst:option N) : Prop :=
  match dst with
  | None => True
  | Some cap => match d with
                | RScalar _ _ => True
                | RBytes bytes => N.of_nat (length bytes) <= cap
                | RElems w es => N.of_nat (w * length es) <= cap
                | RStrings strs => N.of_nat (length (enc_strings strs)) <= cap
                end
  end.

Section Dec.
  Variable E : endian.
  Notation LD := (ldqE E). Notation ST := (stqE E). Notation LDW := (ldwE E). Notation STW := (stwE E).

  Lemma ld_mid w (pre post:list N) v : v < 2 ^ (8 * N.of_nat (wbytes w)) ->
    ld LDW w (pre ++ be_bytes (wbytes w) v ++ post) (N.of_nat (length pre)) = Ok v.
  Proof.
    intros Hv. unfold ld.
    replace (N.of_nat (length pre) + N.of_nat (wbytes w) <=? blen (pre ++ be_bytes (wbytes w) v ++ post)) with true
      by (symmetry; apply N.leb_le; unfold blen; rewrite !app_length, length_be_bytes; lia).
    rewrite ldwE_wire. rewrite be_read_mid by exact Hv. reflexivity.
  Qed.
  Lemma cpy_out_mid (pre mid post:list N) cap : N.of_nat (length mid) <= cap ->
    cpy_out (pre ++ mid ++ post) (N.of_nat (length pre)) (N.of_nat (length mid)) cap = Ok (map (fun x => x mod 256) mid).
  Proof.
    intros Hc. unfold cpy_out.
    replace ((N.of_nat (length pre) + N.of_nat (length mid) <=? blen (pre ++ mid ++ post)) && (N.of_nat (length mid) <=? cap)) with true
      by (symmetry; apply andb_true_iff; split; apply N.leb_le; [unfold blen; rewrite !app_length; lia|exact Hc]).
    rewrite slice_fast_eq, Nat2N.id, slice_app_mid. reflexivity.
  Qed.

  Lemma cpy_out_at (pre mid post:list N) a n cap : a = N.of_nat (length pre) -> n = N.of_nat (length mid) -> n <= cap ->
    cpy_out (pre ++ mid ++ post) a n cap = Ok (map (fun x => x mod 256) mid).
  Proof. intros -> -> Hc. apply cpy_out_mid. exact Hc. Qed.

  (* ---------- path ---------- *)
  Theorem calc_exact hdr p rest : length hdr = 12%nat -> path_ok p -> hdr_mode (hdr ++ enc_path p ++ rest) = path_mode p ->
    vss_calc_path_len LDW LD ST (hdr ++ enc_path p ++ rest) = Ok (N.of_nat (length (enc_path p))).
  Proof.
    intros Hh Hp Hm. unfold vss_calc_path_len.
    rewrite mode_exact by (unfold blen; rewrite !app_length, length_enc_path; destruct p; lia). cbn [bind]. rewrite Hm.
    rewrite length_enc_path. destruct p as [id|path]; cbn [path_mode N.eqb enc_path]; [reflexivity|].
    unfold VHDR. replace 12 with (N.of_nat (length hdr)) by lia. unfold be16. rewrite <- !app_assoc.
    cbn [path_ok] in Hp. rewrite (ld_mid W16) by (cbn [wbytes]; change (8 * N.of_nat 2) with 16; lia).
    cbn [bind]. rewrite N.mod_small by lia. f_equal. lia.
  Qed.

  Theorem get_path_exact hdr p rest cap : length hdr = 12%nat -> path_ok p -> id_fits p ->
    hdr_mode (hdr ++ enc_path p ++ rest) = path_mode p ->
    (match p with RStatic _ => True | RInterop path => N.of_nat (length path) <= cap end) ->
    vss_get_path LDW LD ST (hdr ++ enc_path p ++ rest) cap =
      Ok (match p with RStatic id => GStatic id | RInterop path => GInterop (N.of_nat (length path)) (map (fun x => x mod 256) path) end).
  Proof.
    intros Hh Hp Hid Hm Hcap. unfold vss_get_path.
    rewrite mode_exact by (unfold blen; rewrite !app_length, length_enc_path; destruct p; lia). cbn [bind]. rewrite Hm.
    destruct p as [id|path]; cbn [path_mode N.eqb enc_path id_fits path_ok] in *.
    - unfold VHDR. replace 12 with (N.of_nat (length hdr)) by lia.
      rewrite (ld_mid W32) by (cbn [wbytes]; change (8 * N.of_nat 4) with 32; exact Hid). reflexivity.
    - unfold VHDR. replace 12 with (N.of_nat (length hdr)) by lia. unfold be16. rewrite <- !app_assoc.
      rewrite (ld_mid W16) by (cbn [wbytes]; change (8 * N.of_nat 2) with 16; lia). cbn [bind].
      cbn [wbytes].
      rewrite (app_assoc hdr (be_bytes 2 (N.of_nat (length path)))).
      rewrite (cpy_out_at (hdr ++ be_bytes 2 (N.of_nat (length path))) (map (fun x => x mod 256) path) rest)
        by (first [rewrite app_length, length_be_bytes; lia | rewrite map_length; reflexivity | exact Hcap]).
      cbn [bind]. f_equal. f_equal.
      rewrite map_map. apply map_ext. intros x. apply N.mod_mod. lia.
  Qed.

  (* ---------- element arrays ---------- *)
  Lemma load_elems_exact w : forall rest done pre post fuel cap acc, (length rest <= fuel)%nat ->
    Forall (fun e => e < 2 ^ (8 * N.of_nat (wbytes w))) rest ->
    N.of_nat (wbytes w * (length done + length rest)) <= cap ->
    load_elems LDW w fuel (pre ++ List.concat (map (be_bytes (wbytes w)) (done ++ rest)) ++ post) (N.of_nat (length pre))
               (N.of_nat (length done)) (N.of_nat (length done + length rest)) cap acc = Ok (acc ++ rest).
  Proof.
    induction rest as [|v r IH]; intros done pre post fuel cap acc Hf Hfit Hcap.
    - cbn [length]. rewrite Nat.add_0_r. destruct fuel; cbn [load_elems]; rewrite N.ltb_irrefl, app_nil_r; reflexivity.
    - destruct fuel as [|f]; [cbn in Hf; lia|]. cbn [load_elems length] in *. inversion Hfit as [|? ? Hv Hr]; subst.
      replace (N.of_nat (length done) <? N.of_nat (length done + S (length r))) with true by (symmetry; apply N.ltb_lt; lia).
      replace ((N.of_nat (length done) + 1) * N.of_nat (wbytes w) <=? cap) with true by (symmetry; apply N.leb_le; lia).
      (* the element sits behind pre and the encodings of the elements already read *)
      set (pre' := pre ++ List.concat (map (be_bytes (wbytes w)) done)).
      assert (Hpre' : N.of_nat (length pre') = N.of_nat (length pre) + N.of_nat (length done) * N.of_nat (wbytes w))
        by (unfold pre'; rewrite app_length, length_concat_be; lia).
      assert (Hm : pre ++ List.concat (map (be_bytes (wbytes w)) (done ++ v :: r)) ++ post =
                   pre' ++ be_bytes (wbytes w) v ++ (List.concat (map (be_bytes (wbytes w)) r) ++ post)).
      { unfold pre'. rewrite map_app, concat_app. cbn [map List.concat]. rewrite <- !app_assoc. reflexivity. }
      rewrite <- Hpre'. rewrite Hm at 1. rewrite ld_mid by exact Hv. cbn [bind].
      replace (N.of_nat (length done) + 1) with (N.of_nat (length (done ++ [v]))) by (rewrite app_length; cbn [length]; lia).
      replace (N.of_nat (length done + S (length r))) with (N.of_nat (length (done ++ [v]) + length r)) by (rewrite app_length; cbn [length]; lia).
      replace (done ++ v :: r) with ((done ++ [v]) ++ r) by (rewrite <- app_assoc; reflexivity).
      rewrite IH by (first [lia | assumption | rewrite app_length; cbn [length]; lia]).
      rewrite <- app_assoc. reflexivity.
  Qed.

  (* ---------- data ---------- *)
  Theorem get_data_exact hdr p d post dst : length hdr = 12%nat -> path_ok p ->
    let m := hdr ++ enc_path p ++ enc_data d ++ post in
    hdr_mode m = path_mode p -> data_ok (hdr_datatype m) d -> value_fits d -> dst_ok d dst ->
    vss_get_data LDW LD ST m dst = Ok (decoded d dst).
  Proof.
    intros Hh Hp m Hm Hd Hv Hdst. unfold vss_get_data.
    unfold m at 1. rewrite (calc_exact hdr p (enc_data d ++ post) Hh Hp Hm). cbn [bind].
    assert (Hbm : 12 <= blen m) by (unfold m, blen; rewrite !app_length; lia).
    rewrite dtype_exact by exact Hbm. cbn [bind]. unfold VHDR.
    set (pre := hdr ++ enc_path p).
    assert (Hpre : N.of_nat (length pre) = 12 + N.of_nat (length (enc_path p))) by (unfold pre; rewrite app_length; lia).
    assert (Hmm : m = pre ++ enc_data d ++ post) by (unfold m, pre; rewrite <- !app_assoc; reflexivity).
    rewrite <- Hpre.
    destruct d as [w v|bytes|w es|strs]; cbn [data_ok decoded enc_data value_fits dst_ok] in *.
    - destruct (vss_kind (hdr_datatype m)) as [[|hw]| | |] eqn:Ek; try (destruct w as [|[|?]]; contradiction).
      + destruct w as [|[|?]]; try contradiction.
        replace (N.of_nat (length pre) + 1 <=? blen m) with true
          by (symmetry; apply N.leb_le; rewrite Hmm; unfold blen; rewrite !app_length, length_be_bytes; lia).
        f_equal. f_equal. rewrite Hmm. change (be_bytes 1 v) with [v mod 256].
        unfold byte_at, nthN. rewrite Nat2N.id. rewrite app_nth2 by lia. rewrite Nat.sub_diag. cbn [app nth].
        rewrite N.mod_mod by lia. apply N.mod_small. change (8 * N.of_nat 1) with 8 in Hv. exact Hv.
      + assert (Hw : w = wbytes hw) by (destruct w as [|[|?]]; exact Hd). subst w.
        rewrite Hmm. rewrite ld_mid by exact Hv. reflexivity.
    - destruct (vss_kind (hdr_datatype m)) as [[|hw]| | |] eqn:Ek; try contradiction.
      rewrite Hmm. unfold be16. rewrite <- !app_assoc.
      rewrite (ld_mid W16) by (cbn [wbytes]; change (8 * N.of_nat 2) with 16; exact Hd). cbn [bind].
      destruct dst as [cap|]; [|reflexivity].
      cbn [wbytes].
      rewrite (app_assoc pre (be_bytes 2 (N.of_nat (length bytes)))).
      rewrite (cpy_out_at (pre ++ be_bytes 2 (N.of_nat (length bytes))) (map (fun x => x mod 256) bytes) post)
        by (first [rewrite app_length, length_be_bytes; lia | rewrite map_length; reflexivity | exact Hdst]).
      cbn [bind]. f_equal. f_equal. f_equal.
      rewrite map_map. apply map_ext. intros x. apply N.mod_mod. lia.
    - destruct (vss_kind (hdr_datatype m)) as [[|hw0]| |hw|] eqn:Ek; try contradiction. destruct Hd as [-> Hlen].
      rewrite Hmm. unfold be16. rewrite <- !app_assoc.
      rewrite (ld_mid W16) by (cbn [wbytes]; change (8 * N.of_nat 2) with 16; exact Hlen). cbn [bind].
      destruct dst as [cap|]; [|reflexivity].
      assert (Hdiv : N.of_nat (wbytes hw * length es) / N.of_nat (wbytes hw) = N.of_nat (length es)).
      { replace (N.of_nat (wbytes hw * length es)) with (N.of_nat (length es) * N.of_nat (wbytes hw)) by lia.
        apply N.div_mul. destruct hw; cbn; lia. }
      rewrite Hdiv.
      cbn [wbytes].
      rewrite (app_assoc pre (be_bytes 2 (N.of_nat (wbytes hw * length es)))).
      set (pre2 := pre ++ be_bytes 2 (N.of_nat (wbytes hw * length es))).
      replace (N.of_nat (length pre) + 2) with (N.of_nat (length pre2)) by (unfold pre2; rewrite app_length, length_be_bytes; lia).
      pose proof (load_elems_exact hw es [] pre2 post (S (N.to_nat (N.of_nat (wbytes hw * length es)))) cap []) as Hl.
      cbn [length Nat.add app] in Hl. change (N.of_nat 0) with 0 in Hl.
      rewrite Hl; [reflexivity|destruct hw; cbn [wbytes]; lia|exact Hv|exact Hdst].
    - destruct (vss_kind (hdr_datatype m)) as [[|hw]| | |] eqn:Ek; try contradiction. destruct Hd as [_ Hlen].
      rewrite Hmm. unfold be16. rewrite <- !app_assoc.
      rewrite (ld_mid W16) by (cbn [wbytes]; change (8 * N.of_nat 2) with 16; exact Hlen). cbn [bind].
      destruct dst as [cap|]; [|reflexivity].
      cbn [wbytes].
      rewrite (app_assoc pre (be_bytes 2 (N.of_nat (length (enc_strings strs))))).
      rewrite (cpy_out_at (pre ++ be_bytes 2 (N.of_nat (length (enc_strings strs)))) (enc_strings strs) post)
        by (first [rewrite app_length, length_be_bytes; lia | reflexivity | exact Hdst]).
      cbn [bind]. rewrite map_mod_normal by apply normal_enc_strings. reflexivity.
  Qed.
End Dec.
