(* C02 - field writes store the value in exactly the field's bits and nowhere else. *)
From Coq Require Import List NArith String Bool.
From O1722 Require Import Bits Host FieldModel Spec SpecProofs AccModel AccProofs FormatChecks C13Proofs C01Proofs.
From O1722.Generated Require Import Tables.
Import ListNotations.
Local Open Scope N_scope.

(* the generic writer, for every accepted descriptor, start quadlet 0..255, prior content and
   value (any N; the C parameter takes it mod 2^64): same length, bytes of untouched quadlets
   literally unchanged, every bit equal to the reference "insert v mod 2^width" *)
Theorem C02_generic : forall E d b v,
  desc_valid d = true -> dq d <= 255 -> dextent d <= blen b ->
  exists b', set_via (ldqE E) (stqE E) (qw_set cfg) d b v = Ok b' /\
    List.length b' = List.length b /\
    (forall j, ~ (dq d <= j / 4 < dq d + nquad d) -> nthN b' j = nthN b j) /\
    (forall i, bit_at b' i = bit_at (spec_insert b (dfirst d) (dbits d) v) i).
Proof. exact generic_write. Qed.

(* every named field of every format, through the by-identifier writer (any v) and through the
   dedicated setter (its parameter type is at least as wide as the field): exactly the field's
   bits change, header and everything behind it otherwise untouched *)
Theorem C02_fields : forall E s f, In s all_specs -> In f (sp_fields s) -> setters_correct E s f.
Proof. exact fields_written. Qed.

(* meaning of the reference write, bit by bit *)
Theorem C02_reference_bits : forall b first w v i,
  bit_at (spec_insert b first w v) i =
    if i / 8 <? blen b
    then (if (first <=? i) && (i <? first + w) then N.testbit v (first + w - 1 - i) else bit_at b i)
    else false.
Proof. exact bit_at_spec_insert. Qed.
(* a read immediately after a write returns v mod 2^width *)
Theorem C02_read_after_write : forall b first w v, first + w <= 8 * blen b ->
  spec_extract (spec_insert b first w v) first w = v mod 2 ^ w.
Proof. exact extract_insert. Qed.

Example C02_example :
  exists st, find_setter (u_setters u_Can) "Avtp_Can_SetCanIdentifier" = Some st /\
    run_setter (ldqE BE) (stqE BE) cfg (u_tables u_Can) st
      (Some [0xff;0xff;0xff;0xff; 0;0;0;0; 0;0;0;0; 0xff;0xff;0xff;0xff; 0xaa]) [0; 0x12345678]
    = Ok (Some [0xff;0xff;0xff;0xff; 0;0;0;0; 0;0;0;0; 0xf2;0x34;0x56;0x78; 0xaa]).
Proof. eexists. split; [reflexivity|]. vm_compute. reflexivity. Qed.
