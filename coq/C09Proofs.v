(* C09: VSS finalisation pads to a quadlet and records length and pad correctly. *)
From Coq Require Import List NArith ZArith Bool Lia Arith String ZifyN ZifyNat ZifyBool.
From O1722 Require Import Sym Bits Host FieldModel FieldProofs Spec SpecProofs RecordTheory AccModel AccProofs FormatChecks
  NormalProofs ByteLemmas Paths VssModel VssSpec C13Proofs C01Proofs C17Proofs C12Proofs C05Proofs FieldOpsProofs C06Proofs.
From O1722.Generated Require Import Tables.
Import ListNotations.
Local Open Scope N_scope.
Local Open Scope string_scope.
Ltac Zify.zify_post_hook ::= Z.div_mod_to_equations.

Notation normal := SpecProofs.normal.
Notation VS := spec_Vss.
Definition LEN := "AVTP_VSS_FIELD_ACF_MSG_LENGTH".
Definition PAD := "AVTP_VSS_FIELD_PAD".

(* facts about the regenerated code and the reference layout *)
Lemma pad_scale_one : vss_pad_scale = 1%N.
Proof. reflexivity. Qed.
Lemma vss_in : In VS all_specs. Proof. cbn. tauto. Qed.
Lemma vss_names_ok : name_ok VS LEN = true /\ name_ok VS PAD = true /\
  name_ok VS "AVTP_VSS_FIELD_ADDR_MODE" = true /\ name_ok VS "AVTP_VSS_FIELD_VSS_DATATYPE" = true.
Proof. vm_compute. repeat split. Qed.
Lemma vss_layout : sp_hdr_len VS = 12%N /\
  ref_covers VS LEN = (fun i => (7 <=? i) && (i <? 16))%N /\ ref_covers VS PAD = (fun i => (16 <=? i) && (i <? 18))%N.
Proof. repeat split. Qed.

Section Pad.
  Variable E : endian.
  Notation LD := (ldqE E). Notation ST := (stqE E).

  (* the finaliser is the reference pad, for every message length the 16-bit parameter can carry (>= header) *)
  Theorem pad_exact b n :
    let pad := ((4 - n mod 4) mod 4)%N in
    normal b -> (12 <= n)%N -> (n < 2 ^ 16)%N -> (n + pad <= blen b)%N ->
    vss_pad LD ST b n = Ok (vss_pad_ref b n).
  Proof.
    intros pad Hn Hlo Hhi Hb. destruct vss_names_ok as [HL [HP _]].
    unfold vss_pad, vss_pad_ref. fold pad. rewrite pad_scale_one, N.mul_1_l.
    rewrite (N.mod_small n) by exact Hhi.
    assert (Hp4 : (pad < 4)%N) by (unfold pad; apply N.mod_lt; lia).
    rewrite (N.mod_small pad) by (change (2 ^ 8)%N with 256%N; lia).
    change (1 =? 0)%N with false. cbn [negb andb].
    destruct (N.eqb_spec (n mod 4) 0) as [Hz|Hnz]; cbn [negb].
    - assert (Hp0 : pad = 0%N) by (unfold pad; rewrite Hz; reflexivity).
      cbn [bind]. rewrite Hp0. cbn [N.to_nat repeat]. rewrite upd_nil by lia.
      change (fsetf LD ST VS "AVTP_VSS_FIELD_ACF_MSG_LENGTH") with (fsetf LD ST VS LEN).
      rewrite (fsetf_exact E VS vss_in LEN _ b HL Hn) by (change (sp_hdr_len VS) with 12%N; lia). cbn [bind].
      change (fsetf LD ST VS "AVTP_VSS_FIELD_PAD") with (fsetf LD ST VS PAD).
      rewrite (fsetf_exact E VS vss_in PAD) by (first [exact HP | apply FieldOpsProofs.normal_ref_set; exact Hn |
        rewrite FieldOpsProofs.blen_ref_set; change (sp_hdr_len VS) with 12%N; lia]).
      reflexivity.
    - replace (n + pad <=? blen b)%N with true by (symmetry; apply N.leb_le; exact Hb).
      cbn [bind].
      set (b1 := upd b n (repeat 0%N (N.to_nat pad))).
      assert (Hn1 : normal b1) by (apply normal_upd; [exact Hn|apply normal_repeat; lia]).
      assert (Hb1 : blen b1 = blen b) by apply blen_upd.
      change (fsetf LD ST VS "AVTP_VSS_FIELD_ACF_MSG_LENGTH") with (fsetf LD ST VS LEN).
      rewrite (fsetf_exact E VS vss_in LEN _ b1 HL Hn1) by (rewrite Hb1; change (sp_hdr_len VS) with 12%N; lia). cbn [bind].
      change (fsetf LD ST VS "AVTP_VSS_FIELD_PAD") with (fsetf LD ST VS PAD).
      rewrite (fsetf_exact E VS vss_in PAD) by (first [exact HP | apply FieldOpsProofs.normal_ref_set; exact Hn1 |
        rewrite FieldOpsProofs.blen_ref_set, Hb1; change (sp_hdr_len VS) with 12%N; lia]).
      reflexivity.
  Qed.
End Pad.

(* what the reference pad is: length field = ceil(n/4) quadlets, pad field = bytes added, exactly those bytes
   zero, nothing else changed *)
Theorem pad_meaning b n :
  let pad := ((4 - n mod 4) mod 4)%N in
  let r := vss_pad_ref b n in
  normal b -> (12 <= n)%N -> (n + pad <= blen b)%N -> (n + pad < 2048)%N ->
  List.length r = List.length b /\
  ref_get VS LEN r = ((n + 3) / 4)%N /\
  ref_get VS PAD r = pad /\
  (forall i, (i / 8 < 12)%N -> ref_covers VS LEN i = false -> ref_covers VS PAD i = false -> bit_at r i = bit_at b i) /\
  (forall j, (n <= j < n + pad)%N -> nthN r j = 0%N) /\
  (forall j, (12 <= j)%N -> ~ (n <= j < n + pad)%N -> nthN r j = nthN b j).
Proof.
  intros pad r Hn Hlo Hb Hmax. destruct vss_names_ok as [HL [HP _]].
  assert (Hp4 : (pad < 4)%N) by (unfold pad; apply N.mod_lt; lia).
  set (z := repeat 0%N (N.to_nat pad)). set (b1 := upd b n z).
  assert (Hz : N.of_nat (List.length z) = pad) by (unfold z; rewrite repeat_length; lia).
  assert (Hzl : (n + N.of_nat (List.length z) <= blen b)%N) by (rewrite Hz; exact Hb).
  assert (Hn1 : normal b1) by (apply normal_upd; [exact Hn|apply normal_repeat; lia]).
  assert (Hb1 : blen b1 = blen b) by apply blen_upd.
  assert (Hne : LEN <> PAD) by discriminate.
  unfold r, vss_pad_ref. fold pad. fold z. fold b1.
  split; [|split; [|split; [|split; [|split]]]].
  - rewrite !FieldOpsProofs.length_ref_set. apply length_upd.
  - rewrite (ref_get_other VS vss_in LEN PAD) by assumption.
    rewrite (ref_get_same VS vss_in LEN) by (first [assumption | rewrite Hb1; change (sp_hdr_len VS) with 12%N; lia]).
    change (match find_sfield (sp_fields VS) LEN with Some f => sf_width f | None => 0%N end) with 9%N.
    assert (Hq : ((n + pad) / 4 = (n + 3) / 4)%N).
    { unfold pad. pose proof (N.mod_lt n 4 ltac:(lia)).
      assert (n mod 4 = 0 \/ n mod 4 = 1 \/ n mod 4 = 2 \/ n mod 4 = 3)%N as [Hc|[Hc|[Hc|Hc]]] by lia; rewrite Hc; cbn; lia. }
    rewrite Hq. apply N.mod_small. change (2 ^ 9)%N with 512%N. lia.
  - rewrite (ref_get_same VS vss_in PAD) by (first [assumption | rewrite FieldOpsProofs.blen_ref_set, Hb1; change (sp_hdr_len VS) with 12%N; lia]).
    change (match find_sfield (sp_fields VS) PAD with Some f => sf_width f | None => 0%N end) with 2%N.
    apply N.mod_small. change (2 ^ 2)%N with 4%N. exact Hp4.
  - intros i Hi HcL HcP. rewrite !(FieldOpsProofs.bit_ref_set_outside VS) by assumption.
    unfold b1. rewrite (bit_at_upd _ _ _ _ Hzl).
    replace ((n <=? i / 8) && (i / 8 <? n + N.of_nat (List.length z)))%N with false
      by (symmetry; apply andb_false_iff; left; apply N.leb_gt; lia). reflexivity.
  - intros j Hj. rewrite !(ref_set_far VS vss_in) by (first [assumption | apply FieldOpsProofs.normal_ref_set; assumption | change (sp_hdr_len VS) with 12%N; lia]).
    unfold b1. rewrite (nthN_upd _ _ _ _ Hzl).
    replace ((n <=? j) && (j <? n + N.of_nat (List.length z)))%N with true
      by (symmetry; apply andb_true_iff; split; [apply N.leb_le|apply N.ltb_lt]; lia).
    unfold nthN, z. apply nth_repeat.
  - intros j Hj Hout. rewrite !(ref_set_far VS vss_in) by (first [assumption | apply FieldOpsProofs.normal_ref_set; assumption | change (sp_hdr_len VS) with 12%N; lia]).
    unfold b1. rewrite (nthN_upd _ _ _ _ Hzl).
    replace ((n <=? j) && (j <? n + N.of_nat (List.length z)))%N with false; [reflexivity|].
    symmetry. destruct (N.leb_spec n j); destruct (N.ltb_spec j (n + N.of_nat (List.length z))); cbn [andb]; try reflexivity. lia.
Qed.

(* the dedicated length accessors carry every value the 9-bit field can hold *)
Theorem length_accessors E b v : normal b -> (12 <= blen b)%N -> (v < 512)%N ->
  exists b', fsetd (ldqE E) (stqE E) VS LEN v b = Ok b' /\ fgetd (ldqE E) (stqE E) VS LEN b' = Ok v /\
             fgetf (ldqE E) (stqE E) VS LEN b' = Ok v.
Proof.
  intros Hn Hb Hv. destruct vss_names_ok as [HL _].
  exists (ref_set VS LEN v b). split; [apply (fsetd_exact E VS vss_in); assumption|].
  assert (Hb' : (sp_hdr_len VS <= blen (ref_set VS LEN v b))%N) by (rewrite FieldOpsProofs.blen_ref_set; exact Hb).
  rewrite (fgetd_exact E VS vss_in LEN _ HL Hb'), (fgetf_exact E VS vss_in LEN _ HL Hb').
  rewrite (ref_get_same VS vss_in LEN v b HL Hb).
  change (match find_sfield (sp_fields VS) LEN with Some f => sf_width f | None => 0%N end) with 9%N.
  rewrite N.mod_small by (change (2 ^ 9)%N with 512%N; exact Hv). split; reflexivity.
Qed.
