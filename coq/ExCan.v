(* Hand-written model of the example CAN tunnel, statement by statement:
     examples/acf-can/acf-can-listener.c   new_packet (receive path, lines 128-260)
     examples/acf-can/acf-can-talker.c     init_cf_pdu, update_cf_length, prepare_acf_packet and the sending loop of main
   All header reads and writes go through the accessor models generated from the library sources (Paths.fgetd = the
   dedicated getter, Paths.fsetf = Avtp_<Fmt>_SetField), the message builder is CanModel.can_create.
   The receive buffer is pdu[1500]: the received bytes followed by whatever the array held before ([stale]). *)
From Coq Require Import List NArith Bool String.
From O1722 Require Import Bits Host FieldModel Spec AccModel FormatChecks Paths CanModel.
From O1722.Generated Require Import Tables.
Import ListNotations.
Local Open Scope string_scope.
Local Open Scope list_scope.
Local Open Scope N_scope.

Definition MAX_PDU_SIZE : N := 1500.
Definition CAN_EFF_FLAG : N := 0x80000000.
Definition CAN_RTR_FLAG : N := 0x40000000.
Definition CAN_EFF_MASK : N := 0x1FFFFFFF.
Definition CANFD_BRS : N := 1.
Definition CANFD_ESI : N := 2.
Definition CANFD_FDF : N := 4.

(* what happened to a datagram *)
Inductive lstat :=
| XHandled                 (* return 1 *)
| XDropped                 (* return 0: packet ignored, listener goes on *)
| XOob (q:N)               (* a library accessor reached outside pdu[] *)
| XOverflow (n:N)          (* memcpy of n bytes into the 8/64-byte data member of the frame, or out of pdu[] *)
| XDiverged                (* the loop did not end within the fuel *)
| XUnmodelled.
Definition lres := (lstat * list (list N))%type.      (* ..., the frames written to the CAN socket, as bytes *)

(* frame_t after memset: can_id, len, flags and the 64 data bytes (cc.data is fd.data[0..8)) *)
Record fstate := mkfs { fs_id : N; fs_len : N; fs_flags : N; fs_data : list N }.
Definition frame0 : fstate := mkfs 0 0 0 (repeat 0 64%nat).

Definition sub (b:buf) (off:N) : buf := skipn (N.to_nat off) b.

Section Tunnel.
  Variable ldq : buf -> N -> N.
  Variable stq : buf -> N -> N -> buf.
  Variable E : endian.                      (* byte order of can_id in the frame handed to write() / read() *)

  Definition get (s:sformat) (name:string) (pdu:buf) (off:N) : outcome N := fgetd ldq stq s name (sub pdu off).

  (* struct can_frame (16 bytes) / struct canfd_frame (72 bytes) as written *)
  Definition render (fd:bool) (f:fstate) : list N :=
    host_bytes E 4 (fs_id f) ++ [fs_len f mod 256; fs_flags f mod 256; 0; 0] ++ firstn (if fd then 64 else 8)%nat (fs_data f).

  Definition lbind {A} (o:outcome A) (acc:list (list N)) (k:A -> lres) : lres :=
    match o with Ok a => k a | OOB q => (XOob q, rev acc) | Unmodelled => (XUnmodelled, rev acc) end.

  (* while (msg_proc_bytes < msg_length) { ... } *)
  Fixpoint lloop (fuel:nat) (pdu:buf) (fd:bool) (proc msg_length mpb:N) (fr:fstate) (acc:list (list N)) : lres :=
    match fuel with
    | O => (XDiverged, rev acc)
    | S k =>
      if negb (mpb <? msg_length) then (XHandled, rev acc) else
      if msg_length - mpb <? 16 then (XDropped, rev acc) else
      let off := proc + mpb in
      (* is_valid_acf_packet *)
      lbind (get spec_AcfCommon "AVTP_ACF_FIELD_ACF_MSG_TYPE" pdu off) acc (fun mtype =>
      if negb (mtype =? 1) then (XDropped, rev acc) else
      lbind (get spec_Can "AVTP_CAN_FIELD_CAN_IDENTIFIER" pdu off) acc (fun can_id0 =>
      lbind (get spec_Can "AVTP_CAN_FIELD_ACF_MSG_LENGTH" pdu off) acc (fun ql =>
      let acf_msg_length := (ql * 4) mod 2 ^ 16 in
      lbind (can_payload_length ldq stq cf_full (sub pdu off)) acc (fun cpl =>
      let maxp := if fd then 64 else 8 in
      if (acf_msg_length <? 16) || (msg_length - mpb <? acf_msg_length) ||
         (acf_msg_length - 16 <? cpl) || (maxp <? cpl) then (XDropped, rev acc) else
      let mpb' := mpb + acf_msg_length in
      lbind (get spec_Can "AVTP_CAN_FIELD_EFF" pdu off) acc (fun eff =>
      if (eff =? 0) && (0x7FF <? can_id0) then (XDropped, rev acc) else
      let id1 := if eff =? 0 then can_id0 else N.lor can_id0 CAN_EFF_FLAG in
      lbind (get spec_Can "AVTP_CAN_FIELD_RTR" pdu off) acc (fun rtr =>
      let id2 := if rtr =? 0 then id1 else N.lor id1 CAN_RTR_FLAG in
      (* memcpy(frame.*.data, can_payload, can_payload_length) *)
      let copy (fr:fstate) : option (list N) :=
        if (cpl <=? maxp) && (off + 16 + cpl <=? blen pdu)
        then Some (upd (fs_data fr) 0 (slice pdu (off + 16) (N.to_nat cpl))) else None in
      if fd then
        lbind (get spec_Can "AVTP_CAN_FIELD_BRS" pdu off) acc (fun brs =>
        lbind (get spec_Can "AVTP_CAN_FIELD_FDF" pdu off) acc (fun fdf =>
        lbind (get spec_Can "AVTP_CAN_FIELD_ESI" pdu off) acc (fun esi =>
        let fl := N.lor (N.lor (if brs =? 0 then 0 else CANFD_BRS) (if fdf =? 0 then 0 else CANFD_FDF))
                        (if esi =? 0 then 0 else CANFD_ESI) in
        match copy fr with
        | None => (XOverflow cpl, rev acc)
        | Some d => let fr' := mkfs id2 cpl fl d in
                    lloop k pdu fd proc msg_length mpb' fr' (render true fr' :: acc)
        end)))
      else
        match copy fr with
        | None => (XOverflow cpl, rev acc)
        | Some d => let fr' := mkfs id2 cpl (fs_flags fr) d in
                    lloop k pdu fd proc msg_length mpb' fr' (render false fr' :: acc)
        end))))))
    end.

  (* new_packet: [d] the datagram, [stale] the previous contents of pdu[] (MAX_PDU_SIZE bytes) *)
  Definition can_listener (udp fd:bool) (d stale:list N) : lres :=
    let d' := firstn (N.to_nat MAX_PDU_SIZE) d in                 (* recv(sk_fd, pdu, MAX_PDU_SIZE, 0) *)
    let res := N.of_nat (List.length d') in
    let pdu := d' ++ skipn (List.length d') stale in
    if res <? (if udp then 4 else 0) + 12 then (XDropped, []) else
    let proc0 := if udp then 4 else 0 in
    lbind (if udp then get spec_Udp "AVTP_UDP_FIELD_ENCAPSULATION_SEQ_NO" pdu 0 else Ok 0) [] (fun _ =>
    lbind (get spec_CommonHeader "AVTP_COMMON_HEADER_FIELD_SUBTYPE" pdu proc0) [] (fun subtype =>
    if negb ((subtype =? 0x82) || (subtype =? 0x05)) then (XDropped, []) else
    if subtype =? 0x05 then
      if res <? proc0 + 24 then (XDropped, []) else
      lbind (get spec_Tscf "AVTP_TSCF_FIELD_STREAM_DATA_LENGTH" pdu proc0) [] (fun ml =>
      if res - (proc0 + 24) <? ml then (XDropped, []) else
      lloop 2048 pdu fd (proc0 + 24) ml 0 frame0 [])
    else
      lbind (get spec_Ntscf "AVTP_NTSCF_FIELD_NTSCF_DATA_LENGTH" pdu proc0) [] (fun ml =>
      if res - (proc0 + 12) <? ml then (XDropped, []) else
      lloop 2048 pdu fd (proc0 + 12) ml 0 frame0 []))).

  (* ---------------- talker ---------------- *)
  Definition STREAM_ID : N := 0xAABBCCDDEEFF0001.
  Record cframe := mkcf { cf_canid : N; cf_flen : N; cf_fflags : N; cf_fdata : list N }.   (* as read() delivers it *)

  (* an operation on the object that starts [off] bytes into pdu[] *)
  Definition at_off {A} (pdu:buf) (off:N) (f:buf -> outcome (buf * A)) : outcome (buf * A) :=
    bind (f (sub pdu off)) (fun r => Ok (firstn (N.to_nat off) pdu ++ fst r, snd r)).
  Definition only {A} (o:outcome buf) (a:A) : outcome (buf * A) := bind o (fun b => Ok (b, a)).

  Definition finit (s:sformat) (b:buf) : outcome buf :=
    match fmt_unit all_units s with
    | Some (u, _) => match find_init (u_inits u) (sp_init s) with
                     | Some i => match run_init ldq stq cfg u i (Some b) with
                                 | Ok (Some b') => Ok b' | Ok None => Unmodelled | OOB q => OOB q | Unmodelled => Unmodelled end
                     | None => Unmodelled end
    | None => Unmodelled
    end.
  Definition zero (n:N) (b:buf) : outcome buf :=
    if n <=? blen b then Ok (upd b 0 (repeat 0 (N.to_nat n))) else OOB (blen b / 4).
  Fixpoint sets (s:sformat) (l:list (string * N)) (b:buf) : outcome buf :=
    match l with [] => Ok b | (n, v) :: r => bind (fsetf ldq stq s n v b) (sets s r) end.

  (* init_cf_pdu *)
  Definition init_cf (tscf:bool) (seq:N) (b:buf) : outcome (buf * N) :=
    if tscf then
      only (bind (zero 24 b) (fun b1 => bind (finit spec_Tscf b1) (sets spec_Tscf
        [("AVTP_TSCF_FIELD_TU", 0); ("AVTP_TSCF_FIELD_SEQUENCE_NUM", seq); ("AVTP_TSCF_FIELD_STREAM_ID", STREAM_ID)]))) 24
    else
      only (bind (zero 12 b) (fun b1 => bind (finit spec_Ntscf b1) (sets spec_Ntscf
        [("AVTP_NTSCF_FIELD_SEQUENCE_NUM", seq); ("AVTP_NTSCF_FIELD_STREAM_ID", STREAM_ID)]))) 12.

  Definition flag (x m:N) : N := if N.land x m =? 0 then 0 else 1.

  (* prepare_acf_packet; [ts] is the value computed from clock_gettime *)
  Definition prepare_acf (fd:bool) (fr:cframe) (ts:N) (b:buf) : outcome (buf * N) :=
    let can_id := cf_canid fr in
    bind (zero 16 b) (fun b1 =>
    bind (finit spec_Can b1) (fun b2 =>
    bind (sets spec_Can ([("AVTP_CAN_FIELD_MESSAGE_TIMESTAMP", ts); ("AVTP_CAN_FIELD_MTV", 1);
                          ("AVTP_CAN_FIELD_RTR", flag can_id CAN_RTR_FLAG); ("AVTP_CAN_FIELD_EFF", flag can_id CAN_EFF_FLAG)] ++
                         (if fd then [("AVTP_CAN_FIELD_BRS", flag (cf_fflags fr) CANFD_BRS); ("AVTP_CAN_FIELD_FDF", flag (cf_fflags fr) CANFD_FDF);
                                      ("AVTP_CAN_FIELD_ESI", flag (cf_fflags fr) CANFD_ESI)] else [])) b2) (fun b3 =>
    bind (can_create ldq stq cf_full b3 (N.land can_id CAN_EFF_MASK) (cf_fdata fr) (cf_flen fr) (if fd then 1 else 0)) (fun r =>
    bind (fsetf ldq stq spec_Can "AVTP_CAN_FIELD_EFF" (flag can_id CAN_EFF_FLAG) (fst r)) (fun b5 =>
    bind (fgetd ldq stq spec_Can "AVTP_CAN_FIELD_ACF_MSG_LENGTH" b5) (fun ql => Ok (b5, ql * 4))))))).

  (* the messages of one packet, appended at pdu_length *)
  Fixpoint add_msgs (fd:bool) (frs:list (cframe * N)) (pdu:buf) (pdu_length cf_length:N) : outcome (buf * (N * N)) :=
    match frs with
    | [] => Ok (pdu, (pdu_length, cf_length))
    | (fr, ts) :: r =>
        bind (at_off pdu pdu_length (prepare_acf fd fr ts)) (fun pr =>
          add_msgs fd r (fst pr) ((pdu_length + snd pr) mod 2 ^ 16) ((cf_length + snd pr) mod 2 ^ 16))
    end.

  (* one iteration of the sending loop: returns the bytes handed to sendto() and pdu[] afterwards *)
  Definition talker_packet (udp tscf fd:bool) (seq udpseq:N) (frs:list (cframe * N)) (pdu:buf) : outcome (list N * buf) :=
    bind (if udp then bind (at_off pdu 0 (fun b => only (fsetf ldq stq spec_Udp "AVTP_UDP_FIELD_ENCAPSULATION_SEQ_NO" udpseq b) tt))
                           (fun r => Ok (fst r, 4))
          else Ok (pdu, 0)) (fun r0 =>
    let pdu1 := fst r0 in let cf_off := snd r0 in
    bind (at_off pdu1 cf_off (init_cf tscf seq)) (fun r1 =>
    bind (add_msgs fd frs (fst r1) (cf_off + snd r1) (snd r1)) (fun r2 =>
    let pdu2 := fst r2 in let pdu_length := fst (snd r2) in let cf_length := snd (snd r2) in
    bind (at_off pdu2 cf_off (fun b =>
            only (if tscf then fsetf ldq stq spec_Tscf "AVTP_TSCF_FIELD_STREAM_DATA_LENGTH" (cf_length - 24) b
                  else fsetf ldq stq spec_Ntscf "AVTP_NTSCF_FIELD_NTSCF_DATA_LENGTH" (cf_length - 12) b) tt)) (fun r3 =>
    Ok (firstn (N.to_nat pdu_length) (fst r3), fst r3))))).
End Tunnel.
