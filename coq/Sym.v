(* Symbolic words: a small verified abstract domain for shift/mask code.
   A word is a list of symbolic bits, least significant first.  Each
   operation is sound for every environment; a result bit degrades to STop
   ("unknown") whenever two non-constant bits meet.  A universal statement
   over contents is thereby reduced to a finite computation over shapes. *)
From Coq Require Import List NArith Bool Lia Arith.
Import ListNotations.
Local Open Scope N_scope.

Inductive sbit := S0 | S1 | SV (i:N) | STop.
Definition word := list sbit.

Definition sb_and a b :=
  match a,b with S0,_ => S0 | _,S0 => S0 | S1,x => x | x,S1 => x | _,_ => STop end.
Definition sb_or a b :=
  match a,b with S1,_ => S1 | _,S1 => S1 | S0,x => x | x,S0 => x | _,_ => STop end.
Definition sb_xor a b :=
  match a,b with S0,x => x | x,S0 => x | S1,S1 => S0 | _,_ => STop end.

(* pointwise combination; the shorter word is extended with S0 *)
Fixpoint zipw (f:sbit->sbit->sbit) (a b:word) : word :=
  match a with
  | [] => map (f S0) b
  | x::a' => match b with
             | [] => f x S0 :: map (fun y => f y S0) a'
             | y::b' => f x y :: zipw f a' b'
             end
  end.
Definition w_and := zipw sb_and.
Definition w_or := zipw sb_or.
Definition w_xor := zipw sb_xor.
Fixpoint zeros (n:nat) : word := match n with O => [] | S k => S0 :: zeros k end.
Definition w_resize (n:nat) (a:word) : word := firstn n (a ++ zeros n).
Definition w_shl (width:nat) (a:word) (k:nat) : word := w_resize width (zeros k ++ a).
Definition w_shr (width:nat) (a:word) (k:nat) : word := w_resize width (skipn k a).
Fixpoint w_const (width:nat) (n:N) : word :=
  match width with
  | O => []
  | S k => (if N.odd n then S1 else S0) :: w_const k (N.div2 n)
  end.
(* fresh variables base, base+1, ... *)
Definition w_vars (width:nat) (base:N) : word :=
  map (fun i => SV (base + N.of_nat i)) (seq 0 width).

(* --- interpretation --- *)
Definition interp (env:N->bool) (s:sbit) (b:bool) : Prop :=
  match s with S0 => b = false | S1 => b = true | SV i => b = env i | STop => True end.

(* w represents n: every bit of n matches (w implicitly extended by S0) *)
Definition repr (env:N->bool) (w:word) (n:N) : Prop :=
  forall i:nat, interp env (nth i w S0) (N.testbit n (N.of_nat i)).

Lemma interp_and env a b x y :
  interp env a x -> interp env b y -> interp env (sb_and a b) (x && y).
Proof.
  destruct a, b; simpl; intros; subst; auto;
    try (now rewrite ?andb_false_r, ?andb_true_r); try (destruct x; reflexivity).
Qed.
Lemma interp_or env a b x y :
  interp env a x -> interp env b y -> interp env (sb_or a b) (x || y).
Proof.
  destruct a, b; simpl; intros; subst; auto;
    try (now rewrite ?orb_false_r, ?orb_true_r); try (destruct x; reflexivity).
Qed.
Lemma interp_xor env a b x y :
  interp env a x -> interp env b y -> interp env (sb_xor a b) (xorb x y).
Proof.
  destruct a, b; simpl; intros; subst; auto;
    try (now rewrite ?xorb_false_r, ?xorb_false_l); try (destruct y; reflexivity);
    try (destruct x; reflexivity).
Qed.

Lemma nth_map_S0 (g:sbit->sbit) (Hg: g S0 = S0) l i : nth i (map g l) S0 = g (nth i l S0).
Proof. rewrite <- Hg at 1. apply map_nth. Qed.

Lemma nth_zipw f (Hf: f S0 S0 = S0) a b i :
  nth i (zipw f a b) S0 = f (nth i a S0) (nth i b S0).
Proof.
  revert b i; induction a as [|x a IH]; intros b i.
  - cbn [zipw]. rewrite nth_map_S0 by exact Hf. destruct i; reflexivity.
  - destruct b as [|y b]; cbn [zipw].
    + destruct i as [|i]; cbn [nth]; [reflexivity|].
      rewrite (nth_map_S0 (fun y => f y S0)) by exact Hf. destruct i; reflexivity.
    + destruct i as [|i]; cbn [nth]; [reflexivity|apply IH].
Qed.

Lemma repr_and env a b x y : repr env a x -> repr env b y -> repr env (w_and a b) (N.land x y).
Proof. intros Ha Hb i. unfold w_and. rewrite nth_zipw by reflexivity. rewrite N.land_spec. apply interp_and; auto. Qed.
Lemma repr_or env a b x y : repr env a x -> repr env b y -> repr env (w_or a b) (N.lor x y).
Proof. intros Ha Hb i. unfold w_or. rewrite nth_zipw by reflexivity. rewrite N.lor_spec. apply interp_or; auto. Qed.
Lemma repr_xor env a b x y : repr env a x -> repr env b y -> repr env (w_xor a b) (N.lxor x y).
Proof. intros Ha Hb i. unfold w_xor. rewrite nth_zipw by reflexivity. rewrite N.lxor_spec. apply interp_xor; auto. Qed.

Lemma nth_zeros k i : nth i (zeros k) S0 = S0.
Proof. revert i; induction k; destruct i; simpl; auto. Qed.
Lemma length_zeros k : length (zeros k) = k.
Proof. induction k; simpl; auto. Qed.

Lemma nth_firstn_lt {A} (l:list A) n i d : (i < n)%nat -> nth i (firstn n l) d = nth i l d.
Proof.
  revert l i; induction n; intros l i H; [lia|].
  destruct l; simpl; [destruct i; auto|]. destruct i; auto. apply IHn; lia.
Qed.
Lemma nth_firstn_ge {A} (l:list A) n i d : (n <= i)%nat -> nth i (firstn n l) d = d.
Proof. intros. apply nth_overflow. rewrite firstn_length. lia. Qed.

Lemma repr_resize env width a x : repr env a x -> repr env (w_resize width a) (x mod 2^(N.of_nat width)).
Proof.
  intros Ha i. unfold w_resize.
  destruct (Nat.lt_ge_cases i width) as [Hi|Hi].
  - rewrite nth_firstn_lt by auto. rewrite N.mod_pow2_bits_low by lia.
    destruct (Nat.lt_ge_cases i (length a)) as [Hl|Hl].
    + rewrite app_nth1 by auto. apply Ha.
    + rewrite app_nth2 by auto. rewrite nth_zeros. specialize (Ha i).
      rewrite nth_overflow in Ha by auto. exact Ha.
  - rewrite nth_firstn_ge by auto. simpl. apply N.mod_pow2_bits_high. lia.
Qed.

Lemma repr_shl_raw env a x k : repr env a x -> repr env (zeros k ++ a) (N.shiftl x (N.of_nat k)).
Proof.
  intros Ha i.
  destruct (Nat.lt_ge_cases i k) as [Hk|Hk].
  - rewrite app_nth1 by (rewrite length_zeros; auto). rewrite nth_zeros. simpl.
    apply N.shiftl_spec_low. lia.
  - rewrite app_nth2 by (rewrite length_zeros; auto). rewrite length_zeros.
    rewrite N.shiftl_spec_high' by lia.
    replace (N.of_nat i - N.of_nat k) with (N.of_nat (i-k)) by lia. apply Ha.
Qed.

Lemma repr_shl env width a x k :
  repr env a x -> repr env (w_shl width a k) (N.shiftl x (N.of_nat k) mod 2^(N.of_nat width)).
Proof. intros. unfold w_shl. apply repr_resize. apply repr_shl_raw; auto. Qed.

Lemma nth_skipn {A} (l:list A) k i d : nth i (skipn k l) d = nth (k+i) l d.
Proof. revert l; induction k; intros l; simpl; auto. destruct l; simpl; auto. destruct i; auto. Qed.

Lemma repr_skipn env a x k : repr env a x -> repr env (skipn k a) (N.shiftr x (N.of_nat k)).
Proof.
  intros Ha i. rewrite nth_skipn. rewrite N.shiftr_spec'.
  replace (N.of_nat i + N.of_nat k) with (N.of_nat (k+i)) by lia. apply Ha.
Qed.

Lemma repr_shr env width a x k :
  repr env a x -> repr env (w_shr width a k) (N.shiftr x (N.of_nat k) mod 2^(N.of_nat width)).
Proof. intros. unfold w_shr. apply repr_resize. apply repr_skipn; auto. Qed.

Lemma repr_const env width n : repr env (w_const width n) (n mod 2^(N.of_nat width)).
Proof.
  revert n; induction width as [|w IH]; intros n i.
  - simpl. destruct i; simpl; rewrite N.mod_1_r; apply N.bits_0.
  - cbn [w_const]. destruct i as [|i].
    + cbn [nth]. rewrite N.mod_pow2_bits_low by lia. rewrite N.bit0_odd.
      destruct (N.odd n); reflexivity.
    + cbn [nth]. specialize (IH (N.div2 n) i).
      destruct (Nat.lt_ge_cases i w) as [Hi|Hi].
      * rewrite N.mod_pow2_bits_low by lia. rewrite N.mod_pow2_bits_low in IH by lia.
        replace (N.of_nat (S i)) with (N.succ (N.of_nat i)) by lia.
        rewrite <- N.div2_bits. rewrite <- N.div2_div. exact IH.
      * rewrite N.mod_pow2_bits_high by lia. rewrite N.mod_pow2_bits_high in IH by lia. exact IH.
Qed.

Lemma repr_zeros env k : repr env (zeros k) 0.
Proof. intros i. rewrite nth_zeros. cbn [interp]. apply N.bits_0. Qed.

Lemma nth_map_seq {A} (f:nat->A) n i d : (i<n)%nat -> nth i (map f (seq 0 n)) d = f i.
Proof.
  intros. rewrite nth_indep with (d':= f 0%nat) by (rewrite map_length, seq_length; auto).
  rewrite (map_nth f (seq 0 n) 0%nat i). rewrite seq_nth; auto.
Qed.

(* a word of fresh variables represents any n < 2^width under the environment
   that reads the variables back from n *)
Lemma repr_vars env width base n :
  n < 2^(N.of_nat width) ->
  (forall i, (i < width)%nat -> env (base + N.of_nat i) = N.testbit n (N.of_nat i)) ->
  repr env (w_vars width base) n.
Proof.
  intros Hn He i. unfold w_vars.
  destruct (Nat.lt_ge_cases i width) as [Hi|Hi].
  - rewrite nth_map_seq by auto. cbn [interp]. symmetry. apply He; auto.
  - rewrite nth_overflow by (rewrite map_length, seq_length; auto). simpl.
    destruct (N.eq_dec n 0) as [->|Hz]; [apply N.bits_0|].
    apply N.bits_above_log2. apply N.log2_lt_pow2 in Hn; lia.
Qed.

(* variables named by an arbitrary function of the bit index *)
Definition w_varsf (width:nat) (f:nat->N) : word := map (fun i => SV (f i)) (seq 0 width).
Lemma repr_varsf env width f n :
  n < 2^(N.of_nat width) ->
  (forall i, (i < width)%nat -> env (f i) = N.testbit n (N.of_nat i)) ->
  repr env (w_varsf width f) n.
Proof.
  intros Hn He i. unfold w_varsf.
  destruct (Nat.lt_ge_cases i width) as [Hi|Hi].
  - rewrite nth_map_seq by auto. cbn [interp]. symmetry. apply He; auto.
  - rewrite nth_overflow by (rewrite map_length, seq_length; auto). simpl.
    destruct (N.eq_dec n 0) as [->|Hz]; [apply N.bits_0|].
    apply N.bits_above_log2. apply N.log2_lt_pow2 in Hn; lia.
Qed.

(* exactness: comparison against an expected STop-free word *)
Definition sbit_eqb a b :=
  match a,b with S0,S0 => true | S1,S1 => true | SV i, SV j => i =? j | _,_ => false end.
Fixpoint weqb (a b:word) :=
  match a,b with
  | [],[] => true
  | x::a',y::b' => sbit_eqb x y && weqb a' b'
  | _,_ => false
  end.
Lemma sbit_eqb_eq a b : sbit_eqb a b = true -> a = b /\ a <> STop.
Proof.
  destruct a,b; simpl; intros H; try discriminate;
    try (split; [reflexivity|discriminate]).
  apply N.eqb_eq in H. subst. split; [reflexivity|discriminate].
Qed.
Lemma weqb_nth a b : weqb a b = true -> forall i, nth i a S0 = nth i b S0 /\ nth i a S0 <> STop.
Proof.
  revert b; induction a as [|x a IH]; intros [|y b] H i; simpl in H; try discriminate.
  - destruct i; simpl; split; auto; discriminate.
  - apply andb_true_iff in H. destruct H as [H1 H2]. apply sbit_eqb_eq in H1.
    destruct i; simpl; auto.
Qed.

Definition bitval (env:N->bool) (s:sbit) : bool :=
  match s with S0 => false | S1 => true | SV i => env i | STop => false end.

Lemma repr_exact env w e n :
  repr env w n -> weqb w e = true ->
  forall i, N.testbit n (N.of_nat i) = bitval env (nth i e S0).
Proof.
  intros Hr He i. destruct (weqb_nth _ _ He i) as [Heq Hn]. specialize (Hr i).
  rewrite <- Heq. destruct (nth i w S0); simpl in *; auto; congruence.
Qed.
