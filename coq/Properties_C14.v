(* C14 - wire bytes do not depend on host endianness. *)
From Coq Require Import List NArith Bool.
From O1722 Require Import Bits Host FieldModel Spec AccModel LegacyModel Paths CanModel VssModel C13Proofs C14Proofs.
From O1722.Generated Require Import Tables Byteorder.
Import ListNotations.
Local Open Scope N_scope.

(* on either host, a typed 16/32/64-bit access combined with the helper the code applies to it reads / writes the
   big-endian (wire) byte sequence: the helper sets are the ones regenerated from Byteorder.h for each #if branch *)
Theorem C14_access : forall E,
  (forall b q, ldqE E b q = ldq_be b q) /\ (forall b q v, stqE E b q v = stq_be b q v) /\
  (forall w b a, ldwE E w b a = be_of (slice b a (wbytes w))) /\
  (forall w b a v, stwE E w b a v = upd b a (be_bytes (wbytes w) v)).
Proof. intros E. repeat split; intros; [apply ldqE_wire|apply stqE_wire|apply ldwE_wire|apply stwE_wire]. Qed.

(* hence every modelled operation - generic and named field accessors, initialisers, deprecated entry points, ACF-CAN
   builders, VSS pad / path / data codec, string arrays - returns the same values and leaves the same bytes when
   instantiated for a little-endian and for a big-endian host, on ALL inputs (also those on which it fails).
   Uses functional extensionality (see Print Assumptions below) to turn C14_access into equality of the access functions. *)
Theorem C14_all : forall E1 E2,
  (forall qw d b, get_via (ldqE E1) (stqE E1) qw d b = get_via (ldqE E2) (stqE E2) qw d b) /\
  (forall qw d b v, set_via (ldqE E1) (stqE E1) qw d b v = set_via (ldqE E2) (stqE E2) qw d b v) /\
  (forall ts g pdu ps, run_getter (ldqE E1) (stqE E1) cfg ts g pdu ps = run_getter (ldqE E2) (stqE E2) cfg ts g pdu ps) /\
  (forall ts s pdu ps, run_setter (ldqE E1) (stqE E1) cfg ts s pdu ps = run_setter (ldqE E2) (stqE E2) cfg ts s pdu ps) /\
  (forall u i pdu, run_init (ldqE E1) (stqE E1) cfg u i pdu = run_init (ldqE E2) (stqE E2) cfg u i pdu) /\
  (forall u ls l pdu ps r, run_legacy (ldqE E1) (stqE E1) cfg u ls l pdu ps r = run_legacy (ldqE E2) (stqE E2) cfg u ls l pdu ps r) /\
  (forall c b id pl n var, can_create (ldqE E1) (stqE E1) c b id pl n var = can_create (ldqE E2) (stqE E2) c b id pl n var) /\
  (forall c b n, can_finalize (ldqE E1) (stqE E1) c b n = can_finalize (ldqE E2) (stqE E2) c b n) /\
  (forall c b, can_payload_length (ldqE E1) (stqE E1) c b = can_payload_length (ldqE E2) (stqE E2) c b) /\
  (forall b n, vss_pad (ldqE E1) (stqE E1) b n = vss_pad (ldqE E2) (stqE E2) b n) /\
  (forall b, vss_calc_path_len (ldwE E1) (ldqE E1) (stqE E1) b = vss_calc_path_len (ldwE E2) (ldqE E2) (stqE E2) b) /\
  (forall b p, vss_set_path (stwE E1) (ldqE E1) (stqE E1) b p = vss_set_path (stwE E2) (ldqE E2) (stqE E2) b p) /\
  (forall b cap, vss_get_path (ldwE E1) (ldqE E1) (stqE E1) b cap = vss_get_path (ldwE E2) (ldqE E2) (stqE E2) b cap) /\
  (forall b d, vss_set_data (ldwE E1) (stwE E1) (ldqE E1) (stqE E1) b d = vss_set_data (ldwE E2) (stwE E2) (ldqE E2) (stqE E2) b d) /\
  (forall b dst, vss_get_data (ldwE E1) (ldqE E1) (stqE E1) b dst = vss_get_data (ldwE E2) (ldqE E2) (stqE E2) b dst) /\
  (forall ss n out, strs_pack (stwE E1) ss n out = strs_pack (stwE E2) ss n out) /\
  (forall dl data, strs_count (ldwE E1) dl data = strs_count (ldwE E2) dl data) /\
  (forall dl data dsts n, strs_unpack (ldwE E1) dl data dsts n = strs_unpack (ldwE E2) dl data dsts n).
Proof. exact all_indep. Qed.

(* the two helper sets the theorem ranges over are the two branches of the compile-time switch *)
Example C14_branches : helpers_of LE = helpers_LE /\ helpers_of BE = helpers_BE /\
  set_ok LE helpers_LE = true /\ set_ok BE helpers_BE = true.
Proof. split; [reflexivity|]. split; [reflexivity|]. split; [exact helpers_LE_ok|exact helpers_BE_ok]. Qed.

(* the same header bytes on both hosts, concretely *)
Example C14_example :
  set_via (ldqE LE) (stqE LE) 16 (mkdesc 3 3 29) (repeat 0 16) 0x12345678 =
  set_via (ldqE BE) (stqE BE) 16 (mkdesc 3 3 29) (repeat 0 16) 0x12345678 /\
  set_via (ldqE BE) (stqE BE) 16 (mkdesc 3 3 29) (repeat 0 16) 0x12345678 = Ok ([0;0;0;0; 0;0;0;0; 0;0;0;0; 0x12;0x34;0x56;0x78]).
Proof. vm_compute. split; reflexivity. Qed.
