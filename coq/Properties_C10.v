(* C10 - VSS string-array packing round-trips and stays inside its buffers. *)
From Coq Require Import List NArith Bool.
From O1722 Require Import Bits Host FieldModel Spec SpecProofs VssModel VssSpec C13Proofs C10Proofs.
From O1722.Generated Require Import Tables.
Import ListNotations.
Local Open Scope N_scope.

(* facts read from the AST of Vss.c on every run: the unpack loop advances its index; the counter returns >= 16 bits *)
Theorem C10_code_facts : deser_idx_advances = true /\ (16 <= strarray_count_ret_bits)%nat.
Proof. split; [exact idx_advances|exact count_ret_wide]. Qed.

(* Packing ANY list of strings (any number, empty strings included) whose packed size fits the 16-bit length:
   the recorded length is the packed size and the destination receives - at its start, nothing else touched - the
   concatenation, in order, of a 16-bit big-endian length and the bytes of each string (VssSpec.enc_strings). *)
Theorem C10_pack : forall E ss out, short ss -> total ss < 2 ^ 16 -> total ss <= blen out ->
  strs_pack (stwE E) (objs ss) (N.of_nat (length ss)) out = Ok (total ss, upd out 0 (enc_strings ss)).
Proof. exact pack_exact. Qed.

(* Counting a packed array returns the number of strings - also beyond 255 - whether the block holds exactly the
   recorded length (post = []) or more. *)
Theorem C10_count : forall E ss post, short ss -> total ss < 2 ^ 16 ->
  strs_count (ldwE E) (total ss) (enc_strings ss ++ post) = Ok (N.of_nat (length ss)).
Proof. exact count_exact. Qed.

(* Unpacking into any number of string objects - fewer, as many, or MORE than were packed - gives the first
   min(requested, packed) objects their length and (when they have a large enough destination) their bytes, lengths
   only for null destinations, leaves the rest untouched, and never leaves the array: with post = [] the block holds
   exactly the recorded length and the outcome is Ok, not OOB. *)
Theorem C10_unpack : forall E ss dsts post, short ss -> total ss < 2 ^ 16 -> caps_ok dsts ss -> N.of_nat (length dsts) < 2 ^ 16 ->
  strs_unpack (ldwE E) (total ss) (enc_strings ss ++ post) dsts (N.of_nat (length dsts)) = Ok (expected dsts ss).
Proof. exact unpack_exact. Qed.

(* meaning of [expected]: exactly min(requested, packed) entries, entry i = string i *)
Theorem C10_expected_length : forall dsts ss, length (expected dsts ss) = Nat.min (length dsts) (length ss).
Proof. induction dsts as [|d dr IH]; destruct ss as [|s sr]; cbn [expected length Nat.min]; auto. Qed.

Example C10_example :
  strs_pack (stwE LE) (objs [[0x61;0x62;0x63]; []; [0x64;0x65]]) 3 (repeat 0xee 12) =
    Ok (11, [0;3;0x61;0x62;0x63; 0;0; 0;2;0x64;0x65; 0xee]) /\
  strs_count (ldwE BE) 11 [0;3;0x61;0x62;0x63; 0;0; 0;2;0x64;0x65] = Ok 3 /\
  strs_unpack (ldwE LE) 11 [0;3;0x61;0x62;0x63; 0;0; 0;2;0x64;0x65] [Some 3; None; Some 2; Some 9; None] 5 =
    Ok [(3, Some [0x61;0x62;0x63]); (0, None); (2, Some [0x64;0x65])].
Proof. vm_compute. repeat split. Qed.
