(* C10 - placeholder until the proofs are in (see C10Proofs.v) *)
From Coq Require Import List NArith.
From O1722.Generated Require Import Tables.
Theorem C10_code_facts : deser_idx_advances = true /\ (16 <= strarray_count_ret_bits)%nat.
Proof. split; [reflexivity|cbn; auto with arith]. Qed.
