(* C05 - a PDU behaves as a record of independent fields under any history of operations. *)
From Coq Require Import List NArith String Bool Lia.
From O1722 Require Import Bits Host FieldModel Spec SpecProofs RecordTheory AccModel LegacySpec Paths C13Proofs C01Proofs C17Proofs C05Proofs.
From O1722.Generated Require Import Tables.
Import ListNotations.
Local Open Scope N_scope.

(* For every format, both host byte orders, EVERY finite sequence of well-formed operations - current
   initialiser, by-identifier or dedicated writer of any field (access paths regenerated from the sources),
   deprecated set / init - on every buffer of bytes at least as long as the header: the model runs to
   completion and its final buffer is literally the buffer the record semantics (RecordTheory.hrun over the
   abstracted operations) produces. *)
Theorem C05_history : forall E s h ops b,
  In s all_specs -> canonical_header s = Some h ->
  Forall (cwf s) ops -> SpecProofs.normal b -> sp_hdr_len s <= blen b ->
  crun E s ops b = Some (hrun s h (flat_map cabs ops) b).
Proof. intros E s h ops b Hs Hc. apply (crun_refines E s Hs h Hc). Qed.

(* ... hence each field reads - through the reference read, and through every getter the API offers for it -
   as the last value written to it modulo its width, as its canonical content if an initialisation came later,
   or as its initial content if it was never touched *)
Theorem C05_last_write : forall E s h ops b bf f,
  In s all_specs -> canonical_header s = Some h ->
  Forall (cwf s) ops -> SpecProofs.normal b -> sp_hdr_len s <= blen b ->
  crun E s ops b = Some bf -> In f (sp_fields s) ->
  let expected := last_val h f (flat_map cabs ops) (spec_extract b (sf_first f) (sf_width f)) in
  spec_extract bf (sf_first f) (sf_width f) = expected /\
  forall u g p, In (u, g, p) (readers_of s f) ->
    run_getter (ldqE E) (stqE E) cfg (u_tables u) g (Some bf) p = Ok expected.
Proof.
  intros E s h ops b bf f Hs Hc Hwf Hn Hb Hrun Hf expected.
  rewrite (crun_refines E s Hs h Hc ops b Hwf Hn Hb) in Hrun. inversion Hrun; subst bf. clear Hrun.
  destruct (layout s Hs) as [h' [Hc' [Hlen [Hnh [Hfind [Hdj Hin]]]]]]. rewrite Hc in Hc'. inversion Hc'; subst h'.
  assert (Hval : spec_extract (hrun s h (flat_map cabs ops) b) (sf_first f) (sf_width f) = expected)
    by (apply (history_field s h Hlen Hfind Hdj Hin f _ Hf b Hb)).
  split; [exact Hval|]. intros u g p Hr. rewrite <- Hval.
  apply (readers_read E s f Hs Hf u g p Hr).
  destruct (hrun_inv s h Hlen Hnh (flat_map cabs ops) b Hb Hn) as [HL _]. unfold blen in *. rewrite HL. exact Hb.
Qed.

(* ... and the final bytes are the reference encoding of exactly those values (over the bits no field covers,
   which only initialisations change) *)
Theorem C05_encoding : forall E s h ops b bf,
  In s all_specs -> canonical_header s = Some h ->
  Forall (cwf s) ops -> SpecProofs.normal b -> sp_hdr_len s <= blen b ->
  crun E s ops b = Some bf ->
  bf = encode (sp_fields s)
         (fun f => last_val h f (flat_map cabs ops) (spec_extract b (sf_first f) (sf_width f)))
         (hrun s h (filter is_init (flat_map cabs ops)) b).
Proof.
  intros E s h ops b bf Hs Hc Hwf Hn Hb Hrun.
  rewrite (crun_refines E s Hs h Hc ops b Hwf Hn Hb) in Hrun. inversion Hrun; subst bf.
  destruct (layout s Hs) as [h' [Hc' [Hlen [Hnh [Hfind [Hdj Hin]]]]]]. rewrite Hc in Hc'. inversion Hc'; subst h'.
  apply (history_record s h Hlen Hnh Hfind Hdj Hin _ b Hb Hn).
Qed.

(* writes to different fields commute, a repeated write changes nothing, the later of two writes to one field wins *)
Theorem C05_commute : forall b f1 w1 v1 f2 w2 v2, disj f1 w1 f2 w2 = true ->
  spec_insert (spec_insert b f1 w1 v1) f2 w2 v2 = spec_insert (spec_insert b f2 w2 v2) f1 w1 v1.
Proof. exact insert_commute. Qed.
Theorem C05_fields_disjoint : forall s f g, In s all_specs -> In f (sp_fields s) -> In g (sp_fields s) ->
  f = g \/ disj (sf_first f) (sf_width f) (sf_first g) (sf_width g) = true.
Proof. intros s f g Hs. destruct (layout s Hs) as [h [_ [_ [_ [_ [Hd _]]]]]]. apply Hd. Qed.
Theorem C05_idempotent : forall b f w v, spec_insert (spec_insert b f w v) f w v = spec_insert b f w v.
Proof. exact insert_idem. Qed.
Theorem C05_overwrite : forall b f w v1 v2, spec_insert (spec_insert b f w v1) f w v2 = spec_insert b f w v2.
Proof. exact insert_overwrite. Qed.

(* several buffers: the final content of buffer k depends only on its own initial content and on the
   operations addressed to it - never on calls made on other buffers in between *)
Theorem C05_local : forall E s ops st st' k b, mrun E s ops st = Some st' -> nth_error st k = Some b ->
  exists b', nth_error st' k = Some b' /\ crun E s (only k ops) b = Some b'.
Proof. exact mrun_local. Qed.

(* non-vacuity: a concrete mixed history on a CAN header *)
Example C05_example :
  exists bf, crun LE spec_Can
    [CInit;
     CSet (F "AVTP_CAN_FIELD_CAN_IDENTIFIER" 99 29 "Avtp_Can_GetCanIdentifier" "Avtp_Can_SetCanIdentifier")
          (nth 0 (writers_of spec_Can (F "AVTP_CAN_FIELD_CAN_IDENTIFIER" 99 29 "Avtp_Can_GetCanIdentifier" "Avtp_Can_SetCanIdentifier"))
                 (u_Can, mksetter "" (mkgcall "" (mkarg (AConst "" 0) [] false) false (mkarg (AConst "" 0) [] false)) (mkarg (AConst "" 0) [] false), fun _ => []))
          0x1fffffff;
     CSet (F "AVTP_CAN_FIELD_CAN_IDENTIFIER" 99 29 "Avtp_Can_GetCanIdentifier" "Avtp_Can_SetCanIdentifier")
          (nth 1 (writers_of spec_Can (F "AVTP_CAN_FIELD_CAN_IDENTIFIER" 99 29 "Avtp_Can_GetCanIdentifier" "Avtp_Can_SetCanIdentifier"))
                 (u_Can, mksetter "" (mkgcall "" (mkarg (AConst "" 0) [] false) false (mkarg (AConst "" 0) [] false)) (mkarg (AConst "" 0) [] false), fun _ => []))
          0x123]
    (repeat 0xff 18) = Some bf /\
    bf = [2;0;0;0; 0;0;0;0; 0;0;0;0; 0;0;1;0x23; 0xff;0xff].
Proof. eexists. split; vm_compute; reflexivity. Qed.
